"""Journal call sites, statement order and SQL of the DBOS task journal -> lean/WfModel/GenJournal.lean.

Re-read from /repo's current `runtime.py`, `journal/task_journal.py`, `journal/crud.py` and
`workflows/runtime/types/named_task.py` on every run (pure `ast`; nothing is imported).  The model
`WfModel/Journal.lean` is cut along these shapes and `C27_source_shape` pins them:

* `waitSites`      — the journal-relevant call sites of `InternalDBOSAdapter.wait_for_next_task` in
                     source order (load, next_expected_key, purge, start of the pending coroutines,
                     replay branch: find_by_key / wait_for(shield(target)) / advance / return,
                     fresh branch: wait(FIRST_COMPLETED) / pop / get_key / record / return);
* `recordAwaitedBeforeFinalReturn` — the write-ordering hypothesis of `C27_journal_replay`:
                     `await journal.record(key)` is the statement directly before the final
                     `return WaitForNextTaskResult(completed, started)`;
* `recordSites`    — order inside `TaskJournal.record` (seq = len(entries), append, index += 1, INSERT);
* SQL texts of `SqliteJournalCrud` / `PostgresJournalCrud` (whitespace-normalised, table reference
  replaced by `T`), with the facts the model uses (`ORDER BY seq_num ASC`, `seq_num >=`, `function_id >`);
* key formats of `WorkerTask` / `PullTask`;
* `isReplayingBody` / `adapterIsReplayingBody` — `TaskJournal.is_replaying` (the journal cursor) and
                     `InternalDBOSAdapter.is_replaying` (that cursor and nothing else once a database is
                     configured), and `serverPersistGuard` — `_ServerInternalRunAdapter.write_to_event_stream`
                     persists (status update + `append_event`) exactly when `not self.is_replaying()` and always
                     forwards to the inner adapter.
"""
from __future__ import annotations

import ast
import re

from ..boot import repo_path
from ..translate import lean_str

LEAN_MODULE = "GenJournal"
RUNTIME = "packages/llama-agents-dbos/src/llama_agents/dbos/runtime.py"
TASKJ = "packages/llama-agents-dbos/src/llama_agents/dbos/journal/task_journal.py"
CRUD = "packages/llama-agents-dbos/src/llama_agents/dbos/journal/crud.py"
NAMED = "packages/llama-index-workflows/src/workflows/runtime/types/named_task.py"
SERVER_RT = "packages/llama-agents-server/src/llama_agents/server/_runtime/server_runtime.py"


def _parse(rel: str, notes: list[str]) -> ast.Module | None:
    try:
        return ast.parse(open(repo_path(rel)).read())
    except (OSError, SyntaxError) as e:
        notes.append(f"gen/journal: cannot parse {rel}: {e!r}")
        return None


def _method(tree: ast.AST | None, cls: str, name: str) -> ast.AST | None:
    if tree is None:
        return None
    for c in ast.walk(tree):
        if isinstance(c, ast.ClassDef) and c.name == cls:
            for f in c.body:
                if isinstance(f, (ast.FunctionDef, ast.AsyncFunctionDef)) and f.name == name:
                    return f
    return None


def _call_name(n: ast.Call) -> str:
    f = n.func
    if isinstance(f, ast.Attribute):
        base = f.value
        b = base.id if isinstance(base, ast.Name) else (base.attr if isinstance(base, ast.Attribute) else "?")
        return f"{b}.{f.attr}"
    if isinstance(f, ast.Name):
        return f.id
    return "?"


def _awaited_calls(fn: ast.AST) -> set[int]:
    return {id(n.value) for n in ast.walk(fn) if isinstance(n, ast.Await) and isinstance(n.value, ast.Call)}


class _Rename(ast.NodeTransformer):
    def __init__(self, mapping: dict[str, str]):
        self.mapping = mapping

    def visit_Name(self, n: ast.Name) -> ast.AST:
        if n.id in self.mapping:
            return ast.copy_location(ast.Name(id=self.mapping[n.id], ctx=n.ctx), n)
        return n


def _strip_await(v: ast.AST) -> ast.AST:
    return v.value if isinstance(v, ast.Await) else v


def canonical_locals(fn: ast.AST, rules: list) -> ast.AST:
    """rename local variables by the *role* of their defining expression, so that renaming a local in
    /repo does not change what is extracted.  `rules(value_node, mapping) -> canonical name | None`."""
    import copy

    fn = copy.deepcopy(fn)
    mapping: dict[str, str] = {}
    for _round in range(4):  # roles may depend on earlier ones (done -> completed)
        for n in ast.walk(fn):
            tgt = val = None
            if isinstance(n, ast.Assign) and len(n.targets) == 1:
                tgt, val = n.targets[0], n.value
            elif isinstance(n, ast.AnnAssign) and n.value is not None:
                tgt, val = n.target, n.value
            elif isinstance(n, ast.For):
                tgt, val = n.target, ast.Call(func=ast.Name(id="__iter__", ctx=ast.Load()), args=[n.iter], keywords=[])
            if tgt is None:
                continue
            if isinstance(tgt, ast.Tuple) and tgt.elts and isinstance(tgt.elts[0], ast.Name):
                first = tgt.elts[0]
                for rule in rules:
                    name = rule(_strip_await(val), mapping, True)
                    if name and first.id not in mapping and first.id != name:
                        mapping[first.id] = name
            elif isinstance(tgt, ast.Name):
                for rule in rules:
                    name = rule(_strip_await(val), mapping, False)
                    if name and tgt.id not in mapping and tgt.id != name:
                        mapping[tgt.id] = name
    return _Rename(mapping).visit(fn)


def _wait_rules() -> list:
    def canon(v: ast.AST, mapping: dict, tup: bool) -> str | None:
        inv = {b: a for a, b in mapping.items()}

        def is_name(x: ast.AST, role: str) -> bool:
            return isinstance(x, ast.Name) and (x.id == role and role not in inv or mapping.get(x.id) == role or (x.id == role))

        if isinstance(v, ast.Call):
            nm = _call_name(v)
            if nm == "self._get_or_create_journal" and not tup:
                return "journal"
            if nm.endswith(".next_expected_key") and not tup:
                return "expected_key"
            if nm == "find_by_key" and not tup:
                return "target_task"
            if nm == "asyncio.wait" and tup:
                return "done"
            if nm.endswith(".pop") and not tup and isinstance(v.func, ast.Attribute) and is_name(v.func.value, "done"):
                return "completed"
            if nm == "get_key" and not tup:
                return "key"
            if nm == "all_tasks" and not tup:
                return "tasks"
            if nm == "__iter__" and v.args and isinstance(v.args[0], ast.Name) and v.args[0].id == "pending":
                return "p"
        if isinstance(v, ast.BinOp) and isinstance(v.op, ast.Add) and isinstance(v.left, ast.Name) and v.left.id == "running" and not tup:
            return "all_named"
        return None

    return [canon]


def _started_name(fn: ast.AST) -> str | None:
    """the list that collects `p.start(...)` results"""
    for n in ast.walk(fn):
        if isinstance(n, ast.Call) and isinstance(n.func, ast.Attribute) and n.func.attr == "append" and n.args \
                and isinstance(n.args[0], ast.Call) and _call_name(n.args[0]).endswith(".start") and isinstance(n.func.value, ast.Name):
            return n.func.value.id
    return None


def wait_sites(fn: ast.AST | None, notes: list[str]) -> tuple[list[str], dict]:
    facts = {"recordAwaitedBeforeFinalReturn": False, "purgeGuard": "<missing>", "replayTimeoutReturnsNone": False,
             "advanceBetweenWaitAndReturn": False, "startYields": False}
    if fn is None:
        notes.append("gen/journal: InternalDBOSAdapter.wait_for_next_task not found")
        return ["<missing>"], facts
    fn = canonical_locals(fn, _wait_rules())
    st = _started_name(fn)
    if st is not None and st != "started":
        fn = _Rename({st: "started"}).visit(fn)
    # the journal calls are made on whatever the local is called after canonicalisation: "journal"
    awaited = _awaited_calls(fn)
    sites: list[tuple[int, int, str]] = []
    table = {
        "journal.load": "load", "journal.next_expected_key": "next_expected_key",
        "self._purge_orphaned_operations": "purge", "p.start": "start_pending", "find_by_key": "find_by_key",
        "asyncio.wait_for": "wait_for_target", "journal.advance": "advance", "asyncio.wait": "wait_first_completed",
        "done.pop": "pop_done", "get_key": "get_key", "journal.record": "record", "asyncio.sleep": "yield",
        "asyncio.shield": "shield", "self._get_or_create_journal": "get_journal",
    }
    for n in ast.walk(fn):
        if isinstance(n, ast.Call):
            nm = _call_name(n)
            if nm in table:
                tag = table[nm]
                if tag in ("load", "record", "purge", "wait_for_target", "wait_first_completed", "yield") and id(n) not in awaited:
                    tag += "!not-awaited"
                if tag == "wait_first_completed":
                    kws = {k.arg: ast.unparse(k.value) for k in n.keywords}
                    if kws.get("return_when") != "asyncio.FIRST_COMPLETED":
                        tag += "!" + str(kws.get("return_when"))
                sites.append((n.lineno, n.col_offset, tag))
        if isinstance(n, ast.Return) and isinstance(n.value, ast.Call) and _call_name(n.value) == "WaitForNextTaskResult":
            args = [ast.unparse(a) for a in n.value.args]
            sites.append((n.lineno, n.col_offset, "return(" + ",".join(args) + ")"))
    sites.sort()
    # the write-ordering fact: last two top-level statements are `await journal.record(key)` ; `return ...(completed, started)`
    body = list(getattr(fn, "body", []))
    if len(body) >= 2:
        a, b = body[-2], body[-1]
        ok_a = (isinstance(a, ast.Expr) and isinstance(a.value, ast.Await) and isinstance(a.value.value, ast.Call)
                and _call_name(a.value.value) == "journal.record")
        ok_b = (isinstance(b, ast.Return) and isinstance(b.value, ast.Call) and _call_name(b.value) == "WaitForNextTaskResult"
                and [ast.unparse(x) for x in b.value.args] == ["completed", "started"])
        # and the recorded key is the key of the task that is returned
        key_of_completed = any(isinstance(s, ast.Assign) and isinstance(s.value, ast.Call) and _call_name(s.value) == "get_key"
                               and [ast.unparse(x) for x in s.value.args][-1:] == ["completed"] for s in body)
        facts["recordAwaitedBeforeFinalReturn"] = bool(ok_a and ok_b and key_of_completed)
    for n in ast.walk(fn):
        if isinstance(n, ast.If) and any(isinstance(c, ast.Call) and _call_name(c) == "self._purge_orphaned_operations"
                                         for s in n.body for c in ast.walk(s)):
            facts["purgeGuard"] = ast.unparse(n.test)
            facts["purgeArgIsJournal"] = any(isinstance(c, ast.Call) and _call_name(c) == "self._purge_orphaned_operations"
                                             and [ast.unparse(a) for a in c.args] == ["journal"] for s in n.body for c in ast.walk(s))
        if isinstance(n, ast.Try):
            has_wait = any(isinstance(c, ast.Call) and _call_name(c) == "asyncio.wait_for" for s in n.body for c in ast.walk(s))
            if has_wait:
                for h in n.handlers:
                    for s in h.body:
                        if isinstance(s, ast.Return) and isinstance(s.value, ast.Call) and \
                                [ast.unparse(x) for x in s.value.args] == ["None", "started"]:
                            facts["replayTimeoutReturnsNone"] = True
        if isinstance(n, ast.For) and any(isinstance(c, ast.Call) and _call_name(c) == "p.start" for c in ast.walk(n)):
            facts["startYields"] = any(isinstance(c, ast.Call) and _call_name(c) == "asyncio.sleep" and id(c) in awaited
                                       for c in ast.walk(n))
        # else-branch of `if target_task is None`: try(wait_for) ; advance ; return(target_task, started)
        if isinstance(n, ast.If) and ast.unparse(n.test) == "target_task is None" and len(n.orelse) == 3:
            t, adv, ret = n.orelse
            facts["advanceBetweenWaitAndReturn"] = (
                isinstance(t, ast.Try) and isinstance(adv, ast.Expr) and isinstance(adv.value, ast.Call)
                and _call_name(adv.value) == "journal.advance" and isinstance(ret, ast.Return)
                and isinstance(ret.value, ast.Call) and [ast.unparse(x) for x in ret.value.args] == ["target_task", "started"])
    return [s[2] for s in sites], facts


def record_sites(fn: ast.AST | None, notes: list[str]) -> list[str]:
    """facts about TaskJournal.record; `append` and `index += 1` commute, so they are reported as a set"""
    if fn is None:
        notes.append("gen/journal: TaskJournal.record not found")
        return ["<missing>"]
    # the local that is passed as seq_num to insert
    for n in ast.walk(fn):
        if isinstance(n, ast.Call) and _call_name(n) == "_crud.insert" and len(n.args) == 3 and isinstance(n.args[1], ast.Name) \
                and n.args[1].id != "seq_num":
            fn = _Rename({n.args[1].id: "seq_num"}).visit(__import__("copy").deepcopy(fn))
            break
    out: list[tuple[int, int, str]] = []
    awaited = _awaited_calls(fn)
    for n in ast.walk(fn):
        if isinstance(n, ast.Assign) and len(n.targets) == 1 and ast.unparse(n.targets[0]) == "seq_num":
            out.append((n.lineno, n.col_offset, "seq=" + ast.unparse(n.value)))
        if isinstance(n, ast.Call) and _call_name(n) == "_entries.append":
            out.append((n.lineno, n.col_offset, "append(" + ",".join(ast.unparse(a) for a in n.args) + ")"))
        if isinstance(n, ast.AugAssign) and ast.unparse(n.target) == "self._replay_index":
            out.append((n.lineno, n.col_offset, "index" + type(n.op).__name__ + "=" + ast.unparse(n.value)))
        if isinstance(n, ast.Call) and _call_name(n) == "_crud.insert":
            tag = "insert(" + ",".join(ast.unparse(a) for a in n.args) + ")"
            if id(n) not in awaited:
                tag += "!not-awaited"
            out.append((n.lineno, n.col_offset, tag))
    out.sort()
    tags = [s[2] for s in out]
    seq = [t for t in tags if t.startswith("seq=")]
    ins = [t for t in tags if t.startswith("insert(")]
    mid = sorted(t for t in tags if not t.startswith("seq=") and not t.startswith("insert("))
    ordered = bool(seq and ins and tags and tags[0] == seq[0] and tags[-1] == ins[0])
    return seq + mid + ins + (["order:seq-first,insert-last"] if ordered else ["order:unexpected"])


def small_sites(fn: ast.AST | None, what: str, notes: list[str]) -> str:
    if fn is None:
        notes.append(f"gen/journal: {what} not found")
        return "<missing>"
    body = [s for s in getattr(fn, "body", []) if not (isinstance(s, ast.Expr) and isinstance(s.value, ast.Constant))]
    return " ; ".join(re.sub(r"\s+", " ", ast.unparse(s)) for s in body)


def sql_of(tree: ast.AST | None, cls: str, meth: str, notes: list[str]) -> str:
    fn = _method(tree, cls, meth)
    if fn is None:
        notes.append(f"gen/journal: {cls}.{meth} not found")
        return "<missing>"
    parts: list[str] = []
    for n in ast.walk(fn):
        if isinstance(n, ast.Call) and isinstance(n.func, ast.Attribute) and n.func.attr in ("execute", "fetch") and n.args:
            a = n.args[0]
            for piece in ast.walk(a):
                pass
            parts.append(_render(a))
    if len(parts) != 1:
        notes.append(f"gen/journal: expected exactly one SQL statement in {cls}.{meth}, found {len(parts)}")
        return "<missing>"
    return re.sub(r"\s+", " ", parts[0]).strip()


def _render(a: ast.AST) -> str:
    if isinstance(a, ast.Constant) and isinstance(a.value, str):
        return a.value
    if isinstance(a, ast.JoinedStr):
        out = []
        for v in a.values:
            if isinstance(v, ast.Constant):
                out.append(str(v.value))
            elif isinstance(v, ast.FormattedValue):
                src = ast.unparse(v.value)
                out.append("T" if src == "self._table_ref" else ("OPS" if src == "self._ops_table_ref" else "{" + src + "}"))
        return "".join(out)
    if isinstance(a, ast.BinOp) and isinstance(a.op, ast.Add):
        return _render(a.left) + _render(a.right)
    return "{" + ast.unparse(a) + "}"


def key_format(tree: ast.AST | None, cls: str, notes: list[str]) -> str:
    fn = _method(tree, cls, "key")
    if fn is None:
        notes.append(f"gen/journal: {cls}.key not found")
        return "<missing>"
    for n in ast.walk(fn):
        if isinstance(n, ast.Return) and n.value is not None:
            return _render(n.value)
    return "<missing>"


def server_persist_guard(fn: ast.AST | None, notes: list[str]) -> list[str]:
    """shape of `_ServerInternalRunAdapter.write_to_event_stream`: the flag read from `self.is_replaying()`, the
    `if not <flag>:` block holding the status updates and the `append_event`, the unconditional forward"""
    if fn is None:
        notes.append("gen/journal: _ServerInternalRunAdapter.write_to_event_stream not found")
        return ["<missing>"]
    flag = None
    for n in ast.walk(fn):
        if isinstance(n, ast.Assign) and len(n.targets) == 1 and isinstance(n.targets[0], ast.Name) \
                and re.sub(r"\s+", "", ast.unparse(n.value)) == "self.is_replaying()":
            flag = n.targets[0].id
    if flag is None:
        notes.append("gen/journal: write_to_event_stream no longer reads self.is_replaying() into a local")
        return ["<no-flag>"]
    out = ["flag=self.is_replaying()"]

    def calls(node: ast.AST) -> list[str]:
        return [ast.unparse(c.func) for c in ast.walk(node) if isinstance(c, ast.Call)]

    for n in ast.walk(fn):
        if isinstance(n, ast.If) and ast.unparse(n.test) == f"not {flag}":
            inner = [c for b in n.body for c in calls(b)]
            out.append("if-not-flag:" + ",".join(c for c in inner if c in ("self._runtime._handle_status_update", "self._store.append_event")
                                                 ).replace("self._runtime._handle_status_update", "status").replace("self._store.append_event", "append"))
            out.append("else:" + ("none" if not n.orelse else "some"))
    guarded = set()
    for n in ast.walk(fn):
        if isinstance(n, ast.If):
            for b in n.body + n.orelse:
                for c in ast.walk(b):
                    guarded.add(id(c))
    fwd = [c for c in ast.walk(fn) if isinstance(c, ast.Call) and ast.unparse(c.func) == "super().write_to_event_stream"]
    out.append("forward:" + ("always" if fwd and all(id(c) not in guarded for c in fwd) else ("guarded" if fwd else "none")))
    app = [c for c in ast.walk(fn) if isinstance(c, ast.Call) and ast.unparse(c.func) == "self._store.append_event"]
    out.append("append-outside-guard:" + str(sum(1 for c in app if id(c) not in guarded)))
    return out


def extract(notes: list[str]) -> dict:
    rt = _parse(RUNTIME, notes)
    srv = _parse(SERVER_RT, notes)
    tj = _parse(TASKJ, notes)
    cr = _parse(CRUD, notes)
    nt = _parse(NAMED, notes)
    sites, facts = wait_sites(_method(rt, "InternalDBOSAdapter", "wait_for_next_task"), notes)
    purge = _method(rt, "InternalDBOSAdapter", "_purge_orphaned_operations")
    if purge is not None:
        def prule(v: ast.AST, mapping: dict, tup: bool) -> str | None:
            if isinstance(v, ast.Call) and _call_name(v) == "get_local_dbos_context":
                return "ctx"
            if isinstance(v, ast.Attribute) and v.attr == "function_id":
                return "current_fid"
            return None
        purge = canonical_locals(purge, [prule])
    purge_src = small_sites(purge, "_purge_orphaned_operations", notes)
    adapter_rep = _method(rt, "InternalDBOSAdapter", "is_replaying")
    if adapter_rep is not None:
        def jrule(v: ast.AST, mapping: dict, tup: bool) -> str | None:
            if isinstance(v, ast.Call) and _call_name(v) == "self._get_or_create_journal":
                return "journal"
            return None
        adapter_rep = canonical_locals(adapter_rep, [jrule])
    pull_prefix = "<missing>"
    if nt is not None:
        for n in nt.body:
            if isinstance(n, ast.Assign) and ast.unparse(n.targets[0]) == "PULL_PREFIX" and isinstance(n.value, ast.Constant):
                pull_prefix = n.value.value
    res = {
        "waitSites": sites, **facts,
        "purgeSkipsEmptyJournal": "if not journal.has_entries: return" in purge_src,
        "purgeUsesCurrentFid": "current_fid = ctx.function_id" in purge_src and "await journal.purge_stale(current_fid)" in purge_src,
        "purgeOnce": purge_src.startswith("if self._orphan_purge_done: return ; self._orphan_purge_done = True"),
        "recordSites": record_sites(_method(tj, "TaskJournal", "record"), notes),
        "advanceBody": small_sites(_method(tj, "TaskJournal", "advance"), "TaskJournal.advance", notes),
        "nextExpectedBody": small_sites(_method(tj, "TaskJournal", "next_expected_key"), "TaskJournal.next_expected_key", notes),
        "loadBody": small_sites(_method(tj, "TaskJournal", "load"), "TaskJournal.load", notes),
        "isReplayingBody": small_sites(_method(tj, "TaskJournal", "is_replaying"), "TaskJournal.is_replaying", notes),
        "hasEntriesBody": small_sites(_method(tj, "TaskJournal", "has_entries"), "TaskJournal.has_entries", notes),
        "adapterIsReplayingBody": small_sites(adapter_rep, "InternalDBOSAdapter.is_replaying", notes),
        "serverPersistGuard": server_persist_guard(_method(srv, "_ServerInternalRunAdapter", "write_to_event_stream"), notes),
        "purgeStaleBody": small_sites(_method(tj, "TaskJournal", "purge_stale"), "TaskJournal.purge_stale", notes),
        "workerKey": key_format(nt, "WorkerTask", notes), "pullKey": key_format(nt, "PullTask", notes),
        "pendingWorkerKey": key_format(nt, "PendingWorker", notes), "pendingPullKey": key_format(nt, "PendingPull", notes),
        "pullPrefix": pull_prefix,
    }
    for cls, tag in (("SqliteJournalCrud", "sqlite"), ("PostgresJournalCrud", "pg")):
        for m in ("insert", "load", "delete", "truncate_from", "purge_operations_from"):
            res[f"{tag}_{m}"] = sql_of(cr, cls, m, notes)
    return res


def generate(notes: list[str]) -> list[str]:
    r = extract(notes)
    b = lambda v: "true" if v else "false"
    ls = lambda xs: "[" + ", ".join(lean_str(x) for x in xs) + "]"
    out = ["namespace GenJournal",
           f"def waitSites : List String := {ls(r['waitSites'])}",
           f"def recordAwaitedBeforeFinalReturn : Bool := {b(r['recordAwaitedBeforeFinalReturn'])}",
           f"def advanceBetweenWaitAndReturn : Bool := {b(r['advanceBetweenWaitAndReturn'])}",
           f"def replayTimeoutReturnsNone : Bool := {b(r['replayTimeoutReturnsNone'])}",
           f"def startYields : Bool := {b(r['startYields'])}",
           f"def purgeGuard : String := {lean_str(r['purgeGuard'])}",
           f"def purgeSkipsEmptyJournal : Bool := {b(r['purgeSkipsEmptyJournal'])}",
           f"def purgeUsesCurrentFid : Bool := {b(r['purgeUsesCurrentFid'])}",
           f"def purgeOnce : Bool := {b(r['purgeOnce'])}",
           f"def recordSites : List String := {ls(r['recordSites'])}",
           f"def advanceBody : String := {lean_str(r['advanceBody'])}",
           f"def nextExpectedBody : String := {lean_str(r['nextExpectedBody'])}",
           f"def loadBody : String := {lean_str(r['loadBody'])}",
           f"def isReplayingBody : String := {lean_str(r['isReplayingBody'])}",
           f"def hasEntriesBody : String := {lean_str(r['hasEntriesBody'])}",
           f"def adapterIsReplayingBody : String := {lean_str(r['adapterIsReplayingBody'])}",
           f"def serverPersistGuard : List String := {ls(r['serverPersistGuard'])}",
           f"def purgeStaleBody : String := {lean_str(r['purgeStaleBody'])}",
           f"def workerKey : String := {lean_str(r['workerKey'])}",
           f"def pullKey : String := {lean_str(r['pullKey'])}",
           f"def pendingWorkerKey : String := {lean_str(r['pendingWorkerKey'])}",
           f"def pendingPullKey : String := {lean_str(r['pendingPullKey'])}",
           f"def pullPrefix : String := {lean_str(r['pullPrefix'])}"]
    for tag in ("sqlite", "pg"):
        for m in ("insert", "load", "delete", "truncate_from", "purge_operations_from"):
            out.append(f"def {tag}_{m} : String := {lean_str(r[f'{tag}_{m}'])}")
    out.append("end GenJournal")
    return out
