import WfModel.DbosTimer
import Driver.Util
open DbosTimer Drv

/-! Line protocol for M7 (C) (model name `dbostimer`): the deferred-release timer of `DBOSIdleReleaseDecorator`,
any number of runs (all state of the decorator's timer bookkeeping is keyed by run id; one model instance per run,
one clock).

  `reset`                    forget all runs (a new case)
  `init|<run>|<tau>`         a run whose decorator has idle_timeout `tau` ms
  `adv|<dt>`                 time passes (all runs)
  `idle|<run>`               `write_to_event_stream(WorkflowIdleEvent)` returned
  `tick|<run>`               `wait_receive` returned a `WaitResultTick`
  `resume|<run>`             `_do_resume` started
  `fire|<run>|<j>`           timer task `j` left its sleep and entered `_release_idle_handler`
  `finish|<run>|<j>`         its `_release_idle_handler` returned
  → `ok <state>` | `disabled <state>` | `bad-op` | `no-run`
  state: `now=<n> reg=<j|-> T=<j>:<sleep@armed/due | rel@armed | cancelled | done>,… pending=<0/1> ticks=<n>
          att=<at>/<idle|->/<ticks>/<task>;… stray=<n> abandoned=<n>` -/
namespace Drv.DbosTimer

abbrev St := List (Nat × S)

def showOpt : Option Nat → String
  | none => "-" | some n => toString n

def showT : TSt → String
  | .absent => "absent" | .sleeping a d => s!"sleep@{a}/{d}" | .releasing a => s!"rel@{a}" | .cancelled => "cancelled" | .done => "done"

def showS (s : S) : String :=
  let ts := ",".intercalate ((List.range s.next).map fun j => s!"{j}:{showT (s.tasks j)}")
  let at_ := ";".intercalate (s.attempts.map fun r => s!"{r.at_}/{showOpt r.idle}/{r.ticks}/{r.task}")
  s!"now={s.now} reg={showOpt s.reg} T={ts} pending={if s.pending then 1 else 0} ticks={s.ticksSince} att={at_} stray={s.stray} abandoned={s.abandoned}"

def setRun (st : St) (r : Nat) (s : S) : St := (r, s) :: st.filter (fun p => p.1 != r)

def apply (st : St) (r : Nat) (a : Act) : St × String :=
  match st.lookup r with
  | none => (st, "no-run")
  | some s =>
    match DbosTimer.step s a with
    | some s' => (setRun st r s', "ok " ++ showS s')
    | none => (st, "disabled " ++ showS s)

def step (st : St) (line : String) : St × String :=
  match line.splitOn "|" with
  | ["init", r, t] =>
    match parseNat? r, parseNat? t with
    | some r, some tau =>
      -- a run that joins later starts on the common clock
      let now := match st with | (_, s) :: _ => s.now | [] => 0
      let s : S := { DbosTimer.init tau with now := now }
      (setRun st r s, "ok " ++ showS s)
    | _, _ => (st, "bad-op")
  | ["reset"] => ([], "ok")
  | ["adv", d] =>
    match parseNat? d with
    | some dt =>
      let st' := st.map fun p => (p.1, DbosTimer.stepD p.2 (.advance dt))
      (st', s!"ok now={match st' with | (_, s) :: _ => s.now | [] => 0}")
    | none => (st, "bad-op")
  | [name, r] =>
    match parseNat? r with
    | none => (st, "bad-op")
    | some r =>
      match name with
      | "idle" => apply st r .idle
      | "tick" => apply st r .tick
      | "resume" => apply st r .resume
      | _ => (st, "bad-op")
  | [name, r, j] =>
    match parseNat? r, parseNat? j with
    | some r, some j =>
      match name with
      | "fire" => apply st r (.fire j)
      | "finish" => apply st r (.finish j)
      | _ => (st, "bad-op")
    | _, _ => (st, "bad-op")
  | _ => (st, "bad-op")

end Drv.DbosTimer
