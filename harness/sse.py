"""Real-code side of C17: the real `WorkflowClient.get_workflow_events` talking, through a
scripted `httpx.AsyncBaseTransport`, to the real `_WorkflowAPI._stream_events` framing code.

Nothing here re-implements the client or the framing:

* the body of every connection is whatever the real `_stream_events` coroutine (imported from
  /repo's `_api.py` under the name-only `starlette` shim) yields for a fake request carrying
  the query string the real client sent; the events come from a real `MemoryWorkflowStore`
  (thin subclass: scripted virtual-time pauses before events so that heartbeats appear);
* the transport turns the `str` chunks into UTF-8 bytes (what starlette's `StreamingResponse`
  does), re-chunks them at scripted sizes, and injects the scripted fault of that connection:
  `httpx.ConnectError` before any response, `httpx.ReadError` after n body bytes,
  `httpx.ConnectTimeout` / `httpx.ReadTimeout`, or a bare status code;
* the consumer iterates the real `EventStream` and records `last_sequence` after every event.

All of it runs on the virtual-time loop, so heartbeat timing is deterministic.
"""
from __future__ import annotations

import asyncio
import importlib
from datetime import datetime, timezone
from types import SimpleNamespace
from typing import Any

import httpx

from . import vloop
from .boot import boot

HANDLER = "h-c17"
RUN = "run-c17"
HB_INTERVAL = 1.0
WATCHDOG = 3000.0  # virtual seconds without completion => the stream is pending
SERVE_WAIT = 600.0
STALL = 20.0  # virtual seconds without new body bytes => a scripted drop fires now
GROW_AT = 5.0  # virtual seconds after a connection is opened at which its scripted mid-connection appends happen

_mods: dict[str, Any] = {}


def mods() -> dict[str, Any]:
    if not _mods:
        boot()
        _mods["api"] = importlib.import_module("llama_agents.server._api")
        _mods["mem"] = importlib.import_module("llama_agents.server._store.memory_workflow_store")
        _mods["abs"] = importlib.import_module("llama_agents.server._store.abstract_workflow_store")
        _mods["client"] = importlib.import_module("llama_agents.client.client")
        _mods["ser"] = importlib.import_module("llama_agents.client.protocol.serializable_events")
        _mods["events"] = importlib.import_module("workflows.events")
    return _mods


# --------------------------------------------------------------------------
# events -> envelopes (the real classes)


def envelope_of(ev: dict) -> Any:
    """ev: {"kind": "ev"|"stop"|"raw", "k": int, "msg": str, "key": str?}"""
    m = mods()
    E = m["ser"].EventEnvelopeWithMetadata
    key = ev.get("key", "msg")
    if ev["kind"] == "stop":
        return E.from_event(m["events"].StopEvent(result={"k": ev["k"], key: ev["msg"]}))
    if ev["kind"] == "ev":
        return E.from_event(m["events"].Event(**{"k": ev["k"], key: ev["msg"]}))
    if ev["kind"] == "internal":
        # a real InternalDispatchEvent subclass; the fields carry k and msg so that payloads stay distinct
        return E.from_event(m["events"].UnhandledEvent(event_type=f"E{ev['k']}", qualified_name=ev["msg"], step_name=ev.get("key"),
                                                       idle=bool(ev["k"] % 2)))
    # hand-built envelope (arbitrary type names)
    return E(value={"k": ev["k"], key: ev["msg"]}, qualified_name=ev.get("qn"), type=ev.get("type", "Custom"),
             types=ev.get("types"))


def payload_of(ev: dict) -> str:
    """The JSON text `_stream_events` puts after `data: ` (same real method call)."""
    return envelope_of(ev).model_dump_json()


def is_internal(ev: dict) -> bool:
    """The event is an `InternalDispatchEvent` (real class check for real events; for hand-built
    envelopes: the class name is the envelope's type or among its `types`)."""
    m = mods()
    if ev["kind"] == "internal":
        return issubclass(m["events"].UnhandledEvent, m["events"].InternalDispatchEvent)
    if ev["kind"] == "custom":
        name = m["events"].InternalDispatchEvent.__name__
        return ev.get("type") == name or name in (ev.get("types") or [])
    return False


def is_terminal(ev: dict) -> bool:
    m = mods()
    env = envelope_of(ev)
    se = m["abs"].StoredEvent(run_id=RUN, sequence=0, timestamp=datetime.now(timezone.utc), event=env)
    return bool(m["abs"].AbstractWorkflowStore._is_terminal_event(se))


# --------------------------------------------------------------------------
# server side


def make_store(case: dict) -> Any:
    m = mods()
    Base = m["mem"].MemoryWorkflowStore

    class ScriptedStore(Base):  # type: ignore[misc,valid-type]
        """Real store; `subscribe_events` pauses (virtual time) before chosen events."""

        pauses: list[float] = []

        async def subscribe_events(self, run_id: str, after_sequence: int = -1):  # type: ignore[override]
            pauses = list(self.pauses)
            i = 0
            async for e in Base.subscribe_events(self, run_id, after_sequence):
                d = pauses[i] if i < len(pauses) else 0.0
                i += 1
                if d > 0:
                    await asyncio.sleep(d)
                yield e

    store = ScriptedStore()
    store.handlers[HANDLER] = m["abs"].PersistentHandler(
        handler_id=HANDLER, workflow_name="wf", status=case.get("status", "running"), run_id=RUN)
    evs = []
    for ev in case["events"]:
        evs.append(m["abs"].StoredEvent(run_id=RUN, sequence=ev["seq"], timestamp=datetime.now(timezone.utc),
                                        event=envelope_of(ev)))
    store.all_events = evs
    # a growing log ("vis" on the connections): the transport reveals the events step by step
    store.events[RUN] = [] if case.get("live") else evs
    if case.get("live"):
        store.final_status = case.get("status", "running")
        store.handlers[HANDLER] = store.handlers[HANDLER].model_copy(update={"status": "running"})
    return store


async def reveal(store: Any, upto: int) -> None:
    """The run has appended its events up to index `upto` (monotone, idempotent); the handler's
    persisted status becomes the scripted final one together with the last event."""
    allev = store.all_events
    cur = store.events.get(RUN, [])
    if upto > len(cur):
        cur.extend(allev[len(cur):upto])
        store.events[RUN] = cur
    if len(cur) >= len(allev) and store.handlers[HANDLER].status != store.final_status:
        store.handlers[HANDLER] = store.handlers[HANDLER].model_copy(update={"status": store.final_status})
    cond = store._conditions.get(RUN)
    if cond is not None:
        async with cond:
            cond.notify_all()


def pauses_for(case: dict, cursor: Any, hb_counts: list[int]) -> list[float]:
    """Virtual-time pauses before the events `subscribe_events` will yield after `cursor`, such that
    `hb_counts[i]` heartbeat comments appear before the i-th *frame*: events the include_internal
    flag hides produce no frame and get no pause."""
    hb = case.get("hb")
    if not hb:
        return []
    dur = [(c * hb + hb / 2) if c else 0.0 for c in hb_counts]
    if case.get("incl", True) or not any(is_internal(e) for e in case["events"]):
        return dur
    try:
        cur = int(cursor)
    except (TypeError, ValueError):
        return dur
    res: list[float] = []
    k = 0
    for e in case["events"]:
        if e["seq"] <= cur:
            continue
        if is_internal(e):
            res.append(0.0)
        else:
            res.append(dur[k] if k < len(dur) else 0.0)
            k += 1
    return res


def make_api(store: Any, hb: float | None) -> Any:
    m = mods()
    return m["api"]._WorkflowAPI(SimpleNamespace(store=store), sse_heartbeat_interval=hb)


class FakeRequest:
    def __init__(self, path_params: dict, query_params: dict, headers: dict):
        self.path_params = path_params
        self.query_params = query_params
        self.headers = {k.lower(): v for k, v in headers.items()}
        self.method = "GET"


async def serve_body(case: dict, cursor: str, hb_counts: list[int]) -> tuple[int, str | None, bool]:
    """(status, body, closed) of what the real endpoint produces for one request.  A stream the
    server does not end within SERVE_WAIT virtual seconds is reported as not closed, with the
    body produced so far."""
    store = make_store(case)
    hb = case.get("hb")
    store.pauses = pauses_for(case, cursor, hb_counts)
    api = make_api(store, hb)
    req = FakeRequest({"handler_id": HANDLER}, {"sse": "true", "after_sequence": cursor,
                                                "include_internal": "true" if case.get("incl") else "false"}, {})
    exc_t = mods()["api"].HTTPException
    try:
        resp = await api._stream_events(req)
    except exc_t as e:
        return int(e.status_code), None, True
    parts: list[str] = []

    async def pull() -> None:
        async for s in resp.body_iterator:
            parts.append(s if isinstance(s, str) else s.decode("utf-8"))

    task = asyncio.ensure_future(pull())
    finished, _ = await asyncio.wait({task}, timeout=SERVE_WAIT)
    closed = bool(finished)
    if not finished:
        task.cancel()
        await asyncio.gather(task, return_exceptions=True)
    elif task.exception() is not None:
        raise task.exception()  # type: ignore[misc]
    return int(getattr(resp, "status_code", 200)), "".join(parts), closed


# --------------------------------------------------------------------------
# transport


class _Pump:
    """Pulls the server's chunks into a byte buffer in the background."""

    def __init__(self, it: Any):
        self.buf = bytearray()
        self.done = False
        self.error: BaseException | None = None
        self.grew = asyncio.Event()
        self.task = asyncio.ensure_future(self._run(it))

    async def _run(self, it: Any) -> None:
        try:
            async for s in it:
                self.buf += s.encode("utf-8") if isinstance(s, str) else bytes(s)
                self.grew.set()
        except asyncio.CancelledError:
            raise
        except BaseException as e:  # noqa: BLE001
            self.error = e
        finally:
            self.done = True
            self.grew.set()
            aclose = getattr(it, "aclose", None)
            if aclose is not None:
                try:
                    await aclose()
                except BaseException:  # noqa: BLE001
                    pass

    async def settle(self) -> None:
        """Let the server produce everything it can produce without waiting for time to pass."""
        quiet = 0
        while quiet < 12 and not self.done:
            n = len(self.buf)
            await asyncio.sleep(0)
            quiet = quiet + 1 if len(self.buf) == n else 0

    def stop(self) -> None:
        self.task.cancel()


class CutStream(httpx.AsyncByteStream):
    def __init__(self, it: Any, conn: dict, request: httpx.Request, record: dict):
        self.it = it
        self.conn = conn
        self.request = request
        self.record = record
        self.pump: _Pump | None = None

    async def __aiter__(self):  # type: ignore[override]
        conn = self.conn
        fault = conn.get("f", "none")
        limit = conn.get("n") if fault in ("drop", "tread") else None
        sizes = [s for s in conn.get("chunks", []) if s > 0] or [1 << 30]
        si = 0
        sent = 0
        pump = self.pump = _Pump(self.it)
        try:
            while True:
                await pump.settle()
                avail = len(pump.buf)
                target = avail if limit is None else min(avail, limit)
                while sent < target:
                    size = sizes[si % len(sizes)]
                    si += 1
                    piece = bytes(pump.buf[sent:min(sent + size, target)])
                    sent += len(piece)
                    self.record["sent"] = sent
                    yield piece
                if limit is not None and sent >= limit:
                    break
                if pump.done and sent >= len(pump.buf):
                    break
                pump.grew.clear()
                if len(pump.buf) > sent or pump.done:
                    continue
                if limit is not None:
                    try:
                        await asyncio.wait_for(pump.grew.wait(), STALL)
                    except asyncio.TimeoutError:
                        break
                else:
                    await pump.grew.wait()
            self.record["body_len"] = len(pump.buf)
            self.record["server_done"] = pump.done
            if pump.error is not None:
                raise httpx.ReadError(f"server generator failed: {pump.error!r}", request=self.request)
            if fault == "drop":
                raise httpx.ReadError("scripted drop", request=self.request)
            if fault == "tread":
                raise httpx.ReadTimeout("scripted read timeout", request=self.request)
        finally:
            pump.stop()

    async def aclose(self) -> None:
        if self.pump is not None:
            self.pump.stop()


class RawStream(httpx.AsyncByteStream):
    """A hand-written body (malformed-stream correspondence): bytes, scripted chunking and fault."""

    def __init__(self, data: bytes, conn: dict, request: httpx.Request):
        self.data = data
        self.conn = conn
        self.request = request

    async def __aiter__(self):  # type: ignore[override]
        conn = self.conn
        fault = conn.get("f", "none")
        data = self.data
        if fault in ("drop", "tread"):
            data = data[: conn.get("n", 0)]
        sizes = [s for s in conn.get("chunks", []) if s > 0] or [1 << 30]
        si = 0
        pos = 0
        while pos < len(data):
            size = sizes[si % len(sizes)]
            si += 1
            yield data[pos:pos + size]
            pos += size
            await asyncio.sleep(0)
        if fault == "drop":
            raise httpx.ReadError("scripted drop", request=self.request)
        if fault == "tread":
            raise httpx.ReadTimeout("scripted read timeout", request=self.request)
        if not conn.get("closes", True):
            await asyncio.Event().wait()  # the server never closes: wait for ever


class ScriptedTransport(httpx.AsyncBaseTransport):
    def __init__(self, case: dict, api: Any, store: Any):
        self.case = case
        self.api = api
        self.store = store
        self.i = 0
        self.requests: list[dict] = []
        self.records: list[dict] = []
        self.growers: list[Any] = []

    async def handle_async_request(self, request: httpx.Request) -> httpx.Response:
        conns = self.case["conns"]
        conn = conns[self.i] if self.i < len(conns) else {"f": "none"}
        self.i += 1
        params = dict(request.url.params)
        rec: dict = {"after": params.get("after_sequence"), "f": conn.get("f", "none"), "path": request.url.path}
        self.requests.append(params)
        self.records.append(rec)
        fault = conn.get("f", "none")
        if self.case.get("live") and "vis" in conn and self.store is not None:
            await reveal(self.store, int(conn["vis"]))
        if fault == "refuse":
            raise httpx.ConnectError("scripted refusal", request=request)
        if fault == "tconn":
            raise httpx.ConnectTimeout("scripted connect timeout", request=request)
        if fault == "status":
            return httpx.Response(int(conn["code"]), content=b'{"detail":"scripted"}', request=request)
        if "body" in conn:  # raw mode
            if conn.get("status") is not None:
                return httpx.Response(int(conn["status"]), content=b'{"detail":"scripted"}', request=request)
            return httpx.Response(200, headers={"content-type": "text/event-stream; charset=utf-8"},
                                  stream=RawStream(conn["body"].encode("utf-8"), conn, request), request=request)
        self.store.pauses = pauses_for(self.case, params.get("after_sequence"), conn.get("hb", []))
        req = FakeRequest({"handler_id": request.url.path.rsplit("/", 1)[-1]}, params, dict(request.headers))
        exc_t = mods()["api"].HTTPException
        try:
            resp = await self.api._stream_events(req)
        except exc_t as e:
            rec["status"] = int(e.status_code)
            return httpx.Response(int(e.status_code), content=b'{"detail":"x"}', request=request)
        rec["status"] = 200
        if self.case.get("live") and conn.get("vis2") is not None:
            async def grow(upto: int = int(conn["vis2"])) -> None:
                await asyncio.sleep(GROW_AT)
                await reveal(self.store, upto)

            self.growers.append(asyncio.ensure_future(grow()))
        media = getattr(resp, "media_type", None) or "text/event-stream"
        return httpx.Response(200, headers={"content-type": f"{media}; charset=utf-8"},
                              stream=CutStream(resp.body_iterator, conn, request, rec), request=request)


# --------------------------------------------------------------------------
# one real run


def classify(exc: BaseException) -> str:
    import pydantic

    if isinstance(exc, TimeoutError):
        return "timeout"
    if isinstance(exc, ConnectionError):
        return "conn"
    if isinstance(exc, pydantic.ValidationError):
        return "parse"
    if isinstance(exc, httpx.HTTPStatusError):
        return "status"
    if isinstance(exc, ValueError) and "Handler not found" in str(exc):
        return "notfound"
    return "other:" + type(exc).__name__


def run_real(case: dict) -> dict:
    """Run the real client against the real framing for one scripted case."""
    m = mods()

    async def main(_loop: Any) -> dict:
        store = make_store(case) if "events" in case else None
        api = make_api(store, case.get("hb")) if store is not None else None
        transport = ScriptedTransport(case, api, store)
        hc = httpx.AsyncClient(transport=transport, base_url="http://c17.test")
        client = m["client"].WorkflowClient(httpx_client=hc)
        kwargs: dict = {}
        if case["c0"] != "D":
            kwargs["after_sequence"] = case["c0"]
        if case["max"] != "D":
            kwargs["max_reconnect_attempts"] = case["max"]
        if "incl" in case:
            kwargs["include_internal_events"] = bool(case["incl"])
        stream = client.get_workflow_events(HANDLER, **kwargs)
        obs: dict = {"yielded": [], "res": None, "initial_last": stream.last_sequence}

        async def consume() -> None:
            async for ev in stream:
                obs["yielded"].append((stream.last_sequence, ev.model_dump_json()))

        task = asyncio.ensure_future(consume())
        finished, _ = await asyncio.wait({task}, timeout=WATCHDOG)
        if not finished:
            obs["res"] = "pending"
            task.cancel()
            await asyncio.gather(task, return_exceptions=True)
        elif task.exception() is None:
            obs["res"] = "done"
        else:
            e = task.exception()
            obs["res"] = classify(e)
            obs["exc"] = repr(e)[:300]
        obs["final_last"] = stream.last_sequence
        try:
            await stream.aclose()
        except BaseException:  # noqa: BLE001
            pass
        await hc.aclose()
        for g in transport.growers:
            g.cancel()
        await asyncio.gather(*transport.growers, return_exceptions=True)
        obs["reqs"] = [r.get("after_sequence") for r in transport.requests]
        obs["records"] = transport.records
        obs["params"] = transport.requests[:1]
        return obs

    return vloop.run_virtual(main, max_time=None)


def run_serve(case: dict, cursor: str, hb_counts: list[int]) -> tuple[int, str | None, bool]:
    async def main(_loop: Any) -> tuple[int, str | None, bool]:
        return await serve_body(case, cursor, hb_counts)

    return vloop.run_virtual(main, max_time=None)


# --------------------------------------------------------------------------
# the client's line iterator alone


def run_iter_lines(chunks: list[str], eof: bool) -> str:
    """What the real `_iter_sse_lines` yields for a response whose decoded text arrives in `chunks`;
    `eof=False`: `aiter_text` raises `httpx.ReadError` after the last chunk."""
    m = mods()

    class FakeResponse:
        async def aiter_text(self):  # noqa: ANN202
            for c in chunks:
                yield c
                await asyncio.sleep(0)
            if not eof:
                raise httpx.ReadError("scripted drop")

    async def main(_loop: Any) -> str:
        got: list[str] = []
        try:
            async for line in m["client"]._iter_sse_lines(FakeResponse()):
                got.append(line)
        except httpx.ReadError:
            if eof:
                return "error:ReadError"
        except Exception as e:  # noqa: BLE001
            return "error:" + type(e).__name__
        return f"n={len(got)} " + ";".join("l" + ",".join(str(ord(ch)) for ch in line) for line in got)

    return vloop.run_virtual(main, max_time=None)
