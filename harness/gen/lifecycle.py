"""Lifecycle state names, SQL CAS statements, timeout constants and the control shape of the
idle-release code -> lean/WfModel/GenLifecycle.lean (model constants) and, through
harness/gen/lifecycle_shape.py, lean/WfModel/GenLifecycleShape.lean (SQL text, shapes, call sites).

Re-read from /repo's current sources on every run:

* `llama-agents-dbos/.../journal/lifecycle.py`  — `RunLifecycleState`, the table name, and for
  both lock classes the SQL statement of every method with the state each placeholder is
  bound to (CAS source / target, presence of the `AND state = ..` predicate, `FOR UPDATE`,
  the crash-timeout comparison, the values returned by `try_begin_resume`);
* `llama-agents-dbos/.../idle_release.py`       — `CRASH_TIMEOUT_SECONDS`, the poll interval,
  the default idle timeout, the control shape of release / resume;
* `llama-agents-server/.../idle_release_runtime.py` — the elapsed test, the default idle timeout
  and the control shape (lock sections, order of store calls) the model's atomic actions are
  cut along;
* all production sources — how often `RunLifecycleLock.create` is called.

A *shape* is the list of tokens of a function body in source order: `with(<callee>)..endwith`,
`await(<callee>[;kw=None])`, `call(<callee>)`, `if(<compare ops>;<attributes tested>)..else..endif`,
`return`, `raise`, `loop..endloop`, `try..except..endtry`.  Local variable names never appear
(a callee rooted in a local is written `_.attr`), and maximal runs of plain (non-awaited)
calls are sorted, so renaming a local or reordering independent statements inside an
await-free section does not change a shape; moving a statement across an `await`, dropping a
lock, or changing a test does.
"""
from __future__ import annotations

import ast
import glob
import os
import re

from ..boot import repo_path

LEAN_MODULE = "GenLifecycle"
LC_SRC = "packages/llama-agents-dbos/src/llama_agents/dbos/journal/lifecycle.py"
DBOS_IR_SRC = "packages/llama-agents-dbos/src/llama_agents/dbos/idle_release.py"
IR_SRC = "packages/llama-agents-server/src/llama_agents/server/_runtime/idle_release_runtime.py"
MISSING_NAT = 999999
MISSING_STR = "<missing>"
_SKIP_CALLS = {"logger.info", "logger.warning", "logger.debug", "logger.error", "logger.exception", "isinstance", "len", "list"}


def lean_str(s: str) -> str:
    return '"' + s.replace("\\", "\\\\").replace('"', '\\"').replace("\n", "\\n") + '"'


def _parse(rel: str, notes: list[str]) -> ast.Module | None:
    try:
        return ast.parse(open(repo_path(rel)).read())
    except (OSError, SyntaxError) as e:
        notes.append(f"gen/lifecycle: cannot parse {rel}: {e!r}")
        return None


def _cls(tree: ast.AST | None, name: str) -> ast.ClassDef | None:
    if tree is None:
        return None
    for n in ast.walk(tree):
        if isinstance(n, ast.ClassDef) and n.name == name:
            return n
    return None


def _fn(cls: ast.ClassDef | None, name: str) -> ast.AsyncFunctionDef | ast.FunctionDef | None:
    if cls is None:
        return None
    for n in cls.body:
        if isinstance(n, (ast.AsyncFunctionDef, ast.FunctionDef)) and n.name == name:
            return n
    return None


# --------------------------------------------------------------------------
# shapes


def _chain(n: ast.AST) -> str:
    """attribute chain of a callee; a local root becomes `_`"""
    parts: list[str] = []
    while True:
        if isinstance(n, ast.Attribute):
            parts.append(n.attr)
            n = n.value
        elif isinstance(n, ast.Call):
            # e.g. super().write_to_event_stream, datetime.now(..).x
            inner = _chain(n.func)
            parts.append(inner + "()")
            break
        elif isinstance(n, ast.Subscript):
            n = n.value
        elif isinstance(n, ast.Name):
            parts.append(n.id if n.id in ("self", "super", "asyncio", "datetime", "DBOS", "logger", "RunLifecycleState",
                                          "rebuild_state_from_ticks", "rebuild_state_from_ticks_stream", "isinstance", "len", "list",
                                          "HandlerQuery", "ValueError", "TickIdleRelease", "JsonSerializer", "infer_state_type",
                                          "stream_workflow_ticks", "BrokerState", "timezone") else "_")
            break
        else:
            parts.append("?")
            break
    return ".".join(reversed(parts))


def _kw(c: ast.Call) -> str:
    out = []
    for k in c.keywords:
        if k.arg in ("idle_since", "status", "crash_timeout_seconds", "pending_tick"):
            v = k.value
            if isinstance(v, ast.Constant):
                out.append(f"{k.arg}={v.value!r}")
            elif isinstance(v, ast.Name) and v.id.isupper():
                out.append(f"{k.arg}={v.id}")
            else:
                out.append(f"{k.arg}=*")
    return (";" + ",".join(out)) if out else ""


def _test(t: ast.AST) -> str:
    ops = sorted({type(o).__name__ for n in ast.walk(t) if isinstance(n, ast.Compare) for o in n.ops}
                 | {"Not" for n in ast.walk(t) if isinstance(n, ast.UnaryOp) and isinstance(n.op, ast.Not)}
                 | {type(n.op).__name__ for n in ast.walk(t) if isinstance(n, ast.BoolOp)})
    attrs = sorted({n.attr for n in ast.walk(t) if isinstance(n, ast.Attribute)} - {"total_seconds"})
    consts = sorted({repr(n.value) for n in ast.walk(t) if isinstance(n, ast.Constant) and n.value is None})
    calls = sorted({_chain(n.func) for n in ast.walk(t) if isinstance(n, ast.Call)} - _SKIP_CALLS)
    classes = sorted({n.id for n in ast.walk(t) if isinstance(n, ast.Name) and n.id[:1].isupper() and not n.id.isupper()}
                     - {"RunLifecycleState"})
    return "if(" + ",".join(ops) + ";" + ",".join(attrs + consts + calls + classes) + ")"


def _expr_tokens(e: ast.AST | None) -> list[str]:
    """calls inside one expression statement, innermost first; awaited calls marked"""
    if e is None:
        return []
    awaited = {id(n.value) for n in ast.walk(e) if isinstance(n, ast.Await)}
    calls = [n for n in ast.walk(e) if isinstance(n, ast.Call)]
    calls.sort(key=lambda c: (getattr(c, "end_lineno", 0), getattr(c, "end_col_offset", 0)))
    out = []
    for c in calls:
        name = _chain(c.func)
        if name in _SKIP_CALLS or name.split(".")[0] in ("HandlerQuery", "ValueError", "TickIdleRelease", "JsonSerializer", "timezone"):
            continue
        out.append(("await(" if id(c) in awaited else "call(") + name + _kw(c) + ")")
    return out


def _sort_sync_runs(tokens: list[str]) -> list[str]:
    out: list[str] = []
    run: list[str] = []
    for t in tokens:
        if t.startswith("call("):
            run.append(t)
        else:
            out += sorted(run)
            run = []
            out.append(t)
    return out + sorted(run)


def _shape_body(body: list[ast.stmt]) -> list[str]:
    out: list[str] = []
    for st in body:
        if isinstance(st, ast.Expr) and isinstance(st.value, ast.Constant):
            continue  # docstring
        if isinstance(st, (ast.AsyncWith, ast.With)):
            for it in st.items:
                out.append("with(" + _chain(it.context_expr.func if isinstance(it.context_expr, ast.Call) else it.context_expr) + ")")
            out += _shape_body(st.body)
            out += ["endwith"] * len(st.items)
        elif isinstance(st, ast.If):
            out += _expr_tokens(st.test)
            out.append(_test(st.test))
            out += _shape_body(st.body)
            if st.orelse:
                out.append("else")
                out += _shape_body(st.orelse)
            out.append("endif")
        elif isinstance(st, ast.While):
            out.append("loop")
            out += _shape_body(st.body)
            out.append("endloop")
        elif isinstance(st, ast.Try):
            out.append("try")
            out += _shape_body(st.body)
            for h in st.handlers:
                out.append("except")
                out += _shape_body(h.body)
            if st.finalbody:
                out.append("finally")
                out += _shape_body(st.finalbody)
            out.append("endtry")
        elif isinstance(st, ast.Return):
            out += _expr_tokens(st.value)
            out.append("return")
        elif isinstance(st, ast.Raise):
            out.append("raise")
        elif isinstance(st, (ast.Expr, ast.Assign, ast.AnnAssign, ast.AugAssign)):
            out += _expr_tokens(st.value)
            if isinstance(st, ast.Assign):
                for tg in st.targets:
                    if isinstance(tg, ast.Attribute) and isinstance(tg.value, ast.Name) and tg.value.id != "self":
                        out.append(f"call(set:_.{tg.attr})")  # field write on a local record, e.g. handler.idle_since = None
                    elif isinstance(tg, ast.Subscript) and isinstance(tg.value, ast.Attribute):
                        out.append(f"call(setitem:{_chain(tg.value)})")
        elif isinstance(st, (ast.Pass, ast.FunctionDef, ast.AsyncFunctionDef)):
            continue
        else:
            out.append("stmt:" + type(st).__name__)
    return out


def shape(fn: ast.AST | None, notes: list[str], what: str) -> list[str]:
    if fn is None:
        notes.append(f"gen/lifecycle: {what} not found")
        return [MISSING_STR]
    return _sort_sync_runs(_shape_body(fn.body))  # type: ignore[attr-defined]


# --------------------------------------------------------------------------
# SQL of the lifecycle lock


def _sql_calls(fn: ast.AST) -> list[tuple[str, list[ast.AST]]]:
    """(sql text with `T` for the table ref, bound parameter expressions) per execute/fetchrow call, in source order"""
    res = []
    calls = [n for n in ast.walk(fn) if isinstance(n, ast.Call) and isinstance(n.func, ast.Attribute)
             and n.func.attr in ("execute", "fetchrow", "fetch", "fetchval") and n.args]
    calls.sort(key=lambda c: (c.lineno, c.col_offset))
    for c in calls:
        a0 = c.args[0]
        text = _sql_text(a0)
        if text is None:
            continue
        params: list[ast.AST] = []
        rest = c.args[1:]
        if len(rest) == 1 and isinstance(rest[0], ast.Tuple):
            params = list(rest[0].elts)
        else:
            params = list(rest)
        res.append((re.sub(r"\s+", " ", text).strip(), params))
    return res


def _sql_text(n: ast.AST) -> str | None:
    if isinstance(n, ast.Constant) and isinstance(n.value, str):
        return n.value
    if isinstance(n, ast.JoinedStr):
        out = ""
        for v in n.values:
            if isinstance(v, ast.Constant):
                out += str(v.value)
            else:
                out += "T"
        return out
    if isinstance(n, ast.BinOp) and isinstance(n.op, ast.Add):
        a, b = _sql_text(n.left), _sql_text(n.right)
        return None if a is None or b is None else a + b
    return None


def _state_of(p: ast.AST) -> str | None:
    # RunLifecycleState.X.value
    if isinstance(p, ast.Attribute) and p.attr == "value" and isinstance(p.value, ast.Attribute) \
            and isinstance(p.value.value, ast.Name) and p.value.value.id == "RunLifecycleState":
        return p.value.attr
    return None


def _bound(sql: str, params: list[ast.AST], pattern: str) -> str | None:
    """state bound to the placeholder that `pattern` (regex with one group = placeholder) captures"""
    m = re.search(pattern, sql)
    if not m:
        return None
    ph = m.group(1)
    if ph == "?":
        idx = sql[: m.start(1)].count("?")
    else:
        idx = int(ph[1:]) - 1
    if 0 <= idx < len(params):
        return _state_of(params[idx])
    return None


PH = r"(\?|\$\d+)"


def _cas(fn: ast.AST | None, notes: list[str], what: str) -> dict:
    """first UPDATE/INSERT of a method: target state, predicate state (or none)"""
    r = {"sql": MISSING_STR, "to": MISSING_STR, "from": MISSING_STR, "nstmts": 0}
    if fn is None:
        notes.append(f"gen/lifecycle: {what} not found")
        return r
    calls = _sql_calls(fn)
    r["nstmts"] = len(calls)
    for sql, params in calls:
        if sql.upper().startswith(("UPDATE", "INSERT")):
            r["sql"] = sql
            to = _bound(sql, params, r"SET state = " + PH) or _bound(sql, params, r"VALUES \(" + PH + ", " + PH.replace("(", "(?:") + "|VALUES \\(\\?, (\\?)")
            if to is None and sql.upper().startswith("INSERT"):
                # VALUES (run_id, state, updated_at): the second placeholder
                if "?" in sql:
                    to = _state_of(params[1]) if len(params) > 1 else None
                else:
                    to = _state_of(params[1]) if len(params) > 1 else None
            r["to"] = to or MISSING_STR
            frm = _bound(sql, params, r"AND state = " + PH)
            r["from"] = frm or "none"
            return r
    notes.append(f"gen/lifecycle: no UPDATE/INSERT found in {what}")
    return r


def _resume(fn: ast.AST | None, notes: list[str], what: str) -> dict:
    r = {"select": MISSING_STR, "update": MISSING_STR, "to": MISSING_STR, "pred": "<missing>", "forUpdate": False,
         "cmp": MISSING_STR, "passIfActive": False, "takeIfReleased": False, "returnsWin": MISSING_STR,
         "returnsBusy": MISSING_STR, "noRowNone": False}
    if fn is None:
        notes.append(f"gen/lifecycle: {what} not found")
        return r
    for sql, params in _sql_calls(fn):
        if sql.upper().startswith("SELECT"):
            r["select"] = sql
            r["forUpdate"] = "FOR UPDATE" in sql.upper()
        elif sql.upper().startswith("UPDATE"):
            r["update"] = sql
            r["to"] = _bound(sql, params, r"SET state = " + PH) or MISSING_STR
            r["pred"] = _bound(sql, params, r"AND state = " + PH) or "none"
    for n in ast.walk(fn):
        if isinstance(n, ast.Compare) and any(isinstance(x, ast.Name) and x.id == "crash_timeout_seconds" for x in n.comparators) \
                and not isinstance(n.ops[0], (ast.Is, ast.IsNot)):
            r["cmp"] = type(n.ops[0]).__name__
        if isinstance(n, ast.If):
            t = ast.unparse(n.test)
            body_ret = [b for b in n.body if isinstance(b, ast.Return)]
            if t.replace(" ", "") == "rowisNone" and body_ret and isinstance(body_ret[0].value, ast.Constant) and body_ret[0].value.value is None:
                r["noRowNone"] = True
            if t.replace(" ", "") == "state==RunLifecycleState.active" and body_ret and isinstance(body_ret[0].value, ast.Constant) \
                    and body_ret[0].value.value is None:
                r["passIfActive"] = True
            if "state==RunLifecycleState.released" in t.replace(" ", ""):
                r["takeIfReleased"] = True
                for b in n.body:
                    if isinstance(b, ast.Return) and isinstance(b.value, ast.Attribute):
                        r["returnsWin"] = b.value.attr
    rets = [n for n in ast.walk(fn) if isinstance(n, ast.Return) and isinstance(n.value, ast.Attribute)
            and isinstance(n.value.value, ast.Name) and n.value.value.id == "RunLifecycleState"]
    rets.sort(key=lambda x: x.lineno)
    if rets:
        r["returnsBusy"] = rets[-1].value.attr  # type: ignore[union-attr]
    return r


def _const_assign(tree: ast.AST | None, name: str):
    if tree is None:
        return None
    for n in ast.walk(tree):
        if isinstance(n, ast.Assign) and len(n.targets) == 1 and isinstance(n.targets[0], ast.Name) and n.targets[0].id == name \
                and isinstance(n.value, ast.Constant):
            return n.value.value
    return None


def _default_arg(fn: ast.AST | None, arg: str):
    if fn is None:
        return None
    a = fn.args  # type: ignore[attr-defined]
    names = [x.arg for x in a.args]
    defs = a.defaults
    off = len(names) - len(defs)
    for i, nm in enumerate(names):
        if nm == arg and i >= off and isinstance(defs[i - off], ast.Constant):
            return defs[i - off].value
    for nm, d in zip([x.arg for x in a.kwonlyargs], a.kw_defaults):
        if nm == arg and isinstance(d, ast.Constant):
            return d.value
    return None


def _ms(v) -> int:
    if isinstance(v, (int, float)) and not isinstance(v, bool):
        return int(round(float(v) * 1000))
    return MISSING_NAT


def _create_call_sites(notes: list[str]) -> list[str]:
    """production call sites of `<something lifecycle>.create(..)`"""
    hits = []
    for fp in sorted(glob.glob(repo_path("packages", "*", "src", "**", "*.py"), recursive=True)):
        try:
            tree = ast.parse(open(fp).read())
        except (OSError, SyntaxError):
            continue
        for n in ast.walk(tree):
            if isinstance(n, ast.Call) and isinstance(n.func, ast.Attribute) and n.func.attr == "create":
                recv = ast.unparse(n.func.value)
                if "lifecycle" in recv.lower():
                    hits.append(f"{os.path.relpath(fp, repo_path())}:{n.lineno}")
    return hits


def extract(notes: list[str]) -> dict:
    lc = _parse(LC_SRC, notes)
    dbos = _parse(DBOS_IR_SRC, notes)
    ir = _parse(IR_SRC, notes)
    R: dict = {}
    # --- enum + table
    en = _cls(lc, "RunLifecycleState")
    states: list[tuple[str, str]] = []
    if en is not None:
        for st in en.body:
            if isinstance(st, ast.Assign) and isinstance(st.targets[0], ast.Name) and isinstance(st.value, ast.Constant):
                states.append((st.targets[0].id, str(st.value.value)))
    else:
        notes.append("gen/lifecycle: RunLifecycleState not found")
    R["states"] = states
    R["table"] = _const_assign(lc, "LIFECYCLE_TABLE_NAME") or MISSING_STR
    # --- lock classes
    for key, cname in (("sqlite", "SqliteRunLifecycleLock"), ("pg", "PostgresRunLifecycleLock")):
        c = _cls(lc, cname)
        R[key] = {
            "create": _cas(_fn(c, "create"), notes, f"{cname}.create"),
            "begin": _cas(_fn(c, "begin_release"), notes, f"{cname}.begin_release"),
            "complete": _cas(_fn(c, "complete_release"), notes, f"{cname}.complete_release"),
            "resume": _resume(_fn(c, "try_begin_resume"), notes, f"{cname}.try_begin_resume"),
            "shape_resume": shape(_fn(c, "try_begin_resume"), notes, f"{cname}.try_begin_resume"),
            "shape_begin": shape(_fn(c, "begin_release"), notes, f"{cname}.begin_release"),
        }
    # --- DBOS decorator
    R["crashTimeoutMs"] = _ms(_const_assign(dbos, "CRASH_TIMEOUT_SECONDS"))
    dec = _cls(dbos, "DBOSIdleReleaseDecorator")
    ext = _cls(dbos, "DBOSIdleReleaseExternalRunAdapter")
    inn = _cls(dbos, "_DBOSIdleReleaseInternalRunAdapter")
    R["dbosIdleDefaultMs"] = _ms(_default_arg(_fn(dec, "__init__"), "idle_timeout"))
    poll = None
    se = _fn(ext, "send_event")
    if se is not None:
        for n in ast.walk(se):
            if isinstance(n, ast.Call) and _chain(n.func) == "asyncio.sleep" and n.args and isinstance(n.args[0], ast.Constant):
                poll = n.args[0].value
    R["pollMs"] = _ms(poll)
    R["dbos_send"] = shape(se, notes, "DBOSIdleReleaseExternalRunAdapter.send_event")
    R["dbos_release"] = shape(_fn(dec, "_release_idle_handler"), notes, "DBOSIdleReleaseDecorator._release_idle_handler")
    R["dbos_mark_released"] = shape(_fn(dec, "_await_and_mark_released"), notes, "DBOSIdleReleaseDecorator._await_and_mark_released")
    R["dbos_deferred"] = shape(_fn(dec, "_deferred_release"), notes, "DBOSIdleReleaseDecorator._deferred_release")
    R["dbos_resume"] = shape(_fn(dec, "_do_resume"), notes, "DBOSIdleReleaseDecorator._do_resume")
    R["dbos_write"] = shape(_fn(inn, "write_to_event_stream"), notes, "_DBOSIdleReleaseInternalRunAdapter.write_to_event_stream")
    R["dbos_wait_receive"] = shape(_fn(inn, "wait_receive"), notes, "_DBOSIdleReleaseInternalRunAdapter.wait_receive")
    R["createSites"] = _create_call_sites(notes)
    # --- in-process decorator
    idec = _cls(ir, "IdleReleaseDecorator")
    iext = _cls(ir, "IdleReleaseExternalRunAdapter")
    iinn = _cls(ir, "_IdleReleaseInternalRunAdapter")
    R["idleDefaultMs"] = _ms(_default_arg(_fn(idec, "__init__"), "idle_timeout"))
    R["ir_write"] = shape(_fn(iinn, "write_to_event_stream"), notes, "_IdleReleaseInternalRunAdapter.write_to_event_stream")
    R["ir_send"] = shape(_fn(iext, "send_event"), notes, "IdleReleaseExternalRunAdapter.send_event")
    R["ir_release"] = shape(_fn(idec, "_release_idle_handler"), notes, "IdleReleaseDecorator._release_idle_handler")
    R["ir_deferred"] = shape(_fn(idec, "_deferred_release"), notes, "IdleReleaseDecorator._deferred_release")
    R["ir_reload"] = shape(_fn(idec, "_ensure_active_run_locked"), notes, "IdleReleaseDecorator._ensure_active_run_locked")
    R["ir_run_workflow"] = shape(_fn(idec, "run_workflow"), notes, "IdleReleaseDecorator.run_workflow")
    # the elapsed test: `if elapsed < self._idle_timeout: return`
    cmp_ = MISSING_STR
    rel = _fn(idec, "_release_idle_handler")
    if rel is not None:
        for n in ast.walk(rel):
            if isinstance(n, ast.If) and isinstance(n.test, ast.Compare) and len(n.test.ops) == 1 \
                    and any(isinstance(x, ast.Attribute) and x.attr == "_idle_timeout" for x in ast.walk(n.test)) \
                    and any(isinstance(b, ast.Return) for b in n.body):
                left_is_timeout = any(isinstance(x, ast.Attribute) and x.attr == "_idle_timeout" for x in ast.walk(n.test.left))
                op = type(n.test.ops[0]).__name__
                flip = {"Lt": "Gt", "LtE": "GtE", "Gt": "Lt", "GtE": "LtE"}
                cmp_ = flip.get(op, op) if left_is_timeout else op
    if cmp_ == MISSING_STR:
        notes.append("gen/lifecycle: elapsed test of _release_idle_handler not found")
    R["elapsedCmp"] = cmp_
    return R


_CMP = {"Lt": "a < b", "LtE": "a ≤ b", "Gt": "a > b", "GtE": "a ≥ b", "Eq": "a == b", "NotEq": "a != b"}


def _lean_list(xs: list[str]) -> str:
    return "[" + ", ".join(lean_str(x) for x in xs) + "]"


def generate(notes: list[str]) -> list[str]:
    """the constants the executable model computes with (a change here rebuilds model and proofs)"""
    R = extract(notes)
    L = ["namespace GenLifecycle", ""]
    L.append("/-- `RunLifecycleState` member names, in declaration order, and their string values -/")
    L.append(f"def stateNames : List String := {_lean_list([n for n, _ in R['states']])}")
    L.append(f"def stateValues : List String := {_lean_list([v for _, v in R['states']])}")
    L.append("")
    d = R["sqlite"]
    L.append("/-! states bound to the placeholders of the SQLite lock's CAS statements -/")
    for m in ("create", "begin", "complete"):
        L.append(f"def sqlite_{m}_to : String := {lean_str(d[m]['to'])}")
        L.append(f"def sqlite_{m}_from : String := {lean_str(d[m]['from'])}")
    r = d["resume"]
    L.append(f"def sqlite_resume_to : String := {lean_str(r['to'])}")
    L.append(f"def sqlite_resume_returnsWin : String := {lean_str(r['returnsWin'])}")
    L.append(f"def sqlite_resume_returnsBusy : String := {lean_str(r['returnsBusy'])}")
    L.append("")
    cmp_src = r["cmp"]
    L.append("/-- the crash-timeout comparison of `try_begin_resume` (`a` = time since `updated_at`, `b` = timeout), as written in the SQLite lock -/")
    L.append(f"def crashExpired (a b : Nat) : Bool := {_CMP.get(cmp_src, 'false /- unknown comparison -/')}")
    L.append(f"def crashTimeoutMs : Nat := {R['crashTimeoutMs']}")
    L.append("")
    L.append("/-- `_release_idle_handler` returns without releasing when `elapsedTooShort elapsed idle_timeout` -/")
    L.append(f"def elapsedCmp : String := {lean_str(R['elapsedCmp'])}")
    L.append(f"def elapsedTooShort (a b : Nat) : Bool := {_CMP.get(R['elapsedCmp'], 'true /- unknown comparison -/')}")
    L.append("")
    L.append("end GenLifecycle")
    return L


def generate_shape(notes: list[str]) -> list[str]:
    """SQL text, control shapes, defaults and call sites: mentioned by the property theorems only"""
    R = extract(notes)
    L = ["namespace GenLifecycleShape", ""]
    L.append(f"def tableName : String := {lean_str(R['table'])}")
    L.append("")
    for key in ("sqlite", "pg"):
        d = R[key]
        L.append(f"/-! {key} lock -/")
        for m in ("create", "begin", "complete"):
            L.append(f"def {key}_{m}_sql : String := {lean_str(d[m]['sql'])}")
            L.append(f"def {key}_{m}_to : String := {lean_str(d[m]['to'])}")
            L.append(f"def {key}_{m}_from : String := {lean_str(d[m]['from'])}")
        r = d["resume"]
        L.append(f"def {key}_resume_select : String := {lean_str(r['select'])}")
        L.append(f"def {key}_resume_update : String := {lean_str(r['update'])}")
        L.append(f"def {key}_resume_to : String := {lean_str(r['to'])}")
        L.append(f"def {key}_resume_pred : String := {lean_str(r['pred'])}")
        L.append(f"def {key}_resume_forUpdate : Bool := {'true' if r['forUpdate'] else 'false'}")
        L.append(f"def {key}_resume_cmp : String := {lean_str(r['cmp'])}")
        L.append(f"def {key}_resume_noRowNone : Bool := {'true' if r['noRowNone'] else 'false'}")
        L.append(f"def {key}_resume_passIfActive : Bool := {'true' if r['passIfActive'] else 'false'}")
        L.append(f"def {key}_resume_takeIfReleased : Bool := {'true' if r['takeIfReleased'] else 'false'}")
        L.append(f"def {key}_resume_returnsWin : String := {lean_str(r['returnsWin'])}")
        L.append(f"def {key}_resume_returnsBusy : String := {lean_str(r['returnsBusy'])}")
        L.append(f"def {key}_shape_resume : List String := {_lean_list(d['shape_resume'])}")
        L.append(f"def {key}_shape_begin : List String := {_lean_list(d['shape_begin'])}")
        L.append("")
    L.append(f"def pollMs : Nat := {R['pollMs']}")
    L.append(f"def dbosIdleDefaultMs : Nat := {R['dbosIdleDefaultMs']}")
    L.append(f"def idleDefaultMs : Nat := {R['idleDefaultMs']}")
    L.append("")
    L.append("/-- production call sites of `RunLifecycleLock.create` (packages/*/src) -/")
    L.append(f"def createCallSites : List String := {_lean_list(R['createSites'])}")
    L.append("")
    for k in ("ir_write", "ir_send", "ir_release", "ir_deferred", "ir_reload", "ir_run_workflow",
              "dbos_send", "dbos_release", "dbos_mark_released", "dbos_deferred", "dbos_resume", "dbos_write", "dbos_wait_receive"):
        L.append(f"def shape_{k} : List String := {_lean_list(R[k])}")
    L.append("")
    L.append("end GenLifecycleShape")
    return L
