"""Shared check runner: Lean build + axiom audit (T), correspondence (K),
implementation-side search (S), verdict, evidence.  See DESIGN.md section 2.2.
"""
from __future__ import annotations

import hashlib
import importlib
import json
import os
import random
import re
import subprocess
import sys
import time
import traceback
from dataclasses import dataclass, field
from typing import Any, Callable, Iterable

from .boot import REPO, VERIF, boot

LEAN_DIR = os.path.join(VERIF, "lean")
# evidence for the registered checks is only ever written from runs against /repo itself; runs against a
# scratch tree (VERIF_REPO=..., mutant testing) go to evidence/scratch (git-ignored)
EVID_DIR = os.path.join(VERIF, "evidence") if os.path.realpath(REPO) == "/repo" else os.path.join(VERIF, "evidence", "scratch")
REPLAY_DIR = os.path.join(EVID_DIR, "replays")
DRIVER_BIN = os.path.join(LEAN_DIR, ".lake", "build", "bin", "wfdriver")
ALLOWED_AXIOMS = {"propext", "Classical.choice", "Quot.sound"}
FORBIDDEN = re.compile(
    r"\bsorry\b|\badmit\b|^\s*axiom\s|native_decide|bv_decide|implemented_by|\bunsafe\s|maxHeartbeats\s+0\b"
)

TRUSTED_BASE = [
    "Lean 4.33.0 kernel; axioms limited to propext, Classical.choice, Quot.sound (audited per theorem on every run)",
    "hand-written Lean models in /verif/lean/WfModel, tied to /repo by the correspondence runs of this check",
    "harness/translate.py (AST/SQL extraction of constants and tables into WfModel/Generated.lean)",
    "Python correspondence harness, canonicalisers and monitors under /verif/harness",
    "CPython 3.12 (asyncio, re, json, sqlite3), pydantic",
    "import shims under /verif/pyshims (llama_index_instrumentation: tracing has no functional effect)",
]


# --------------------------------------------------------------------------
# results produced by a property module


@dataclass
class Violation:
    signature: str  # e.g. "C03/idle_with_pending_retry_timer"
    what: str
    replay: Any  # JSON-serialisable payload that re-creates the case


@dataclass
class Divergence:
    """First disagreement between model and implementation on one op stream."""

    model: str  # which correspondence (model name)
    index: int
    op: str
    model_out: str
    impl_out: str
    context: Any = None


@dataclass
class Outcome:
    evaluations: int = 0
    distinct: set = field(default_factory=set)
    traces_validated: int = 0
    disagreements_checked: int = 0
    samples: list = field(default_factory=list)
    distribution: dict = field(default_factory=dict)
    violations: list[Violation] = field(default_factory=list)
    divergences: list[Divergence] = field(default_factory=list)
    known_reproduced: list[str] = field(default_factory=list)  # signatures
    notes: list[str] = field(default_factory=list)
    rule: str = ""

    def count(self, key: str, n: int = 1) -> None:
        self.distribution[key] = self.distribution.get(key, 0) + n

    def nontrivial(self, case: Any) -> None:
        self.distinct.add(hashlib.sha1(repr(case).encode()).hexdigest())

    def sample(self, s: Any, cap: int = 6) -> None:
        if len(self.samples) < cap:
            self.samples.append(s)


@dataclass
class Env:
    prop: str
    tier: str
    seed: int
    deep: bool  # T or K broke: widen the search for a failing input
    rng: random.Random
    replay: Any = None

    def budget(self, quick: int, thorough: int | None = None) -> int:
        n = quick if self.tier == "quick" else (thorough if thorough is not None else quick * 20)
        return n * 10 if self.deep else n


# --------------------------------------------------------------------------
# Lean side


def _unlimit_as() -> None:
    """child-side: the address-space limit of harness/cli.py is meant for generated Python runs; Lean reserves a large
    virtual range per thread and dies with 'failed to create thread' (exit 134) under it whenever a module must be rebuilt"""
    try:
        import resource

        hard = resource.getrlimit(resource.RLIMIT_AS)[1]
        resource.setrlimit(resource.RLIMIT_AS, (hard, hard))
    except Exception:
        pass


def _run(cmd: list[str], cwd: str, timeout: int = 3600, input_text: str | None = None) -> subprocess.CompletedProcess:
    return subprocess.run(
        cmd, cwd=cwd, input=input_text, capture_output=True, text=True, timeout=timeout, preexec_fn=_unlimit_as
    )


def lean_build(targets: list[str]) -> tuple[bool, str]:
    p = _run(["lake", "build", *targets], LEAN_DIR)
    return p.returncode == 0, (p.stdout + p.stderr)


def first_broken_theorem(build_output: str) -> str:
    """Name the theorem (or file:line) of the first Lean error."""
    m = re.search(r"error: ([^\s:]+\.lean):(\d+):(\d+):\s*(.*)", build_output)
    if not m:
        lines = [l for l in build_output.splitlines() if "error" in l.lower()]
        return lines[0][:300] if lines else "lake build failed"
    path, line, _col, msg = m.group(1), int(m.group(2)), m.group(3), m.group(4)
    full = path if os.path.isabs(path) else os.path.join(LEAN_DIR, path)
    name = None
    try:
        src = open(full).read().splitlines()
        for i in range(min(line, len(src)) - 1, -1, -1):
            mm = re.match(r"\s*(?:private\s+|protected\s+)?(?:theorem|lemma|def|example|instance|abbrev)\s+([^\s:(\[{]+)", src[i])
            if mm:
                name = mm.group(1)
                break
    except OSError:
        pass
    return f"{name or '?'} ({os.path.relpath(full, LEAN_DIR)}:{line}: {msg[:200]})"


LEANCHECKER: list[str] = ["not run (quick tier)"]


def audit_axioms(module: str, theorems: list[str]) -> tuple[dict[str, list[str]], str]:
    """#print axioms for each theorem -> {theorem: [axioms]} ; missing => not proved."""
    os.makedirs(os.path.join(LEAN_DIR, ".audit"), exist_ok=True)
    path = os.path.join(LEAN_DIR, ".audit", module.replace(".", "_") + ".lean")
    with open(path, "w") as f:
        f.write(f"import {module}\n")
        for t in theorems:
            f.write(f"#print axioms {t}\n")
    p = _run(["lake", "env", "lean", path], LEAN_DIR)
    out = p.stdout + p.stderr
    res: dict[str, list[str]] = {}
    flat = re.sub(r"\s+", " ", out)
    for t in theorems:
        m = re.search(r"'" + re.escape(t) + r"' depends on axioms: \[([^\]]*)\]", flat)
        if m:
            res[t] = [a.strip() for a in m.group(1).split(",") if a.strip()]
        elif re.search(r"'" + re.escape(t) + r"' does not depend on any axioms", flat):
            res[t] = []
    return res, out


def grep_forbidden(files: Iterable[str]) -> list[str]:
    hits = []
    for fp in files:
        try:
            text = open(fp).read()
        except OSError:
            continue
        # strip block and line comments
        text_nc = re.sub(r"/-.*?-/", lambda m: "\n" * m.group(0).count("\n"), text, flags=re.S)
        for i, line in enumerate(text_nc.splitlines(), 1):
            code = line.split("--", 1)[0]
            if FORBIDDEN.search(code):
                hits.append(f"{os.path.relpath(fp, LEAN_DIR)}:{i}: {line.strip()[:120]}")
    return hits


def lean_sources() -> list[str]:
    out = []
    for root, _dirs, files in os.walk(LEAN_DIR):
        if ".lake" in root or ".audit" in root:
            continue
        for fn in files:
            if fn.endswith(".lean"):
                out.append(os.path.join(root, fn))
    return out


class Driver:
    """One batch call to the compiled model driver: lines in, lines out."""

    def __init__(self, model: str):
        self.model = model

    def run(self, lines: list[str], timeout: int = 1800) -> list[str]:
        if not os.path.exists(DRIVER_BIN):
            raise RuntimeError("wfdriver is not built")
        text = "\n".join(lines) + "\n"
        p = _run([DRIVER_BIN, self.model], LEAN_DIR, timeout=timeout, input_text=text)
        if p.returncode != 0:
            raise RuntimeError(f"wfdriver {self.model} failed: {p.stderr[:500]}")
        out = p.stdout.split("\n")
        if out and out[-1] == "":
            out.pop()
        return out


def diff_streams(model: str, ops: list[str], model_out: list[str], impl_out: list[str], context: Any = None) -> Divergence | None:
    n = min(len(model_out), len(impl_out))
    for i in range(n):
        if model_out[i] != impl_out[i]:
            return Divergence(model, i, ops[i] if i < len(ops) else "?", model_out[i], impl_out[i], context)
    if len(model_out) != len(impl_out):
        return Divergence(model, n, ops[n] if n < len(ops) else "<end>",
                          model_out[n] if n < len(model_out) else "<missing>",
                          impl_out[n] if n < len(impl_out) else "<missing>", context)
    return None


# --------------------------------------------------------------------------
# known findings


def load_known() -> list[dict]:
    """known_findings.json plus known_findings.d/*.json (same format); committed, never written at run time."""
    res: list[dict] = []
    p = os.path.join(VERIF, "known_findings.json")
    if os.path.exists(p):
        res += json.load(open(p))["findings"]
    d = os.path.join(VERIF, "known_findings.d")
    if os.path.isdir(d):
        for fn in sorted(os.listdir(d)):
            if fn.endswith(".json"):
                res += json.load(open(os.path.join(d, fn)))["findings"]
    return res


# --------------------------------------------------------------------------
# main entry


def write_replay(prop: str, seed: int, kind: str, payload: Any, tag: str = "") -> str:
    os.makedirs(REPLAY_DIR, exist_ok=True)
    name = f"{prop}-{seed}{('-' + tag) if tag else ''}.json"
    path = os.path.join(REPLAY_DIR, name)
    with open(path, "w") as f:
        json.dump({"property": prop, "seed": seed, "kind": kind, "payload": payload}, f, indent=1, default=repr)
    return os.path.relpath(path, VERIF)


def _raised_in_repo(tb: str) -> bool:
    """does the innermost frame of the traceback lie in the checked product tree (not in the harness / stdlib)?"""
    from .boot import REPO
    root = os.path.realpath(REPO) + os.sep
    frames = [l.strip() for l in tb.splitlines() if l.strip().startswith('File "')]
    own = [f for f in frames if "/lib/python" not in f and "site-packages" not in f]
    if not own:
        return False
    last = own[-1].split('"')[1]
    return os.path.realpath(last).startswith(root)


def run_check(prop: str, tier: str, seed: int, replay_path: str | None = None) -> int:
    t0 = time.time()
    boot()
    mod = importlib.import_module(f"harness.props.{prop.lower()}")
    from . import translate

    # ---- (T) regenerate + build + audit (serialised: checks may run concurrently)
    import fcntl

    os.makedirs(LEAN_DIR, exist_ok=True)
    _lock = open(os.path.join(LEAN_DIR, ".verif.lock"), "w")
    fcntl.flock(_lock, fcntl.LOCK_EX)
    gen_notes = translate.generate()
    targets = list(getattr(mod, "LEAN_TARGETS", [f"WfProps.{prop}"])) + ["wfdriver"]
    ok, out = lean_build(targets)
    t_fail: str | None = None
    axioms: dict[str, list[str]] = {}
    theorems: list[str] = list(mod.THEOREMS)
    if not ok:
        t_fail = first_broken_theorem(out)
        # the driver may still be buildable from models alone
        if not os.path.exists(DRIVER_BIN):
            lean_build(["wfdriver"])
    else:
        axioms, audit_out = audit_axioms(f"WfProps.{prop}", theorems)
        for t in theorems:
            if t not in axioms:
                t_fail = f"{t} (not found by #print axioms: {audit_out.strip()[:200]})"
                break
            extra = set(axioms[t]) - ALLOWED_AXIOMS
            if extra:
                t_fail = f"{t} (depends on disallowed axioms {sorted(extra)})"
                break
        hits = grep_forbidden(lean_sources())
        if hits and t_fail is None:
            t_fail = f"forbidden token in Lean sources: {hits[0]}"
        if tier == "thorough" and t_fail is None:
            # independent re-check of the compiled property module (and what it imports) by the toolchain's kernel re-checker
            try:
                lc = _run(["lake", "env", "leanchecker", f"WfProps.{prop}"], LEAN_DIR, timeout=1800)
                LEANCHECKER[0] = "ok" if lc.returncode == 0 else f"rejected: {(lc.stdout + lc.stderr).strip()[-300:]}"
                if lc.returncode != 0:
                    t_fail = f"leanchecker rejected WfProps.{prop}: {(lc.stdout + lc.stderr).strip()[-200:]}"
            except Exception as e:  # noqa: BLE001 - tool missing / timeout: recorded, not fatal
                LEANCHECKER[0] = f"not run: {type(e).__name__}"
    discharged = 0 if not ok else sum(1 for t in theorems if t in axioms and set(axioms[t]) <= ALLOWED_AXIOMS)
    fcntl.flock(_lock, fcntl.LOCK_UN)
    _lock.close()

    # ---- (K)+(S)
    replay_payload = None
    if replay_path:
        replay_payload = json.load(open(replay_path))
    env = Env(prop=prop, tier=tier, seed=seed, deep=False, rng=random.Random(seed), replay=replay_payload)
    harness_error: str | None = None
    try:
        outcome: Outcome = mod.run(env)
    except Exception:
        harness_error = traceback.format_exc()
        outcome = Outcome()
    if harness_error is None and (t_fail or outcome.divergences) and not _unlisted(prop, outcome):
        # widen the search before giving up on a concrete failing input
        env2 = Env(prop=prop, tier=tier, seed=seed + 7919, deep=True, rng=random.Random(seed + 7919))
        try:
            o2: Outcome = mod.run(env2)
            outcome = _merge(outcome, o2)
        except Exception:
            harness_error = traceback.format_exc()

    # ---- verdict
    lines: list[str] = []
    exit_code = 0
    unlisted = _unlisted(prop, outcome)
    known = {k["signature"]: k for k in load_known() if k["property"] == prop and k.get("status", "open") == "open"}
    if harness_error is not None and (t_fail or _raised_in_repo(harness_error)):
        # the correspondence could not be run at all: either a proof obligation was already broken, or the exception
        # comes out of the implementation's own code (the harness' assumptions about it no longer hold).  That is a
        # broken tie, not a crash of the machinery: report it like any other unproved state.
        sys.stderr.write(harness_error)
        payload = {"theorem_broken": t_fail, "divergence": [],
                   "correspondence_broken": harness_error.strip().splitlines()[-1][:300],
                   "traceback_tail": harness_error.strip().splitlines()[-14:],
                   "note": "the correspondence run stopped with an exception; no failing input could be searched for"}
        path = write_replay(prop, seed, "theorem" if t_fail else "correspondence", payload, tag="unproved")
        lines.append(f"VIOLATION property={prop} replay={path} no-failing-input-found")
        exit_code = 1
    elif harness_error is not None:
        sys.stderr.write(harness_error)
        lines.append(f"HARNESS-ERROR property={prop}")
        exit_code = 2
    elif unlisted:
        v = unlisted[0]
        path = write_replay(prop, seed, "input", {"signature": v.signature, "what": v.what, "case": v.replay,
                                                   "theorem_broken": t_fail,
                                                   "divergence": _div_json(outcome.divergences[:1])})
        lines.append(f"VIOLATION property={prop} replay={path}")
        exit_code = 1
    elif t_fail or outcome.divergences:
        payload = {"theorem_broken": t_fail, "divergence": _div_json(outcome.divergences[:3]),
                   "note": "proof obligation or correspondence no longer checks; widened search found no failing input on the implementation"}
        path = write_replay(prop, seed, "theorem" if t_fail else "correspondence", payload, tag="unproved")
        lines.append(f"VIOLATION property={prop} replay={path} no-failing-input-found")
        exit_code = 1
    else:
        for sig in sorted(set(outcome.known_reproduced)):
            if sig in known:
                lines.append(f"KNOWN-FINDING: property={prop} {sig}: {known[sig]['what']}")

    # ---- evidence
    wall = time.time() - t0
    ev = {
        "property_id": prop,
        "tier": tier,
        "seed": seed,
        "level": "proof",
        "coverage": {
            "obligations": len(theorems),
            "discharged": discharged,
            "checker_cmd": f"cd lean && lake build {' '.join(targets)} && lake env lean .audit/WfProps_{prop}.lean  # #print axioms per theorem",
            "trusted_base": TRUSTED_BASE + list(getattr(mod, "TRUSTED_EXTRA", [])),
            "theorems": {t: axioms.get(t) for t in theorems},
            "theorem_broken": t_fail,
            "leanchecker": LEANCHECKER[0],
            "evaluations": outcome.evaluations,
            "distinct_nontrivial": len(outcome.distinct),
            "rule": outcome.rule,
            "traces_validated_against_impl": outcome.traces_validated,
            "disagreements_checked": outcome.disagreements_checked,
            "divergences": _div_json(outcome.divergences[:3]),
            "input_distribution": outcome.distribution,
            "samples": outcome.samples or [{"theorems": theorems}],
            "known_findings_reproduced": sorted(set(outcome.known_reproduced)),
            "generated": gen_notes,
            "explanation": getattr(mod, "EXPLANATION", ""),
            "notes": outcome.notes,
        },
        "assumptions": list(getattr(mod, "ASSUMPTIONS", [])),
        "wall_s": round(wall, 2),
        "violations": len(unlisted) + (1 if (exit_code == 1 and not unlisted) else 0),
    }
    os.makedirs(EVID_DIR, exist_ok=True)
    with open(os.path.join(EVID_DIR, f"{prop}.json"), "w") as f:
        json.dump(ev, f, indent=1, default=repr)
    for l in lines:
        print(l)
    print(f"{prop}: tier={tier} seed={seed} theorems={discharged}/{len(theorems)} evals={outcome.evaluations} "
          f"distinct={len(outcome.distinct)} divergences={len(outcome.divergences)} "
          f"violations={len(unlisted)} known={len(set(outcome.known_reproduced))} wall={wall:.1f}s exit={exit_code}")
    return exit_code


def _unlisted(prop: str, outcome: Outcome) -> list[Violation]:
    known = {k["signature"] for k in load_known() if k["property"] == prop and k.get("status", "open") == "open"}
    res = []
    for v in outcome.violations:
        if v.signature in known:
            if v.signature not in outcome.known_reproduced:
                outcome.known_reproduced.append(v.signature)
        else:
            res.append(v)
    return res


def _merge(a: Outcome, b: Outcome) -> Outcome:
    a.evaluations += b.evaluations
    a.distinct |= b.distinct
    a.traces_validated += b.traces_validated
    a.disagreements_checked += b.disagreements_checked
    a.violations += b.violations
    a.divergences += b.divergences
    a.known_reproduced += b.known_reproduced
    a.notes += b.notes
    for k, v in b.distribution.items():
        a.distribution[k] = a.distribution.get(k, 0) + v
    return a


def _div_json(ds: list[Divergence]) -> list[dict]:
    return [{"model": d.model, "index": d.index, "op": d.op, "model_out": d.model_out, "impl_out": d.impl_out,
             "context": d.context} for d in ds]
