import WfModel.EventSerial
import WfProofs.EventSerialDict
/-! Helper definitions and lemmas for M8: well-formed classes / instances and the
`model_dump` → `model_validate` round trip of one instance. -/
namespace EventSerial

/-- the typed values of an instance are the dumped forms of valid values of the declared
fields, in declaration order -/
def typedConforms (xenv : XEnv) : List Field → Dict → Bool
  | [], [] => true
  | f :: fs, (k, v) :: kvs => f.name == k && conforms xenv f.ty v && typedConforms xenv fs kvs
  | _, _ => false

/-- names a typed field cannot have: pydantic makes `_x` a private attribute, and `self`
cannot be passed to `__init__` -/
def reservedNames : List String := ["_data", "_result", "self"]

/-- a class pydantic accepts and whose instances can be built: distinct field names, none
reserved; a `StopEvent` subclass does not redeclare `result` (pydantic warns: it shadows
the `result` property, and `StopEvent.__init__` swallows the keyword) -/
def Shape.wf (c : Shape) : Bool :=
  decide c.fieldNames.Nodup && reservedNames.all (fun k => !c.fieldNames.contains k)
    && (c.kind != .stop || !c.fieldNames.contains "result") && c.name != ""

/-- an instance that exists: validated typed fields; only `StopEvent`s carry a result; only
`Event`s carry dynamic fields -/
def Inst.wf (xenv : XEnv) (e : Inst) : Bool :=
  e.cls.wf && typedConforms xenv e.cls.fields e.typed
    && (e.cls.kind == .stop || e.result.isNull) && (e.cls.kind != .plain || e.data.isEmpty)

theorem keys_of_typedConforms (xenv : XEnv) : ∀ (fs : List Field) (kvs : Dict),
    typedConforms xenv fs kvs = true → keys kvs = fs.map (·.name)
  | [], [], _ => rfl
  | [], _ :: _, h => by simp [typedConforms] at h
  | _ :: _, [], h => by simp [typedConforms] at h
  | f :: fs, (k, v) :: kvs, h => by
    simp only [typedConforms, Bool.and_eq_true, beq_iff_eq] at h
    simp only [keys, List.map_cons, h.1.1]
    congr 1
    exact keys_of_typedConforms xenv fs kvs h.2

theorem validateFields_ok (xenv : XEnv) (given : Dict) : ∀ (fs : List Field) (kvs : Dict),
    typedConforms xenv fs kvs = true → (∀ kv ∈ kvs, dget given kv.1 = some kv.2) →
    validateFields xenv fs given = .ok kvs
  | [], [], _, _ => rfl
  | [], _ :: _, h, _ => by simp [typedConforms] at h
  | _ :: _, [], h, _ => by simp [typedConforms] at h
  | f :: fs, (k, v) :: kvs, h, hg => by
    simp only [typedConforms, Bool.and_eq_true, beq_iff_eq] at h
    obtain ⟨⟨hk, hc⟩, hrest⟩ := h
    subst hk
    have h1 : dget given f.name = some v := hg (f.name, v) (List.mem_cons_self ..)
    have h2 : validate xenv f.ty v = some v := by
      simpa [conforms] using hc
    have ih := validateFields_ok xenv given fs kvs hrest (fun kv hm => hg kv (List.mem_cons_of_mem _ hm))
    simp [validateFields, h1, h2, ih, Except.map]

/-- the part of the dump that carries `_data` -/
def dataPart (e : Inst) : Dict := if e.data.isEmpty then [] else [("_data", .obj e.data)]
/-- the part of the dump that carries `result` -/
def resultPart (e : Inst) : Dict := if e.result.isNull then [] else [("result", e.result)]

theorem wf_not_mem (c : Shape) (h : c.wf = true) :
    "_data" ∉ c.fieldNames ∧ "_result" ∉ c.fieldNames ∧ "self" ∉ c.fieldNames ∧
    (c.kind = .stop → "result" ∉ c.fieldNames) ∧ c.fieldNames.Nodup ∧ c.name ≠ "" := by
  simp only [Shape.wf, reservedNames, List.all_cons, List.all_nil, Bool.and_true, Bool.and_eq_true,
    decide_eq_true_eq, Bool.not_eq_true', Bool.or_eq_true, bne_iff_ne, ne_eq] at h
  obtain ⟨⟨⟨hn, h1, h2, h3⟩, h4⟩, h5⟩ := h
  refine ⟨?_, ?_, ?_, ?_, hn, h5⟩
  · simpa using h1
  · simpa using h2
  · simpa using h3
  · intro hk
    rcases h4 with h4 | h4
    · exact absurd hk h4
    · simpa using h4

theorem dumpModel_event (e : Inst) (hk : e.cls.kind = .event) (h : "_data" ∉ keys e.typed) :
    dumpModel e = e.typed ++ dataPart e := by
  simp only [dumpModel, hk, dataPart]
  split
  · simp
  · rw [dset_of_not_mem _ _ _ h]

theorem dumpModel_stop (e : Inst) (hk : e.cls.kind = .stop) (h : "_data" ∉ keys e.typed)
    (h2 : "result" ∉ keys e.typed) :
    dumpModel e = e.typed ++ dataPart e ++ resultPart e := by
  simp only [dumpModel, hk, dataPart, resultPart]
  by_cases hd : e.data.isEmpty = true <;> by_cases hr : e.result.isNull = true
  · simp [hd, hr]
  · simp only [hd, hr, if_true, if_false, List.append_nil]
    rw [dset_of_not_mem _ _ _ h2]; simp
  · simp only [hd, hr, if_true, if_false, List.append_nil]
    rw [dset_of_not_mem _ _ _ h]; simp
  · simp only [hd, hr]
    rw [dset_of_not_mem _ _ _ h, dset_of_not_mem]
    · simp
    · simp only [Bool.false_eq_true, if_false, keys_append, List.mem_append, not_or]
      exact ⟨h2, by simp [keys]⟩


theorem isNull_eq (j : Json) (h : j.isNull = true) : j = .null := by
  cases j <;> simp [Json.isNull] at h ⊢

theorem contains_false_of_not_mem (l : List String) (k : String) (h : k ∉ l) : l.contains k = false := by
  simpa using h

/-- the `__init__` partition applied to a dump: the typed part, surrounded by entries none of
which is a field name -/
theorem dictInit_dump (xenv : XEnv) (c : Shape) (pre typed extras : Dict) (priv : List String)
    (hn : c.fieldNames.Nodup) (ht : typedConforms xenv c.fields typed = true)
    (hpre : ∀ k ∈ keys pre, k ∉ c.fieldNames)
    (hex : ∀ k ∈ keys extras, k ∉ c.fieldNames) :
    dictInit xenv c (pre ++ (typed ++ extras)) priv =
      setPrivate c typed ((pre ++ extras).filter (fun kv => priv.contains kv.1))
        ((pre ++ extras).filter (fun kv => !priv.contains kv.1)) := by
  have hkeys : keys typed = c.fieldNames := keys_of_typedConforms xenv _ _ ht
  have hf1 : typed.filter (fun kv => c.fieldNames.contains kv.1) = typed :=
    filter_keys_all typed (fun k => c.fieldNames.contains k) (by
      intro k hk; rw [hkeys] at hk; simpa using hk)
  have hf2 : extras.filter (fun kv => c.fieldNames.contains kv.1) = [] :=
    filter_keys_none extras (fun k => c.fieldNames.contains k) (by
      intro k hk; exact contains_false_of_not_mem _ _ (hex k hk))
  have hf2' : pre.filter (fun kv => c.fieldNames.contains kv.1) = [] :=
    filter_keys_none pre (fun k => c.fieldNames.contains k) (by
      intro k hk; exact contains_false_of_not_mem _ _ (hpre k hk))
  have hf3 : typed.filter (fun kv => !c.fieldNames.contains kv.1) = [] :=
    filter_keys_none typed (fun k => !c.fieldNames.contains k) (by
      intro k hk; rw [hkeys] at hk; simpa using hk)
  have hf4 : extras.filter (fun kv => !c.fieldNames.contains kv.1) = extras :=
    filter_keys_all extras (fun k => !c.fieldNames.contains k) (by
      intro k hk; simpa using hex k hk)
  have hf4' : pre.filter (fun kv => !c.fieldNames.contains kv.1) = pre :=
    filter_keys_all pre (fun k => !c.fieldNames.contains k) (by
      intro k hk; simpa using hpre k hk)
  have hv : validateFields xenv c.fields typed = .ok typed :=
    validateFields_ok xenv typed c.fields typed ht (fun kv hm =>
      dget_of_mem_nodup typed (by rw [hkeys]; exact hn) kv hm)
  simp only [dictInit, List.filter_append, hf1, hf2, hf2', hf3, hf4, hf4', List.append_nil, List.nil_append, hv]

theorem modelValidate_dump (xenv : XEnv) (e : Inst) (h : e.wf xenv = true) :
    modelValidate xenv e.cls (.obj (dumpModel e)) = .ok e := by
  obtain ⟨c, typed, data, result⟩ := e
  simp only [Inst.wf, Bool.and_eq_true, Bool.or_eq_true, beq_iff_eq, bne_iff_ne, ne_eq] at h
  obtain ⟨⟨⟨hc, ht⟩, hres⟩, hdat⟩ := h
  obtain ⟨n1, n2, n3, n4, hn, _⟩ := wf_not_mem c hc
  have hkeys : keys typed = c.fieldNames := keys_of_typedConforms xenv _ _ ht
  cases hk : c.kind with
  | plain =>
    have hd : data = [] := by
      rcases hdat with hdat | hdat
      · exact absurd hk hdat
      · simpa using hdat
    have hr : result = .null := by
      rcases hres with hres | hres
      · rw [hk] at hres; cases hres
      · exact isNull_eq _ hres
    subst hd hr
    have hv : validateFields xenv c.fields typed = .ok typed :=
      validateFields_ok xenv typed c.fields typed ht (fun kv hm =>
        dget_of_mem_nodup typed (by rw [hkeys]; exact hn) kv hm)
    simp [modelValidate, dumpModel, hk, hv, Except.map]
  | event =>
    have hr : result = .null := by
      rcases hres with hres | hres
      · rw [hk] at hres; cases hres
      · exact isNull_eq _ hres
    subst hr
    have hdump := dumpModel_event ⟨c, typed, data, .null⟩ hk (by simpa [hkeys] using n1)
    simp only at hdump
    rw [hdump]
    have hself : dhas (typed ++ dataPart ⟨c, typed, data, .null⟩) "self" = false := by
      simp only [dhas]
      rw [dget_append_of_not_mem _ _ _ (by simpa [hkeys] using n3)]
      simp only [dataPart]; split <;> simp [dget]
    simp only [modelValidate, hk, hself]
    rw [← List.nil_append (typed ++ _), dictInit_dump xenv c [] typed _ _ hn ht (by simp [keys])]
    · simp only [dataPart, Gen.EventSerial.dictPrivate, setPrivate]
      by_cases hd : data.isEmpty = true
      · have : data = [] := by simpa using hd
        subst this
        simp [dget, dupdate]
      · simp [hd, dget, dupdate]
    · intro k hkm
      simp only [dataPart] at hkm
      split at hkm
      · simp [keys] at hkm
      · simp [keys] at hkm; subst hkm; exact n1
  | stop =>
    have n4' := n4 hk
    have hdump := dumpModel_stop ⟨c, typed, data, result⟩ hk (by simpa [hkeys] using n1) (by simpa [hkeys] using n4')
    simp only at hdump
    rw [hdump]
    have nk1 : "_data" ∉ keys typed := by simpa [hkeys] using n1
    have nk2 : "_result" ∉ keys typed := by simpa [hkeys] using n2
    have nk3 : "self" ∉ keys typed := by simpa [hkeys] using n3
    have nk4 : "result" ∉ keys typed := by simpa [hkeys] using n4'
    generalize hD : dataPart ⟨c, typed, data, result⟩ = D
    generalize hR : resultPart ⟨c, typed, data, result⟩ = R
    have hDk : ∀ k ∈ keys D, k = "_data" := by
      intro k hkm; subst hD; simp only [dataPart] at hkm
      split at hkm <;> simp [keys] at hkm; exact hkm
    have hRk : ∀ k ∈ keys R, k = "result" := by
      intro k hkm; subst hR; simp only [resultPart] at hkm
      split at hkm <;> simp [keys] at hkm; exact hkm
    have hself : dhas (typed ++ D ++ R) "self" = false := by
      simp only [dhas, List.append_assoc]
      rw [dget_append_of_not_mem _ _ _ nk3,
        dget_none_of_not_mem _ _ (by
          simp only [keys_append, List.mem_append, not_or]
          exact ⟨fun hm => by simpa using hDk _ hm, fun hm => by simpa using hRk _ hm⟩)]
      rfl
    have hres2 : dhas (typed ++ D ++ R) "_result" = false := by
      simp only [dhas, List.append_assoc]
      rw [dget_append_of_not_mem _ _ _ nk2,
        dget_none_of_not_mem _ _ (by
          simp only [keys_append, List.mem_append, not_or]
          exact ⟨fun hm => by simpa using hDk _ hm, fun hm => by simpa using hRk _ hm⟩)]
      rfl
    have hget : (dget (typed ++ D ++ R) "result").getD .null = result := by
      simp only [List.append_assoc]
      rw [dget_append_of_not_mem _ _ _ nk4,
        dget_append_of_not_mem _ _ _ (fun hm => by simpa using hDk _ hm)]
      subst hR
      simp only [resultPart]
      split
      · rename_i hnull; simp [dget, isNull_eq _ hnull]
      · simp [dget]
    have hdel : ddel (typed ++ D ++ R) "result" = typed ++ D := by
      simp only [ddel, List.filter_append]
      rw [filter_keys_all typed (fun k => k != "result") (by
            intro k hkm; simp only [bne_iff_ne, ne_eq]; intro e; exact nk4 (e ▸ hkm)),
          filter_keys_all D (fun k => k != "result") (by
            intro k hkm; rw [hDk k hkm]; decide),
          filter_keys_none R (fun k => k != "result") (by
            intro k hkm; rw [hRk k hkm]; decide)]
      simp
    simp only [modelValidate, hk, hself, hres2, Bool.or_self, Bool.false_eq_true, if_false, hget, hdel]
    have := dictInit_dump xenv c [("_result", result)] typed D
      (Gen.EventSerial.dictPrivate ++ Gen.EventSerial.stopPrivate) hn ht
      (by intro k hkm; simp [keys] at hkm; subst hkm; exact n2)
      (by intro k hkm; rw [hDk k hkm]; exact n1)
    simp only [List.singleton_append] at this
    rw [this]
    subst hD
    simp only [dataPart, Gen.EventSerial.dictPrivate, Gen.EventSerial.stopPrivate, setPrivate]
    by_cases hd : data.isEmpty = true
    · have : data = [] := by simpa using hd
      subst this
      simp [dget, dupdate]
    · simp [hd, dget, dupdate]

end EventSerial
