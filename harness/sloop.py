"""Scripted scheduler for real asyncio tasks.

`SLoop` is a `BaseEventLoop` that never runs by itself: callbacks scheduled with
`call_soon` (task steps, future wake-ups) pile up in `_ready` and the harness picks
which task's handle runs next, one at a time.  Each handle run is exactly one
await-free section of the task's coroutine (from one suspension point to the
next), executed by the real `asyncio.Task` / `asyncio.Future` machinery.

Time is virtual: `time()` only moves when the harness says so (`advance_to_next_timer`), which
is then one more scheduler action ("tick").  Timers (`call_later` / `call_at`, hence
`asyncio.sleep(d)`, `asyncio.timeout`, `asyncio.wait_for`) are kept by the base class in
`_scheduled`; a tick moves the clock to the earliest pending timer and runs the callbacks of
all timers due then (they are loop-internal: they resolve a future or cancel a task, i.e.
they make task sections ready, they do not run user code).  So code under test that needs a
running loop with working timers finds one, and seconds, minutes or days of virtual time can
pass between two sections.

`drive(coro)` runs one coroutine to its end as a task of this loop (set-up and read-back
calls of the harness): only that task's sections and loop-internal callbacks run, other
tasks' ready sections stay where they are.

Part of the trusted base (relies on CPython 3.12 private attributes `_ready`, `_scheduled`,
`Handle._callback`, `Handle._run`, `TimerHandle._when`, `events._set_running_loop`, and on
`__self__` of task step callbacks).
"""
from __future__ import annotations

import asyncio
import heapq
from asyncio import events
from typing import Any

START = 1000.0


class Suspended(RuntimeError):
    """a coroutine handed to `drive` is waiting for something that nothing will ever deliver"""


class SLoop(asyncio.BaseEventLoop):
    def __init__(self) -> None:
        super().__init__()
        self.errors: list[dict] = []
        self.set_exception_handler(lambda _loop, ctx: self.errors.append(ctx))
        self._vt = START

    def time(self) -> float:  # type: ignore[override]
        return self._vt

    def elapsed(self) -> float:
        return self._vt - START

    def _process_events(self, event_list: Any) -> None:  # pragma: no cover - never polled
        pass

    @staticmethod
    def owner(handle: Any) -> Any:
        return getattr(handle._callback, "__self__", None)

    def handles_of(self, task: Any) -> list:
        return [h for h in self._ready if not h._cancelled and self.owner(h) is task]

    def has_ready(self, task: Any) -> bool:
        return bool(self.handles_of(task))

    def foreign_handles(self, tasks: list) -> list:
        """ready handles that belong to none of the given tasks (should not exist)"""
        ids = {id(t) for t in tasks}
        return [h for h in self._ready if not h._cancelled and id(self.owner(h)) not in ids]

    def run_one(self, task: Any) -> bool:
        """Run the oldest ready handle of `task` (one await-free section)."""
        for h in list(self._ready):
            if h._cancelled:
                self._ready.remove(h)
                continue
            if self.owner(h) is task:
                self._ready.remove(h)
                events._set_running_loop(self)
                try:
                    h._run()
                finally:
                    events._set_running_loop(None)
                return True
        return False

    def discard_all(self) -> None:
        self._ready.clear()
        for h in list(self._scheduled):  # type: ignore[attr-defined]
            h.cancel()
        self._scheduled.clear()  # type: ignore[attr-defined]

    # ---- handles that belong to no task (done-callbacks of plain futures, gather/shield glue ...)

    def _is_task_step(self, handle: Any) -> bool:
        return isinstance(self.owner(handle), asyncio.Task)

    def run_internal(self) -> int:
        """run, oldest first, every ready handle that is not a section of a task"""
        n = 0
        while True:
            h = next((h for h in self._ready if not h._cancelled and not self._is_task_step(h)), None)
            if h is None:
                return n
            self._ready.remove(h)
            events._set_running_loop(self)
            try:
                h._run()
            finally:
                events._set_running_loop(None)
            n += 1

    # ---- virtual time

    def next_timer(self) -> float | None:
        sched = self._scheduled  # type: ignore[attr-defined]
        while sched and sched[0]._cancelled:
            h = heapq.heappop(sched)
            h._scheduled = False
            self._timer_cancelled_count = max(0, self._timer_cancelled_count - 1)  # type: ignore[attr-defined]
        return sched[0]._when if sched else None

    def advance_to_next_timer(self) -> float | None:
        """one tick: the clock jumps to the earliest pending timer; the callbacks of all timers due then
        run (in due order).  Returns the number of seconds that passed, None when no timer is pending."""
        when = self.next_timer()
        if when is None:
            return None
        before = self._vt
        if when > self._vt:
            self._vt = when
        sched = self._scheduled  # type: ignore[attr-defined]
        while True:
            nxt = self.next_timer()
            if nxt is None or nxt > self._vt:
                break
            h = heapq.heappop(sched)
            h._scheduled = False
            events._set_running_loop(self)
            try:
                h._run()
            finally:
                events._set_running_loop(None)
        self.run_internal()
        return self._vt - before

    # ---- one coroutine to its end

    def drive(self, coro: Any, allow_time: bool = True, max_ticks: int = 64) -> Any:
        """Run `coro` as a task of this loop until it is done and return its result (or raise what it raised).
        Only sections of that task and loop-internal callbacks run.  When the task waits for a timer, virtual
        time passes (`allow_time`); when it waits for anything else: `Suspended` (the task is cancelled first)."""
        task = self.create_task(coro)
        ticks = 0
        while not task.done():
            if self.run_one(task):
                continue
            if self.run_internal():
                continue
            if allow_time and ticks < max_ticks and self.advance_to_next_timer() is not None:
                ticks += 1
                continue
            task.cancel()
            for _ in range(100):
                if task.done() or not (self.run_one(task) or self.run_internal()):
                    break
            if task.done() and not task.cancelled():
                task.exception()
            raise Suspended("store coroutine suspended outside a scheduler")
        return task.result()
