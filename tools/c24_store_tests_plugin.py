"""pytest plugin: run the server package's own store tests in the sandbox.

`llama_agents.server.__init__` imports uvicorn/starlette and tests/server/conftest.py imports testcontainers, none of
which exist here.  This plugin boots the harness path setup (bare namespace packages) and puts the store classes the
tests import from `llama_agents.server` onto that namespace.  Usage (tree = /repo or a worktree):

    cd <tree>/packages/llama-agents-server && VERIF_REPO=<tree> VERIF_HOME=/verif PYTHONPATH=/verif/tools \
      /venv/bin/python -m pytest -q -p no:cacheprovider --noconftest -p c24_store_tests_plugin \
      tests/server/test_memory_workflow_store.py tests/server/test_sqlite_workflow_store.py
"""
import os, sys
sys.path.insert(0, os.environ.get("VERIF_HOME", os.path.dirname(os.path.dirname(os.path.abspath(__file__)))))
from harness.boot import boot
boot()
import llama_agents.server as S
from llama_agents.server._store.abstract_workflow_store import AbstractWorkflowStore, HandlerQuery, PersistentHandler, Status, StoredEvent, StoredTick
from llama_agents.server._store.memory_workflow_store import MemoryWorkflowStore
from llama_agents.server._store.sqlite.sqlite_workflow_store import SqliteWorkflowStore
for k, v in dict(AbstractWorkflowStore=AbstractWorkflowStore, HandlerQuery=HandlerQuery, PersistentHandler=PersistentHandler,
                 Status=Status, StoredEvent=StoredEvent, StoredTick=StoredTick, MemoryWorkflowStore=MemoryWorkflowStore,
                 SqliteWorkflowStore=SqliteWorkflowStore).items():
    setattr(S, k, v)
