import WfProofs.EngineReduce
/-!
One failed execution, one successor (C05).  A result list may leave its execution *in progress* (a stale
`collect_events` snapshot: the invocation is run again at once, same retry number) and it may *queue a retry* (a
`StepWorkerFailed` the policy grants: the invocation is run again later, retry number + 1).  Nothing in the reducer keeps
one list from doing both.  Here: which results can do which, for the guarded statement of `WfProps/C05.lean`.
-/
set_option linter.unusedSimpArgs false
set_option linter.unusedVariables false

namespace Engine

def isAddCollected : Res → Bool | .addCollected _ _ => true | _ => false
def isFailed : Res → Bool | .failed _ _ => true | _ => false

/-- a re-queued retry: the only `queueEvent` with a delay -/
def Cmd.isRetry : Cmd → Bool
  | .queueEvent _ _ (some _) => true
  | _ => false

/-- only an `AddCollectedEvent` leaves the execution in progress -/
theorem applyRes_still (cfg : Cfg) (pol : Policy) (step : Nat) (tickEv : Ev) (dc : Bool) (acc : ResAcc) (r : Res)
    (hr : isAddCollected r = false) :
    (applyRes cfg pol step tickEv dc acc r).stillInProgress = acc.stillInProgress := by
  cases r with
  | result r =>
    cases r with
    | none => rfl
    | some ev => simp only [applyRes]; split <;> rfl
  | failed exc t =>
    simp only [applyRes]
    split
    · rfl
    all_goals
      split
      · split <;> rfl
      · rfl
  | addCollected buf ev => simp [isAddCollected] at hr
  | deleteCollected buf => simp only [applyRes]; split <;> rfl
  | addWaiter wid waiterEv req timeout ty => simp only [applyRes]; split <;> rfl
  | deleteWaiter wid => simp only [applyRes]; split <;> rfl

theorem foldl_applyRes_still (cfg : Cfg) (pol : Policy) (step : Nat) (tickEv : Ev) (dc : Bool) :
    ∀ (res : List Res) (acc : ResAcc), res.all (fun r => !isAddCollected r) = true →
      (res.foldl (applyRes cfg pol step tickEv dc) acc).stillInProgress = acc.stillInProgress
  | [], acc, _ => rfl
  | r :: rs, acc, h => by
    simp only [List.all_cons, Bool.and_eq_true, Bool.not_eq_eq_eq_not, Bool.not_true] at h
    simp only [List.foldl_cons]
    rw [foldl_applyRes_still cfg pol step tickEv dc rs _ (by simpa using h.2), applyRes_still _ _ _ _ _ _ _ h.1]

/-- only a `StepWorkerFailed` queues a retry -/
theorem applyRes_noRetry (cfg : Cfg) (pol : Policy) (step : Nat) (tickEv : Ev) (dc : Bool) (acc : ResAcc) (r : Res)
    (hr : isFailed r = false) (h : acc.cmds.any Cmd.isRetry = false) :
    (applyRes cfg pol step tickEv dc acc r).cmds.any Cmd.isRetry = false := by
  cases r with
  | result r =>
    cases r with
    | none => exact h
    | some ev =>
      simp only [applyRes]
      split
      · simp [List.any_append, h, Cmd.isRetry]
      · simp only [List.any_append, h, Bool.false_or]
        split <;> simp [Cmd.isRetry]
  | failed exc t => simp [isFailed] at hr
  | addCollected buf ev =>
    simp only [applyRes]
    split
    · exact h
    split
    · simp [List.any_append, h, Cmd.isRetry]
    · exact h
  | deleteCollected buf => simp only [applyRes]; split <;> exact h
  | addWaiter wid waiterEv req timeout ty =>
    simp only [applyRes]
    split
    · exact h
    · simp only [List.any_append, h, Bool.false_or]
      cases waiterEv <;> cases timeout <;> simp [Cmd.isRetry]
  | deleteWaiter wid => simp only [applyRes]; split <;> exact h

theorem foldl_applyRes_noRetry (cfg : Cfg) (pol : Policy) (step : Nat) (tickEv : Ev) (dc : Bool) :
    ∀ (res : List Res) (acc : ResAcc), res.all (fun r => !isFailed r) = true → acc.cmds.any Cmd.isRetry = false →
      (res.foldl (applyRes cfg pol step tickEv dc) acc).cmds.any Cmd.isRetry = false
  | [], acc, _, h => h
  | r :: rs, acc, hr, h => by
    simp only [List.all_cons, Bool.and_eq_true, Bool.not_eq_eq_eq_not, Bool.not_true] at hr
    simp only [List.foldl_cons]
    exact foldl_applyRes_noRetry cfg pol step tickEv dc rs _ (by simpa using hr.2)
      (applyRes_noRetry cfg pol step tickEv dc acc r hr.1 h)

end Engine
