import WfModel.Handlers
import WfProofs.HandlerLayout
import WfModel.Serial
import WfProofs.RunnerRecovery
import WfProofs.RunnerSend
import WfProofs.EngineWaitUnrepaired
/-!
# C08 — exhausted failures route to the owning error handler within budget

* table construction (`Handlers.handlerFor`, tied to `_collect_catch_error_handlers`):
  scoped owner first, otherwise the wildcard, never for a handler step;
* routing in the reducer: an exhausted failure goes to the owning handler iff its recovery
  count on this lineage is still below `max_recoveries` (and then carries the count + 1),
  otherwise — or with no owner — the run fails with the **original** exception and a
  `WorkflowFailedEvent`;
* lineage budget (runner LTS, every schedule, fresh and resumed runs): no attempt, waiter, tick
  or timer anywhere ever carries a recovery count above a handler's budget; each entry into a
  handler raises that handler's count by exactly one; counts ride unchanged on retries, on step
  outputs and — since the repair of C08/handler_entered_beyond_budget:lineage_suspended_in_wait —
  through a suspension in `ctx.wait_for_event` (resolution, timeout, rehydration); the unrepaired
  replay (`Waiter.replayUnrepaired`) reset them (`C08_unrepaired_wait_replay_resets_budget`).

Refuted on the unchanged tree: "the same whether or not graph validation is disabled" —
with `disable_validation=True` the tables are never built (known finding
C08/validation_disabled_no_handlers, replayed on the implementation).
-/
set_option linter.unusedVariables false
open Engine Handlers

/-! ## the table -/

theorem C08.mem_claims {hs : List Decl} {t h : Nat} (hm : (t, h) ∈ claims hs) :
    ∃ d ∈ hs, d.name = h ∧ ∃ l, d.forSteps = some l ∧ t ∈ l := by
  simp only [claims, List.mem_flatMap, List.mem_map, Prod.mk.injEq] at hm
  obtain ⟨d, hd, t', ht', rfl, rfl⟩ := hm
  refine ⟨d, hd, rfl, ?_⟩
  cases hf : d.forSteps with
  | none => simp [hf] at ht'
  | some l => exact ⟨l, rfl, by simpa [hf] using ht'⟩

/-- the owner is a declared handler -/
theorem C08_owner_is_handler (steps : List Nat) (hs : List Decl) (s h : Nat)
    (hh : handlerFor steps hs s = some h) : h ∈ names hs := by
  unfold handlerFor at hh
  split at hh
  · rename_i c hc
    injection hh with hh; subst hh
    have hm := List.mem_of_find?_eq_some hc
    rw [List.mem_reverse] at hm
    obtain ⟨d, hd, hn, _⟩ := C08.mem_claims (t := c.1) (h := c.2) hm
    exact List.mem_map.mpr ⟨d, hd, hn⟩
  · split at hh
    · rename_i w hw
      split at hh
      · injection hh with hh; subst hh
        have : w ∈ wildcards hs := List.mem_of_mem_head? hw
        exact List.mem_map.mpr ⟨w, (List.mem_filter.mp this).1, rfl⟩
      · cases hh
    · cases hh

/-- **never a handler for a handler step** -/
theorem C08_never_handler_of_handler (steps : List Nat) (hs : List Decl) (hv : valid steps hs = true)
    (s h : Nat) (hh : handlerFor steps hs s = some h) : s ∉ names hs := by
  simp only [valid, Bool.and_eq_true, List.all_eq_true, decide_eq_true_eq] at hv
  obtain ⟨⟨⟨_, hcl⟩, _⟩, _⟩ := hv
  unfold handlerFor at hh
  split at hh
  · rename_i c hc
    have hm := List.mem_of_find?_eq_some hc
    have hs1 : c.1 = s := by simpa using List.find?_some hc
    rw [List.mem_reverse] at hm
    have := (hcl c hm).2
    rw [hs1] at this
    simpa using this
  · split at hh
    · split at hh
      · rename_i hcond
        simp only [Bool.and_eq_true, Bool.not_eq_true'] at hcond
        simpa using hcond.2
      · cases hh
    · cases hh

/-- **scoped owner first**: a step listed by a handler is owned by that handler -/
theorem C08_scoped_owner (steps : List Nat) (hs : List Decl) (hv : valid steps hs = true)
    (s h : Nat) (hm : (s, h) ∈ claims hs) : handlerFor steps hs s = some h := by
  simp only [valid, Bool.and_eq_true, decide_eq_true_eq] at hv
  obtain ⟨⟨_, hnd⟩, _⟩ := hv
  unfold handlerFor
  have hex : ∃ c, (claims hs).reverse.find? (fun c => c.1 == s) = some c := by
    cases hf : (claims hs).reverse.find? (fun c => c.1 == s) with
    | some c => exact ⟨c, rfl⟩
    | none =>
      rw [List.find?_eq_none] at hf
      have := hf (s, h) (List.mem_reverse.mpr hm)
      simp at this
  obtain ⟨c, hc⟩ := hex
  rw [hc]
  have hcm : c ∈ claims hs := List.mem_reverse.mp (List.mem_of_find?_eq_some hc)
  have hc1 : c.1 = s := by simpa using List.find?_some hc
  -- targets are pairwise distinct, so the claim on `s` is unique
  have huniq : ∀ (l : List (Nat × Nat)), (l.map (·.1)).Nodup → ∀ a b, a ∈ l → b ∈ l → a.1 = b.1 → a = b := by
    intro l
    induction l with
    | nil => intro _ a b ha; cases ha
    | cons x xs ih =>
      intro hn a b ha hb hab
      simp only [List.map_cons, List.nodup_cons] at hn
      rcases List.mem_cons.mp ha with ha | ha <;> rcases List.mem_cons.mp hb with hb | hb
      · rw [ha, hb]
      · exfalso; apply hn.1; rw [← ha, hab]; exact List.mem_map_of_mem (f := (·.1)) hb
      · exfalso; apply hn.1; rw [← hb, ← hab]; exact List.mem_map_of_mem (f := (·.1)) ha
      · exact ih hn.2 a b ha hb hab
  have := huniq _ hnd c (s, h) hcm hm hc1
  rw [this]

/-- **otherwise the wildcard**: an unclaimed, non-handler step is owned by the wildcard handler -/
theorem C08_wildcard_otherwise (steps : List Nat) (hs : List Decl) (s : Nat) (w : Decl)
    (hw : (wildcards hs).head? = some w) (hs1 : s ∈ steps) (hs2 : s ∉ names hs)
    (hun : ∀ h, (s, h) ∉ claims hs) : handlerFor steps hs s = some w.name := by
  unfold handlerFor
  have hnone : (claims hs).reverse.find? (fun c => c.1 == s) = none := by
    rw [List.find?_eq_none]
    intro c hc
    have hc' := List.mem_reverse.mp hc
    intro heq
    have : c.1 = s := by simpa using heq
    exact hun c.2 (by rw [← this]; exact hc')
  rw [hnone, hw]
  simp [hs1, hs2]

/-! ## which layouts are accepted (`validate_catch_error_handlers`) -/

theorem C08.claims_of_mem {hs : List Decl} {d : Decl} {l : List Nat} {t : Nat}
    (hd : d ∈ hs) (hf : d.forSteps = some l) (ht : t ∈ l) : (t, d.name) ∈ claims hs := by
  simp only [claims, List.mem_flatMap, List.mem_map, Prod.mk.injEq]
  exact ⟨d, hd, t, by simpa [hf] using ht, rfl, rfl⟩

/-- a layout is accepted exactly when validation has no message for it and every budget is at least one -/
theorem C08_layout_accepted_iff_no_errors (steps : List Nat) (hs : List Decl) :
    valid steps hs = true ↔ errors steps hs = [] ∧ ∀ h ∈ hs, 1 ≤ h.maxRec :=
  valid_iff_errors steps hs

/-- **a layout in which a handler lists a handler step -- another scoped handler, the wildcard
handler, itself -- is rejected**, whatever else it declares -/
theorem C08_layout_covering_handler_rejected (steps : List Nat) (hs : List Decl) (d : Decl) (l : List Nat) (t : Nat)
    (hd : d ∈ hs) (hf : d.forSteps = some l) (ht : t ∈ l) (hh : t ∈ names hs) : valid steps hs = false := by
  cases hv : valid steps hs with
  | false => rfl
  | true =>
    simp only [valid, Bool.and_eq_true, List.all_eq_true, decide_eq_true_eq] at hv
    obtain ⟨⟨⟨_, hcl⟩, _⟩, _⟩ := hv
    have := (hcl (t, d.name) (C08.claims_of_mem hd hf ht)).2
    simp [hh] at this

example : valid [0, 12, 13] [⟨12, none, 1⟩, ⟨13, some [12], 1⟩] = false := by decide
example : valid [0, 12, 13] [⟨12, some [0], 1⟩, ⟨13, some [12], 1⟩] = false := by decide
example : valid [0, 12] [⟨12, some [0, 12], 2⟩] = false := by decide
example : valid [0, 12, 13] [⟨12, some [0], 1⟩, ⟨13, none, 1⟩] = true := by decide

/-- the wildcard handler listed by a scoped handler (the layout of `@catch_error` + `@catch_error(for_steps=[<it>])`) -/
theorem C08_layout_scoped_over_wildcard_rejected (steps : List Nat) (hs : List Decl) (w d : Decl) (l : List Nat)
    (hw : w ∈ hs) (hwf : w.forSteps = none) (hd : d ∈ hs) (hf : d.forSteps = some l) (ht : w.name ∈ l) :
    valid steps hs = false :=
  C08_layout_covering_handler_rejected steps hs d l w.name hd hf ht (List.mem_map.mpr ⟨w, hw, rfl⟩)

/-- ... and validation says so: the message "handler d cannot cover another handler step t" is among its messages
(when `t` is a step at all -- handler names always are) -/
theorem C08_layout_covering_handler_reported (steps : List Nat) (hs : List Decl) (d : Decl) (l : List Nat) (t : Nat)
    (hd : d ∈ hs) (hf : d.forSteps = some l) (ht : t ∈ l) (hh : t ∈ names hs) (hst : t ∈ steps) :
    LayoutErr.coversHandler d.name t ∈ errors steps hs := by
  unfold errors
  exact List.mem_append_right _ (coversHandler_mem_claimErrs steps (names hs) (claims hs) [] t d.name
    (C08.claims_of_mem hd hf ht) hst hh)

example : errors [0, 12, 13] [⟨12, none, 1⟩, ⟨13, some [12], 1⟩] = [.coversHandler 13 12] := by decide
example : errors [0, 5, 12, 13, 14] [⟨12, none, 1⟩, ⟨13, some [5, 12, 9], 1⟩, ⟨14, some [5], 1⟩, ⟨15, none, 1⟩] =
    [.wildcards 2, .coversHandler 13 12, .unknown 13 9, .claimedTwice 5 13 14] := by decide

/-- an accepted layout gives no handler step an owner: the table has no entry under a handler's name, so the failure of
a handler step -- wildcard or scoped -- finds no handler (`C08_fail` then fails the run with the handler's own exception) -/
theorem C08_accepted_layout_handler_steps_unowned (steps : List Nat) (hs : List Decl) (hv : valid steps hs = true)
    (s : Nat) (hs1 : s ∈ names hs) : handlerFor steps hs s = none := by
  cases hh : handlerFor steps hs s with
  | none => rfl
  | some h => exact absurd hs1 (C08_never_handler_of_handler steps hs hv s h hh)

example : handlerFor [0, 12, 13] [⟨12, some [0], 1⟩, ⟨13, none, 1⟩] 12 = none ∧
    handlerFor [0, 12, 13] [⟨12, some [0], 1⟩, ⟨13, none, 1⟩] 0 = some 12 := by decide

/-! ## routing in the reducer -/

/-- **route**: exhausted, owned, budget left ⇒ exactly one `StepFailedEvent` addressed to the
owner, carrying the original exception, the attempt count, and the count raised by one; the
run stays alive -/
theorem C08_route (cfg : Cfg) (pol : Policy) (step : Nat) (tickEv : Ev) (dc : Bool) (acc : ResAcc)
    (exc : Nat) (failedAt : Int) (h m : Nat)
    (hstop : retryDecision cfg pol step (failedAt - acc.exec.firstAt) (acc.exec.attempts + 1) exc = .stop)
    (hown : handlerOwner cfg step = some (h, m)) (hbudget : acc.exec.rc.get h + 1 ≤ m)
    -- (the failure of an execution that an earlier result of the same list already scheduled to run again is skipped)
    (hsip : acc.stillInProgress = false) :
    (applyRes cfg pol step tickEv dc acc (.failed exc failedAt)).cmds = acc.cmds ++
      [.queueEvent { ev := { ty := tyStepFailed, kind := .plain, uid := 0, key := none,
                             fail := some { step := step, inputUid := tickEv.uid, exc := exc,
                                            attempts := acc.exec.attempts + 1,
                                            elapsed := failedAt - acc.exec.firstAt, failedAt := failedAt } },
                     rc := acc.exec.rc.set h (acc.exec.rc.get h + 1) } (some h) none] ∧
    (applyRes cfg pol step tickEv dc acc (.failed exc failedAt)).st = acc.st := by
  simp [applyRes, hstop, hown, hbudget, hsip]

/-- **fail**: exhausted and (no owner or budget spent) ⇒ `WorkflowFailedEvent` + failure with the
original exception; the run is marked not running -/
theorem C08_fail (cfg : Cfg) (pol : Policy) (step : Nat) (tickEv : Ev) (dc : Bool) (acc : ResAcc)
    (exc : Nat) (failedAt : Int)
    (hstop : retryDecision cfg pol step (failedAt - acc.exec.firstAt) (acc.exec.attempts + 1) exc = .stop)
    (hno : handlerOwner cfg step = none ∨ ∃ h m, handlerOwner cfg step = some (h, m) ∧ m < acc.exec.rc.get h + 1)
    (hsip : acc.stillInProgress = false) :
    (applyRes cfg pol step tickEv dc acc (.failed exc failedAt)).cmds = acc.cmds ++
      [.publish (.failed step exc (acc.exec.attempts + 1) (failedAt - acc.exec.firstAt)), .failWorkflow step exc] ∧
    (applyRes cfg pol step tickEv dc acc (.failed exc failedAt)).st.isRunning = false := by
  rcases hno with hno | ⟨h, m, hown, hlt⟩
  · simp [applyRes, hstop, hno, hsip]
  · have : ¬ (acc.exec.rc.get h + 1 ≤ m) := by omega
    simp [applyRes, hstop, hown, this, hsip]

/-! ## the lineage budget -/

/-- **at most `max_recoveries` entries per lineage** (invariant form, every schedule): at every
point of every run, no attempt (queued, running or suspended in a wait — the counts kept in its
waiter), no buffered or mailbox tick and no timer
carries, for any handler, a recovery count above that handler's `max_recoveries`.  Together with
`C08_route` (each entry raises the count by exactly one, `RC.get_set_same`) and the fact that
counts are copied unchanged to retries and outputs, a lineage can enter a handler at most
`max_recoveries` times. -/
theorem C08_lineage_budget (cfg : Cfg) (pol : Policy) (r0 : Runner) (h0 : RunnerRc cfg r0) (acts : List Act)
    (hacts : ∀ a ∈ acts, Act.rcOk cfg a) : RunnerRc cfg (Runner.run cfg pol r0 acts) :=
  run_rc cfg pol acts r0 hacts h0

theorem C08_count_raised_by_one (rc : RC) (h : Nat) : (rc.set h (rc.get h + 1)).get h = rc.get h + 1 :=
  RC.get_set_same rc h _

theorem C08_other_counts_kept (rc : RC) (h h' : Nat) (hne : h' ≠ h) : (rc.set h (rc.get h + 1)).get h' = rc.get h' :=
  RC.get_set_other rc h h' _ hne

/-- a fresh run satisfies the invariant -/
theorem C08_init (cfg : Cfg) (now : Int) (start : Option Ev) (timeout : Option Nat) :
    RunnerRc cfg (Runner.init cfg initState now start timeout) :=
  init_rc cfg initState (rcInv_init cfg) now start timeout

/-- so does a **resumed** run: `Runner.init` on any reducer state within budget (queued and
in-progress invocations, and the counts kept in waiters) — in particular on a state loaded from a
serialised context — starts within budget: re-queued in-progress invocations keep their counts and
the rehydration ticks carry the counts of the waiters they replay -/
theorem C08_init_resumed (cfg : Cfg) (st0 : State) (h0 : RcInv cfg st0) (now : Int) (start : Option Ev)
    (timeout : Option Nat) : RunnerRc cfg (Runner.init cfg st0 now start timeout) :=
  init_rc cfg st0 h0 now start timeout

/-- the invariant of `C08_lineage_budget` covers invocations **suspended in a wait**: at every
point of every run the counts kept in every waiter respect every handler's budget -/
theorem C08_lineage_budget_waiters (cfg : Cfg) (pol : Policy) (r0 : Runner) (h0 : RunnerRc cfg r0) (acts : List Act)
    (hacts : ∀ a ∈ acts, Act.rcOk cfg a) (s : Nat) (w : Waiter)
    (hw : w ∈ ((Runner.run cfg pol r0 acts).st.workers s).waiters) (h m : Nat)
    (hm : lookup cfg.handlers h = some m) : w.rc.get h ≤ m :=
  ((C08_lineage_budget cfg pol r0 h0 acts hacts).1 s).2.2 w hw h m hm

/-! ## a wait does not reset the budget

An invocation that suspends in `ctx.wait_for_event` leaves `in_progress`; what is left of it is
the waiter.  The waiter keeps the invocation's attempt record (`newWaiter`), and each of the three
ways the invocation comes back — the awaited event arrives, the wait times out, the run is
resumed from a serialised context — replays it with `Waiter.replay`, i.e. with **that** record. -/

/-- **suspension**: after `AddWaiter` the waiter registered under this id replays exactly the
attempt `rewind_in_progress` would re-queue for the suspended invocation — same event, retry
counters, times, last exception and recovery counts -/
theorem C08_wait_suspend_records_attempt (cfg : Cfg) (pol : Policy) (step : Nat) (tickEv : Ev) (dc : Bool)
    (acc : ResAcc) (wid : Nat) (we : Option Ev) (req tmo : Option Nat) (ty : Nat) :
    ∃ w, ((applyRes cfg pol step tickEv dc acc (.addWaiter wid we req tmo ty)).st.workers step).waiters.find?
        (fun x => x.wid == wid) = some w ∧
      w.replay = inProgToAttempt acc.exec ∧ w.rc = acc.exec.rc := by
  simp only [applyRes]
  have key : ∀ (l : List Waiter) (w : Waiter), w.wid = wid → l.any (fun x => x.wid == wid) = true →
      (modifyFirst (fun x => x.wid == wid) (fun _ => w) l).find? (fun x => x.wid == wid) = some w := by
    intro l w hw
    induction l with
    | nil => simp
    | cons x xs ih =>
      intro hany
      unfold modifyFirst
      by_cases hx : (x.wid == wid) = true
      · simp [hx, List.find?_cons, hw]
      · simp only [hx, Bool.false_eq_true, if_false, List.find?_cons]
        simp only [List.any_cons, hx, Bool.false_or] at hany
        exact ih hany
  split
  · rename_i hany
    refine ⟨newWaiter acc.exec wid ty req, ?_, rfl, rfl⟩
    simp only [State.set, if_true]
    exact key _ _ rfl hany
  · rename_i hany
    refine ⟨newWaiter acc.exec wid ty req, ?_, rfl, rfl⟩
    simp only [State.set, if_true]
    rw [List.find?_append]
    have : (acc.st.workers step).waiters.find? (fun x => x.wid == wid) = none := by
      rw [List.find?_eq_none]
      intro x hx
      simp only [List.any_eq_true, not_exists, not_and] at hany
      exact hany x hx
    simp [this, newWaiter]

/-- the replay of a waiter carries the waiter's record -/
theorem C08_wait_replay_keeps_budget (w : Waiter) :
    w.replay.rc = w.rc ∧ w.replay.ev = w.ev ∧ w.replay.attempts = some w.attempts ∧
      w.replay.firstAt = w.firstAt ∧ w.replay.lastExc = w.lastExc ∧ w.replay.lastFailedAt = w.lastFailedAt :=
  ⟨rfl, rfl, rfl, rfl, rfl, rfl⟩

/-- where a replay lands: with a free worker it is started as a new in-progress invocation with the
waiter's recovery counts and retry counters (`first_attempt_at or now`), otherwise it is queued as
it is; nothing else in the step's queue or in-progress list changes -/
theorem C08_wait_replay_lands (w : Waiter) (step : Nat) (ss : StepState) (nw : Nat) (now : Int) (h : IdsOk ss nw) :
    (ss.inProg.length < nw → ∃ id,
        (addOrEnqueue w.replay step ss nw now).1.inProg = ss.inProg ++
          [{ ev := w.ev, wid := id, snapEvents := ss.collected, snapWaiters := ss.waiters, attempts := w.attempts,
             firstAt := orInt w.firstAt now, lastExc := w.lastExc, lastFailedAt := w.lastFailedAt, rc := w.rc }] ∧
        (addOrEnqueue w.replay step ss nw now).1.queue = ss.queue) ∧
    (¬ ss.inProg.length < nw →
        (addOrEnqueue w.replay step ss nw now).1.queue = ss.queue ++ [w.replay] ∧
        (addOrEnqueue w.replay step ss nw now).1.inProg = ss.inProg) := by
  refine ⟨fun hlt => ?_, fun hge => ?_⟩
  · unfold addOrEnqueue
    simp only [hlt, ↓reduceIte]
    cases hfree : freeIds ss nw with
    | nil => exact absurd hfree (freeIds_ne_nil h hlt)
    | cons i rest =>
      refine ⟨i, ?_, rfl⟩
      have : orNat (some w.attempts) 0 = w.attempts := by
        by_cases h0 : w.attempts = 0 <;> simp [orNat, h0]
      simp [Waiter.replay, this]
  · unfold addOrEnqueue
    simp only [hge, ↓reduceIte, and_self]

/-- **resolution keeps the budget**: when the awaited event matches waiter `w`, the step is
replayed with `w.replay` (and `w` is marked resolved) -/
theorem C08_wait_replay_keeps_budget_resolve (ev : Ev) (step nw : Nat) (now : Int) (done rest : List Waiter)
    (w : Waiter) (ss : StepState) (cmds : List Cmd) (hd : Bool) (hm : waiterMatches w ev = true) :
    resolveLoop ev step nw now done (w :: rest) ss cmds hd =
      resolveLoop ev step nw now (done ++ [{ w with resolved := some ev }]) rest
        (addOrEnqueue w.replay step { ss with waiters := done ++ { w with resolved := some ev } :: rest } nw now).1
        (cmds ++ (addOrEnqueue w.replay step { ss with waiters := done ++ { w with resolved := some ev } :: rest } nw now).2)
        true := by
  rw [resolveLoop]
  simp only [hm, if_true]

/-- **timeout keeps the budget**: when the timeout of a pending waiter `w` fires, the step is
replayed with `w.replay` (and `w` is marked timed out) -/
theorem C08_wait_replay_keeps_budget_timeout (cfg : Cfg) (step waiter : Nat) (st : State) (now : Int) (w : Waiter)
    (hs : cfg.hasStep step = true) (hf : (st.workers step).waiters.find? (fun x => x.wid == waiter) = some w)
    (hpending : w.resolved = none) :
    processWaiterTimeout cfg step waiter st now =
      let ss := st.workers step
      let ws := modifyFirst (fun x => x.wid == waiter) (fun x => { x with timedOut := true }) ss.waiters
      let r := addOrEnqueue w.replay step { ss with waiters := ws } (cfg.nw step) now
      (st.set step r.1, r.2) := by
  simp [processWaiterTimeout, hs, hf, hpending]

/-- **rehydration keeps the budget**: every tick `rehydrate_with_ticks` emits for a resumed run is
the replay of a waiter of the loaded state, addressed to the waiter's step, with that waiter's
recovery counts and retry counters -/
theorem C08_wait_replay_keeps_budget_rehydrate (cfg : Cfg) (st : State) (t : Tick) (h : t ∈ rehydrateTicks cfg st) :
    ∃ c ∈ sortedSteps cfg, ∃ w ∈ (st.workers c.name).waiters,
      t = .addEvent w.replay (some c.name) ∧ w.replay.rc = w.rc ∧ w.replay.attempts = some w.attempts := by
  obtain ⟨c, hc, w, hw, rfl⟩ := mem_rehydrateTicks h
  exact ⟨c, hc, w, hw, rfl, rfl, rfl⟩

/-- serialisation keeps the record of a waiter (`to_serialized` / `from_serialized`): recovery
counts, retry counters, times and last exception -/
theorem C08_wait_record_survives_serialisation (w : Waiter) :
    (deserWaiter (serWaiter w)).replay = w.replay := rfl

/-! ### the unrepaired variant: the budget was reset

Before the repair the replay was `EventAttempt(event=waiter.event)` (`Waiter.replayUnrepaired`):
empty recovery counts.  Witness (the shape of `harness/corpus/c08_wait_replay_resets_budget.json`):
step 0 is owned by handler 12 with `max_recoveries = 3`; an invocation of step 0 on a lineage that
already entered the handler three times waits with a timeout; the timeout fires and the replayed
invocation fails. -/

def C08.wcfg : Cfg :=
  { steps := [{ name := 0, accepted := [6], numWorkers := 1, hasRetry := false },
              { name := 12, accepted := [tyStepFailed], numWorkers := 1, hasRetry := false }],
    handlerFor := [(0, 12)], handlers := [(12, 3)] }
def C08.wev : Ev := { ty := 6, kind := .plain, uid := 7 }
def C08.wwaiter : Waiter :=
  { wid := 1, ev := C08.wev, waitTy := 5, req := none, hasReq := false, attempts := 0, firstAt := some 2,
    rc := [(12, 3)] }
def C08.wst : State :=
  { isRunning := true, workers := fun s => if s = 0 then { waiters := [C08.wwaiter] } else {} }
def C08.wpol : Policy := fun _ _ _ _ => .stop

/-- the commands of: waiter timeout at t = 5, then the replayed invocation fails at t = 6 -/
def C08.wrun (red : Tick → State → Int → State × List Cmd) : List Cmd :=
  let r1 := red (.waiterTimeout 0 1) C08.wst 5
  (red (.stepResult 0 0 C08.wev [.failed 9 6]) r1.1 6).2

/-- **repaired**: the budget is spent — the run fails with the step's exception -/
theorem C08_wait_replay_budget_spent_fails :
    C08.wrun (reduce C08.wcfg C08.wpol) =
      [.publish (.stepState .notRunning 0 6 .unset (some 0)),
       .publish (.failed 0 9 1 4), .failWorkflow 0 9] := by decide

/-- **unrepaired, refuted**: the same two ticks entered the handler a **fourth** time (count reset
to 1 on the replayed lineage) instead of failing the run -/
theorem C08_unrepaired_wait_replay_resets_budget :
    C08.wrun (reduceWaitUnrepaired C08.wcfg C08.wpol) ≠ C08.wrun (reduce C08.wcfg C08.wpol) ∧
    (C08.wrun (reduceWaitUnrepaired C08.wcfg C08.wpol)).filterMap
        (fun c => match c with | .queueEvent att (some 12) _ => some (att.ev.ty, att.rc) | _ => none) =
      [(tyStepFailed, [(12, 1)])] ∧
    Waiter.replayUnrepaired C08.wwaiter ≠ C08.wwaiter.replay ∧
    (Waiter.replayUnrepaired C08.wwaiter).rc = [] := by decide

/-- the variant differs from the model only in the replay attempt -/
theorem C08_unrepaired_variant_is_the_model (cfg : Cfg) (pol : Policy) (tick : Tick) (st : State) (now : Int) :
    reduceWithWaitReplay Waiter.replay cfg pol tick st now = reduce cfg pol tick st now :=
  reduceWithWaitReplay_model cfg pol tick st now

/-! ## `ctx.send_event` continues the lineage

An event a running invocation emits with `ctx.send_event` — a handler re-dispatching the failed work
item, a step downstream of a handler — is tagged with the recovery counts of that invocation
(`run_worker` → `RetryAttempt.recovery_counts` → `InternalContext.send_event`), whether the invocation
is a first attempt or a retry.  So the budget of `C08_lineage_budget` needs no assumption about
step-side sends, and a lineage that continues through `send_event` meets the same budget as one that
continues through a return value. -/

/-- the tick of a send carries the counts of the sending invocation's in-progress entry — nothing
else of the entry (not its retry number) enters -/
theorem C08_send_event_carries_counts (st : State) (step wid : Nat) (e : Ev) (target : Option Nat) (t : Tick)
    (h : sendTick st step wid e target = some t) :
    ∃ ip, ip ∈ (st.workers step).inProg ∧ ip.wid = wid ∧ t = .addEvent { ev := e, rc := ip.rc } target :=
  sendTick_some h

/-- ... hence it is within every handler's budget wherever the state is (no assumption on the sender) -/
theorem C08_send_event_within_budget (cfg : Cfg) (st : State) (hs : RcInv cfg st) (step wid : Nat) (e : Ev)
    (target : Option Nat) (t : Tick) (h : sendTick st step wid e target = some t) : tickRcOk cfg t :=
  sendTick_rc cfg hs h

/-- it reaches the mailbox as it is; the reducer state is untouched -/
theorem C08_send_event_reaches_mailbox (cfg : Cfg) (pol : Policy) (r : Runner) (s w : Nat) (e : Ev) (tgt : Option Nat)
    (t : Tick) (hlive : r.outcome = none) (hst : sendTick r.st s w e tgt = some t) :
    (r.stepS cfg pol (.stepSend s w e tgt)).mailbox = r.mailbox ++ [t] ∧
    (r.stepS cfg pol (.stepSend s w e tgt)).st = r.st :=
  stepS_send_mailbox cfg pol r s w e tgt t hlive hst

/-- **the lineage budget with step-side sends** (every schedule in which running invocations call
`ctx.send_event` at arbitrary points): the invariant of `C08_lineage_budget`, assuming admissible
counts only of ticks that come from OUTSIDE the run -/
theorem C08_lineage_budget_sends (cfg : Cfg) (pol : Policy) (r0 : Runner) (h0 : RunnerRc cfg r0) (acts : List CtxAct)
    (hacts : ∀ a ∈ acts, CtxAct.rcOk cfg a) : RunnerRc cfg (Runner.runS cfg pol r0 acts) :=
  runS_rc cfg pol acts r0 hacts h0

/-- where the sent event lands: with a free worker it starts as a fresh first attempt WITH the
sender's counts, otherwise it is queued with them -/
theorem C08_send_event_lands (e : Ev) (rc : RC) (step : Nat) (ss : StepState) (nw : Nat) (now : Int) (h : IdsOk ss nw) :
    (ss.inProg.length < nw → ∃ id,
        (addOrEnqueue { ev := e, rc := rc } step ss nw now).1.inProg = ss.inProg ++
          [{ ev := e, wid := id, snapEvents := ss.collected, snapWaiters := ss.waiters, attempts := 0,
             firstAt := now, lastExc := none, lastFailedAt := none, rc := rc }] ∧
        (addOrEnqueue { ev := e, rc := rc } step ss nw now).1.queue = ss.queue) ∧
    (¬ ss.inProg.length < nw →
        (addOrEnqueue { ev := e, rc := rc } step ss nw now).1.queue = ss.queue ++ [{ ev := e, rc := rc }] ∧
        (addOrEnqueue { ev := e, rc := rc } step ss nw now).1.inProg = ss.inProg) := by
  refine ⟨fun hlt => ?_, fun hge => ?_⟩
  · unfold addOrEnqueue
    simp only [hlt, ↓reduceIte]
    cases hfree : freeIds ss nw with
    | nil => exact absurd hfree (freeIds_ne_nil h hlt)
    | cons i rest => exact ⟨i, by simp [orNat, orInt], rfl⟩
  · unfold addOrEnqueue
    simp only [hge, ↓reduceIte, and_self]

/-! Witness (the shape of `harness/corpus/c08_handler_resends_with_send_event.json`): step 2 is owned
by handler 12 with `max_recoveries = 2`; the handler, running its SECOND entry on this lineage as a
first attempt (it has no retry policy), re-dispatches the work item with `ctx.send_event`; the item
starts on step 2 and fails. -/

def C08.scfg : Cfg :=
  { steps := [{ name := 2, accepted := [5], numWorkers := 1, hasRetry := false },
              { name := 12, accepted := [tyStepFailed], numWorkers := 1, hasRetry := false }],
    handlerFor := [(2, 12)], handlers := [(12, 2)] }
def C08.sfe : Ev := { ty := tyStepFailed, kind := .plain, uid := 0,
                      fail := some { step := 2, inputUid := 7, exc := 9, attempts := 1, elapsed := 0, failedAt := 3 } }
def C08.sitem : Ev := { ty := 5, kind := .plain, uid := 8 }
def C08.srunner : Runner :=
  { st := { isRunning := true,
            workers := fun s => if s = 12 then
              { inProg := [{ ev := C08.sfe, wid := 0, snapEvents := [], snapWaiters := [], attempts := 0, firstAt := 3,
                             rc := [(12, 2)] }] } else {} },
    running := [{ step := 12, wid := 0, ev := C08.sfe }], now := 3 }

/-- the handler sends the item (the loop pulls it from the mailbox and starts it on step 2), then
returns `None`; the item fails -/
def C08.ssched (send : CtxAct) : List CtxAct :=
  [send, .act .pull, .act .drain, .act (.workerDone 12 0 [.result none]), .act .drain,
   .act (.workerDone 2 0 [.failed 9 4]), .act .drain]

/-- **the budget holds across `send_event`**: the sent item carries the handler's two entries, so
its failure is not routed a third time — the run fails with the step's exception and a
`WorkflowFailedEvent` -/
theorem C08_send_event_budget_spent_fails :
    sendTick C08.srunner.st 12 0 C08.sitem none = some (.addEvent { ev := C08.sitem, rc := [(12, 2)] } none) ∧
    (Runner.runS C08.scfg C08.wpol C08.srunner (C08.ssched (.stepSend 12 0 C08.sitem none))).outcome =
      some (.failed 2 9) ∧
    (Runner.runS C08.scfg C08.wpol C08.srunner (C08.ssched (.stepSend 12 0 C08.sitem none))).stream.getLast? =
      some (.failed 2 9 1 1) := by decide

/-- **what dropping the counts would do** (refuted alternative: the same schedule with the item sent
WITHOUT the sender's counts, as an outside party would): the handler is entered a THIRD time —
a `StepFailedEvent` with count 1 is on its way to handler 12 — and the run does not fail -/
theorem C08_send_event_without_counts_reenters :
    (Runner.runS C08.scfg C08.wpol C08.srunner
        (C08.ssched (.act (.external (.addEvent { ev := C08.sitem } none))))).outcome = none ∧
    ((Runner.runS C08.scfg C08.wpol C08.srunner
        (C08.ssched (.act (.external (.addEvent { ev := C08.sitem } none))))).buf.filterMap
      (fun t => match t with | .addEvent att (some 12) => some (att.ev.ty, att.rc) | _ => none)) =
      [(tyStepFailed, [(12, 1)])] := by decide

/-! Non-vacuity -/
-- a pending waiter that an event of the awaited type resolves; the state of the witness satisfies
-- the hypotheses of the timeout theorem; a free worker exists; a waiter with lost requirements is re-pinged
example : waiterMatches C08.wwaiter { ty := 5, kind := .plain, uid := 8 } = true := by decide
example : C08.wcfg.hasStep 0 = true ∧ (C08.wst.workers 0).waiters.find? (fun x => x.wid == 1) = some C08.wwaiter ∧
    C08.wwaiter.resolved = none := by decide
example : IdsOk (C08.wst.workers 0) 1 ∧ (C08.wst.workers 0).inProg.length < 1 := by
  refine ⟨?_, by decide⟩
  simp [IdsOk, usedIds, C08.wst]
example : rehydrateTicks C08.wcfg
    { isRunning := true, workers := fun s => if s = 0 then { waiters := [{ C08.wwaiter with hasReq := true }] } else {} } =
    [.addEvent { ev := C08.wev, attempts := some 0, firstAt := some 2, rc := [(12, 3)] } (some 0)] := by decide
example : RcInv C08.wcfg C08.wst := by
  intro s
  refine ⟨?_, ?_, ?_⟩ <;> (by_cases h : s = 0 <;> simp [C08.wst, h, WaitersRc])
  intro h' m hm
  have : h' = 12 ∧ m = 3 := by
    simp only [C08.wcfg, lookup] at hm
    by_cases e : h' = 12
    · subst e; simp at hm; exact ⟨rfl, hm.symm⟩
    · have : ((12 : Nat) == h') = false := by simpa using fun x => e x.symm
      simp [List.find?_cons, this] at hm
  obtain ⟨rfl, rfl⟩ := this
  decide
-- the witness runner is within budget; the sender is in progress; an admissible schedule with a step-side send
example : (C08.srunner.st.workers 12).inProg.length = 1 ∧ C08.srunner.outcome = none := by decide
example : ∀ a ∈ C08.ssched (.stepSend 12 0 C08.sitem none), CtxAct.rcOk C08.scfg a := by
  intro a ha
  simp only [C08.ssched, List.mem_cons, List.mem_nil_iff, or_false] at ha
  rcases ha with rfl | rfl | rfl | rfl | rfl | rfl | rfl <;> trivial
example : IdsOk ({} : StepState) 1 ∧ ({} : StepState).inProg.length < 1 := ⟨idsOk_empty 1, by decide⟩
def C08.exHs : List Decl := [⟨12, some [2, 4], 2⟩, ⟨13, none, 1⟩]
example : valid [0, 2, 4, 12, 13] C08.exHs = true := by decide
example : ([0, 2, 4, 12, 13].map (handlerFor [0, 2, 4, 12, 13] C08.exHs)) = [some 13, some 12, some 12, none, none] := by decide
