"""DBOS half of C36 and C26 under latency: the real `DBOSIdleReleaseDecorator` + the real `SqliteRunLifecycleLock`
over a stand-in inner engine, with **latency gates** (virtual time) around every lifecycle-store call and
around every delivery to the run, and client sends placed inside those windows.

What `dbos` does for the decorator is two round trips to a database: the lifecycle CAS statements and
`DBOS.send_async` (the delivery of a tick to the run).  Both take time, and the asyncio tasks of the decorator
(the deferred-release timer, `_await_and_mark_released`, every `send_event`) are suspended meanwhile.  A case
fixes, in milliseconds of virtual time,

    tau                          idle_timeout
    lat.begin_req / begin_resp   before / after the CAS of begin_release (cycled per call)
    lat.ir                       delivery of TickIdleRelease to the run
    lat.complete_req / _resp     around complete_release
    lat.resume_req / _resp       around try_begin_resume
    lat.deliver                  delivery of a client's tick to the run (after try_begin_resume said `active`)
    sends: [{at, n}]             client `send_event(Ext(n))` calls at absolute times (the run starts at 0 and is idle at once)
    quiet                        how long nothing is sent after the last send before the facts are read
    final                        then send Ext(99), which must reload the run (exactly once) and finish it
    work                         (C26) virtual ms step `b` works on a client event (one number, or {n: ms}): `running work` exists
    crash_horizon                (C26) a client send that is still open at the end is followed past CRASH_TIMEOUT_SECONDS (snapshot `late`)

Three things come out of one execution:

* **K**: every observed action of the protocol is a line for the model driver (`binit bcreate btick rspawn rbegin rsend
  rcomplete uspawn utry usend ufinish wfstep`, M7 part B) and after each the observable state of the real stack (row read back
  with sqlite3, incarnation up/down, the run's mailbox, ticks consumed, releaser / sender positions, *whether a releaser's
  task ended before its release did*) is compared with the model's.
* **S**: the rules of `monitors()` (C36) / `monitors_c26()` (C26) on the same observations — independent of the model; every
  bound is computed from the case's own latencies.
* the replayable case itself.

The lifecycle row is inserted by the harness (`RunLifecycleLock.create` has no production call site: known finding
C36/dbos_never_released).
"""
from __future__ import annotations

import asyncio
import json
import os
import random
from typing import Any

from ..vloop import VLoop, run_virtual
from . import lifecycle_db as LDB
from . import stack as STK

T0 = LDB.T0
STOP_N = 99
MARGIN = 60  # ms; slack of every bound (sub-millisecond scheduling, the 20 ms settle waits)
SEND_BOUND = 5000  # ms; a client send must return within this (+ its own latencies): far below the 120 s crash timeout

LAT_KEYS = ("begin_req", "begin_resp", "ir", "complete_req", "complete_resp", "resume_req", "resume_resp", "deliver")


def _lat(case: dict, key: str, j: int) -> int:
    v = (case.get("lat") or {}).get(key, 0)
    if isinstance(v, list):
        return int(v[j % len(v)]) if v else 0
    return int(v)


def _work(case: dict, n: int) -> int:
    """virtual ms step b works on Ext(n) (`work`: one number for every client event, or {n: ms}); Ext(99) is instantaneous"""
    w = case.get("work") or 0
    if n == STOP_N:
        return 0
    if isinstance(w, dict):
        return int(w.get(str(n), 0))
    return int(w)


def _work_max(case: dict) -> int:
    w = case.get("work") or 0
    if isinstance(w, dict):
        return max([int(x) for x in w.values()] or [0])
    return int(w)


def _lat_max(case: dict, key: str) -> int:
    v = (case.get("lat") or {}).get(key, 0)
    if isinstance(v, list):
        return max([int(x) for x in v] or [0])
    return int(v)


def release_bound(case: dict) -> int:
    """the longest one release can take from the timer's expiry to idle_since being written, given the case's latencies"""
    return sum(_lat_max(case, k) for k in ("begin_req", "begin_resp", "ir", "complete_req", "complete_resp"))


def send_bound(case: dict) -> int:
    return sum(_lat_max(case, k) for k in ("resume_req", "resume_resp", "deliver"))


def default_quiet(case: dict) -> int:
    """after the last send call: a sender may poll `releasing` (0.5 s steps), reload, the run works, idles, is released again"""
    return 2 * (release_bound(case) + send_bound(case)) + int(case["tau"]) + 1500 + _work_max(case) * max(1, len(case.get("sends") or []))


def ms(t: float) -> int:
    return int(round((t - T0) * 1000))


async def _pause(msec: int) -> None:
    if msec > 0:
        await asyncio.sleep(msec / 1000.0)


# --------------------------------------------------------------------------
# one execution


def run_case(case: dict) -> dict:
    LC = LDB._patch_clocks()
    import dbos as DBOS_SHIM
    import llama_agents.dbos.idle_release as DIR

    DIR.datetime = STK.VDateTime  # type: ignore[attr-defined]
    from llama_agents.server._runtime.persistence_runtime import TickPersistenceDecorator
    from llama_agents.server._runtime.server_runtime import ServerRuntimeDecorator
    from llama_agents.server._service import _WorkflowService
    from llama_agents.server._store.abstract_workflow_store import HandlerQuery
    from llama_agents.server._store.memory_workflow_store import MemoryWorkflowStore
    from workflows import Context, Workflow
    from workflows.decorators import step
    from workflows.events import StartEvent, StopEvent, WorkflowIdleEvent
    from workflows.plugins.basic import BasicRuntime
    from workflows.runtime.runtime_decorators import BaseExternalRunAdapterDecorator, BaseInternalRunAdapterDecorator
    from workflows.runtime.types.plugin import WaitResultTick
    from workflows.runtime.types.ticks import TickAddEvent, TickIdleRelease

    from .idle import Ext

    tau = int(case["tau"])
    sends = sorted(case.get("sends") or [], key=lambda s: (s["at"], s["n"]))
    quiet = int(case.get("quiet", 0)) or default_quiet(case)
    db = LDB.make_db()
    executions: list[int] = []  # ns in the order step b ran them
    completed: list[int] = []  # ns whose step b ran to its end

    class WF(Workflow):
        @step
        async def a(self, ctx: Context, ev: StartEvent) -> Ext | None:
            await ctx.store.set("seen", [])
            return None

        @step
        async def b(self, ctx: Context, ev: Ext) -> StopEvent | None:
            executions.append(ev.n)
            note("step_start", n=ev.n)
            try:
                w = _work(case, ev.n)
                if w > 0:
                    await asyncio.sleep(w / 1000.0)  # the step is *running* work for w ms of virtual time
                async with ctx.store.edit_state() as st:
                    st["seen"] = list(st.get("seen", [])) + [ev.n]
                res = StopEvent(result=list(await ctx.store.get("seen"))) if ev.n == STOP_N else None
            except BaseException as e:  # noqa: BLE001
                note("step_end", n=ev.n, how=type(e).__name__)
                raise
            completed.append(ev.n)
            note("step_end", n=ev.n, how="done")
            return res

    # ---- observation state -------------------------------------------------
    ops: list[str] = []
    impl: list[str] = []
    ev: list[dict] = []  # time-stamped observations for the monitors
    O: dict[str, Any] = {
        "model_now": 0, "inc": -1, "up": False, "incs": [],  # incs: [{queues, consumed_ir, start, exit}]
        "processed": [], "rel": {}, "relx": set(), "res": {}, "pending": None, "n2k": {}, "k2n": {},
        "task_rel": {}, "task_res": {}, "nrel": 0, "nres": 0, "stranded": [], "calls": {k: 0 for k in LAT_KEYS},
    }
    rid_box: list[str] = []
    loop_box: list[VLoop] = []

    def now() -> int:
        return ms(loop_box[0].time())

    def ext_n(tick: Any) -> int | None:
        if isinstance(tick, TickAddEvent) and isinstance(tick.event, Ext):
            return tick.event.n
        return None

    def queue_items(q: Any) -> list[str]:
        res = []
        for t in list(q.receive_queue._queue):  # type: ignore[attr-defined]
            n = ext_n(t)
            if n is not None:
                res.append(f"t{O['n2k'].get(n, f'?{n}')}")
            elif isinstance(t, TickIdleRelease):
                res.append("IR")
        return res

    def state_line() -> str:
        row = LDB.read_row(db, rid_box[0]) if rid_box else "row=-"
        cur = O["incs"][O["inc"]] if O["inc"] >= 0 else None
        inbox: list[str] = []
        if O["pending"] is not None:
            inbox = [f"t{O['pending']}"]
        elif cur is not None:
            inbox = queue_items(cur["queues"])
        dead: list[str] = list(O["stranded"])
        for k, i in enumerate(O["incs"]):
            if k != O["inc"]:
                dead += [x for x in queue_items(i["queues"]) if x != "IR"]
        if O["up"]:
            box = f"inbox={','.join(inbox)} stranded={','.join(sorted(set(dead)))}"
        else:
            box = f"inbox=- stranded={','.join(sorted(set(dead + [x for x in inbox if x != 'IR'])))}"
        rs = ",".join(f"{i}:{O['rel'][i]}{'x' if i in O['relx'] else ''}" for i in sorted(O["rel"]))
        us = ",".join(f"{k}:{O['res'][k]}" for k in sorted(O["res"]))
        return (f"ok now={O['model_now']} {row} up={1 if O['up'] else 0}/{max(O['inc'], 0)} {box} "
                f"processed={','.join(str(k) for k in O['processed'])} R={rs} U={us}")

    def emit(op: str) -> None:
        t = now()
        if t > O["model_now"]:
            ops.append(f"btick|{t - O['model_now']}")
            O["model_now"] = t
            impl.append(state_line())
        ops.append(op)
        impl.append(state_line())

    def note(kind: str, **kw: Any) -> None:
        ev.append({"t": now(), "ev": kind, **kw})

    # ---- the lifecycle lock with latency -----------------------------------
    def lat(key: str) -> int:
        j = O["calls"][key]
        O["calls"][key] = j + 1
        return _lat(case, key, j)

    class GatedLock(LC.RunLifecycleLock):  # type: ignore[name-defined,misc]
        def __init__(self, inner: Any) -> None:
            self._inner = inner

        async def create(self, run_id: str) -> None:
            await self._inner.create(run_id)

        async def begin_release(self, run_id: str) -> bool:
            i = O["task_rel"].get(asyncio.current_task())
            await _pause(lat("begin_req"))
            ok = await self._inner.begin_release(run_id)
            if i is not None:
                O["rel"][i] = f"won@{now()}" if ok else "lost"
                emit(f"rbegin|{i}")
            note("begin", i=i, ok=bool(ok), row=LDB.read_row(db, run_id))
            await _pause(lat("begin_resp"))
            return ok

        async def complete_release(self, run_id: str) -> None:
            i = O["task_rel"].get(asyncio.current_task())
            await _pause(lat("complete_req"))
            before = LDB.read_row(db, run_id)
            await self._inner.complete_release(run_id)
            if i is not None:
                O["rel"][i] = "done"
                emit(f"rcomplete|{i}")
            note("complete", i=i, before=before, row=LDB.read_row(db, run_id))
            await _pause(lat("complete_resp"))

        async def try_begin_resume(self, run_id: str, crash_timeout_seconds: float | None = None) -> Any:
            k = O["task_res"].get(asyncio.current_task())
            await _pause(lat("resume_req"))
            before = LDB.read_row(db, run_id)
            res = await self._inner.try_begin_resume(run_id, crash_timeout_seconds)
            if k is not None:
                O["res"][k] = "pass" if res is None else ("owner" if LDB.show_result(res) == "released" else "waiting")
                emit(f"utry|{k}")
            note("try_resume", k=k, res=LDB.show_result(res), before=before, row=LDB.read_row(db, run_id))
            await _pause(lat("resume_resp"))
            return res

    # ---- the stand-in engine: BasicRuntime + delivery latency + observation ----
    class ObsInternal(BaseInternalRunAdapterDecorator):
        def __init__(self, decorated: Any, inc: int) -> None:
            super().__init__(decorated)
            self._inc = inc

        async def wait_receive(self, timeout_seconds: float | None = None) -> Any:
            res = await super().wait_receive(timeout_seconds)
            if isinstance(res, WaitResultTick):
                n = ext_n(res.tick)
                if n is not None:
                    k = O["n2k"].get(n)
                    if self._inc == O["inc"] and k is not None:
                        O["processed"].append(k)
                        emit("wfstep")
                    note("consume", n=n, inc=self._inc)
                elif isinstance(res.tick, TickIdleRelease):
                    O["incs"][self._inc]["consumed_ir"] = True
                    if self._inc == O["inc"]:
                        O["up"] = False
                        emit("wfstep")
                    # what the run still holds at the moment TickIdleRelease ends it: client ticks left in its mailbox
                    note("consume_ir", inc=self._inc, queued=[x for x in queue_items(O["incs"][self._inc]["queues"]) if x != "IR"])
            return res

        async def write_to_event_stream(self, event: Any) -> None:
            await super().write_to_event_stream(event)
            if isinstance(event, WorkflowIdleEvent):
                note("announce", inc=self._inc)

    class LatExternal(BaseExternalRunAdapterDecorator):
        """delivery is addressed by run id, as `DBOS.send` is: after its latency the tick goes to the mailbox of the workflow that
        runs under that id *then* (the old one's if the id is not running)"""

        def __init__(self, decorated: Any, queues: Any, engine: Any) -> None:
            super().__init__(decorated)
            self._queues = queues
            self._engine = engine

        def __getattr__(self, name: str) -> Any:
            return getattr(self._decorated, name)

        def _deliver(self, tick: Any) -> int:
            q = self._engine._queues.get(self._queues.run_id) or self._queues
            q.receive_queue.put_nowait(tick)
            return next((j for j, i in enumerate(O["incs"]) if i["queues"] is q), -1)

        async def send_event(self, tick: Any) -> None:
            cur = asyncio.current_task()
            if isinstance(tick, TickIdleRelease):
                await _pause(lat("ir"))
                inc = self._deliver(tick)
                i = O["task_rel"].get(cur)
                if i is not None:
                    t_won = O["rel"][i].partition("@")[2]
                    O["rel"][i] = f"sent@{t_won}/{inc}"
                    emit(f"rsend|{i}")
                note("ir_sent", i=i, inc=inc)
                return
            n = ext_n(tick)
            if n is not None:
                await _pause(lat("deliver"))
            inc = self._deliver(tick)
            k = O["task_res"].get(cur)
            if n is not None and k is not None:
                live = inc == O["inc"] and O["up"]
                O["res"][k] = "done"
                emit(f"usend|{k}")
                note("delivered", n=n, inc=inc, live=live)

    class Engine(BasicRuntime):
        def run_workflow(self, run_id: str, workflow: Any, init_state: Any, start_event: Any = None,
                         serialized_state: Any = None, serializer: Any = None) -> Any:
            inner = super().run_workflow(run_id, workflow, init_state, start_event=start_event,
                                         serialized_state=serialized_state, serializer=serializer)
            q = self._queues[run_id]
            rec = {"queues": q, "consumed_ir": False, "start": now(), "exit": None, "how": None}
            O["incs"].append(rec)
            O["inc"] = len(O["incs"]) - 1
            O["up"] = True

            def done(task: Any, rec: dict = rec) -> None:
                rec["exit"] = now()
                rec["how"] = "cancelled" if task.cancelled() else ("error:" + type(task.exception()).__name__ if task.exception() else
                                                                    type(getattr(task.result(), "result", None)).__name__ + ":" + type(task.result()).__name__)
                note("loop_exit", inc=O["incs"].index(rec), how=rec["how"])

            q.complete.add_done_callback(done)
            if O["inc"] > 0:
                # a reload: the pending tick is folded into init_state by _do_resume (not sent through the mailbox)
                k = O["task_res"].get(asyncio.current_task())
                folded = []
                for w in init_state.workers.values():
                    for x in list(w.queue) + list(w.in_progress):
                        e = getattr(x, "event", None)
                        if isinstance(e, Ext):
                            folded.append(e.n)
                note("reload", k=k, inc=O["inc"], folded=folded,
                     live_before=[j for j, i in enumerate(O["incs"][:-1]) if not i["queues"].complete.done()])
                if k is not None:
                    O["res"][k] = "done"
                    n = O["k2n"].get(k)
                    O["pending"] = k if n in folded else None
                    emit(f"ufinish|{k}")
                    if O["pending"] is not None:
                        O["pending"] = None
                        O["processed"].append(k)
                        emit("wfstep")
            else:
                note("start", inc=0)
            return LatExternal(inner, q, self)

        def get_external_adapter(self, run_id: str) -> Any:
            return LatExternal(super().get_external_adapter(run_id), self._queues[run_id], self)

        def get_internal_adapter(self, workflow: Any) -> Any:
            inner = super().get_internal_adapter(workflow)
            inc = next((j for j, i in enumerate(O["incs"]) if i["queues"] is inner._queues), O["inc"])
            return ObsInternal(inner, inc)

    out: dict[str, Any] = {"ops": ops, "impl": impl, "events": ev, "facts": {}, "errors": []}

    async def main(loop: VLoop) -> None:
        loop_box.append(loop)
        lock = GatedLock(LC.SqliteRunLifecycleLock(db))
        store = MemoryWorkflowStore()
        engine = Engine()
        tp = TickPersistenceDecorator(engine, store)
        dec = DIR.DBOSIdleReleaseDecorator(tp, store=store, idle_timeout=tau / 1000.0, lifecycle_lock=lambda: lock)
        rt = ServerRuntimeDecorator(dec, store=store)
        svc = _WorkflowService(rt, store)
        wf = WF(timeout=None)
        wf._switch_workflow_name("wf")
        wf._switch_runtime(rt)
        await svc.start()

        # releaser bookkeeping: which task is releaser i, and did it end before its release did
        orig_release = dec._release_idle_handler
        orig_mark = dec._await_and_mark_released

        async def release(run_id: str) -> None:
            i = O["nrel"]
            O["nrel"] += 1
            O["task_rel"][asyncio.current_task()] = i
            O["rel"][i] = "start"
            emit(f"rspawn|{i}")
            note("release_start", i=i)
            try:
                await orig_release(run_id)
            except BaseException as e:  # noqa: BLE001
                if O["rel"][i].startswith(("start", "won")):
                    O["relx"].add(i)
                note("release_task_ended", i=i, pc=O["rel"][i], exc=type(e).__name__)
                raise
            if O["rel"][i].startswith(("start", "won")):
                O["relx"].add(i)  # returned without finishing its protocol
                note("release_task_ended", i=i, pc=O["rel"][i], exc=None)

        def mark(run_id: str, external: Any) -> Any:
            i = O["task_rel"].get(asyncio.current_task())

            async def body() -> None:
                O["task_rel"][asyncio.current_task()] = i
                try:
                    await orig_mark(run_id, external)
                except BaseException as e:  # noqa: BLE001
                    if i is not None and O["rel"][i].startswith("sent"):
                        O["relx"].add(i)
                    note("mark_task_ended", i=i, exc=type(e).__name__)
                    raise
                if i is not None and O["rel"][i].startswith("sent"):
                    O["relx"].add(i)
                    note("mark_task_ended", i=i, exc="swallowed")

            return body()

        dec._release_idle_handler = release  # type: ignore[method-assign]
        dec._await_and_mark_released = mark  # type: ignore[method-assign]

        class Handle:
            def __init__(self, rid: str) -> None:
                self.rid = rid

            async def get_result(self) -> Any:
                q = engine._queues.get(self.rid)
                if q is not None:
                    return await asyncio.shield(q.complete)
                return None

        async def retrieve(run_id: str) -> Any:
            return Handle(run_id)

        async def purge(run_id: str) -> None:
            q = engine._queues.pop(run_id, None)
            if q is not None:
                # ticks still in the mailbox of the workflow that exited are gone with it
                for x in queue_items(q):
                    if x != "IR" and x not in O["stranded"]:
                        O["stranded"].append(x)

        DBOS_SHIM.HOOKS["retrieve_workflow_async"] = retrieve
        DBOS_SHIM.HOOKS["delete_workflow_async"] = purge
        orig_dsend = DIR.DBOSIdleReleaseExternalRunAdapter.send_event

        async def dsend(self: Any, tick: Any) -> None:
            n = ext_n(tick)
            k = None
            if n is not None and n in O["n2k"]:
                k = O["n2k"][n]
                O["task_res"][asyncio.current_task()] = k
                O["res"][k] = "start"
                emit(f"uspawn|{k}")
            try:
                await orig_dsend(self, tick)
            except BaseException as e:  # noqa: BLE001
                note("send_task_ended", k=k, n=n, pc=O["res"].get(k), exc=type(e).__name__, msg=str(e)[:160], reloads=len(O["incs"]) - 1)
                raise
            note("send_done", k=k, n=n)

        DIR.DBOSIdleReleaseExternalRunAdapter.send_event = dsend  # type: ignore[method-assign]
        try:
            hd = await svc.start_workflow(wf, "h1", start_event=StartEvent())
            rid = hd.run_id
            ops.append("binit")
            impl.append(state_line())
            rid_box.append(rid)
            await lock.create(rid)  # the hook the production code lacks (C36/dbos_never_released)
            emit("bcreate")

            async def handler() -> Any:
                return (await store.query(HandlerQuery(run_id_in=[rid])))[0]

            async def snapshot(tag: str) -> dict:
                h = await handler()
                cur = O["incs"][O["inc"]]
                f = {"tag": tag, "t": now(), "row": LDB.read_row(db, rid), "inc": O["inc"], "in_memory": not cur["queues"].complete.done(),
                     "idle_since_set": h.idle_since is not None, "status": h.status,
                     "result": getattr(h.result, "result", None) if h.result is not None else None,
                     "reloads": len(O["incs"]) - 1, "timers": len(dec._deferred_release_tasks),
                     "send_pcs": {str(k): O["res"].get(k) for k in sorted(O["k2n"])},
                     "live_loops": [j for j, i in enumerate(O["incs"]) if not i["queues"].complete.done()]}
                out["facts"][tag] = f
                note("snapshot", tag=tag)
                return f

            async def client(k: int, at: int, n: int) -> None:
                await _pause(at - now())
                O["n2k"][n] = k
                O["k2n"][k] = n
                note("send_call", k=k, n=n)
                try:
                    await svc.send_event("h1", Ext(n=n))  # fire-and-forget inside: the adapter's send_event runs in its own task
                except Exception as e:  # noqa: BLE001
                    note("send_refused", k=k, n=n, exc=type(e).__name__, msg=str(e)[:200])

            tasks = [asyncio.ensure_future(client(k, int(s["at"]), int(s["n"])))
                     for k, s in enumerate(sends)]
            last = max([int(s["at"]) for s in sends] or [0])
            await _pause(last + quiet - now())
            fq = await snapshot("quiet")
            # the reload by Ext(99) is asked for only if the run has not been reloaded yet: a second reload replays a tick log that
            # lacks the first reloading tick and dies (C36/dbos_second_reload_fails, witnessed separately)
            if case.get("final", True) == "force" or (case.get("final", True) and fq["reloads"] == 0):
                k = len(sends)
                await client(k, now(), STOP_N)
                await _pause(send_bound(case) + release_bound(case) + 700)
                f = await snapshot("final")
                f["send_pending"] = O["res"].get(k) not in ("done",) and not any(e["ev"] == "send_task_ended" and e["k"] == k for e in ev)
                f["send_pc"] = O["res"].get(k)
            if case.get("crash_horizon"):
                # C26: a client send that has still not been handed to the run is followed past the crash timeout (the point at which a
                # sender that polls `releasing` may take the run over) -- only then is "never processed" a fact and not a slow release
                def open_sends() -> list[int]:
                    closed = {e.get("k") for e in ev if e["ev"] in ("send_task_ended", "send_refused", "send_done")}
                    return [k for k in sorted(O["k2n"]) if O["res"].get(k) != "done" and k not in closed]

                if open_sends():
                    await _pause(int(DIR.CRASH_TIMEOUT_SECONDS * 1000) + send_bound(case) + release_bound(case) + 3000)
                    f = await snapshot("late")
                    f["open_sends"] = open_sends()
            for t in tasks:
                if not t.done():
                    t.cancel()
            await asyncio.gather(*tasks, return_exceptions=True)
            out["facts"]["persisted"] = [_tick_kind(t.tick_data) for t in await store.get_ticks(rid)]
        finally:
            DIR.DBOSIdleReleaseExternalRunAdapter.send_event = orig_dsend  # type: ignore[method-assign]
            DBOS_SHIM.HOOKS.clear()

    try:
        try:
            run_virtual(main, start=T0, max_time=T0 + 3600.0)
        except TimeoutError:
            out["errors"].append("virtual loop deadlock")
    finally:
        for suf in ("", "-wal", "-shm"):
            try:
                os.unlink(db + suf)
            except OSError:
                pass
    out["executions"] = executions
    out["completed"] = completed
    out["case"] = case
    return out


def _tick_kind(d: dict) -> str:
    t = d.get("type") or d.get("kind") or "?"
    e = d.get("event")
    if isinstance(e, dict):
        v = e.get("value") if isinstance(e.get("value"), dict) else e
        if isinstance(v, dict) and "n" in v:
            return f"{t}:n={v['n']}"
    return str(t)


# --------------------------------------------------------------------------
# monitors (no model involved)


def _first_occurrences(xs: list) -> list:
    seen: list = []
    for x in xs:
        if x not in seen:
            seen.append(x)
    return seen


def monitors(o: dict, prop: str = "C36") -> list[tuple[str, str]]:
    """C36 on the observations of one execution.  Every bound is the case's own latencies + MARGIN.

    * release_abandoned: a begin_release that committed active->releasing is followed, within the longest time one release
      can take, by TickIdleRelease reaching the run and by complete_release; the row does not stay `releasing`.
    * idle_not_released: a run that announced idleness, received nothing since, and has been idle for idle_timeout + the longest
      release is no longer in memory.
    * released_not_marked_idle: a released run's handler has idle_since.
    * not_reloaded: the next event sent to a released run reloads it exactly once and the run finishes with everything it consumed.
    * second_reload_fails: classified apart (a reload after an earlier reload dies while replaying the tick log).
    """
    case, ev, facts = o["case"], o["events"], o["facts"]
    tau = int(case["tau"])
    rb, sb = release_bound(case), send_bound(case)
    out: list[tuple[str, str]] = []
    q = facts.get("quiet")
    if q is None:
        return [(f"{prop}/dbos_gated_harness", f"no quiet snapshot: {o.get('errors')}")]
    # a reload that failed while replaying the log after an earlier reload: known trigger, classified apart; nothing after it is judged
    for e in ev:
        if e["ev"] == "send_task_ended" and e.get("pc") == "owner" and e.get("exc") == "ValueError" and "not found in in_progress" in e.get("msg", "") \
                and e.get("reloads", 0) >= 1:
            return [(f"{prop}/dbos_second_reload_fails",
                     f"DBOS stack, idle_timeout {tau} ms: the run was reloaded once (the reloading tick is folded into the rebuilt state by _do_resume and never appended to the tick log), "
                     f"released again, and the next send's _do_resume raised {e['exc']}: {e['msg']} after try_begin_resume had already set the row to `active`: "
                     f"the run is not in memory, the row says active, persisted ticks: {facts.get('persisted')}")]
    tq = q["t"]
    begins = [e for e in ev if e["ev"] == "begin" and e["ok"] and e["t"] + rb + MARGIN <= tq]
    for b in begins:
        i = b["i"]
        sent = [e for e in ev if e["ev"] == "ir_sent" and e["i"] == i]
        comp = [e for e in ev if e["ev"] == "complete" and e["i"] == i]
        late = [e for e in comp if e["t"] > b["t"] + rb + MARGIN]
        if sent and comp and not late:
            continue
        ended = [e for e in ev if e["ev"] in ("release_task_ended", "mark_task_ended") and e["i"] == i]
        what = "ir_never_sent" if not sent else ("never_completed" if not comp else "completed_late")
        out.append((f"{prop}/dbos_release_abandoned:{what}",
                    f"DBOS stack, idle_timeout {tau} ms, latencies {json.dumps(case.get('lat') or {}, sort_keys=True)}: begin_release committed active->releasing at {b['t']} ms; "
                    f"{rb + MARGIN} ms later (longest possible release + margin) TickIdleRelease sent: {bool(sent)}, complete_release: {bool(comp)}; at {tq} ms the row is {q['row']}, "
                    f"run in memory: {q['in_memory']}, idle_since set: {q['idle_since_set']}; the releasing task ended with {ended[0]['exc'] if ended else 'n/a'} "
                    f"at {ended[0]['t'] if ended else '-'} ms (ticks consumed by the run: {[(e['t'], e['n']) for e in ev if e['ev'] == 'consume']})"))
        break
    cur = q["inc"]
    ann = [e["t"] for e in ev if e["ev"] == "announce" and e["inc"] == cur and e["t"] <= tq]
    if q["in_memory"] and ann:
        ta = ann[-1]
        disturbed = [e for e in ev if e["ev"] in ("consume", "consume_ir") and e["inc"] == cur and ta < e["t"] <= tq]
        if not disturbed and tq - ta >= tau + rb + MARGIN:
            st = q["row"].partition("@")[0]
            out.append((f"{prop}/dbos_idle_not_released:{st}",
                        f"DBOS stack, idle_timeout {tau} ms: the run announced idleness at {ta} ms and received nothing since; at {tq} ms (idle for {tq - ta} ms >= idle_timeout + longest release "
                        f"{rb} + {MARGIN}) it is still in memory, lifecycle {q['row']}, idle_since set: {q['idle_since_set']}"))
    if not q["in_memory"] and q["row"].startswith("row=released"):
        t_rel = int(q["row"].partition("@")[2])
        if not q["idle_since_set"] and tq - t_rel >= _lat_max(case, "complete_resp") + MARGIN:
            out.append((f"{prop}/dbos_released_not_marked_idle",
                        f"DBOS stack: released at {t_rel} ms ({q['row']}), the handler's idle_since is still unset at {tq} ms"))
    f = facts.get("final")
    if f is not None and not q["in_memory"] and q["row"].startswith("row=released") and q["reloads"] == 0:
        consumed = _first_occurrences([e["n"] for e in ev if e["ev"] == "consume"])
        want = consumed + [STOP_N]
        got = f.get("result")
        if f["reloads"] != 1 or f["status"] != "completed" or not isinstance(got, list) or _first_occurrences(got) != want:
            ended = [e for e in ev if e["ev"] == "send_task_ended" and e.get("n") == STOP_N]
            kind = "send_pending" if f.get("send_pending") else ("send_failed:" + ended[0]["exc"] if ended else "wrong_result")
            out.append((f"{prop}/dbos_not_reloaded:{kind}",
                        f"DBOS stack: released run ({q['row']}), Ext({STOP_N}) sent at {tq} ms; {f['t'] - tq} ms later reloads: {f['reloads']} (expected 1), status {f['status']}, "
                        f"result {got} (expected first occurrences {want}), sender position {f.get('send_pc')}, row {f['row']}"
                        + (f", sender ended with {ended[0]['exc']}: {ended[0]['msg']}" if ended else "")))
    if (q["in_memory"] or not q["row"].startswith("row=released")) and not out:
        # after the quiet period a run is released; nothing above judged this state: say so rather than pass silently
        out.append((f"{prop}/dbos_not_released_after_quiet:{q['row'].partition('@')[0]}",
                    f"DBOS stack, idle_timeout {tau} ms: {tq - max([int(s['at']) for s in case.get('sends') or []] or [0])} ms after the last send the run is not a released run: {q}"))
    return out


# --------------------------------------------------------------------------
# C26's monitors on the same observations


WINDOW = "tick_arrived_during_release"  # cause suffix of the classes the unchanged tree exhibits (see monitors_c26)
RESUME_WINDOW = "tick_sent_during_resume"  # ... and this one: `active` is written by the resumer's CAS before the new workflow exists
CRASH_MS = 120000


def _row_state(row: str) -> tuple[str, int]:
    st, _, t = row.partition("=")[2].partition("@")
    return st, int(t or 0)


def monitors_c26(o: dict) -> list[tuple[str, str]]:
    """C26 on the observations of one execution of the DBOS stack under latency (no process crash is injected, so every
    task of the decorator that ends did so by the code's own doing).  All rules are stated on the observation log
    (list order = order of occurrence; times only where the property has a time in it):

    * two_live_loops: when a control loop of the run is started, every earlier loop of that run has exited.
    * two_resumers: `try_begin_resume` answers `released` (ownership of the resume) only from a row that read `released`, or
      `releasing` for longer than the crash timeout; between two such answers a release was begun; every reload was started by
      an owner, at most one per ownership.
    * releasing_without_releaser: from the commit of active->releasing to complete_release the releaser's task (then its
      `_await_and_mark_released` task) is alive; if it ends in between while the row still reads that `releasing`, nobody is
      left to send TickIdleRelease / complete the release.
    * released_while_busy: at the moment TickIdleRelease ends a control loop, the run has no client tick in its mailbox, no
      step running, and its last announcement of idleness is later than the last tick it consumed.
    * event_never_processed: every client event whose send was accepted has been worked off by step `b` (to its end) when the
      execution ends; a sender that is still in its polling loop is followed past the crash timeout first (`crash_horizon`).

    Cause `tick_arrived_during_release`: the offending tick passed the lifecycle check before the release that ended the run
    committed `releasing` (the answer `active` was true when given) and reached the run after that release's timer had fired.
    The unchanged tree does this (TickIdleRelease is reduced unconditionally, nothing re-checks the run between the timer and
    the exit; check-then-send window): classified apart so that every *other* way of releasing a busy run or losing an event
    keeps its own signature.
    """
    prop = "C26"
    case, ev, facts = o["case"], o["events"], o["facts"]
    tau = int(case["tau"])
    out: list[tuple[str, str]] = []
    q = facts.get("quiet")
    if q is None:
        return [(f"{prop}/dbos_gated_harness", f"no quiet snapshot: {o.get('errors')}")]
    for e in ev:
        if e["ev"] == "send_task_ended" and e.get("pc") == "owner" and e.get("exc") == "ValueError" and "not found in in_progress" in e.get("msg", "") \
                and e.get("reloads", 0) >= 1:
            return [(f"{prop}/dbos_second_reload_fails",
                     f"DBOS stack, idle_timeout {tau} ms: the run was reloaded once (the reloading tick is folded into the rebuilt state by _do_resume and never appended to the tick log), "
                     f"released again, and the next send's _do_resume raised {e['exc']}: {e['msg']} after try_begin_resume had already set the row to `active`: "
                     f"the run is not in memory, the row says active, persisted ticks: {facts.get('persisted')}")]
    last = facts.get("late") or facts.get("final") or q
    lat_txt = json.dumps(case.get("lat") or {}, sort_keys=True)
    head = f"DBOS stack, idle_timeout {tau} ms, latencies {lat_txt}" + (f", step work {case.get('work')} ms" if case.get("work") else "")
    idx = {id(e): j for j, e in enumerate(ev)}

    def pos(e: dict) -> int:
        return idx[id(e)]

    # ---- never two live control loops of one run
    for e in ev:
        if e["ev"] == "reload" and e.get("live_before"):
            out.append((f"{prop}/dbos_two_live_loops",
                        f"{head}: at {e['t']} ms sender {e['k']} started control loop #{e['inc']} of the run while loop(s) {e['live_before']} of the same run had not exited"))
            break
    else:
        for tag in ("quiet", "final", "late"):
            f = facts.get(tag)
            if f is not None and len(f.get("live_loops") or []) > 1:
                out.append((f"{prop}/dbos_two_live_loops", f"{head}: at {f['t']} ms control loops {f['live_loops']} of the same run are live"))
                break

    # ---- at most one resumer per released run
    owners = [e for e in ev if e["ev"] == "try_resume" and e["res"] == "released"]
    prev = None
    for e in owners:
        st, upd = _row_state(e["before"])
        if st == "active" or e["before"] == "row=-":
            out.append((f"{prop}/dbos_two_resumers:owner_of_{st or 'missing'}_row",
                        f"{head}: at {e['t']} ms try_begin_resume told sender {e['k']} it owns the resume although the row read {e['before']}"))
            break
        if st == "releasing" and e["t"] - upd <= CRASH_MS:
            out.append((f"{prop}/dbos_two_resumers:takeover_before_crash_timeout",
                        f"{head}: at {e['t']} ms sender {e['k']} took over a release begun at {upd} ms ({e['t'] - upd} ms <= crash timeout {CRASH_MS} ms)"))
            break
        if prev is not None and not any(b["ev"] == "begin" and b["ok"] and pos(prev) < pos(b) < pos(e) for b in ev):
            out.append((f"{prop}/dbos_two_resumers:two_owners_of_one_release",
                        f"{head}: senders {prev['k']} (at {prev['t']} ms) and {e['k']} (at {e['t']} ms) were both told they own the resume; no release began in between"))
            break
        prev = e
    reloads = [e for e in ev if e["ev"] == "reload"]
    for j, e in enumerate(reloads):
        mine = [w for w in owners if w["k"] == e["k"] and pos(w) < pos(e)]
        earlier = [r for r in reloads[:j] if mine and pos(r) > pos(mine[-1])]
        if not mine or earlier:
            out.append((f"{prop}/dbos_two_resumers:reload_without_ownership",
                        f"{head}: at {e['t']} ms sender {e['k']} started control loop #{e['inc']} "
                        + ("without having been given the resume by try_begin_resume" if not mine else "although that ownership had already started a loop")))
            break

    # ---- the row does not stay `releasing` without a live releaser
    rows_seen: list[tuple[int, int, str]] = []  # (position, time, row)
    for e in ev:
        for key in ("before", "row"):
            if key in e:
                rows_seen.append((pos(e), e["t"], e[key]))
    for tag in ("quiet", "final", "late"):
        if facts.get(tag):
            rows_seen.append((len(ev), facts[tag]["t"], facts[tag]["row"]))
    for b in ev:
        if not (b["ev"] == "begin" and b["ok"] and b["i"] is not None):
            continue
        i = b["i"]
        comp = [e for e in ev if e["ev"] == "complete" and e["i"] == i and pos(e) > pos(b)]
        ended = [e for e in ev if e["ev"] in ("release_task_ended", "mark_task_ended") and e["i"] == i and pos(e) > pos(b)
                 and (not comp or pos(e) < pos(comp[0]))]
        if not ended:
            continue
        x = ended[0]
        mine = f"row=releasing@{_row_state(b['row'])[1]}"
        still = [(t, r) for (p_, t, r) in rows_seen if p_ > pos(x) and r == mine]
        if not still:
            continue
        phase = "before_idle_release_sent" if x["ev"] == "release_task_ended" else "before_complete_release"
        sent = any(e["ev"] == "ir_sent" and e["i"] == i for e in ev)
        out.append((f"{prop}/dbos_releasing_without_releaser:{phase}",
                    f"{head}: releaser {i} committed active->releasing at {b['t']} ms; its task ended at {x['t']} ms with {x.get('exc')} "
                    f"({'after' if sent else 'before'} TickIdleRelease was sent, before complete_release) although no crash was injected; the row still reads {mine} at "
                    f"{still[-1][0]} ms, the run's control loop is {'live' if last.get('live_loops') else 'gone'} (loops live: {last.get('live_loops')}), "
                    f"ticks consumed by the run: {[(e['t'], e['n']) for e in ev if e['ev'] == 'consume']}; nobody is left to send TickIdleRelease / complete_release, "
                    f"later senders poll `releasing` until the {CRASH_MS // 1000} s crash timeout"))
        break

    # ---- released only while there is no queued, running or scheduled work
    n2k = {e["n"]: e["k"] for e in ev if e["ev"] == "send_call"}

    def admitted(n: int) -> dict | None:
        k = n2k.get(n)
        xs = [e for e in ev if e["ev"] == "try_resume" and e["k"] == k and e["res"] == "None"]
        return xs[0] if xs else None

    def cause(ns: list[int], rel_start: dict | None, begin: dict | None) -> str:
        """WINDOW iff every offending tick was admitted before this release committed and was consumed by the run (or, if it never
        was, reached its mailbox) no earlier than the release's timer fired: the run was idle as far as it knew when the timer fired"""
        if rel_start is None or begin is None or not ns:
            return "no_tick_in_flight"
        for n in ns:
            a = admitted(n)
            cons = [e for e in ev if e["ev"] == "consume" and e.get("n") == n]
            deliv = [e for e in ev if e["ev"] == "delivered" and e.get("n") == n]
            if a is None or pos(a) > pos(begin):
                return "tick_admitted_after_release_began"
            if cons and pos(cons[0]) < pos(rel_start):
                return "run_not_idle_when_timer_fired"
            if not cons and (not deliv or deliv[0]["t"] < rel_start["t"]):
                return "tick_in_mailbox_before_timer_fired"
        return WINDOW

    busy_release: dict[int, str] = {}  # inc -> cause (for the classification of lost events)
    for c in ev:
        if c["ev"] != "consume_ir":
            continue
        inc = c["inc"]
        before = [e for e in ev[:pos(c)]]
        mine = [e for e in before if e.get("inc") == inc and e["ev"] in ("announce", "consume", "start", "reload")]
        t_from = max([pos(e) for e in before if e["ev"] in ("start", "reload") and e.get("inc") == inc] or [0])
        running: list[int] = []
        for e in before[t_from:]:
            if e["ev"] == "step_start":
                running.append(e["n"])
            elif e["ev"] == "step_end" and e["n"] in running:
                running.remove(e["n"])
        k2n = {k: n for n, k in n2k.items()}
        queued = [k2n.get(int(x[1:]), -1) for x in c.get("queued") or [] if x[1:].isdigit()]
        unannounced = [e["n"] for e in mine if e["ev"] == "consume" and not any(a["ev"] == "announce" and pos(a) > pos(e) for a in mine)]
        kinds = []
        if running:
            kinds.append("step_running")
        if queued:
            kinds.append("tick_queued")
        if unannounced and not running:
            kinds.append("no_idle_announcement_since_last_tick")
        if not kinds:
            continue
        irs = [e for e in before if e["ev"] == "ir_sent" and e.get("inc") == inc]
        i = irs[-1]["i"] if irs else None
        rs = next((e for e in before if e["ev"] == "release_start" and e["i"] == i), None)
        bg = next((e for e in before if e["ev"] == "begin" and e["i"] == i and e["ok"]), None)
        why = cause(sorted(set(running + queued + unannounced)), rs, bg)
        busy_release[inc] = why
        out.append((f"{prop}/dbos_released_while_busy:{'+'.join(kinds)}:{why}",
                    f"{head}: TickIdleRelease of releaser {i} (timer fired at {rs['t'] if rs else '?'} ms, active->releasing at {bg['t'] if bg else '?'} ms) ended control loop #{inc} at {c['t']} ms "
                    f"while the run had work: step b running on {running}, client ticks left in its mailbox {queued}, ticks consumed after the last idle announcement {unannounced}; "
                    f"the offending ticks were admitted by try_begin_resume at {[(n, (admitted(n) or {}).get('t')) for n in sorted(set(running + queued + unannounced))]} "
                    f"(row then active) and reached the run at {[(e['n'], e['t']) for e in ev if e['ev'] in ('consume', 'delivered') and e.get('n') in set(running + queued + unannounced)]}"))

    # ---- every accepted event is eventually processed
    completed = list(o.get("completed") or [])
    refused = {e["n"] for e in ev if e["ev"] == "send_refused"}
    for s in [e for e in ev if e["ev"] == "send_call"]:
        n, k = s["n"], s["k"]
        if n in refused or n in completed:
            continue
        if n == STOP_N and "final" not in facts:
            continue
        pc = (last.get("send_pcs") or {}).get(str(k))
        deliv = [e for e in ev if e["ev"] == "delivered" and e["n"] == n]
        cons = [e for e in ev if e["ev"] == "consume" and e["n"] == n]
        t_last = max([pos(e) for e in ev if e["ev"] == "snapshot"] or [len(ev)])
        ended = [e for e in ev if e["ev"] == "send_task_ended" and e.get("k") == k and pos(e) < t_last]  # later: the harness' own teardown
        rowst = _row_state(last["row"])[0]
        returned = [e for e in ev if e["ev"] == "send_done" and e.get("k") == k]
        if pc != "done" and not ended and not returned:
            if "late" not in facts:
                continue  # not followed past the crash timeout: no verdict on `eventually`
            sig = f"{prop}/dbos_event_never_processed:sender_{pc}:row_{rowst}"
            what = (f"its sender is still at `{pc}` at {last['t']} ms ({last['t'] - s['t']} ms after the call, past the {CRASH_MS // 1000} s crash timeout); lifecycle {last['row']}, "
                    f"control loops live: {last.get('live_loops')}, reloads: {last.get('reloads')}; try_begin_resume answers to it: "
                    f"{_compress([(e['t'], e['res']) for e in ev if e['ev'] == 'try_resume' and e['k'] == k])}")
        elif ended:
            sig = f"{prop}/dbos_event_never_processed:sender_failed_{ended[0]['exc']}:row_{rowst}"
            what = f"its sender ended at {ended[0]['t']} ms at `{ended[0].get('pc')}` with {ended[0]['exc']}: {ended[0].get('msg')}"
        elif cons:
            ends = [e for e in ev if e["ev"] == "step_end" and e["n"] == n]
            inc = cons[0]["inc"]
            why = busy_release.get(inc, "run_not_released")
            sig = f"{prop}/dbos_event_never_processed:step_cut_short:{why}"
            what = (f"the run consumed it at {cons[0]['t']} ms (loop #{inc}); step b on it ended {[(e['t'], e['how']) for e in ends]} and never ran to its end")
        elif deliv:
            d = deliv[0]
            a = admitted(n)
            rel = [b for b in ev if b["ev"] == "begin" and b["ok"] and a is not None and pos(b) > pos(a) and pos(b) < pos(d)]
            # an owner of the resume has set the row to `active` and has not started the new control loop yet
            resuming = [w for w in owners if a is not None and pos(w) < pos(a)
                        and not any(r["k"] == w["k"] and pos(w) < pos(r) < pos(d) for r in reloads)
                        and not any(b["ev"] == "begin" and b["ok"] and pos(w) < pos(b) < pos(a) for b in ev)]
            why = WINDOW if (a is not None and rel) else (RESUME_WINDOW if resuming else "no_release_between_check_and_delivery")
            sig = f"{prop}/dbos_event_never_processed:{'delivered_after_exit' if not d['live'] else 'left_in_mailbox'}:{why}"
            what = (f"try_begin_resume answered `active` at {a['t'] if a else '?'} ms, the tick reached the run's mailbox at {d['t']} ms "
                    f"({'the workflow had exited on TickIdleRelease' if not d['live'] else 'behind TickIdleRelease'}; release committed at {[b['t'] for b in rel]} ms"
                    + (f"; sender {resuming[-1]['k']} had taken the resume at {resuming[-1]['t']} ms (row -> active) and had not started the new control loop yet" if resuming and not rel else "")
                    + ") and was never consumed")
        else:
            sig = f"{prop}/dbos_event_never_processed:not_delivered:sender_{pc}"
            what = (f"its sender returned at {returned[0]['t'] if returned else '?'} ms (position `{pc}`, try_begin_resume answers "
                    f"{_compress([(e['t'], e['res']) for e in ev if e['ev'] == 'try_resume' and e['k'] == k])}) but the tick was neither delivered to the run's mailbox nor folded into a reload; "
                    f"lifecycle {last['row']}")
        out.append((sig, f"{head}: Ext({n}) sent at {s['t']} ms (accepted) was never processed to the end by step b (completed: {completed}): {what}"))
    seen: set[str] = set()
    return [(sig, what) for sig, what in out if not (sig in seen or seen.add(sig))]  # the first occurrence of each signature


def _compress(xs: list) -> list:
    """[(t, r), ...] with runs of equal r collapsed to first/last"""
    res: list = []
    for t, r in xs:
        if res and res[-1][1] == r:
            res[-1] = (res[-1][0], r, t)
        else:
            res.append((t, r))
    return res


# --------------------------------------------------------------------------
# K: the protocol machine of M7 (B) against the observed actions


def project(op: str, line: str) -> str:
    """the model's answer restricted to what the harness observes on the real stack (ghost fields dropped)"""
    if line.startswith("bad-op"):
        return line
    head, _, rest = line.partition(" ")
    kv: dict[str, str] = {}
    row = ""
    for tok in rest.split(" "):
        if tok.startswith("row="):
            row = tok
        elif "=" in tok:
            k, _, v = tok.partition("=")
            kv[k] = v
    if op.startswith("btick|"):
        return f"{head} now={kv.get('now')}"
    up = kv.get("up", "0/0")
    inbox = [x for x in kv.get("inbox", "").split(",") if x]
    stranded = [f"t{x}" for x in kv.get("stranded", "").split(",") if x]
    if up.startswith("1"):
        box = f"inbox={','.join(inbox)} stranded={','.join(sorted(set(stranded)))}"
    else:
        box = f"inbox=- stranded={','.join(sorted(set(stranded + [x for x in inbox if x != 'IR'])))}"
    return f"{head} now={kv.get('now')} {row} up={up} {box} processed={kv.get('processed', '')} R={kv.get('R', '')} U={kv.get('U', '')}".rstrip()


def impl_lines(o: dict) -> list[str]:
    return [(" ".join(l.split(" ")[:2]) if op.startswith("btick|") else l).rstrip() for op, l in zip(o["ops"], o["impl"])]


# --------------------------------------------------------------------------
# cases

def _corpus(name: str) -> dict:
    from ..boot import VERIF

    return json.load(open(os.path.join(VERIF, "harness", "corpus", name)))["case"]["case"]


# a tick that passed try_begin_resume while the row said `active` reaches the run between begin_release's commit and its answer
CASE_TICK_IN_BEGIN_RESPONSE = _corpus("c36_dbos_tick_in_release_window.json")
# ... between the answer and the arrival of TickIdleRelease
CASE_TICK_IN_IR_DELIVERY = {"tau": 200, "lat": {"ir": 150, "deliver": 60}, "sends": [{"at": 195, "n": 1}], "final": True}
# ... while the request is on its way to the database
CASE_TICK_IN_BEGIN_REQUEST = {"tau": 200, "lat": {"begin_req": 100, "begin_resp": 50, "deliver": 30}, "sends": [{"at": 199, "n": 1}], "final": True}
# two ticks, one in each half of the window; latency on every call
CASE_TWO_TICKS = {"tau": 300, "lat": {"begin_req": 20, "begin_resp": 120, "ir": 80, "complete_req": 30, "complete_resp": 30, "resume_req": 10, "resume_resp": 10, "deliver": 50},
                  "sends": [{"at": 290, "n": 1}, {"at": 380, "n": 2}], "final": True}
# sender that finds `releasing`, polls, and reloads
CASE_SEND_WHILE_RELEASING = {"tau": 200, "lat": {"begin_resp": 100, "ir": 100, "complete_req": 100}, "sends": [{"at": 250, "n": 1}], "final": False}
CASE_PLAIN = {"tau": 200, "sends": [], "final": True}
# the reloading tick is not in the tick log: the second reload replays a log without it
WITNESS_SECOND_RELOAD = _corpus("c36_dbos_second_reload.json")

CORPUS = [("plain", CASE_PLAIN), ("tick_in_begin_response", CASE_TICK_IN_BEGIN_RESPONSE), ("tick_in_ir_delivery", CASE_TICK_IN_IR_DELIVERY),
          ("tick_in_begin_request", CASE_TICK_IN_BEGIN_REQUEST), ("two_ticks", CASE_TWO_TICKS), ("send_while_releasing", CASE_SEND_WHILE_RELEASING)]

# ---- C26: the same cases followed past the crash timeout, + steps that take time, + concurrent resumers
CASE_C26_MID_CAS = _corpus("c26_dbos_tick_cancels_release_mid_cas.json")
C26_CORPUS = [(n, dict(c, crash_horizon=True)) for n, c in CORPUS] + [
    ("tick_cancels_release_mid_cas", CASE_C26_MID_CAS),
    ("working_step_then_release", {"tau": 200, "work": 150, "sends": [{"at": 100, "n": 1}], "final": True, "crash_horizon": True}),
    ("work_outlasts_timeout", {"tau": 100, "work": 400, "lat": {"begin_req": 10, "begin_resp": 30, "deliver": 10}, "sends": [{"at": 50, "n": 1}, {"at": 80, "n": 2}], "final": True, "crash_horizon": True}),
    ("three_resumers_at_once", {"tau": 100, "lat": {"resume_req": [0, 10, 0]}, "sends": [{"at": 300, "n": 1}, {"at": 300, "n": 2}, {"at": 301, "n": 3}], "final": False, "crash_horizon": True}),
    ("two_senders_poll_releasing", {"tau": 200, "lat": {"begin_resp": 100, "ir": 100, "complete_req": 100}, "sends": [{"at": 250, "n": 1}, {"at": 260, "n": 2}], "final": False, "crash_horizon": True}),
]
# what the UNCHANGED tree does to a tick that is in flight while the run is released / resumed (counted, classified apart; see monitors_c26)
C26_WITNESSES = [
    ("released_while_step_running", _corpus("c26_dbos_released_while_step_running.json"),
     ["C26/dbos_released_while_busy:step_running:" + WINDOW, "C26/dbos_event_never_processed:step_cut_short:" + WINDOW]),
    ("tick_after_idle_release", _corpus("c26_dbos_tick_after_idle_release.json"), ["C26/dbos_event_never_processed:delivered_after_exit:" + WINDOW]),
    ("tick_sent_during_resume", _corpus("c26_dbos_tick_sent_during_resume.json"), ["C26/dbos_event_never_processed:delivered_after_exit:" + RESUME_WINDOW]),
]

_LATS = [0, 0, 0, 1, 10, 20, 50, 100, 150, 300]


def gen_case(rng: random.Random) -> dict:
    tau = rng.choice([100, 200, 300, 500, 800])
    lat = {k: rng.choice(_LATS) for k in LAT_KEYS if rng.random() < 0.6}
    if rng.random() < 0.3:
        k = rng.choice(["begin_req", "begin_resp", "ir", "deliver"])
        lat[k] = [rng.choice(_LATS) for _ in range(rng.randint(2, 3))]
    case: dict[str, Any] = {"tau": tau, "lat": lat}

    def L(k: str) -> int:
        return _lat(case, k, 0)

    # instants of the first release, if nothing disturbs it
    t_fire = tau
    t_cas = t_fire + L("begin_req")
    t_ans = t_cas + L("begin_resp")
    t_ir = t_ans + L("ir")
    t_done = t_ir + L("complete_req")
    marks = [t_fire, t_cas, t_ans, t_ir, t_done]
    sends = []
    n_sends = rng.choice([0, 1, 1, 1, 2, 2, 3])
    for j in range(n_sends):
        lo, hi = rng.choice([(t_fire - 30, t_fire), (t_fire, t_cas), (t_cas, t_ans), (t_ans, t_ir), (t_ir, t_done + 30), (t_fire - 30, t_done + 30)])
        target = rng.choice([lo, hi, (lo + hi) // 2, rng.randint(lo, max(lo, hi)), rng.choice(marks) + rng.choice([-1, 0, 1])])
        # either the tick's arrival at the run or the sender's lifecycle check lands on the target
        at = target - (L("resume_req") + L("resume_resp") + L("deliver")) if rng.random() < 0.7 else target - L("resume_req")
        sends.append({"at": max(1, at), "n": j + 1})
    case["sends"] = sends
    case["final"] = True
    return case


def gen_case_c26(rng: random.Random) -> dict:
    """C26's distribution over the same case space: the sends of `gen_case` (placed on the instants of the first release), plus
    steps that take time (so that `running work` exists), plus bursts of senders that find the run released or releasing at
    the same instant (concurrent resumers); every open send is followed past the crash timeout"""
    case = gen_case(rng)
    case["crash_horizon"] = True
    if rng.random() < 0.45:
        case["work"] = rng.choice([30, 120, 400])
    if rng.random() < 0.3:
        def L(k: str) -> int:
            return _lat(case, k, 0)

        t_done = int(case["tau"]) + L("begin_req") + L("begin_resp") + L("ir") + L("complete_req")
        first = [s for s in case["sends"] if s["at"] < int(case["tau"]) - 30][:1]
        at = max(1, t_done + rng.choice([-20, 0, 1, L("complete_resp"), L("complete_resp") + 40, 600]))
        first = [{"at": s["at"], "n": 1} for s in first]
        burst = [{"at": at + rng.choice([0, 0, 1, 7]), "n": len(first) + j + 1} for j in range(rng.randint(2, 3))]
        case["sends"] = first + burst
    return case


def check_cases(cases: list[dict], prop: str = "C36") -> list[dict]:
    """run the cases on the real stack, one driver call for all of them (every op stream starts with `binit`)"""
    from ..runner import Driver, diff_streams

    runs = [run_case(c) for c in cases]
    all_ops = [op for o in runs for op in o["ops"]]
    model = Driver("lifecycle").run(all_ops) if all_ops else []
    res, pos = [], 0
    for case, o in zip(cases, runs):
        n = len(o["ops"])
        m = [project(op, l) for op, l in zip(o["ops"], model[pos:pos + n])]
        pos += n
        d = diff_streams("lifecycle-protocol", o["ops"], m, impl_lines(o), context={"kind": "dbos_gated", "case": case})
        res.append({"case": case, "run": o, "divergence": d, "findings": monitors_c26(o) if prop == "C26" else monitors(o, prop)})
    return res
