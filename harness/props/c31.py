"""C31 — timeout and cancellation stop the run cleanly and keep it resumable."""
from __future__ import annotations

import copy
import random

from ..engine import live, monitors, specgen, suite
from ..runner import Env, Outcome, Violation

THEOREMS = ["C31_active_steps", "C31_timeout_tick", "C31_cancel_tick", "C31_drain_timeout", "C31_drain_cancel",
            "C31_nothing_after_end", "C31_finished_never_timed_out", "C31_timeout_only_after_deadline",
            "C31_halt_timeout_only_by_timeout_tick", "C31_cancel_keeps_serialised_context",
            "C31_immediate_retry_buffered", "C31_buffer_drained_before_mailbox", "C31_requeue_tick_held",
            "C31_rebuild_rewinds_first", "C31_rebuild_base_starts_pending", "C31_stopped_state_is_replay_of_log",
            "C31_rebuilt_context_is_run_state"]
EXPLANATION = (
    "Lean: the timeout tick publishes WorkflowTimedOutEvent naming exactly the steps with an in-progress invocation and halts with "
    "`timeout`, keeping queues/in-progress/buffers/waiters; the cancel tick publishes WorkflowCancelledEvent and halts with "
    "`cancelledByUser` leaving the broker state — hence the serialised context — unchanged; on the runner LTS, for every "
    "schedule, either tick ends the run with its event last, no worker left and nothing at all happening afterwards (a run that "
    "ended is never timed out); invariant over all action lists: the run's TickTimeout is processed, and `halt timeout` issued, "
    "only at clock >= start + timeout, and only that tick produces `halt timeout`. Tie: reducer and runner correspondences "
    "(timeouts, cancels at scheduler-chosen points), serde. Search: live workflows with timeouts 1..30 and cancels at random "
    "quiet points: terminal event/outcome kinds, active_steps vs the in-progress table, deadline, no step entry and no tick after "
    "the end, state unchanged by cancel; after a cancel the context is serialised (ctx.to_dict -> JSON), resumed with "
    "Context.from_dict and every invocation that was in progress or queued is executed again. A retry that is due at once (policy "
    "delay 0) is re-queued through the tick buffer, never the timer heap; the buffer is drained before the mailbox is looked at; "
    "reducing the re-queue tick puts the event back into the step's tables (three theorems) -- so a cancel that is already in the "
    "mailbox when an attempt fails still retains the event. Search for that: a retried step whose attempts fail behind a gate, "
    "with the cancel delivered in the very instant the gate opens (scheduler option gate+ext); oracle independent of the engine "
    "state: from the step bodies' own enter/exit records, every invocation that was executing at the cancel, or whose last "
    "execution failed with the spec's policy granting an immediate retry, must be executed again by the resumed run (a retry "
    "waiting out a positive delay is the recorded finding C12/pending_retry_timer_lost and only counted). Every generation: "
    "ctx.to_dict() rebuilds the state from the run's START state and its tick log (model `rebuildAt`: rewind always, then every "
    "tick at the current clock); a context left with pending work comes back with queue entries and nothing in progress, and the "
    "rewound base has that work in progress (C31_rebuild_base_starts_pending); from the rewound start state -- fresh or the context "
    "of an earlier stop -- the log replays to the live state at every point of every schedule (C31_stopped_state_is_replay_of_log, "
    "C31_rebuilt_context_is_run_state under an unmoved clock). Tie: the real rebuild_state_from_ticks on each generation's start "
    "state and adapter log against `rebuildAt` (driver op `rebuild`). Search: chains of 2-3 stop/resume rounds (cancel_run at "
    "scheduler-chosen points, also in the instant a gate opens, or the workflow timeout; external events and to_dict() calls in "
    "between) over pipelines with gated/sleeping/retrying stages and the general families: after every stop ctx.to_dict() must "
    "succeed and equal the state the stopped run was left in, and the next generation must execute, or still hold, every "
    "invocation that was executing (bodies' records) or pending (live state) at the stop."
)
ASSUMPTIONS = suite.ENGINE_ASSUMPTIONS + [
    "delivery of CancelledError into running step bodies and executor threads of sync steps is asyncio's; covered only by the monitors (no step entry after the end)",
    "WorkflowTimeoutError / WorkflowCancelledByUser are raised from the halt command by the runner glue (checked on live runs, not modelled)",
]


def _retry_decision(pol: dict | None, rn: int) -> tuple[str, float | None]:
    """what the step's retry policy -- as written in the spec, not as observed -- asks for after the failure of
    execution number `rn` (0-based): ("exhausted", None) | ("retry", delay) | ("unknown", None)"""
    if pol is None:
        return ("exhausted", None)
    kind = pol.get("kind", "attempts")
    if kind not in ("attempts", "legacy", "chain"):
        return ("unknown", None)
    if rn + 1 >= max(pol["n"], 1):
        return ("exhausted", None)
    if kind == "chain":
        # which link of a chain applies to the k-th retry is the subject of C06 (open finding: the index is off by one);
        # here only "at once" vs "after a delay" matters, so the decision is used when both conventions agree on it
        waits = pol["waits"]
        a, b = float(waits[min(rn, len(waits) - 1)]), float(waits[min(rn + 1, len(waits) - 1)])
        return ("retry", max(a, b)) if (a == 0) == (b == 0) else ("unknown", None)
    return ("retry", float(pol.get("wait", 0)))


def _unfinished_invocations(tr1) -> list[tuple]:
    """Independent of the engine's state: from the step bodies' own enter/exit records of the cancelled run, the
    invocations (step, input uid) that had started and had not completed successfully when the run ended, each with the
    reason why it is still owed: ("in_progress", None) -- the body was running and was cancelled;
    ("retry_due_at_once", rn) -- its last execution failed and the policy of the spec grants an immediate retry (delay 0);
    ("retry_after_delay", (rn, d)) -- granted, after a positive delay d."""
    sdefs = {s_["name"]: s_ for s_ in tr1.spec["steps"]}
    last: dict[tuple, tuple] = {}
    open_: dict[tuple, int] = {}
    for rec in tr1.steps:
        if rec[0] not in ("enter", "exit") or not isinstance(rec[2], int) or rec[4] == -1.0:
            continue
        key = (rec[1], rec[2])
        open_[key] = open_.get(key, 0) + (1 if rec[0] == "enter" else -1)
        last[key] = rec
    owed = []
    for key, rec in last.items():
        sd = sdefs.get(key[0])
        if sd is None or sd.get("role") == "handler" or sd.get("sync") or open_.get(key, 0) != 0 or rec[0] != "exit":
            continue
        status = rec[5].get("status")
        if status == "cancelled":
            owed.append((key, "in_progress", None))
        elif status == "raise:Boom":
            what, d = _retry_decision(sd.get("retry"), rec[3])
            if what == "retry" and d == 0:
                owed.append((key, "retry_due_at_once", rec[3]))
            elif what == "retry":
                owed.append((key, "retry_after_delay", (rec[3], d)))
    return owed


def _race_spec(rng: random.Random) -> dict:
    spec = specgen.gen_retry_race_spec(rng)
    spec["snapshot_after_end"] = True
    if rng.random() < 0.3:
        spec["resume_timeout"] = rng.choice([4, 10, 30])
    return spec


def _general_spec(rng: random.Random) -> dict:
    spec = specgen.gen_spec(rng, allow_timeout=False, family=rng.choice(["general", "fanin", "retry", "wait"]))
    spec["externals"] = [e for e in spec.get("externals", []) if e["op"] == "send"]
    spec["externals"].append({"op": "cancel", "after_quiet": rng.randint(0, 4)})
    spec["snapshot_after_end"] = True
    spec.pop("timeout", None)
    if rng.random() < 0.6:
        spec["resume_timeout"] = rng.choice([1, 2, 4, 10, 30])
    return spec


def _cancel_resume(env: Env, out: Outcome, n: int, gen=_general_spec, label: str = "cancel_resume", replay: bool = True,
                   extra: tuple = ()) -> None:
    rng = random.Random(env.rng.randrange(1 << 30))
    jobs = []
    if replay and env.replay is not None and isinstance(env.replay.get("payload", {}).get("case"), dict) and "cancel_resume" in env.replay["payload"]["case"]:
        c = env.replay["payload"]["case"]["cancel_resume"]
        jobs.append((c["spec"], c["seed"], c.get("actions1"), c.get("actions2")))
    for item in extra:
        c = item["cancel_resume"]
        jobs.append((c["spec"], c["seed"], c.get("actions1"), c.get("actions2")))
    for _ in range(n):
        jobs.append((gen(rng), rng.randrange(1 << 30), None, None))
    resumed: list = []
    firsts: list = []
    for spec, seed, a1, a2 in jobs:
        tr1 = live.run_spec(spec, seed=seed, replay_actions=a1)
        if any(e.get("with_gate") for e in spec.get("externals", [])):
            firsts.append(tr1)
        out.evaluations += 1
        case = {"cancel_resume": {"spec": spec, "seed": seed, "actions1": tr1.actions, "actions2": None}}
        for v in monitors.mon_c31(tr1):
            out.violations.append(v)
        if tr1.outcome[0] != "cancelled":
            out.count(label + ":not_cancelled:" + tr1.outcome[0])
            continue
        snaps = [s for s in tr1.snapshots if s.get("after_end")]
        if not snaps:
            out.violations.append(Violation("C31/context_not_serialisable_after_cancel", "ctx.to_dict() failed after cancel_run: " + "; ".join(tr1.notes)[:300], case))
            continue
        rc = [c for c in tr1.calls if c.after is not None and c.caller in ("run", "_process_tick")]
        last = rc[-1].after if rc else None
        pending = []
        if last is not None:
            for nm, ws in last.workers.items():
                pending += [(nm, getattr(ip.event, "uid", None)) for ip in ws.in_progress if getattr(ip.event, "uid", None) is not None]
                pending += [(nm, getattr(a.event, "uid", None)) for a in ws.queue if getattr(a.event, "uid", None) is not None]
        spec2 = copy.deepcopy(spec)
        spec2["externals"] = copy.deepcopy([e for e in getattr(tr1, "remaining_externals", []) if e["op"] == "send"])
        spec2.pop("snapshot_after_end", None)
        spec2["_resumed"] = True
        if spec.get("resume_timeout") is not None:
            spec2["timeout"] = spec["resume_timeout"]  # the resumed run is bounded by the workflow's timeout like a fresh one
        tr2 = live.run_spec(spec2, seed=seed + 1, replay_actions=a2, resume_from=snaps[0]["dict"])
        case["cancel_resume"]["actions2"] = tr2.actions
        owed = _unfinished_invocations(tr1)
        out.count(label + ":resumed")
        out.count(f"{label}:pending:{min(len(pending), 4)}")
        out.count(label + ":outcome:" + tr2.outcome[0])
        for _k, why, _x in owed:
            out.count(f"{label}:owed:{why}")
        for r_ in getattr(tr1, "raced", []):
            out.count(f"{label}:cancel_raced_with_gate")
        if pending or owed:
            out.nontrivial((repr(spec), tuple(tr1.actions)))
        resumed.append(tr2)
        out.count(label + ":resume_timeout:" + str(spec2.get("timeout")))
        for v in monitors.mon_c31(tr2):
            v.replay = case
            out.violations.append(v)
        if tr2.outcome[0] in ("invalid",):
            out.violations.append(Violation("C31/resume_after_cancel_failed", f"Context.from_dict/run raised: {tr2.outcome[1]!r}", case))
            continue
        entered = {(r[1], r[2]) for r in tr2.steps if r[0] == "enter"}
        ended_early = tr2.outcome[0] in ("result", "error", "timeout")
        for p in pending:
            if p not in entered and not ended_early:
                out.violations.append(Violation("C31/pending_invocation_not_resumed", f"after cancel + resume the invocation {p} (in progress or queued at the cancel) was never executed; resumed run ended as {tr2.outcome[0]}", case))
        # the same clause without reading the engine's state: what the step bodies themselves saw start and not finish
        for key, why, x in owed:
            if key in entered or ended_early:
                continue
            if why == "retry_after_delay":
                # a retry waiting out a positive delay lives in the runner's timer heap only and is not part of the serialised
                # context: the recorded open finding C12/pending_retry_timer_lost -- counted, not raised again under C31
                out.count(f"{label}:retry_after_positive_delay_not_resumed(open finding C12/pending_retry_timer_lost)")
                continue
            snap_w = snaps[0]["dict"].get("workers", {}).get(key[0], {})
            held = f"serialised context holds {len(snap_w.get('queue', []))} queued / {len(snap_w.get('in_progress', []))} in-progress event(s) for {key[0]}"
            if why == "in_progress":
                out.violations.append(Violation("C31/started_invocation_not_resumed:in_progress_at_cancel",
                                                f"the invocation {key} was executing when cancel_run ended the run; after ctx.to_dict -> Context.from_dict -> run it was never "
                                                f"executed again (resumed run ended as {tr2.outcome[0]}); {held}", case))
            else:
                out.violations.append(Violation("C31/started_invocation_not_resumed:immediate_retry_pending_at_cancel",
                                                f"execution {x} of {key} had failed and its retry policy {next(s_ for s_ in spec['steps'] if s_['name'] == key[0]).get('retry')} "
                                                f"grants an immediate retry (delay 0) when cancel_run ended the run; after ctx.to_dict -> Context.from_dict -> run the step was "
                                                f"never executed again for that event (resumed run ended as {tr2.outcome[0]}); {held}", case))

    # the resumed runs against the runner LTS (rinit without a start event: timer heap, buffer, workers, stream, commands per tick)
    suite.runner_corr(out, resumed, "engine-runner-resumed", rebuild=True)
    # the cancelled runs whose cancel was delivered together with a gate opening: worker result and cancel tick in front of the loop at once
    suite.runner_corr(out, firsts, "engine-runner-cancel-race")


# --------------------------------------------------------------------------
# chains of stop/resume rounds ("generations")


def _pending_in_state(tr) -> list[tuple]:
    """(step, uid) of everything queued or in progress in the LIVE reducer state the run ended with (not in what
    ctx.to_dict() rebuilt from the tick log)"""
    rc = [c for c in tr.calls if c.after is not None and c.caller in ("run", "_process_tick")]
    pending: list[tuple] = []
    if rc:
        for nm, ws in rc[-1].after.workers.items():
            pending += [(nm, getattr(ip.event, "uid", None)) for ip in ws.in_progress if getattr(ip.event, "uid", None) is not None]
            pending += [(nm, getattr(a.event, "uid", None)) for a in ws.queue if getattr(a.event, "uid", None) is not None]
    return pending


def _context_vs_run_state(tr, snap: dict) -> str | None:
    """the context written by ctx.to_dict() after the run was stopped against the state the stopped run was left in
    (the reducer state after its last tick, serialised by the same to_serialized): queues, in-progress tables, buffers,
    waiters, is_running -- timestamps and the user store aside"""
    import json

    from workflows.context.serializers import JsonSerializer

    rc = [c for c in tr.calls[: snap["at_call"]] if c.after is not None and c.caller in ("run", "_process_tick")]
    if not rc:
        return None

    def strip(d: dict) -> dict:
        d = json.loads(json.dumps(d, default=str))
        for w in d.get("workers", {}).values():
            for a in list(w.get("queue", [])) + list(w.get("collected_waiters", [])):
                a["first_attempt_at"] = None
                a["last_failed_at"] = None
        d.pop("state", None)
        return d

    want = strip(rc[-1].after.to_serialized(JsonSerializer()).model_dump(mode="python"))
    got = strip(snap["dict"])
    if want == got:
        return None
    import re

    def uids(entries: list) -> list:
        return [int(m.group(1)) if (m := re.search(r'uid\W+(\d+)', json.dumps(e))) else "?" for e in entries]

    diffs = []
    for nm in sorted(set(want.get("workers", {})) | set(got.get("workers", {}))):
        a, b = want.get("workers", {}).get(nm, {}), got.get("workers", {}).get(nm, {})
        if a != b:
            diffs.append(f"{nm}: run had events {uids(a.get('queue', []))} queued / {uids(a.get('in_progress', []))} in progress, "
                         f"context has {uids(b.get('queue', []))} queued / {uids(b.get('in_progress', []))} in progress")
    if want.get("is_running") != got.get("is_running"):
        diffs.append(f"is_running: run {want.get('is_running')}, context {got.get('is_running')}")
    return "; ".join(diffs)[:400] or "differs outside the worker tables"


def _gen_plan(rng: random.Random, spec: dict) -> list[dict]:
    """2..3 stop/resume rounds followed by a last generation that is left alone.  Each round: how the run is stopped
    (cancel_run at a scheduler-chosen quiet point, sometimes in the instant a gate opens; or the workflow timeout), events
    sent from outside during that generation, ctx.to_dict() calls on the live handler (resumed generations)."""
    consumed = sorted({t for s_ in spec["steps"] for t in s_["accepts"] if t not in (0, 4)}) or [5]
    plan = []
    rounds = rng.choice([2, 2, 3])
    for g in range(rounds + 1):
        item: dict = {"sends": [], "snapshots": []}
        if g < rounds:
            if rng.random() < 0.75:
                item["stop"] = {"op": "cancel", "after_quiet": rng.choice([0, 1, 1, 2, 2, 3, 4])}
                if rng.random() < 0.2:
                    item["stop"]["with_gate"] = rng.choice(["after", "before"])
            else:
                item["timeout"] = rng.choice([1, 2, 4])
        elif rng.random() < 0.5:
            item["timeout"] = rng.choice([10, 30])
        for _ in range(rng.choice([0, 0, 1, 2])):
            item["sends"].append({"op": "send", "ty": rng.choice(consumed + [3]), "k": rng.choice([None, 1, 2]), "step": None,
                                  "after_quiet": rng.randint(0, 3)})
        if g > 0 and rng.random() < 0.4:
            item["snapshots"].append({"op": "snapshot", "after_quiet": rng.randint(0, 4)})
        plan.append(item)
    return plan


def _gen_chain_spec(rng: random.Random) -> dict:
    if rng.random() < 0.6:
        spec = specgen.gen_pipeline_spec(rng)
    else:
        spec = specgen.gen_spec(rng, allow_timeout=False, family=rng.choice(["general", "fanin", "retry", "wait"]))
        spec["externals"] = [e for e in spec.get("externals", []) if e["op"] == "send"]
    spec.pop("timeout", None)
    return spec


def _generations(env: Env, out: Outcome, n: int, extra: tuple = (), label: str = "generations") -> None:
    """cancel_run / timeout while work is in progress, queued or absent -> ctx.to_dict() -> Context.from_dict -> run, two
    or three times in a row: the run that is stopped in round 2, 3 is itself a resumed run whose restarted work has
    (partly) completed.  After EVERY stop: the terminal event/outcome rules (mon_c31); ctx.to_dict() succeeds and
    describes the state the stopped run was left in; the next generation starts from it and executes every invocation
    that was executing (step bodies' own records) or pending (live reducer state) at the stop -- or still holds it."""
    rng = random.Random(env.rng.randrange(1 << 30))
    jobs = []
    if env.replay is not None and isinstance(env.replay.get("payload", {}).get("case"), dict) and "generations" in env.replay["payload"]["case"]:
        c = env.replay["payload"]["case"]["generations"]
        jobs.append((c["spec"], c["seed"], c["plan"], c.get("actions")))
    for item in extra:
        c = item["generations"]
        jobs.append((c["spec"], c["seed"], c["plan"], c.get("actions")))
    for _ in range(n):
        spec = _gen_chain_spec(rng)
        jobs.append((spec, rng.randrange(1 << 30), _gen_plan(rng, spec), None))
    traces: list = []
    for spec, seed, plan, actions in jobs:
        out.evaluations += 1
        case = {"generations": {"spec": spec, "seed": seed, "plan": plan, "actions": []}}
        carried: list = list(spec.get("externals", []))
        prev_dict = None
        prev = None  # (trace, pending, owed, stop kind) of the generation before
        for g, item in enumerate(plan):
            sg = copy.deepcopy(spec)
            sg["externals"] = copy.deepcopy([e for e in carried if e["op"] == "send"] + item.get("sends", []) + item.get("snapshots", []))
            if item.get("stop") is not None:
                sg["externals"].append(copy.deepcopy(item["stop"]))
            sg.pop("timeout", None)
            if item.get("timeout") is not None:
                sg["timeout"] = item["timeout"]
            sg["snapshot_after_end"] = True
            if g > 0:
                sg["_resumed"] = g
            a = actions[g] if actions is not None and g < len(actions) else None
            tr = live.run_spec(sg, seed=seed + g, replay_actions=a, resume_from=prev_dict)
            case["generations"]["actions"].append(tr.actions)
            traces.append(tr)
            kind = tr.outcome[0]
            gtag = "first_run" if g == 0 else "resumed_run"
            out.count(f"{label}:gen{g}:outcome:{kind}")
            for v in monitors.mon_c31(tr):
                v.replay = case
                out.violations.append(v)
            if kind == "invalid":
                how = prev[3] if prev is not None else "cancel"
                out.violations.append(Violation(f"C31/resume_after_{how}_failed" + (":second_resume" if g > 1 else ""),
                                                f"generation {g}: Context.from_dict/run on the context left by the {how} raised: {tr.outcome[1]!r}", case))
                break
            # to_dict() on the live handler of a run that was resumed from a stopped context
            for note in tr.notes:
                if note.startswith("snapshot failed"):
                    out.violations.append(Violation(f"C31/context_not_serialisable_while_running:{gtag}",
                                                    f"generation {g}: ctx.to_dict() on the live handler raised ({note})", case))
            # what the generation before left pending must have been executed by now, or still be held
            pending = _pending_in_state(tr)
            entered = {(r[1], r[2]) for r in tr.steps if r[0] == "enter"}
            if prev is not None:
                ptr, ppending, powed, phow = prev
                ended_early = kind in ("result", "error", "timeout")
                n_done = 0
                for key, why in [(p, "pending") for p in ppending] + [(k, w) for k, w, _x in powed if w != "retry_after_delay"]:
                    if key in entered:
                        n_done += 1
                        continue
                    if ended_early or key in pending or phow != "cancel":
                        continue
                    sig = {"pending": "C31/pending_invocation_not_resumed", "in_progress": "C31/started_invocation_not_resumed:in_progress_at_cancel",
                           "retry_due_at_once": "C31/started_invocation_not_resumed:immediate_retry_pending_at_cancel"}[why]
                    out.violations.append(Violation(sig + (":after_resumed_run" if g > 1 else ""),
                                                    f"generation {g - 1} was ended by cancel_run with the invocation {key} "
                                                    f"{'executing' if why == 'in_progress' else 'queued or in progress' if why == 'pending' else 'owed an immediate retry'}; "
                                                    f"generation {g} (ctx.to_dict -> Context.from_dict -> run) never executed it and does not hold it any more "
                                                    f"(it ended as {kind})", case))
                out.count(f"{label}:gen{g}:restarted_work_executed:{min(n_done, 3)}")
                if phow != "cancel":
                    out.count(f"{label}:after_timeout:carried_over:{'all' if all(k in entered or k in pending for k in ppending) else 'not_all'}")
            if kind not in ("cancelled", "timeout"):
                break
            how = "cancel" if kind == "cancelled" else "timeout"
            done_inside = sum(1 for r in tr.steps if r[0] == "exit" and r[5].get("status") == "ok")
            out.count(f"{label}:stop:{how}:{gtag}:pending:{min(len(pending), 3)}:completed_inside:{min(done_inside, 3)}")
            if g > 0 and done_inside:
                out.nontrivial((label, repr(spec), repr(plan), tuple(map(tuple, case['generations']['actions']))))
            snaps = [s_ for s_ in tr.snapshots if s_.get("after_end")]
            if not snaps:
                why_ = "; ".join(x for x in tr.notes if x.startswith("snapshot after end failed"))[:300]
                out.violations.append(Violation(f"C31/context_not_serialisable_after_{how}:{gtag}",
                                                f"generation {g} ({'a run resumed from a stopped context' if g else 'a fresh run'}) was ended by {how} with {len(pending)} invocation(s) "
                                                f"pending ({done_inside} step execution(s) had completed inside it); ctx.to_dict() on the context it left raised: {why_}", case))
                break
            # (policies that look at elapsed time decide differently when the log is replayed on a later clock: outside the
            # guard of C11_time_erasure_statement, the comparison is not made for them)
            elapsed_pol = any((s_.get("retry") or {}).get("kind") == "delay" for s_ in spec["steps"])
            diff = None if elapsed_pol else _context_vs_run_state(tr, snaps[0])
            if elapsed_pol:
                out.count(f"{label}:context_vs_run_state:skipped(elapsed-time policy)")
            if diff is not None:
                out.violations.append(Violation(f"C31/serialised_context_differs_from_run_state:after_{how}:{gtag}",
                                                f"generation {g} was ended by {how}; the context written by ctx.to_dict() afterwards does not describe the state the run was left in: {diff}", case))
            if g + 1 >= len(plan):
                break
            prev = (tr, pending, _unfinished_invocations(tr), how)
            prev_dict = snaps[0]["dict"]
            carried = list(getattr(tr, "remaining_externals", []))
    # every generation against the runner LTS (resumed ones: rinit without a start event from the deserialised context)
    # ... and what ctx.to_dict() computes from each generation's start state and tick log against the model's `rebuildAt`
    suite.runner_corr(out, traces, "engine-runner-generations", rebuild=True)


def run(env: Env) -> Outcome:
    out = Outcome()
    out.rule = ("live: general/retry/wait workflows with timeouts and cancels at scheduler-chosen quiet points; cancel_resume: cancel, ctx.to_dict -> JSON, "
                "Context.from_dict, run again; cancel_race: zero-delay (and some positive-delay) retry policies, attempts failing behind a gate, the cancel "
                "delivered together with a gate opening; generations: 2-3 stop/resume rounds in a row (cancel / timeout / external events / to_dict in "
                "between) over pipelines and the general families; non-trivial = more than 2 ticks / work pending or owed at the cancel / a stopped "
                "resumed run inside which restarted work had completed; distinct by (spec, schedule)")

    def with_end(spec: dict, rng: random.Random) -> dict:
        r = rng.random()
        if r < 0.45:
            spec["timeout"] = rng.choice([1, 2, 4, 10, 30])
        elif r < 0.85:
            spec.setdefault("externals", []).append({"op": "cancel", "after_quiet": rng.randint(0, 5)})
        return spec

    suite.direct_corr(env, out, env.budget(1500, 30000))
    suite.serde_corr(env, out, env.budget(200, 4000))
    suite.live_runs(env, out, env.budget(20, 400), [monitors.mon_c31], extra_specs=suite.load_corpus("C31"))
    suite.live_runs(env, out, env.budget(300, 6000), [monitors.mon_c31], mutate_spec=with_end)
    _cancel_resume(env, out, env.budget(100, 2000), extra=tuple(suite.load_corpus("C31/cancel_resume")))
    # the cancel arriving in the instant an attempt of a retried step fails (immediate retries mostly)
    _cancel_resume(env, out, env.budget(80, 1500), gen=_race_spec, label="cancel_race", replay=False)
    # two or three stop/resume rounds in a row: the stopped run is itself a resumed run whose restarted work went on
    _generations(env, out, env.budget(120, 2400), extra=tuple(suite.load_corpus("C31/generations")))
    # a finishing step whose sibling needs a while to unwind from its cancellation, with the deadline inside that window
    # (fractional times: outside the integral-time runner correspondence, monitors only)
    rng = random.Random(env.rng.randrange(1 << 30))
    slow = []
    for _ in range(env.budget(40, 800)):
        s_ = rng.choice([1, 2, 3, 5])
        fin_first = rng.random() < 0.8
        slow.append({"spec": {"steps": [
            {"name": "s00", "accepts": [0], "nw": 1, "retry": None, "script": [["send", 5, None, None], ["send", 6, None, None], ["ret", "none"]]},
            {"name": "s02", "accepts": [5], "nw": 1, "retry": None, "script": [["sleep", s_], ["ret", "stop"]]},
            {"name": "s04", "accepts": [6], "nw": rng.randint(1, 2), "retry": None,
             "script": [["on_cancel_sleep", rng.choice([0.125, 0.25, 0.375, 1])], ["sleep", 1000], ["ret", "none"]]}],
            "externals": [], "timeout": (s_ + rng.choice([0.125, 0.25, 0.4375])) if fin_first else max(s_ - rng.choice([0.5, 1]), 0.5)},
            "seed": rng.randrange(1 << 30)})
    suite.live_runs(env, out, 0, [monitors.mon_c31], extra_specs=slow, check_runner=False)
    return out
