import WfModel.Version
import WfModel.VersionTag
import Driver.Util
open Version Drv

namespace Drv.Version

def showRes : Res → String
  | .ok s => "ok " ++ showChars s
  | .labelError => "label-error"
  | .outside => "outside"

def showChange : Change → String
  | .none => "none"
  | .major => "major"
  | .minor => "minor"
  | .patch => "patch"

def showVer (v : Ver) : String :=
  "rel=" ++ ",".intercalate (v.release.map toString) ++ ";pre=" ++
    match v.pre with
    | none => "-"
    | some (l, n) => String.ofList l.chars ++ ":" ++ toString n

def showOrd : Ordering → String
  | .lt => "lt"
  | .eq => "eq"
  | .gt => "gt"

/-- a list of tags: `~` = the empty list, otherwise `;`-separated code-point lists -/
def parseTags? (s : String) : Option (List (List Char)) :=
  if s == "~" then some [] else (s.splitOn ";").mapM parseChars?

def showOptChars : Option (List Char) → String
  | some cs => "ok " ++ showChars cs
  | none => "value-error"

def showDRes : DRes → String
  | .ok ch => showChange ch
  | .outside => "outside"

def range (lo hi : Nat) : List Nat := (List.range (hi - lo)).map (· + lo)

def step (_ : Unit) (line : String) : Unit × String :=
  match line.splitOn "|" with
  | ["p2s", s] =>
    match parseChars? s with
    | some cs => ((), showRes (pepToSemver cs))
    | none => ((), "bad-op")
  | ["s2p", s] =>
    match parseChars? s with
    | some cs => ((), showRes (semverToPep cs))
    | none => ((), "bad-op")
  | ["norm", s] =>
    match parseChars? s with
    | some cs => ((), showRes (normalize cs))
    | none => ((), "bad-op")
  | ["parse", s] =>
    match parseChars? s with
    | some cs => ((), match parsePep cs with | some v => showVer v | none => "outside")
    | none => ((), "bad-op")
  | ["isrc", s] =>
    match parseChars? s with
    | some cs => ((), toString (isRc cs))
    | none => ((), "bad-op")
  | ["detect", cur, prev] =>
    let prev? : Option (Option (List Char)) := if prev == "~" then some none else (parseChars? prev).map some
    match parseChars? cur, prev? with
    | some c, some p =>
      match detect c p with
      | .ok ch => ((), showChange ch)
      | .outside => ((), "outside")
    | _, _ => ((), "bad-op")
  | ["le", a, b] =>
    match parseChars? a, parseChars? b with
    | some x, some y =>
      match parsePep x, parsePep y with
      | some v, some w => ((), toString (verLe v w))
      | _, _ => ((), "outside")
    | _, _ => ((), "bad-op")
  | ["cmp", a, b] =>
    match parseChars? a, parseChars? b with
    | some x, some y =>
      match parsePep x, parsePep y with
      | some v, some w => ((), showOrd (verCmp v w))
      | _, _ => ((), "outside")
    | _, _ => ((), "bad-op")
  | ["str", n] =>
    match parseNat? n with
    | some k => ((), showChars (natDigits k))
    | none => ((), "bad-op")
  | ["cls", lo, hi] =>
    match parseNat? lo, parseNat? hi with
    | some l, some h =>
      if l ≤ h ∧ h ≤ 0x110000 then
        let cps := (range l h).filter fun n => Nat.isValidChar n
        let sp := cps.filter fun n => isSpace (Char.ofNat n)
        let de := cps.filter fun n => isDecimal (Char.ofNat n)
        ((), "s:" ++ ",".intercalate (sp.map toString) ++ ";d:" ++ ",".intercalate (de.map toString))
      else ((), "bad-op")
    | _, _ => ((), "bad-op")
  | ["strip", t] =>
    match parseChars? t with
    | some cs => ((), showChars (stripRefs cs))
    | none => ((), "bad-op")
  | ["tagmeta", t] =>
    match parseChars? t with
    | some cs =>
      match inferTagMetadata cs with
      | some m => ((), "ok " ++ showChars m.normalized ++ "|" ++ showChars m.tagPrefix ++ "|" ++ showChars m.tagGlob)
      | none => ((), "value-error")
    | none => ((), "bad-op")
  | ["rmprefix", t, p] =>
    match parseChars? t, parseChars? p with
    | some cs, some ps => ((), showOptChars (removeTagPrefix cs ps))
    | _, _ => ((), "bad-op")
  | ["extract", t, p] =>
    match parseChars? t, parseChars? p with
    | some cs, some ps => ((), showOptChars (extractSemver cs ps))
    | _, _ => ((), "bad-op")
  | ["suffix", t, p] =>
    match parseChars? t, parseChars? p with
    | some cs, some ps =>
      match computeSuffixAndVersion cs ps with
      | some (a, b) => ((), "ok " ++ showChars a ++ "|" ++ showChars b)
      | none => ((), "value-error")
    | _, _ => ((), "bad-op")
  | ["prevtag", c, ts] =>
    match parseChars? c, parseTags? ts with
    | some cs, some tags =>
      match previousTag cs tags with
      | some r => ((), "some " ++ showChars r)
      | none => ((), "none")
    | _, _ => ((), "bad-op")
  | ["tagchange", t, ts] =>
    match parseChars? t, parseTags? ts with
    | some cs, some tags =>
      match tagChange cs tags, inferTagMetadata cs with
      | some o, some m =>
        match o.change with
        | .outside => ((), "outside")
        | .ok ch => ((), "ok " ++ showChars o.suffix ++ "|" ++ showChars o.semver ++ "|" ++ showChange ch ++ "|" ++ showChars m.tagGlob)
      | _, _ => ((), "error")
    | _, _ => ((), "bad-op")
  | ["docker", v, f] =>
    match parseChars? v, parseBool? f with
    | some cs, some b => ((), ";".intercalate ((dockerTagParts cs b).map showChars))
    | _, _ => ((), "bad-op")
  | _ => ((), "bad-op")

end Drv.Version
