import WfModel.ArchiveClean
/-!
Helper lemmas for C33, part 8: `_clean_metadata`.
-/
namespace ArchiveClean
open GenArchiveClean

variable {V : Type}

theorem lookup_filter (p : Key → Bool) (k : Key) :
    ∀ l : List (Key × V), lookup k (l.filter fun kv => p kv.1) = if p k then lookup k l else none
  | [] => by simp [lookup]
  | (k', v) :: rest => by
    have ih := lookup_filter p k rest
    by_cases hk : k' = k
    · subst hk
      cases hp : p k' <;> simp [lookup, hp, ih]
    · cases hp : p k' <;> simp [lookup, hp, hk, ih]

theorem metaField_clean (keep : List Key) (key : Key) (d : Doc V) :
    metaField key (clean keep d) = if keep.contains key then metaField key d else none := by
  simp only [metaField, clean]
  cases d.meta with
  | none => simp
  | some m =>
    simp only [Option.map_some, Option.bind_some, cleanMeta]
    exact lookup_filter (fun k => keep.contains k) key m.fields

theorem filter_idem {α : Type} (p : α → Bool) (l : List α) : (l.filter p).filter p = l.filter p := by
  rw [List.filter_filter]; congr 1; funext a; cases p a <;> rfl

theorem cleanMeta_idem (keep : List Key) (m : Meta V) : cleanMeta keep (cleanMeta keep m) = cleanMeta keep m := by
  simp only [cleanMeta, filter_idem]
  cases hk : keep.contains annotationsKey with
  | false => simp
  | true =>
    simp only [if_true]
    cases m.anns with
    | none => simp
    | some a =>
      simp only [Option.map_some]
      cases hf : a.filter (fun kv => !isSystem kv.1) with
      | nil => simp
      | cons x xs =>
        have : (x :: xs).filter (fun kv => !isSystem kv.1) = x :: xs := by rw [← hf, filter_idem]
        simp [this]

theorem clean_idem (keep : List Key) (d : Doc V) : clean keep (clean keep d) = clean keep d := by
  simp only [clean, filter_idem]
  cases d.meta with
  | none => rfl
  | some m => simp [cleanMeta_idem]

/-- what the cleaned annotations are, in terms of the original ones -/
theorem cleanMeta_anns (keep : List Key) (m : Meta V) (a : List (Key × V)) :
    (cleanMeta keep m).anns = some a ↔
      a ≠ [] ∧ keep.contains annotationsKey = true ∧ ∃ a0, m.anns = some a0 ∧ a = a0.filter fun kv => !isSystem kv.1 := by
  simp only [cleanMeta]
  cases hk : keep.contains annotationsKey with
  | false => simp
  | true =>
    simp only [if_true]
    cases m.anns with
    | none => simp
    | some a0 =>
      simp only [Option.map_some]
      cases hf : a0.filter (fun kv => !isSystem kv.1) with
      | nil =>
        simp only [reduceCtorEq, false_iff, not_and, not_exists]
        intro hne _ x hx
        cases hx
        intro h; exact hne (by rw [h, hf])
      | cons x xs =>
        simp only [Option.some.injEq]
        constructor
        · intro h; subst h
          exact ⟨by simp, trivial, a0, rfl, hf.symm⟩
        · rintro ⟨_, _, a1, h1, h2⟩
          cases h1; rw [h2, hf]

end ArchiveClean
