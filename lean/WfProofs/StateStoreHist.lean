import WfProofs.StateStoreSnap
import WfModel.StateStoreHist
/-! Lemmas for C19 (extension): statements over *every* history, without the guard
"bodies do not raise":

* `Spec.stepLive` — the nested dict edited in place; memory refines it for every op list;
* the backends agree up to and including the first `edit_state` body that raises;
* erasing operations that must be unobservable (top-level mutations of a snapshot, reads)
  from any op list leaves every other result and the store unchanged;
* invariants of all reachable states (type of the state, field set of a typed state);
* what a write-back installs.
-/
namespace StateStore

/-! ### runs -/

theorem runOuts_append {σ : Type} (step : σ → Op → σ × Out) (a b : List Op) : ∀ s : σ,
    runOuts step s (a ++ b) = runOuts step s a ++ runOuts step (runState step s a) b := by
  induction a with
  | nil => intro s; rfl
  | cons op a ih => intro s; simp only [List.cons_append, runOuts, runState, ih]

theorem runState_append {σ : Type} (step : σ → Op → σ × Out) (a b : List Op) : ∀ s : σ,
    runState step s (a ++ b) = runState step (runState step s a) b := by
  induction a with
  | nil => intro s; rfl
  | cons op a ih => intro s; simp only [List.cons_append, runState, ih]

theorem runOuts_length {σ : Type} (step : σ → Op → σ × Out) (ops : List Op) : ∀ s : σ,
    (runOuts step s ops).length = ops.length := by
  induction ops with
  | nil => intro s; rfl
  | cons op ops ih => intro s; simp only [runOuts, List.length_cons, ih]

/-! ### the nested dict edited in place -/

/-- the two readings return the same result for every operation (they differ in what they keep) -/
theorem stepLive_out (s : Spec) (op : Op) : (Spec.stepLive s op).2 = (Spec.step s op).2 := by
  cases op with
  | edit muts =>
    simp only [Spec.stepLive, Spec.step]
    cases h : runMuts s.root muts with
    | mk r e => cases e <;> rfl
  | _ => rfl

/-- ... and the same state unless the operation is an `edit_state` whose body raises -/
theorem stepLive_eq_step (s : Spec) (op : Op)
    (h : ∀ muts, op = .edit muts → (runMuts s.root muts).2 = none) : Spec.stepLive s op = Spec.step s op := by
  cases op with
  | edit muts =>
    have hn := h muts rfl
    simp only [Spec.stepLive, Spec.step]
    cases hr : runMuts s.root muts with
    | mk r e =>
      rw [hr] at hn
      simp only [] at hn
      subst hn
      rfl
  | _ => rfl

theorem memSimLive_step {m : Mem} {s : Spec} (R : MemSim m s) (op : Op) :
    (Mem.step m op).2 = (Spec.stepLive s op).2 ∧ MemSim (Mem.step m op).1 (Spec.stepLive s op).1 := by
  cases op with
  | edit muts =>
    obtain ⟨hsc, hroot, hheld, hty⟩ := R
    simp only [Mem.step, Spec.stepLive]
    rw [← hroot]
    have hT := runMuts_ty m.root muts
    cases hr : runMuts m.root muts with
    | mk r e =>
      rw [hr] at hT
      simp only [] at hT
      cases e with
      | none =>
        refine ⟨rfl, ⟨hsc, rfl, hheld, ?_⟩⟩
        intro h hh
        simp only [] at hh ⊢
        rw [hT]; exact hty h hh
      | some e =>
        refine ⟨rfl, ⟨hsc, rfl, hheld, ?_⟩⟩
        intro h hh
        simp only [] at hh ⊢
        rw [hT]; exact hty h hh
  | get p d => exact memSim_step R _ (by intro muts he; cases he)
  | set p v => exact memSim_step R _ (by intro muts he; cases he)
  | getState => exact memSim_step R _ (by intro muts he; cases he)
  | setState i d => exact memSim_step R _ (by intro muts he; cases he)
  | clear => exact memSim_step R _ (by intro muts he; cases he)
  | mutSnap k v => exact memSim_step R _ (by intro muts he; cases he)
  | writeBack => exact memSim_step R _ (by intro muts he; cases he)

theorem memSimLive_run (ops : List Op) : ∀ (m : Mem) (s : Spec), MemSim m s →
    runOuts Mem.step m ops = runOuts Spec.stepLive s ops ∧
    MemSim (runState Mem.step m ops) (runState Spec.stepLive s ops) := by
  induction ops with
  | nil => intro m s R; exact ⟨rfl, R⟩
  | cons op ops ih =>
    intro m s R
    have ⟨ho, R'⟩ := memSimLive_step R op
    have ⟨ih1, ih2⟩ := ih _ _ R'
    exact ⟨by simp only [runOuts]; rw [ho, ih1], by simpa only [runState] using ih2⟩

/-- after a common prefix whose bodies do not raise, the next operation — whatever it is — returns
the same in both stores -/
theorem backends_next_out {m : Mem} {q : Sql} {s : Spec} (Rm : MemSim m s) (Rq : SqlSim q s) (op : Op) :
    (Mem.step m op).2 = (Sql.step q op).2 := by
  rw [(memSimLive_step Rm op).1, stepLive_out, (sqlSim_step Rq op).1]

theorem take_succ_append_cons {α : Type} (a : List α) (x : α) (r : List α) (n : Nat) (h : a.length = n) :
    (a ++ x :: r).take (n + 1) = a ++ [x] := by
  subst h
  induction a with
  | nil => rfl
  | cons y a ih => simp only [List.cons_append, List.length_cons, List.take_succ_cons, ih]

/-! ### operations that must not be observable

`outsAt keep ops outs`: the results at the positions of the operations satisfying `keep`. -/

/-- the SQLite machine depends on its row only through what the row means (`abs`): a row that does
not exist yet and a row holding the defaults are indistinguishable -/
theorem sql_step_abs_indep {q q' : Sql} (hsc : q.sc = q'.sc) (hty : q.ty = q'.ty) (habs : q.abs = q'.abs) (op : Op) :
    (storeOp op = true ∨ q.held = q'.held →
      (Sql.step q op).2 = (Sql.step q' op).2 ∧ (Sql.step q op).1.sc = (Sql.step q' op).1.sc ∧
      (Sql.step q op).1.ty = (Sql.step q' op).1.ty ∧ (Sql.step q op).1.abs = (Sql.step q' op).1.abs) ∧
    (q.held = q'.held → (Sql.step q op).1.held = (Sql.step q' op).1.held) := by
  obtain ⟨l2, l1, lsc, lty, lheld⟩ := Sql.load_spec q
  obtain ⟨l2', l1', lsc', lty', lheld'⟩ := Sql.load_spec q'
  have hl2 : q.load.2 = q'.load.2 := by rw [l2, l2', habs]
  have hl1 : q.load.1.abs = q'.load.1.abs := by rw [l1, l1', habs]
  have hlsc : q.load.1.sc = q'.load.1.sc := by rw [lsc, lsc', hsc]
  have hlty : q.load.1.ty = q'.load.1.ty := by rw [lty, lty', hty]
  have hedit : ∀ body : Root → Root × Option Err,
      ((q.edit body).2 = (q'.edit body).2 ∧ (q.edit body).1.sc = (q'.edit body).1.sc ∧
        (q.edit body).1.ty = (q'.edit body).1.ty ∧ (q.edit body).1.abs = (q'.edit body).1.abs) ∧
      (q.held = q'.held → (q.edit body).1.held = (q'.edit body).1.held) := by
    intro body
    simp only [Sql.edit, hl2]
    cases hb : body q'.load.2 with
    | mk r e =>
      cases e with
      | none =>
        refine ⟨⟨rfl, hlsc, hlty, ?_⟩, fun hh => ?_⟩
        · simp only [Sql.save, Sql.abs, hlty]
        · simp only [Sql.save, lheld, lheld', hh]
      | some e => exact ⟨⟨rfl, hlsc, hlty, hl1⟩, fun hh => by simp only [lheld, lheld', hh]⟩
  have hset : ∀ inc : Root,
      ((q.setState inc).2 = (q'.setState inc).2 ∧ (q.setState inc).1.sc = (q'.setState inc).1.sc ∧
        (q.setState inc).1.ty = (q'.setState inc).1.ty ∧ (q.setState inc).1.abs = (q'.setState inc).1.abs) ∧
      (q.held = q'.held → (q.setState inc).1.held = (q'.setState inc).1.held) := by
    intro inc
    simp only [Sql.setState, habs]
    cases mergeState q'.abs inc with
    | ok r => exact ⟨⟨by trivial, hsc, hty, by simp only [Sql.save, Sql.abs, hty]⟩, fun hh => by simp only [Sql.save, hh]⟩
    | error e => exact ⟨⟨by trivial, hsc, hty, habs⟩, fun hh => hh⟩
  cases op with
  | get p d =>
    simp only [Sql.step, hl2]
    exact ⟨fun _ => ⟨by trivial, hlsc, hlty, hl1⟩, fun hh => by rw [lheld, lheld', hh]⟩
  | set p v => exact ⟨fun _ => (hedit _).1, (hedit _).2⟩
  | getState =>
    simp only [Sql.step, hl2]
    refine ⟨fun _ => ⟨by trivial, hlsc, hlty, ?_⟩, fun _ => by trivial⟩
    have e1 : ({ q.load.1 with held := some q'.load.2 } : Sql).abs = q.load.1.abs := rfl
    have e2 : ({ q'.load.1 with held := some q'.load.2 } : Sql).abs = q'.load.1.abs := rfl
    rw [e1, e2, hl1]
  | setState i d =>
    simp only [Sql.step, hty]
    exact ⟨fun _ => (hset _).1, (hset _).2⟩
  | clear =>
    simp only [Sql.step, hty, hsc]
    exact ⟨fun _ => (hset _).1, (hset _).2⟩
  | edit muts => exact ⟨fun _ => (hedit _).1, (hedit _).2⟩
  | mutSnap k v =>
    simp only [Sql.step]
    refine ⟨fun h => ?_, fun hh => by simp only [hh]⟩
    rcases h with h | hh
    · cases h
    · simp only [hh]
      exact ⟨by trivial, hsc, hty, habs⟩
  | writeBack =>
    simp only [Sql.step]
    refine ⟨fun h => ?_, fun hh => ?_⟩
    · rcases h with h | hh
      · cases h
      · rw [hh]
        cases q'.held with
        | none => exact ⟨rfl, hsc, hty, habs⟩
        | some h0 =>
          obtain ⟨⟨a, b, c, d⟩, _⟩ := hset h0
          exact ⟨a, b, c, d⟩
    · rw [hh]
      cases q'.held with
      | none => exact hh
      | some h0 => rfl

/-- erase from any op list that contains no write-back the top-level mutations of snapshots: the
results of all other operations, and what the in-memory store holds at the end, do not change -/
theorem mem_erase_mutSnap (ops : List Op) : ∀ {m m' : Mem}, m.sc = m'.sc → m.root = m'.root →
    (∀ op ∈ ops, isWriteBack op = false) →
    outsAt (fun op => !isMutSnap op) ops (runOuts Mem.step m ops) =
        runOuts Mem.step m' (ops.filter fun op => !isMutSnap op) ∧
    (runState Mem.step m ops).root = (runState Mem.step m' (ops.filter fun op => !isMutSnap op)).root := by
  induction ops with
  | nil => intro m m' _ hr _; exact ⟨rfl, hr⟩
  | cons op ops ih =>
    intro m m' hsc hr hall
    have hrest : ∀ o ∈ ops, isWriteBack o = false := fun o ho => hall o (List.mem_cons_of_mem _ ho)
    by_cases hm : isMutSnap op = true
    · -- dropped on the right; on the left it leaves `sc` and `root` alone
      have hs : (Mem.step m op).1.sc = m.sc ∧ (Mem.step m op).1.root = m.root := by
        cases op <;> first | exact ⟨rfl, rfl⟩ | cases hm
      have := ih (m := (Mem.step m op).1) (m' := m') (by rw [hs.1, hsc]) (by rw [hs.2, hr]) hrest
      simpa only [runOuts, outsAt, runState, List.filter, hm, Bool.not_true, Bool.false_eq_true, if_false] using this
    · have hm' : isMutSnap op = false := by simpa using hm
      have hst : storeOp op = true := by
        have hw := hall op List.mem_cons_self
        cases op <;> simp_all [isMutSnap, isWriteBack, storeOp]
      obtain ⟨ho, hsc', hr'⟩ := mem_storeOp_indep hsc hr op hst
      have := ih hsc' hr' hrest
      simp only [runOuts, outsAt, runState, List.filter, hm', Bool.not_false, if_true]
      exact ⟨by rw [ho, this.1], this.2⟩

theorem sql_erase_mutSnap (ops : List Op) : ∀ {q q' : Sql}, q.sc = q'.sc → q.ty = q'.ty → q.abs = q'.abs →
    (∀ op ∈ ops, isWriteBack op = false) →
    outsAt (fun op => !isMutSnap op) ops (runOuts Sql.step q ops) =
        runOuts Sql.step q' (ops.filter fun op => !isMutSnap op) ∧
    (runState Sql.step q ops).abs = (runState Sql.step q' (ops.filter fun op => !isMutSnap op)).abs := by
  induction ops with
  | nil => intro q q' _ _ hr _; exact ⟨rfl, hr⟩
  | cons op ops ih =>
    intro q q' hsc hty habs hall
    have hrest : ∀ o ∈ ops, isWriteBack o = false := fun o ho => hall o (List.mem_cons_of_mem _ ho)
    by_cases hm : isMutSnap op = true
    · have hs : (Sql.step q op).1.sc = q.sc ∧ (Sql.step q op).1.ty = q.ty ∧ (Sql.step q op).1.abs = q.abs := by
        cases op <;> first | exact ⟨rfl, rfl, rfl⟩ | cases hm
      have := ih (q := (Sql.step q op).1) (q' := q') (by rw [hs.1, hsc]) (by rw [hs.2.1, hty]) (by rw [hs.2.2, habs]) hrest
      simpa only [runOuts, outsAt, runState, List.filter, hm, Bool.not_true, Bool.false_eq_true, if_false] using this
    · have hm' : isMutSnap op = false := by simpa using hm
      have hst : storeOp op = true := by
        have hw := hall op List.mem_cons_self
        cases op <;> simp_all [isMutSnap, isWriteBack, storeOp]
      obtain ⟨ho, hsc', hty', habs'⟩ := (sql_step_abs_indep hsc hty habs op).1 (Or.inl hst)
      have := ih hsc' hty' habs' hrest
      simp only [runOuts, outsAt, runState, List.filter, hm', Bool.not_false, if_true]
      exact ⟨by rw [ho, this.1], this.2⟩

/-- erase the `get`s from any op list (snapshot handling and write-backs included): nothing else
changes.  In memory a `get` leaves the machine as it is ... -/
theorem mem_erase_get (ops : List Op) : ∀ m : Mem,
    outsAt (fun op => !isGet op) ops (runOuts Mem.step m ops) = runOuts Mem.step m (ops.filter fun op => !isGet op) ∧
    runState Mem.step m ops = runState Mem.step m (ops.filter fun op => !isGet op) := by
  induction ops with
  | nil => intro m; exact ⟨rfl, rfl⟩
  | cons op ops ih =>
    intro m
    by_cases hg : isGet op = true
    · have hs : (Mem.step m op).1 = m := by
        cases op <;> first | rfl | cases hg
      have := ih m
      simp only [runOuts, outsAt, runState, List.filter, hg, Bool.not_true, Bool.false_eq_true, if_false, hs]
      exact this
    · have hg' : isGet op = false := by simpa using hg
      have := ih (Mem.step m op).1
      simp only [runOuts, outsAt, runState, List.filter, hg', Bool.not_false, if_true]
      exact ⟨by rw [this.1], this.2⟩

/-- ... in SQLite the first read *writes* (it inserts the row with the defaults): the write cannot be seen -/
theorem sql_erase_get (ops : List Op) : ∀ {q q' : Sql}, q.sc = q'.sc → q.ty = q'.ty → q.abs = q'.abs → q.held = q'.held →
    outsAt (fun op => !isGet op) ops (runOuts Sql.step q ops) = runOuts Sql.step q' (ops.filter fun op => !isGet op) ∧
    (runState Sql.step q ops).abs = (runState Sql.step q' (ops.filter fun op => !isGet op)).abs ∧
    (runState Sql.step q ops).held = (runState Sql.step q' (ops.filter fun op => !isGet op)).held := by
  induction ops with
  | nil => intro q q' _ _ hr hh; exact ⟨rfl, hr, hh⟩
  | cons op ops ih =>
    intro q q' hsc hty habs hheld
    by_cases hg : isGet op = true
    · have hs : (Sql.step q op).1 = q.load.1 := by
        cases op <;> first | rfl | cases hg
      obtain ⟨_, l1, lsc, lty, lheld⟩ := Sql.load_spec q
      have := ih (q := (Sql.step q op).1) (q' := q') (by rw [hs, lsc, hsc]) (by rw [hs, lty, hty]) (by rw [hs, l1, habs])
        (by rw [hs, lheld, hheld])
      simpa only [runOuts, outsAt, runState, List.filter, hg, Bool.not_true, Bool.false_eq_true, if_false] using this
    · have hg' : isGet op = false := by simpa using hg
      obtain ⟨h1, h2⟩ := sql_step_abs_indep hsc hty habs op
      obtain ⟨ho, hsc', hty', habs'⟩ := h1 (Or.inr hheld)
      have := ih hsc' hty' habs' (h2 hheld)
      simp only [runOuts, outsAt, runState, List.filter, hg', Bool.not_false, if_true]
      exact ⟨by rw [ho, this.1], this.2⟩


/-! ### invariants of every reachable state -/

/-- the type of the state, and of a snapshot held by the caller, never changes -/
structure TyInv (sc : Schema) (ty : Ty) (s : Spec) : Prop where
  sc : s.sc = sc
  root : s.root.ty = ty
  held : ∀ h, s.held = some h → h.ty = ty

theorem tyInv_init (sc : Schema) (ty : Ty) : TyInv sc ty (Spec.init sc ty) :=
  ⟨rfl, defaultRoot_ty sc ty, by intro h hh; cases hh⟩

theorem tyInv_step {sc : Schema} {ty : Ty} {s : Spec} (I : TyInv sc ty s) (op : Op) :
    TyInv sc ty (Spec.step s op).1 := by
  obtain ⟨hsc, hroot, hheld⟩ := I
  cases op with
  | get p d => exact ⟨hsc, hroot, hheld⟩
  | set p v =>
    simp only [Spec.step]
    cases hs : specSetPath s.root p v with
    | error e => exact ⟨hsc, hroot, hheld⟩
    | ok r => exact ⟨hsc, by simp only []; rw [specSetPath_ty hs, hroot], hheld⟩
  | getState =>
    simp only [Spec.step]
    refine ⟨hsc, hroot, ?_⟩
    intro h hh
    simp only [Option.some.injEq] at hh
    rw [← hh, hroot]
  | setState i d =>
    simp only [Spec.step]
    cases hm : mergeState s.root ⟨incTy s.root.ty i, d⟩ with
    | error e => exact ⟨hsc, hroot, hheld⟩
    | ok r => exact ⟨hsc, by simp only []; rw [mergeState_ty_inc hm, hroot], hheld⟩
  | clear =>
    simp only [Spec.step]
    exact ⟨hsc, by simp only []; rw [defaultRoot_ty, hroot], hheld⟩
  | edit muts =>
    simp only [Spec.step]
    have hT := runMuts_ty s.root muts
    cases hr : runMuts s.root muts with
    | mk r e =>
      rw [hr] at hT
      simp only [] at hT
      cases e with
      | none => exact ⟨hsc, by simp only []; rw [hT, hroot], hheld⟩
      | some e => exact ⟨hsc, hroot, hheld⟩
  | mutSnap k v =>
    simp only [Spec.step]
    exact ⟨hsc, hroot, snapMut_ty hheld (h' := (snapMut s.held k v).1) (o := (snapMut s.held k v).2) rfl⟩
  | writeBack =>
    simp only [Spec.step]
    cases hh : s.held with
    | none => exact ⟨hsc, hroot, by intro h h2; rw [hh] at h2; cases h2⟩
    | some h => exact ⟨hsc, hheld h hh, by intro h' h2; cases h2⟩

theorem tyInv_stepLive {sc : Schema} {ty : Ty} {s : Spec} (I : TyInv sc ty s) (op : Op) :
    TyInv sc ty (Spec.stepLive s op).1 := by
  cases op with
  | edit muts =>
    obtain ⟨hsc, hroot, hheld⟩ := I
    simp only [Spec.stepLive]
    have hT := runMuts_ty s.root muts
    cases hr : runMuts s.root muts with
    | mk r e =>
      rw [hr] at hT
      simp only [] at hT
      cases e with
      | none => exact ⟨hsc, by simp only []; rw [hT, hroot], hheld⟩
      | some e => exact ⟨hsc, by simp only []; rw [hT, hroot], hheld⟩
  | get p d => exact tyInv_step I _
  | set p v => exact tyInv_step I _
  | getState => exact tyInv_step I _
  | setState i d => exact tyInv_step I _
  | clear => exact tyInv_step I _
  | mutSnap k v => exact tyInv_step I _
  | writeBack => exact tyInv_step I _

theorem tyInv_run {sc : Schema} {ty : Ty} (ops : List Op) : ∀ s : Spec, TyInv sc ty s →
    TyInv sc ty (runState Spec.step s ops) ∧ TyInv sc ty (runState Spec.stepLive s ops) := by
  induction ops with
  | nil => intro s I; exact ⟨I, I⟩
  | cons op ops ih =>
    intro s I
    exact ⟨(ih _ (tyInv_step I op)).1, (ih _ (tyInv_stepLive I op)).2⟩

/-! ### the field set of a typed state -/

theorem keys_upsert_of_isSome (k : String) (v : Json) (d : Obj) (h : (lookup k d).isSome = true) :
    keys (upsert k v d) = keys d := by
  induction d with
  | nil => simp [lookup] at h
  | cons kv r ih =>
    obtain ⟨k', v'⟩ := kv
    by_cases hk : k' = k
    · subst hk; simp [upsert, keys]
    · simp only [lookup, hk, if_false] at h
      have := ih h
      simp only [keys] at this
      simp [upsert, keys, hk, this]

theorem specRootPut_keys {r r' : Root} {k : String} {v : Json} (hnd : r.ty ≠ .dict)
    (h : specRootPut r k v = .ok r') : keys r'.data = keys r.data := by
  unfold specRootPut at h
  split at h
  · rename_i hc
    cases h
    rcases hc with hc | hc
    · exact absurd hc hnd
    · exact keys_upsert_of_isSome k v r.data hc
  · cases h

theorem rootAssign_keys {r r' : Root} {k : String} {v : Json} (hnd : r.ty ≠ .dict)
    (h : rootAssign r k v = .ok r') : keys r'.data = keys r.data := by
  rw [rootAssign_eq_specRootPut] at h; exact specRootPut_keys hnd h

theorem specRootSet_keys {r r' : Root} {segs : List String} {v : Json} (hnd : r.ty ≠ .dict)
    (h : specRootSet r segs v = .ok r') : keys r'.data = keys r.data := by
  match segs, h with
  | [], h => simp [specRootSet] at h
  | [s], h => exact specRootPut_keys hnd (by simpa [specRootSet] using h)
  | s :: t :: rest, h =>
    simp only [specRootSet] at h
    split at h
    · split at h
      · exact specRootPut_keys hnd h
      · cases h
    · exact specRootPut_keys hnd h

theorem specSetPath_keys {r r' : Root} {p : String} {v : Json} (hnd : r.ty ≠ .dict)
    (h : specSetPath r p v = .ok r') : keys r'.data = keys r.data := by
  unfold specSetPath at h
  split at h
  · cases h
  · split at h
    · cases h
    · exact specRootSet_keys hnd h

theorem applyMut_keys {r r' : Root} {m : Mut} (hnd : r.ty ≠ .dict) (h : applyMut r m = .ok r') :
    keys r'.data = keys r.data := by
  cases m with
  | setKey k v => exact rootAssign_keys hnd h
  | incr k n =>
    simp only [applyMut] at h
    split at h <;> first | exact rootAssign_keys hnd h | cases h
  | append k v =>
    simp only [applyMut] at h
    split at h <;> first | exact rootAssign_keys hnd h | cases h
  | delKey k =>
    simp only [applyMut] at h
    cases h
  | raise => cases h

theorem applyMut_ty {r r' : Root} {m : Mut} (h : applyMut r m = .ok r') : r'.ty = r.ty := by
  have := runMuts_ty r [m]
  simp only [runMuts, h] at this
  exact this

theorem runMuts_keys (r : Root) (ms : List Mut) (hnd : r.ty ≠ .dict) : keys (runMuts r ms).1.data = keys r.data := by
  induction ms generalizing r with
  | nil => rfl
  | cons m ms ih =>
    simp only [runMuts]
    cases ha : applyMut r m with
    | error e => rfl
    | ok r' =>
      simp only []
      rw [ih r' (by rw [applyMut_ty ha]; exact hnd), applyMut_keys hnd ha]

theorem snapMut_keys {held : Option Root} {k : String} {v : Json} {K : List String}
    (hty : ∀ h, held = some h → h.ty ≠ .dict) (hk : ∀ h, held = some h → keys h.data = K) :
    ∀ h, (snapMut held k v).1 = some h → keys h.data = K := by
  intro h hh
  unfold snapMut at hh
  cases held with
  | none => simp at hh
  | some h0 =>
    simp only at hh
    cases ha : rootAssign h0 k v with
    | ok h1 =>
      rw [ha] at hh
      simp only [Option.some.injEq] at hh
      rw [← hh, rootAssign_keys (hty h0 rfl) ha]
      exact hk h0 rfl
    | error e =>
      rw [ha] at hh
      simp only [Option.some.injEq] at hh
      rw [← hh]
      exact hk h0 rfl

structure KeysInv (K : List String) (s : Spec) : Prop where
  root : keys s.root.data = K
  held : ∀ h, s.held = some h → keys h.data = K

theorem mergeState_keys {sc : Schema} {n : Nat} {cur r : Root} {i : IncTy} {d : Obj}
    (hc : cur.ty = .typed n) (hk : keys cur.data = keys (fieldsOf sc n))
    (hwf : opWf sc (.typed n) (.setState i d) = true)
    (h : mergeState cur ⟨incTy cur.ty i, d⟩ = .ok r) : keys r.data = keys (fieldsOf sc n) := by
  unfold mergeState at h
  split at h
  · rename_i hs
    cases h
    have he := isSub_incTy hs
    simp only [] at he ⊢
    rw [hc] at he
    simp only [opWf, he] at hwf
    simpa using hwf
  · split at h
    · cases h
      simp only []
      rw [← hk]
      exact overlay_keys _ _
    · cases h

theorem keysInv_step {sc : Schema} {n : Nat} {s : Spec} (T : TyInv sc (.typed n) s)
    (I : KeysInv (keys (fieldsOf sc n)) s) (op : Op) (hwf : opWf sc (.typed n) op = true) :
    KeysInv (keys (fieldsOf sc n)) (Spec.step s op).1 := by
  obtain ⟨hsc, hty, hhty⟩ := T
  obtain ⟨hroot, hheld⟩ := I
  have hnd : s.root.ty ≠ .dict := by rw [hty]; intro h; cases h
  cases op with
  | get p d => exact ⟨hroot, hheld⟩
  | set p v =>
    simp only [Spec.step]
    cases hs : specSetPath s.root p v with
    | error e => exact ⟨hroot, hheld⟩
    | ok r => exact ⟨by simp only []; rw [specSetPath_keys hnd hs, hroot], hheld⟩
  | getState =>
    simp only [Spec.step]
    refine ⟨hroot, ?_⟩
    intro h hh
    simp only [Option.some.injEq] at hh
    rw [← hh, hroot]
  | setState i d =>
    simp only [Spec.step]
    cases hm : mergeState s.root ⟨incTy s.root.ty i, d⟩ with
    | error e => exact ⟨hroot, hheld⟩
    | ok r => exact ⟨mergeState_keys hty hroot hwf hm, hheld⟩
  | clear =>
    simp only [Spec.step]
    refine ⟨?_, hheld⟩
    simp only []
    rw [hty, hsc]
    rfl
  | edit muts =>
    simp only [Spec.step]
    have hK := runMuts_keys s.root muts hnd
    cases hr : runMuts s.root muts with
    | mk r e =>
      rw [hr] at hK
      simp only [] at hK
      cases e with
      | none => exact ⟨by simp only []; rw [hK, hroot], hheld⟩
      | some e => exact ⟨hroot, hheld⟩
  | mutSnap k v =>
    simp only [Spec.step]
    exact ⟨hroot, snapMut_keys (fun h hh => by rw [hhty h hh]; intro h; cases h) hheld⟩
  | writeBack =>
    simp only [Spec.step]
    cases hh : s.held with
    | none => exact ⟨hroot, by intro h h2; rw [hh] at h2; cases h2⟩
    | some h => exact ⟨hheld h hh, by intro h' h2; cases h2⟩

theorem keysInv_stepLive {sc : Schema} {n : Nat} {s : Spec} (T : TyInv sc (.typed n) s)
    (I : KeysInv (keys (fieldsOf sc n)) s) (op : Op) (hwf : opWf sc (.typed n) op = true) :
    KeysInv (keys (fieldsOf sc n)) (Spec.stepLive s op).1 := by
  cases op with
  | edit muts =>
    obtain ⟨hroot, hheld⟩ := I
    have hnd : s.root.ty ≠ .dict := by rw [T.root]; intro h; cases h
    simp only [Spec.stepLive]
    have hK := runMuts_keys s.root muts hnd
    cases hr : runMuts s.root muts with
    | mk r e =>
      rw [hr] at hK
      simp only [] at hK
      cases e with
      | none => exact ⟨by simp only []; rw [hK, hroot], hheld⟩
      | some e => exact ⟨by simp only []; rw [hK, hroot], hheld⟩
  | get p d => exact keysInv_step T I _ hwf
  | set p v => exact keysInv_step T I _ hwf
  | getState => exact keysInv_step T I _ hwf
  | setState i d => exact keysInv_step T I _ hwf
  | clear => exact keysInv_step T I _ hwf
  | mutSnap k v => exact keysInv_step T I _ hwf
  | writeBack => exact keysInv_step T I _ hwf

theorem keysInv_run {sc : Schema} {n : Nat} (ops : List Op) : ∀ s : Spec, TyInv sc (.typed n) s →
    KeysInv (keys (fieldsOf sc n)) s → (∀ op ∈ ops, opWf sc (.typed n) op = true) →
    KeysInv (keys (fieldsOf sc n)) (runState Spec.step s ops) ∧
    KeysInv (keys (fieldsOf sc n)) (runState Spec.stepLive s ops) := by
  induction ops with
  | nil => intro s _ I _; exact ⟨I, I⟩
  | cons op ops ih =>
    intro s T I hall
    have hw := hall op List.mem_cons_self
    have hrest : ∀ o ∈ ops, opWf sc (.typed n) o = true := fun o ho => hall o (List.mem_cons_of_mem _ ho)
    exact ⟨(ih _ (tyInv_step T op) (keysInv_step T I op hw) hrest).1,
           (ih _ (tyInv_stepLive T op) (keysInv_stepLive T I op hw) hrest).2⟩

/-! ### what a write-back installs -/

theorem snapMut_some (h : Root) (k : String) (v : Json) :
    (snapMut (some h) k v).1 = some (snapAssign h k v) := by
  simp only [snapMut, snapAssign]
  cases rootAssign h k v <;> rfl

theorem spec_step_held (s : Spec) (op : Op) (h1 : noSnapTaking op = true) (h2 : isMutSnap op = false) :
    (Spec.step s op).1.held = s.held ∧ (Spec.stepLive s op).1.held = s.held := by
  cases op with
  | get p d => exact ⟨rfl, rfl⟩
  | set p v =>
    simp only [Spec.stepLive, Spec.step]
    cases specSetPath s.root p v <;> exact ⟨rfl, rfl⟩
  | getState => cases h1
  | setState i d =>
    simp only [Spec.stepLive, Spec.step]
    cases mergeState s.root ⟨incTy s.root.ty i, d⟩ <;> exact ⟨rfl, rfl⟩
  | clear => exact ⟨rfl, rfl⟩
  | edit muts =>
    simp only [Spec.stepLive, Spec.step]
    cases hr : runMuts s.root muts with
    | mk r e => cases e <;> exact ⟨rfl, rfl⟩
  | mutSnap k v => cases h2
  | writeBack => cases h1

theorem spec_writeBack_installs (ops : List Op) : ∀ (s : Spec) (h : Root), s.held = some h →
    (∀ op ∈ ops, noSnapTaking op = true) →
    (runState Spec.step s (ops ++ [.writeBack])).root = snapAfter h ops ∧
    (runState Spec.stepLive s (ops ++ [.writeBack])).root = snapAfter h ops := by
  induction ops with
  | nil =>
    intro s h hh _
    simp only [List.nil_append, runState, Spec.stepLive, Spec.step, hh, snapAfter]
    exact ⟨trivial, trivial⟩
  | cons op ops ih =>
    intro s h hh hall
    have hn := hall op List.mem_cons_self
    have hrest : ∀ o ∈ ops, noSnapTaking o = true := fun o ho => hall o (List.mem_cons_of_mem _ ho)
    by_cases hm : isMutSnap op = true
    · cases op with
      | mutSnap k v =>
        have e1 : (Spec.step s (.mutSnap k v)).1.held = some (snapAssign h k v) := by
          simp only [Spec.step, hh, snapMut_some]
        have e2 : (Spec.stepLive s (.mutSnap k v)).1.held = some (snapAssign h k v) := e1
        exact ⟨by simpa only [List.cons_append, runState, snapAfter] using (ih _ _ e1 hrest).1,
               by simpa only [List.cons_append, runState, snapAfter] using (ih _ _ e2 hrest).2⟩
      | _ => cases hm
    · have hm' : isMutSnap op = false := by simpa using hm
      obtain ⟨e1, e2⟩ := spec_step_held s op hn hm'
      have hsa : snapAfter h (op :: ops) = snapAfter h ops := by
        cases op <;> first | rfl | cases hm'
      rw [hsa]
      exact ⟨by simpa only [List.cons_append, runState] using (ih _ h (by rw [e1, hh]) hrest).1,
             by simpa only [List.cons_append, runState] using (ih _ h (by rw [e2, hh]) hrest).2⟩

/-! ### characteristic facts, on the machines themselves -/

theorem mem_set_then_get (m : Mem) (p : String) (v : Json) (d : Option Json)
    (h : (Mem.step m (.set p v)).2 = .none) : (Mem.step (Mem.step m (.set p v)).1 (.get p d)).2 = .val v := by
  simp only [Mem.step] at h ⊢
  rw [setByPath_eq_spec] at h ⊢
  cases hs : specSetPath m.root p v with
  | error e => rw [hs] at h; cases h
  | ok r =>
    simp only []
    rw [getByPath_eq_spec]
    exact specGet_after_set d hs

theorem sql_set_then_get (q : Sql) (p : String) (v : Json) (d : Option Json)
    (h : (Sql.step q (.set p v)).2 = .none) : (Sql.step (Sql.step q (.set p v)).1 (.get p d)).2 = .val v := by
  obtain ⟨l2, _, _, lty, _⟩ := Sql.load_spec q
  simp only [Sql.step, Sql.edit] at h ⊢
  rw [setByPath_eq_spec] at h ⊢
  cases hs : specSetPath q.load.2 p v with
  | error e => rw [hs] at h; cases h
  | ok r =>
    simp only []
    have hl : (q.load.1.save r).load.2 = r := by
      have hrt : r.ty = q.load.1.ty := by rw [specSetPath_ty hs, l2, Sql.abs_ty, lty]
      have := (Sql.load_spec (q.load.1.save r)).1
      rw [this]
      exact Sql.abs_save _ _ hrt
    rw [hl, getByPath_eq_spec]
    exact specGet_after_set d hs

/-- a successful write at the root changes one top-level entry -/
theorem specRootSet_data {r r' : Root} {s : String} {rest : List String} {v : Json}
    (h : specRootSet r (s :: rest) v = .ok r') : ∃ x, r'.data = upsert s x r.data := by
  have put : ∀ {x : Json}, specRootPut r s x = .ok r' → ∃ x, r'.data = upsert s x r.data := by
    intro x hp
    unfold specRootPut at hp
    split at hp
    · cases hp; exact ⟨x, rfl⟩
    · cases hp
  cases rest with
  | nil => exact put (by simpa [specRootSet] using h)
  | cons t rest =>
    simp only [specRootSet] at h
    split at h
    · split at h
      · exact put h
      · cases h
    · exact put h

/-- `get(q)` after a successful `set(p, v)` whose first segment differs from that of `q` -/
theorem specGet_frame {r r' : Root} {p q : String} {v : Json} (d : Option Json)
    (h : specSetPath r p v = .ok r') (hq : q.isEmpty = false)
    (hne : (splitPath p).head? ≠ (splitPath q).head?) : specGet r' q d = specGet r q d := by
  unfold specSetPath at h
  split at h
  · cases h
  · split at h
    · cases h
    · unfold specGet
      simp only [hq, Bool.false_eq_true, if_false]
      have hv : specGetVal r' (splitPath q) = specGetVal r (splitPath q) := by
        cases hp : splitPath p with
        | nil => rw [hp] at h; simp [specRootSet] at h
        | cons s rest =>
          rw [hp] at h hne
          obtain ⟨x, hx⟩ := specRootSet_data h
          cases hsq : splitPath q with
          | nil => exact absurd hsq (splitPath_ne_nil q)
          | cons s' t =>
            rw [hsq] at hne
            have hss : s' ≠ s := by
              intro he; apply hne; simp [he]
            simp only [specGetVal, walk, child]
            rw [hx, lookup_upsert_other x r.data hss]
      rw [hv]


theorem mem_set_frame (m : Mem) (p q : String) (v : Json) (d : Option Json)
    (h : (Mem.step m (.set p v)).2 = .none) (hq : q.isEmpty = false)
    (hne : (splitPath p).head? ≠ (splitPath q).head?) :
    (Mem.step (Mem.step m (.set p v)).1 (.get q d)).2 = (Mem.step m (.get q d)).2 := by
  simp only [Mem.step] at h ⊢
  rw [setByPath_eq_spec] at h ⊢
  cases hs : specSetPath m.root p v with
  | error e => simp [hs] at h
  | ok r =>
    simp only []
    rw [getByPath_eq_spec, getByPath_eq_spec]
    exact specGet_frame d hs hq hne

theorem sql_set_frame (s : Sql) (p q : String) (v : Json) (d : Option Json)
    (h : (Sql.step s (.set p v)).2 = .none) (hq : q.isEmpty = false)
    (hne : (splitPath p).head? ≠ (splitPath q).head?) :
    (Sql.step (Sql.step s (.set p v)).1 (.get q d)).2 = (Sql.step s (.get q d)).2 := by
  obtain ⟨l2, _, _, lty, _⟩ := Sql.load_spec s
  simp only [Sql.step, Sql.edit] at h ⊢
  rw [setByPath_eq_spec] at h ⊢
  cases hs : specSetPath s.load.2 p v with
  | error e => simp [hs] at h
  | ok r =>
    simp only []
    have hl : (s.load.1.save r).load.2 = r := by
      have hrt : r.ty = s.load.1.ty := by rw [specSetPath_ty hs, l2, Sql.abs_ty, lty]
      have := (Sql.load_spec (s.load.1.save r)).1
      rw [this]
      exact Sql.abs_save _ _ hrt
    rw [hl, getByPath_eq_spec, getByPath_eq_spec]
    exact specGet_frame d hs hq hne

/-! ### the statements for the two machines, from their initial states -/

theorem backends_agree_prefix (sc : Schema) (ty : Ty) (pre : List Op) (op : Op) (rest : List Op)
    (h : bodiesOk (Mem.init sc ty) pre = true) :
    (runOuts Mem.step (Mem.init sc ty) (pre ++ op :: rest)).take (pre.length + 1) =
    (runOuts Sql.step (Sql.init sc ty) (pre ++ op :: rest)).take (pre.length + 1) := by
  obtain ⟨om, Rm⟩ := memSim_run pre _ _ (memSim_init sc ty) h
  obtain ⟨oq, Rq⟩ := sqlSim_run pre _ _ (sqlSim_init sc ty)
  rw [runOuts_append, runOuts_append]
  simp only [runOuts]
  rw [take_succ_append_cons _ _ _ _ (runOuts_length _ _ _), take_succ_append_cons _ _ _ _ (runOuts_length _ _ _),
    om, oq, backends_next_out Rm Rq op]

theorem mem_writeBack_installs (sc : Schema) (ty : Ty) (pre ops : List Op) (h : ∀ op ∈ ops, noSnapTaking op = true) :
    (runState Mem.step (Mem.init sc ty) (pre ++ .getState :: (ops ++ [.writeBack]))).root =
      snapAfter (runState Mem.step (Mem.init sc ty) pre).root ops := by
  rw [(memSimLive_run _ _ _ (memSim_init sc ty)).2.root, (memSimLive_run pre _ _ (memSim_init sc ty)).2.root,
    runState_append]
  simp only [runState]
  exact (spec_writeBack_installs ops _ _ rfl h).2

theorem sql_writeBack_installs (sc : Schema) (ty : Ty) (pre ops : List Op) (h : ∀ op ∈ ops, noSnapTaking op = true) :
    (runState Sql.step (Sql.init sc ty) (pre ++ .getState :: (ops ++ [.writeBack]))).abs =
      snapAfter (runState Sql.step (Sql.init sc ty) pre).abs ops := by
  rw [(sqlSim_run _ _ _ (sqlSim_init sc ty)).2.root, (sqlSim_run pre _ _ (sqlSim_init sc ty)).2.root,
    runState_append]
  simp only [runState]
  exact (spec_writeBack_installs ops _ _ rfl h).1

theorem mem_ty_inv (sc : Schema) (ty : Ty) (ops : List Op) :
    (runState Mem.step (Mem.init sc ty) ops).root.ty = ty ∧
    ∀ h, (runState Mem.step (Mem.init sc ty) ops).held = some h → h.ty = ty := by
  have R := (memSimLive_run ops _ _ (memSim_init sc ty)).2
  have T := (tyInv_run ops _ (tyInv_init sc ty)).2
  exact ⟨by rw [R.root]; exact T.root, by rw [R.held]; exact T.held⟩

theorem sql_ty_inv (sc : Schema) (ty : Ty) (ops : List Op) :
    (runState Sql.step (Sql.init sc ty) ops).ty = ty ∧ (runState Sql.step (Sql.init sc ty) ops).abs.ty = ty ∧
    ∀ h, (runState Sql.step (Sql.init sc ty) ops).held = some h → h.ty = ty := by
  have R := (sqlSim_run ops _ _ (sqlSim_init sc ty)).2
  have T := (tyInv_run ops _ (tyInv_init sc ty)).1
  have ha : (runState Sql.step (Sql.init sc ty) ops).abs.ty = ty := by rw [R.root]; exact T.root
  exact ⟨by rw [← Sql.abs_ty]; exact ha, ha, by rw [R.held]; exact T.held⟩

theorem keysInv_init (sc : Schema) (n : Nat) : KeysInv (keys (fieldsOf sc n)) (Spec.init sc (.typed n)) :=
  ⟨rfl, by intro h hh; cases hh⟩

theorem mem_keys_inv (sc : Schema) (n : Nat) (ops : List Op) (h : ∀ op ∈ ops, opWf sc (.typed n) op = true) :
    keys (runState Mem.step (Mem.init sc (.typed n)) ops).root.data = keys (fieldsOf sc n) := by
  rw [(memSimLive_run ops _ _ (memSim_init sc (.typed n))).2.root]
  exact (keysInv_run ops _ (tyInv_init sc (.typed n)) (keysInv_init sc n) h).2.root

theorem sql_keys_inv (sc : Schema) (n : Nat) (ops : List Op) (h : ∀ op ∈ ops, opWf sc (.typed n) op = true) :
    keys (runState Sql.step (Sql.init sc (.typed n)) ops).abs.data = keys (fieldsOf sc n) := by
  rw [(sqlSim_run ops _ _ (sqlSim_init sc (.typed n))).2.root]
  exact (keysInv_run ops _ (tyInv_init sc (.typed n)) (keysInv_init sc n) h).1.root


/-! ### persistence round trips cannot be observed -/

theorem mem_persist_id (m : Mem) (p : Persist) : m.persist p = m := rfl

theorem mem_erase_persist (ops : List OpP) : ∀ m : Mem,
    outsAtOps ops (runOutsP Mem.stepP m ops) = runOuts Mem.step m (ops.filterMap OpP.op?) ∧
    runStateP Mem.stepP m ops = runState Mem.step m (ops.filterMap OpP.op?) := by
  induction ops with
  | nil => intro m; exact ⟨rfl, rfl⟩
  | cons op ops ih =>
    intro m
    cases op with
    | op o =>
      have := ih (Mem.step m o).1
      simp only [runOutsP, runStateP, Mem.stepP, outsAtOps, List.filterMap_cons, OpP.op?, runOuts, runState]
      exact ⟨by rw [this.1], this.2⟩
    | persist p =>
      have := ih m
      simp only [runOutsP, runStateP, Mem.stepP, outsAtOps, List.filterMap_cons, OpP.op?, mem_persist_id]
      exact this

theorem sql_persist_rel (q : Sql) (p : Persist) :
    (q.persist p).sc = q.sc ∧ (q.persist p).ty = q.ty ∧ (q.persist p).abs = q.abs ∧ (q.persist p).held = q.held := by
  cases p with
  | reopen => exact ⟨rfl, rfl, rfl, rfl⟩
  | copyRun =>
    refine ⟨rfl, rfl, ?_, rfl⟩
    cases q with
    | mk sc ty row held => cases row <;> rfl
  | migrate =>
    refine ⟨rfl, rfl, ?_, rfl⟩
    have h := Sql.abs_ty q
    simp only [Sql.persist]
    show (⟨q.ty, q.abs.data⟩ : Root) = q.abs
    rw [← h]

theorem sql_erase_persist (ops : List OpP) : ∀ {q q' : Sql}, q.sc = q'.sc → q.ty = q'.ty → q.abs = q'.abs → q.held = q'.held →
    outsAtOps ops (runOutsP Sql.stepP q ops) = runOuts Sql.step q' (ops.filterMap OpP.op?) ∧
    (runStateP Sql.stepP q ops).abs = (runState Sql.step q' (ops.filterMap OpP.op?)).abs ∧
    (runStateP Sql.stepP q ops).held = (runState Sql.step q' (ops.filterMap OpP.op?)).held := by
  induction ops with
  | nil => intro q q' _ _ ha hh; exact ⟨rfl, ha, hh⟩
  | cons op ops ih =>
    intro q q' hsc hty habs hheld
    cases op with
    | op o =>
      obtain ⟨h1, h2⟩ := sql_step_abs_indep hsc hty habs o
      obtain ⟨ho, hsc', hty', habs'⟩ := h1 (Or.inr hheld)
      have := ih hsc' hty' habs' (h2 hheld)
      simp only [runOutsP, runStateP, Sql.stepP, outsAtOps, List.filterMap_cons, OpP.op?, runOuts, runState]
      exact ⟨by rw [ho, this.1], this.2⟩
    | persist p =>
      obtain ⟨a, b, c, d⟩ := sql_persist_rel q p
      have := ih (q := q.persist p) (q' := q') (by rw [a, hsc]) (by rw [b, hty]) (by rw [c, habs]) (by rw [d, hheld])
      simp only [runOutsP, runStateP, Sql.stepP, outsAtOps, List.filterMap_cons, OpP.op?]
      exact this

end StateStore
