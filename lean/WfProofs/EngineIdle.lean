import WfProofs.EngineQueue
/-! Idle announcements (C03, second half): which commands announce idleness, and what the
reducer state looks like when they are emitted. -/
set_option linter.unusedSimpArgs false
set_option linter.unusedVariables false

namespace Engine

def isIdlePub : Cmd → Bool
  | .publish .idle => true
  | .publish (.unhandled _ _ true) => true
  | _ => false

theorem addOrEnqueue_noIdle (att : Attempt) (step : Nat) (ss : StepState) (nw : Nat) (now : Int) :
    (addOrEnqueue att step ss nw now).2.any isIdlePub = false := by
  unfold addOrEnqueue
  split
  · split <;> simp [isIdlePub]
  · simp [isIdlePub]

theorem drain_noIdle (step nw : Nat) (now : Int) :
    ∀ (fuel : Nat) (ss : StepState), (drain step nw now fuel ss).2.any isIdlePub = false
  | 0, ss => by simp [drain]
  | fuel + 1, ss => by
    unfold drain
    split
    · simp
    · split
      · simp only [List.any_append, addOrEnqueue_noIdle, drain_noIdle step nw now fuel, Bool.or_self]
      · simp

theorem resolveLoop_noIdle (ev : Ev) (step nw : Nat) (now : Int) :
    ∀ (rest done : List Waiter) (ss : StepState) (cmds : List Cmd) (hd : Bool),
      cmds.any isIdlePub = false →
      (resolveLoop ev step nw now done rest ss cmds hd).2.1.any isIdlePub = false
  | [], done, ss, cmds, hd, h => by simpa [resolveLoop] using h
  | w :: rest, done, ss, cmds, hd, h => by
    unfold resolveLoop
    split
    · apply resolveLoop_noIdle
      simp only [List.any_append, h, addOrEnqueue_noIdle, Bool.or_self]
    · exact resolveLoop_noIdle ev step nw now rest _ ss cmds hd h

theorem addEventWaiters_noIdle (cfg : Cfg) (ev : Ev) (target : Option Nat) (now : Int) :
    ∀ (cs : List StepCfg) (acc : AddAcc), acc.cmds.any isIdlePub = false →
      (addEventWaiters cfg ev target now cs acc).cmds.any isIdlePub = false
  | [], acc, h => by simpa [addEventWaiters] using h
  | c :: cs, acc, h => by
    unfold addEventWaiters
    split
    · exact addEventWaiters_noIdle cfg ev target now cs acc h
    · apply addEventWaiters_noIdle cfg ev target now cs
      split
      · simp only [List.any_append, h, Bool.false_or]
        exact resolveLoop_noIdle ev c.name c.numWorkers now _ [] _ [] false (by simp)
      · exact h

theorem addEventRoute_noIdle (att : Attempt) (target : Option Nat) (now : Int) :
    ∀ (cs : List StepCfg) (acc : AddAcc), acc.cmds.any isIdlePub = false →
      (addEventRoute att target now cs acc).cmds.any isIdlePub = false
  | [], acc, h => by simpa [addEventRoute] using h
  | c :: cs, acc, h => by
    unfold addEventRoute
    split
    · exact addEventRoute_noIdle att target now cs acc h
    · split
      · apply addEventRoute_noIdle att target now cs
        simp only [List.any_append, h, addOrEnqueue_noIdle, Bool.or_self]
      · exact addEventRoute_noIdle att target now cs acc h

theorem applyRes_noIdle (cfg : Cfg) (pol : Policy) (step : Nat) (tickEv : Ev) (dc : Bool)
    (acc : ResAcc) (r : Res) (h : acc.cmds.any isIdlePub = false) :
    (applyRes cfg pol step tickEv dc acc r).cmds.any isIdlePub = false := by
  cases r with
  | result r =>
    cases r with
    | none => simpa [applyRes] using h
    | some ev =>
      simp only [applyRes]
      split
      · simp [List.any_append, h, isIdlePub]
      · split <;> simp [List.any_append, h, isIdlePub]
  | failed exc failedAt =>
    simp only [applyRes]
    split
    · exact h
    split
    · simp [List.any_append, h, isIdlePub]
    all_goals
      split
      · split <;> simp [List.any_append, h, isIdlePub]
      · simp [List.any_append, h, isIdlePub]
  | addCollected buf ev =>
    simp only [applyRes]
    split
    · exact h
    split
    · simp [List.any_append, h, isIdlePub]
    · exact h
  | deleteCollected buf => simp only [applyRes]; split <;> exact h
  | addWaiter wid waiterEv req timeout ty =>
    simp only [applyRes]
    split
    · exact h
    · cases waiterEv <;> cases timeout <;> simp [List.any_append, h, isIdlePub]
  | deleteWaiter wid => simp only [applyRes]; split <;> exact h

theorem foldl_applyRes_noIdle (cfg : Cfg) (pol : Policy) (step : Nat) (tickEv : Ev) (dc : Bool) :
    ∀ (res : List Res) (acc : ResAcc), acc.cmds.any isIdlePub = false →
      (res.foldl (applyRes cfg pol step tickEv dc) acc).cmds.any isIdlePub = false
  | [], acc, h => by simpa using h
  | r :: rs, acc, h => by
    simp only [List.foldl_cons]
    exact foldl_applyRes_noIdle cfg pol step tickEv dc rs _ (applyRes_noIdle cfg pol step tickEv dc acc r h)

theorem processStepResult_noIdle (cfg : Cfg) (pol : Policy) (step worker : Nat) (tickEv : Ev)
    (res : List Res) (st : State) (now : Int) :
    (processStepResult cfg pol step worker tickEv res st now).2.any isIdlePub = false := by
  unfold processStepResult
  split
  · simp [isIdlePub]
  · split
    · simp [isIdlePub]
    · rename_i exec _
      have hf := foldl_applyRes_noIdle cfg pol step tickEv (res.any isResult) res
        { st := st, exec := exec } (by simp)
      simp only
      generalize (res.foldl (applyRes cfg pol step tickEv (res.any isResult)) { st := st, exec := exec }) = acc at hf
      have hs : (settle acc step worker tickEv).2.any isIdlePub = false := by
        unfold settle; simp only; split
        · exact hf
        · simp [hf, isIdlePub]
      split
      · exact hs
      · simp only [List.any_append, hs, drain_noIdle, Bool.or_self]

theorem processWaiterTimeout_noIdle (cfg : Cfg) (step waiter : Nat) (st : State) (now : Int) :
    (processWaiterTimeout cfg step waiter st now).2.any isIdlePub = false := by
  unfold processWaiterTimeout
  split
  · simp
  · dsimp only
    split
    · simp
    · split
      · simp
      · exact addOrEnqueue_noIdle _ _ _ _ _

/-- **idle announcements are reducer-sound**: a tick's command list announces idleness
(`WorkflowIdleEvent`, or `UnhandledEvent(idle=True)`) only if the state after the tick is
running with every queue and every in-progress table empty. -/
theorem reduce_idle_quiet (cfg : Cfg) (pol : Policy) (tick : Tick) (st : State) (now : Int)
    (h : (reduce cfg pol tick st now).2.any isIdlePub = true) :
    checkIdle cfg (reduce cfg pol tick st now).1 = true := by
  unfold reduce at h ⊢
  cases tick with
  | stepResult step worker ev res =>
    simp only at h ⊢
    split at h
    · rename_i hidle; simp only [hidle, ↓reduceIte]
    · rw [processStepResult_noIdle] at h; cases h
  | addEvent att target =>
    simp only at h ⊢
    have hun : (processAddEvent cfg att target st now).2.any isIdlePub = true →
        checkIdle cfg (processAddEvent cfg att target st now).1 = true := by
      intro hh
      unfold processAddEvent at hh ⊢
      simp only [List.any_append] at hh
      have h1 := addEventWaiters_noIdle cfg att.ev target now cfg.steps { st := addEventStart att st } (by simp)
      have h2 := addEventRoute_noIdle att target now cfg.steps _ h1
      simp only [h2, Bool.false_or] at hh
      unfold unhandledCmds at hh
      split at hh
      · simp at hh
      · split at hh
        · simp at hh
        · simp only [List.any_cons, List.any_nil, Bool.or_false] at hh
          simp only
          revert hh
          generalize checkIdle cfg _ = b
          cases b <;> simp [isIdlePub]
    split at h
    · rename_i hidle; simp only [hidle, ↓reduceIte]
    · rename_i hidle
      simp only [hidle]
      exact hun h
  | cancelRun => simp only at h; split at h <;> simp [isIdlePub] at h
  | idleRelease => simp [isIdlePub] at h
  | publish ev => simp only at h; split at h <;> simp [isIdlePub] at h
  | timeout t => simp only at h; split at h <;> simp [isIdlePub] at h
  | waiterTimeout step waiter =>
    simp only at h ⊢
    split at h
    · rename_i hidle; simp only [hidle, ↓reduceIte]
    · rw [processWaiterTimeout_noIdle] at h; cases h
  | idleCheck =>
    simp only at h ⊢
    split at h
    · rename_i hidle; simp only [hidle, ↓reduceIte]
    · simp at h

theorem checkIdle_quiet {cfg : Cfg} {st : State} (h : checkIdle cfg st = true) :
    st.isRunning = true ∧ ∀ c ∈ cfg.steps, (st.workers c.name).queue = [] ∧ (st.workers c.name).inProg = [] := by
  simp only [checkIdle, Bool.and_eq_true, List.all_eq_true, Cfg.names, List.mem_map,
    forall_exists_index, and_imp, forall_apply_eq_imp_iff₂] at h
  refine ⟨h.1, fun c hc => ?_⟩
  have := h.2 c hc
  simp only [stepQuiet, Bool.and_eq_true, List.isEmpty_iff] at this
  exact this

end Engine
