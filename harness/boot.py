"""Path setup so the harness runs /repo's *current* sources.

Nothing from the repository is installed in /venv; every check imports the
working tree by path.  Heavy package ``__init__`` files (which import web
frameworks that are absent from the sandbox) are bypassed by pre-seeding
``sys.modules`` with bare namespace modules whose ``__path__`` is the real
directory, so sub-modules are still the real files.
"""
from __future__ import annotations

import os
import sys
import types

VERIF = os.path.dirname(os.path.dirname(os.path.abspath(__file__)))
REPO = os.environ.get("VERIF_REPO", "/repo")
GUARD = "RUN_LLAMA_WORKFLOWS_PY_VERIF"

PKG = os.path.join(REPO, "packages")
SRC = {
    "workflows": os.path.join(PKG, "llama-index-workflows", "src"),
    "server": os.path.join(PKG, "llama-agents-server", "src"),
    "client": os.path.join(PKG, "llama-agents-client", "src"),
    "core": os.path.join(PKG, "llama-agents-core", "src"),
    "dbos": os.path.join(PKG, "llama-agents-dbos", "src"),
    "control_plane": os.path.join(PKG, "llama-agents-control-plane", "src"),
    "llamactl": os.path.join(PKG, "llamactl", "src"),
    "agentcore": os.path.join(PKG, "llama-agents-agentcore", "src"),
    "dev_cli": os.path.join(REPO, "src"),
}

_booted = False


def _ns(name: str, paths: list[str]) -> types.ModuleType:
    m = sys.modules.get(name)
    if m is None:
        m = types.ModuleType(name)
        m.__path__ = []  # type: ignore[attr-defined]
        sys.modules[name] = m
    for p in paths:
        if os.path.isdir(p) and p not in m.__path__:  # type: ignore[attr-defined]
            m.__path__.append(p)  # type: ignore[attr-defined]
    return m


def boot() -> None:
    """Idempotent: make real sources importable."""
    global _booted
    if _booted:
        return
    _booted = True
    os.environ.setdefault(GUARD, "1")
    sys.dont_write_bytecode = True
    import logging

    logging.disable(logging.CRITICAL)  # the engine logs every step failure; generated runs fail on purpose
    shim = os.path.join(VERIF, "pyshims")
    for p in (SRC["workflows"], SRC["dev_cli"], shim):
        if p not in sys.path:
            sys.path.insert(0, p)
    # llama_agents is spread over several distributions: one namespace module
    la_paths = [
        os.path.join(SRC[k], "llama_agents")
        for k in ("server", "client", "core", "dbos", "control_plane", "llamactl", "agentcore")
    ]
    _ns("llama_agents", la_paths)
    for sub in ("server", "core", "cli", "control_plane", "dbos", "agentcore", "client"):
        sub_paths = [os.path.join(p, sub) for p in la_paths]
        if sub == "client":
            # the client package __init__ is light; let it import normally
            continue
        _ns(f"llama_agents.{sub}", sub_paths)
    _ns("llama_agents.cli.config", [os.path.join(SRC["llamactl"], "llama_agents", "cli", "config")])
    _ns(
        "llama_agents.control_plane.backup",
        [os.path.join(SRC["control_plane"], "llama_agents", "control_plane", "backup")],
    )


def repo_path(*parts: str) -> str:
    return os.path.join(REPO, *parts)
