import WfModel.SqliteConn
/-!
Lock layer of the SQLite state stores: when every store object takes a lock of its
own, the answers to a schedule of lock actions do not depend on which objects were
handed the shared connection.
-/
namespace SqliteConn

theorem lockOf_perStore (t : Table) (h : t.lockPerStore = true) (s1 s2 : List Bool) (hl : s1.length = s2.length)
    (i : Nat) : lockOf t s1 i = lockOf t s2 i := by
  unfold lockOf
  by_cases hi : i < s1.length
  · have hi' : i < s2.length := hl ▸ hi
    simp [List.getElem?_eq_getElem hi, List.getElem?_eq_getElem hi', h]
  · have hi' : ¬ i < s2.length := hl ▸ hi
    simp [List.getElem?_eq_none (Nat.le_of_not_lt hi), List.getElem?_eq_none (Nat.le_of_not_lt hi')]

theorem lockStep_perStore (t : Table) (h : t.lockPerStore = true) (s1 s2 : List Bool) (hl : s1.length = s2.length)
    (a : LAct) (s : LSt) : lockStep t s1 a s = lockStep t s2 a s := by
  cases a with
  | acq task obj => simp only [lockStep, lockOf_perStore t h s1 s2 hl obj]
  | rel task obj => simp only [lockStep, lockOf_perStore t h s1 s2 hl obj]

theorem runLocks_perStore (t : Table) (h : t.lockPerStore = true) (s1 s2 : List Bool) (hl : s1.length = s2.length)
    (acts : List LAct) : ∀ s : LSt, runLocks t s1 acts s = runLocks t s2 acts s := by
  induction acts with
  | nil => intro s; rfl
  | cons a as ih =>
    intro s
    simp only [runLocks, lockStep_perStore t h s1 s2 hl a s, ih]

theorem locksAgree_of_perStore (t : Table) (h : t.lockPerStore = true) : LocksAgree t := by
  intro s1 s2 hl acts
  rw [runLocks_perStore t h s1 s2 hl acts]

/-- with a lock of its own, a request for the lock of store `obj` is granted at once
whenever nobody holds or awaits *that object's* lock — whatever else is held -/
theorem acq_free_perStore (t : Table) (h : t.lockPerStore = true) (stores : List Bool) (s : LSt) (task obj : Nat)
    (hobj : obj < stores.length)
    (hfree : ∀ p ∈ s.held ++ s.waiting, p.1 ≠ obj + 1) :
    (lockStep t stores (.acq task obj) s).2 = .got := by
  have hl : lockOf t stores obj = some (obj + 1) := by
    unfold lockOf
    simp [List.getElem?_eq_getElem hobj, h]
  have h1 : s.held.any (fun p => p.1 == obj + 1) = false := by
    apply Bool.eq_false_iff.2
    intro hc
    obtain ⟨p, hp, hp'⟩ := List.any_eq_true.1 hc
    exact hfree p (List.mem_append_left _ hp) (by simpa using hp')
  have h2 : s.waiting.any (fun p => p.1 == obj + 1) = false := by
    apply Bool.eq_false_iff.2
    intro hc
    obtain ⟨p, hp, hp'⟩ := List.any_eq_true.1 hc
    exact hfree p (List.mem_append_right _ hp) (by simpa using hp')
  simp only [lockStep, hl, h1, h2, Bool.or_self, Bool.false_eq_true, if_false]

end SqliteConn
