"""Idle release / reload on the real in-process server stack, observed action by action.

A *case* (JSON-able) describes a deterministic workflow that goes idle between external events,
an `idle_timeout`, a store kind, a plan of external sends (virtual times) and the scheduler's
choices.  `run_case` runs it on the real stack (harness/server/stack.py) under the virtual-time
loop and returns

* `ops` / `impl`: the model action lines (protocol of lean/Driver/Lifecycle.lean) that the real
  code was *observed* to perform, each with the state line computed from the real objects right
  after the action (`_active_run_ids`, the handler row, `BasicRuntime._queues`, the mailbox, the
  persisted ticks, the lock holder, …) — for the correspondence (K);
* `events`: the raw observation log for the monitors (S).

Observation is by pass-through wrappers only: the store instance is re-classed to a subclass that
logs calls (and, for `yielding` cases, suspends the calling *lock holder* after the call until the
scheduler resumes it — what a store with real I/O does); `IdleReleaseDecorator._reload_lock` and
`_spawn_task` are replaced per instance by recording proxies; a few BasicRuntime adapter methods
are wrapped at class level (dispatching to the active observer only).
"""
from __future__ import annotations

import asyncio
import contextlib
import json
import random
import sqlite3
from typing import Any

from workflows import Context, Workflow
from workflows.decorators import step
from workflows.events import Event, StartEvent, StopEvent, WorkflowIdleEvent
from workflows.plugins import basic as BASIC
from workflows.retry_policy import retry_policy as mk_retry_policy
from workflows import retry_policy as RP
from workflows.runtime import control_loop as CL

from ..vloop import VLoop, run_virtual
from .stack import Stack

T0 = 1000.0  # virtual start


class Ext(Event):
    n: int
    k: int | None = None


class Boom(Exception):
    pass


def ms(t: float) -> int:
    return int(round((t - T0) * 1000))


# --------------------------------------------------------------------------
# the generated workflow


def build_workflow(case: dict, obs: "Obs") -> Workflow:
    """step `a` handles the start (optionally sends internal events), step `b` handles Ext(n):
    works for dur[n] seconds, optionally fails once (retry after `retry_wait`), optionally sends
    internal events, appends n to the stored list, and ends the run on n == final"""
    spec = case["wf"]
    if spec.get("kind") == "waiter":
        return build_waiter_workflow(case, obs)
    durs = {int(k): v for k, v in spec.get("dur", {}).items()}
    internal = {int(k): v for k, v in spec.get("internal", {}).items()}
    fail_once = set(spec.get("fail_once", []))
    final = spec.get("final", 99)
    start_sends = list(spec.get("start_sends", []))
    start_dur = spec.get("start_dur", 0)
    retry_wait = spec.get("retry_wait", 0.5)

    class IdleWF(Workflow):
        @step
        async def a(self, ctx: Context, ev: StartEvent) -> Ext | None:
            obs.step_event("enter", "a", 0)
            try:
                await ctx.store.set("seen", [])
                for m in start_sends:
                    ctx.send_event(Ext(n=m))
                if start_dur:
                    await asyncio.sleep(start_dur)
                return None
            finally:
                obs.step_event("exit", "a", 0)

        @step(num_workers=spec.get("nw", 1), retry_policy=mk_retry_policy(stop=RP.stop_after_attempt(3), wait=RP.wait_fixed(retry_wait)))
        async def b(self, ctx: Context, ev: Ext) -> StopEvent | None:
            n = ev.n
            obs.step_event("enter", "b", n)
            status = "ok"
            try:
                d = durs.get(n, 0)
                if d:
                    await asyncio.sleep(d)
                if n in fail_once and obs.fail_counts.get(n, 0) == 0:
                    obs.fail_counts[n] = 1
                    raise Boom(f"b{n}")
                for m in internal.get(n, []):
                    ctx.send_event(Ext(n=m))
                async with ctx.store.edit_state() as st:
                    st["seen"] = list(st.get("seen", [])) + [n]
                obs.step_event("done", "b", n)
                if n == final:
                    seen = await ctx.store.get("seen")
                    return StopEvent(result=list(seen))
                return None
            except asyncio.CancelledError:
                status = "cancelled"
                raise
            except Boom:
                status = "failed"
                raise
            finally:
                obs.step_event("exit:" + status, "b", n)

    return IdleWF(timeout=None)


def build_waiter_workflow(case: dict, obs: "Obs") -> Workflow:
    """one step (num_workers `nw`) that works for `gate` seconds, then waits for Ext with requirements {"k": req_k};
    the run ends with [n, k] of the event the wait returned"""
    spec = case["wf"]
    gate = spec.get("gate", 0)
    req_k = spec.get("req_k", 1)

    class WaitWF(Workflow):
        @step(num_workers=spec.get("nw", 1))
        async def w(self, ctx: Context, ev: StartEvent) -> StopEvent | None:
            obs.step_event("enter", "w", 0)
            status = "ok"
            try:
                if gate:
                    await asyncio.sleep(gate)
                resp = await ctx.wait_for_event(Ext, requirements={"k": req_k}, waiter_id="w1")
                obs.step_event("done", "w", resp.n)
                return StopEvent(result=[resp.n, resp.k])
            except asyncio.CancelledError:
                status = "cancelled"
                raise
            except BaseException as e:
                status = "raise:" + type(e).__name__
                raise
            finally:
                obs.step_event("exit:" + status, "w", 0)

    return WaitWF(timeout=None)


# --------------------------------------------------------------------------
# observer

_OBS: "Obs | None" = None
_PATCHED = False
RUNNERS: dict[str, Any] = {}


def _run_sync(coro: Any) -> Any:
    """run a coroutine that never suspends (memory / sqlite store calls)"""
    try:
        coro.send(None)
    except StopIteration as e:
        return e.value
    coro.close()
    raise RuntimeError("store call suspended")


class Obs:
    def __init__(self, case: dict):
        self.case = case
        self.yielding = bool(case.get("yielding"))
        self.tau_ms = int(round(case["tau"] * 1000))
        self.ops: list[str] = []
        self.impl: list[str] = []
        self.events: list[dict] = []
        self.roles: dict[Any, tuple] = {}
        self.blocked: list[tuple[tuple, str, asyncio.Event]] = []
        self.depth = 0
        self.stack: Stack | None = None
        self.run_id: str | None = None
        self.handler_id = "h1"
        self.base_store_cls: Any = None
        self.last_ms = 0
        self.lock_holder: tuple | None = None
        self.started = 0
        self.aborted = 0
        self.errs = 0
        self.busy = 0
        self.early = 0
        self.lost: list[int] = []
        self.sent: list[int] = []
        self.buf: list[int] = []
        self.log_shadow: list[int] = []
        self.marking = False
        self.sync_work = True
        self.sync_retry = 0
        self.spc: dict[int, str] = {}
        self.tpc: dict[int, str] = {}
        self.stage: dict[int, str] = {}
        self.next_timer = 0
        self.last_mark_ms: int | None = None
        self.loop_tasks: list[Any] = []
        self.fail_counts: dict[int, int] = {}
        self.steps_running = 0
        self.choices: list[int] = list(case.get("choices", [])) if case.get("choices") is not None else []
        self.replaying = case.get("choices") is not None
        self.made: list[int] = []
        self.rng = random.Random(case.get("seed", 0))
        self.draining = False
        self.notes: list[str] = []
        self.send_results: dict[int, str] = {}
        self.delivered_obs: dict[int, bool] = {}
        self.enabled = False

    # ---- helpers
    def role(self) -> tuple:
        t = asyncio.current_task()
        return self.roles.get(t, ("e", 0))

    def now_ms(self) -> int:
        return ms(asyncio.get_event_loop().time())

    def step_event(self, kind: str, name: str, n: int) -> None:
        if kind == "enter":
            self.steps_running += 1
        elif kind.startswith("exit"):
            self.steps_running -= 1
        self.events.append({"ev": "step", "kind": kind, "step": name, "n": n, "t": self.now_ms(), "inc": self.started - 1})

    # ---- real state reads
    def real_idle_since(self) -> Any:
        from llama_agents.server._store.abstract_workflow_store import HandlerQuery

        st = self.stack
        assert st is not None
        self.depth += 1
        try:
            found = _run_sync(self.base_store_cls.query(st.store, HandlerQuery(run_id_in=[self.run_id])))
        finally:
            self.depth -= 1
        return found[0].idle_since if found else "missing"

    def real_status(self) -> Any:
        from llama_agents.server._store.abstract_workflow_store import HandlerQuery

        st = self.stack
        assert st is not None
        self.depth += 1
        try:
            found = _run_sync(self.base_store_cls.query(st.store, HandlerQuery(run_id_in=[self.run_id])))
        finally:
            self.depth -= 1
        return (found[0].status, found[0].result) if found else ("missing", None)

    def real_log(self) -> list[int]:
        st = self.stack
        assert st is not None
        self.depth += 1
        try:
            ticks = _run_sync(self.base_store_cls.get_ticks(st.store, self.run_id))
        finally:
            self.depth -= 1
        out = []
        for t in ticks:
            n = _tick_n(t.tick_data)
            if n is not None:
                out.append(n)
        return out

    def queues(self) -> Any:
        st = self.stack
        assert st is not None
        return st.basic._queues.get(self.run_id)

    def engine_view(self) -> tuple[bool, int]:
        """(reducer-visible work, pending delayed retries) of the registered loop; the persisted view when released"""
        q = self.queues()
        r = RUNNERS.get(self.run_id or "")
        if q is None or r is None or getattr(r, "_verif_queues", None) is not q:
            return self.sync_work, 0
        work = any(ws.queue or ws.in_progress for ws in r.state.workers.values())
        retry = sum(1 for (_a, _s, tk) in r.scheduled_wakeups if type(tk).__name__ == "TickAddEvent")
        # a due retry tick or a step result waiting in the tick buffer is work the reducer is about to see
        if any(type(tk).__name__ in ("TickStepResult",) or (type(tk).__name__ == "TickAddEvent" and _ev_n(tk) is None) for tk in r.tick_buffer):
            work = True
        if any(type(tk).__name__ == "TickAddEvent" and _ev_n(tk) is not None and _ev_n(tk) not in self.buf for tk in r.tick_buffer):
            work = True  # a retry re-queued through the buffer
        if r.worker_tasks or r._pending_workers:
            work = True
        return work, retry

    def live_loops(self) -> int:
        return sum(1 for t in self.loop_tasks if not t.done() and not (hasattr(t, "cancelling") and t.cancelling() > 0))

    def state_line(self, status: str = "ok") -> str:
        st = self.stack
        assert st is not None and st.idle is not None
        act = self.run_id in st.idle._active_run_ids
        isv = self.real_idle_since()
        idle = "-" if isv is None else str(ms(isv.timestamp() - 1_000_000_000)) if isv != "missing" else "missing"
        q = self.queues()
        if q is None:
            loop = "-"
        else:
            mb = [_ev_n(t) for t in list(q.receive_queue._queue)]
            mbs = ",".join(str(x) for x in mb if x is not None)
            loop = f"{self.started - 1}/start:{self.start_len}/mb:{mbs}/buf:{','.join(map(str, self.buf))}/retry:{self.sync_retry}/mark:{1 if self.marking else 0}"
        log = self.real_log()
        lk = "-" if self.lock_holder is None else f"{self.lock_holder[0]}{self.lock_holder[1]}"
        ss = ",".join(f"{i}:{self.spc[i]}" for i in sorted(self.spc))
        ts = ",".join(f"{j}:{self.tpc[j]}" for j in sorted(self.tpc))
        quiet_loop = q is None or (not list(q.receive_queue._queue) and not self.buf and self.sync_retry == 0)
        quiet = (not self.sync_work) and quiet_loop
        return (f"{status} now={self.last_ms} act={1 if act else 0} idle={idle} loop={loop} work={1 if self.sync_work else 0} "
                f"log={','.join(map(str, log))} lock={lk} S={ss} T={ts} sent={','.join(map(str, self.sent))} "
                f"lost={','.join(map(str, self.lost))} started={self.started} aborted={self.aborted} busy={self.busy} "
                f"errs={self.errs} early={self.early} quiet={1 if quiet else 0}")

    start_len = 0

    # ---- emission
    def _advance(self) -> None:
        now = self.now_ms()
        if now != self.last_ms:
            dt = now - self.last_ms
            self.last_ms = now
            self.ops.append(f"adv|{dt}")
            self.impl.append(f"ok now={now}")

    def _sync(self) -> None:
        w, r = self.engine_view()
        if (w, r) != (self.sync_work, self.sync_retry):
            self.sync_work, self.sync_retry = w, r
            self.ops.append(f"sync|{1 if w else 0}|{r}")
            self.impl.append(f"ok work={1 if w else 0} retry={r}")

    def emit(self, op: str, **info: Any) -> None:
        if not self.enabled:
            return
        self._advance()
        if op.split("|")[0] not in ("reduce",):
            self._sync()
        self.ops.append(op)
        self.impl.append(self.state_line())
        self.events.append({"ev": "op", "op": op, "idx": len(self.ops) - 1, "t": self.last_ms, "live": self.live_loops(),
                            "steps_running": self.steps_running, "lock": self.lock_holder, **info})

    # ---- gates
    async def gate(self, role: tuple, kind: str) -> None:
        if not self.yielding or role[0] not in ("s", "t"):
            return
        ev = asyncio.Event()
        self.blocked.append((role, kind, ev))
        await ev.wait()

    def choose(self, n: int) -> int:
        if self.replaying:
            c = (self.choices.pop(0) if self.choices else 0) % n
        else:
            c = self.rng.randrange(n)
        self.made.append(c)
        return c

    def hook(self, loop: VLoop) -> bool:
        if not self.blocked:
            return False
        has_timer = any(not h._cancelled for h in loop._scheduled)  # type: ignore[attr-defined]
        n = len(self.blocked) + (1 if has_timer and not self.draining else 0)
        c = self.choose(n)
        if c >= len(self.blocked):
            return False  # let time advance
        _role, _kind, ev = self.blocked.pop(c)
        ev.set()
        return True


def _ev_n(tick: Any) -> int | None:
    e = getattr(tick, "event", None)
    return getattr(e, "n", None) if isinstance(e, Ext) else None


def _tick_n(tick_data: dict) -> int | None:
    if tick_data.get("type") != "add_event":
        return None
    ev = tick_data.get("event") or {}
    if not str(ev.get("qualified_name", "")).endswith(".Ext"):
        return None
    # a retry re-queue of the same event is a TickAddEvent with attempts set: not a mailbox tick
    if tick_data.get("attempts") is not None:
        return None
    return (ev.get("value") or {}).get("n")


# --------------------------------------------------------------------------
# class-level pass-through wrappers (dispatch to the active observer)


def install() -> None:
    global _PATCHED
    if _PATCHED:
        return
    _PATCHED = True
    import llama_agents.server._runtime.idle_release_runtime as IR

    orig_runner_init = CL._ControlLoopRunner.__init__

    def runner_init(self: Any, workflow: Any, adapter: Any, *a: Any, **kw: Any) -> None:
        orig_runner_init(self, workflow, adapter, *a, **kw)
        try:
            RUNNERS[adapter.run_id] = self
            inner = adapter
            for _ in range(8):
                nxt = getattr(inner, "_decorated", None)
                if nxt is None:
                    break
                inner = nxt
            self._verif_queues = getattr(inner, "_queues", None)
        except Exception:
            pass

    CL._ControlLoopRunner.__init__ = runner_init  # type: ignore[method-assign]

    orig_send = IR.IdleReleaseExternalRunAdapter.send_event

    async def send_event(self: Any, tick: Any) -> None:
        o = _OBS
        n = _ev_n(tick)
        if o is None or not o.enabled or n is None or self.run_id != o.run_id:
            return await orig_send(self, tick)
        o.roles[asyncio.current_task()] = ("s", n)
        o.spc[n] = "waiting"
        o.stage[n] = "waiting"
        o.emit(f"scall|{n}")
        try:
            await orig_send(self, tick)
        except BaseException as e:
            # the exception left the lock section: which model action raised it
            stg = o.stage.get(n)
            if stg == "start":
                o.spc[n] = "failed"
                o.errs += 1
                o.lock_holder = None
                o.emit(f"sstart|{n}", error=repr(e))
            elif stg == "deliver":
                o.spc[n] = "failed"
                o.errs += 1
                o.lock_holder = None
                o.emit(f"sdeliver|{n}", error=repr(e))
            else:
                o.notes.append(f"send {n} raised at stage {stg}: {e!r}")
                o.events.append({"ev": "send_error", "n": n, "stage": stg, "error": repr(e), "t": o.now_ms()})
            o.send_results[n] = "error:" + type(e).__name__
            raise
        else:
            o.send_results[n] = "ok"
            if o.delivered_obs.get(n):
                o.spc[n] = "done"
                o.emit(f"sdeliver|{n}")
            else:
                o.notes.append(f"send {n} returned without a delivery")
                o.events.append({"ev": "send_no_delivery", "n": n, "t": o.now_ms()})

    IR.IdleReleaseExternalRunAdapter.send_event = send_event  # type: ignore[method-assign]

    orig_run = BASIC.BasicRuntime.run_workflow

    def run_workflow(self: Any, run_id: str, *a: Any, **kw: Any) -> Any:
        o = _OBS
        if o is None or o.stack is None or self is not o.stack.basic or (o.run_id is not None and run_id != o.run_id):
            return orig_run(self, run_id, *a, **kw)
        role = o.role()
        if role[0] == "s":
            o.stage[role[1]] = "start"
        first = o.run_id is None
        if first:
            o.run_id = run_id
        res = orig_run(self, run_id, *a, **kw)
        o.started += 1
        q = self._queues.get(run_id)
        if q is not None:
            o.loop_tasks.append(q.complete)
        o.buf = []
        o.marking = False
        o.events.append({"ev": "loop_start", "by": role, "t": o.now_ms(), "live": o.live_loops()})
        if first:
            o.impl.append(o.state_line())  # answer to `init`
        elif role[0] == "s":
            o.pending_start = role[1]  # `sstart` is emitted after `_active_run_ids.add` (wire: ActiveSet)
        return res

    BASIC.BasicRuntime.run_workflow = run_workflow  # type: ignore[method-assign]

    orig_esend = BASIC.ExternalAsyncioAdapter.send_event

    async def esend(self: Any, tick: Any) -> None:
        o = _OBS
        n = _ev_n(tick)
        await orig_esend(self, tick)
        if o is not None and o.enabled and n is not None and self.run_id == o.run_id:
            o.sent.append(n)
            o.delivered_obs[n] = True
            o.events.append({"ev": "deliver", "n": n, "t": o.now_ms(), "inc": o.started - 1})

    BASIC.ExternalAsyncioAdapter.send_event = esend  # type: ignore[method-assign]

    orig_isend = BASIC.InternalAsyncioAdapter.send_event

    async def isend(self: Any, tick: Any) -> None:
        o = _OBS
        n = _ev_n(tick)
        await orig_isend(self, tick)
        if o is not None and o.enabled and n is not None and self.run_id == o.run_id:
            o.sent.append(n)
            o.emit(f"put|{n}")

    BASIC.InternalAsyncioAdapter.send_event = isend  # type: ignore[method-assign]

    orig_recv = BASIC.InternalAsyncioAdapter.wait_receive

    async def wait_receive(self: Any, timeout_seconds: float | None = None) -> Any:
        o = _OBS
        res = await orig_recv(self, timeout_seconds)
        if o is not None and o.enabled and self.run_id == o.run_id:
            n = _ev_n(getattr(res, "tick", None))
            if n is not None:
                o.buf.append(n)
                o.emit("pull", n=n)
        return res

    BASIC.InternalAsyncioAdapter.wait_receive = wait_receive  # type: ignore[method-assign]

    orig_abort = BASIC.ExternalAsyncioAdapter.abort

    def abort(self: Any) -> None:
        o = _OBS
        if o is None or not o.enabled or self.run_id != o.run_id:
            return orig_abort(self)
        # what the loop holds in memory only, read before it is dropped
        o._advance()
        o._sync()
        q = self._queues
        mb = [x for x in (_ev_n(t) for t in list(q.receive_queue._queue)) if x is not None]
        r = RUNNERS.get(o.run_id or "")
        info = {
            "mailbox": mb, "buf": list(o.buf), "work": o.sync_work, "retry": o.sync_retry, "steps_running": o.steps_running,
            "by": o.role(), "t": o.now_ms(), "lock": o.lock_holder,
            "buffer_types": [type(t).__name__ for t in getattr(r, "tick_buffer", [])] if r is not None else [],
            "workers": len(getattr(r, "worker_tasks", [])) if r is not None else 0,
        }
        quiet = (not o.sync_work) and not mb and not o.buf and o.sync_retry == 0
        o.lost += list(o.buf) + mb
        if not quiet:
            o.busy += 1
        if o.last_mark_ms is not None and o.now_ms() < o.last_mark_ms + o.tau_ms:
            o.early += 1
        orig_abort(self)
        o.aborted += 1
        o.buf = []
        o.sync_retry = 0
        o.marking = False
        o.events.append({"ev": "abort", **info, "quiet": quiet, "live": o.live_loops()})

    BASIC.ExternalAsyncioAdapter.abort = abort  # type: ignore[method-assign]


class LockProxy:
    def __init__(self, real: Any, obs: Obs):
        self.real = real
        self.obs = obs

    def __call__(self, key: str) -> Any:
        return self._cm(key)

    @contextlib.asynccontextmanager
    async def _cm(self, key: str) -> Any:
        o = self.obs
        async with self.real(key):
            role = o.role()
            if key == o.run_id and o.enabled:
                if o.lock_holder is not None:
                    o.events.append({"ev": "lock_overlap", "holder": o.lock_holder, "by": role, "t": o.now_ms()})
                o.lock_holder = role
                st = o.stack
                assert st is not None and st.idle is not None
                if role[0] == "s":
                    act = o.run_id in st.idle._active_run_ids
                    o.spc[role[1]] = "clear" if act else "query"
                    o.stage[role[1]] = "locked"
                    o.emit(f"sacq|{role[1]}", active=act)
                elif role[0] == "t":
                    o.tpc[role[1]] = "query"
                    o.emit(f"tacq|{role[1]}")
            try:
                yield
            finally:
                if key == o.run_id and o.lock_holder == role:
                    o.lock_holder = None


def observe_store(store: Any, obs: Obs) -> None:
    from llama_agents.server._store.abstract_workflow_store import _Unset, _UNSET

    cls = type(store)
    obs.base_store_cls = cls

    class Observed(cls):  # type: ignore[valid-type,misc]
        async def update_handler_status(self, run_id: str, *, status: Any = None, result: Any = None, error: Any = None,
                                        idle_since: Any = _UNSET) -> None:
            o = obs
            role = o.role()
            if not o.enabled or run_id != o.run_id or o.depth:
                return await cls.update_handler_status(self, run_id, status=status, result=result, error=error, idle_since=idle_since)
            o.depth += 1
            try:
                await cls.update_handler_status(self, run_id, status=status, result=result, error=error, idle_since=idle_since)
            finally:
                o.depth -= 1
            if isinstance(idle_since, _Unset):
                o.events.append({"ev": "status", "status": status, "by": role, "t": o.now_ms()})
                return
            if idle_since is None:
                if role[0] == "s":
                    i = role[1]
                    branch = "srclear" if o.spc.get(i) == "rclear" else "sclear"
                    o.spc[i] = "deliver"
                    o.stage[i] = "deliver"
                    o.emit(f"{branch}|{i}")
                    await o.gate(role, "clear")
                else:
                    o.events.append({"ev": "clear_by_other", "by": role, "t": o.now_ms()})
            else:
                o.marking = True
                o.last_mark_ms = o.now_ms()
                o.emit("mark", by=role, truly_idle=o.truly_idle())
        async def query(self, q: Any) -> Any:
            o = obs
            res = await cls.query(self, q)
            if o.enabled and not o.depth and getattr(q, "run_id_in", None) == [o.run_id]:
                role = o.role()
                if o.yielding and role[0] in ("s", "t"):
                    # a store whose calls suspend hands out snapshots, not MemoryWorkflowStore's live record objects
                    res = [h.model_copy() for h in res]
                if role[0] == "s" and o.spc.get(role[1]) == "query":
                    o.spc[role[1]] = "log"
                    o.emit(f"squery|{role[1]}")
                    await o.gate(role, "query")
                elif role[0] == "t":
                    j = role[1]
                    isv = res[0].idle_since if len(res) == 1 else None
                    seen = "-" if isv is None else str(ms(isv.timestamp() - 1_000_000_000))
                    o.tpc[j] = f"decide({seen})"
                    o.emit(f"tquery|{j}", in_lock=(o.lock_holder == role))
                    await o.gate(role, "query")
            return res

        async def stream_ticks(self, run_id: str) -> Any:
            o = obs
            items = [t async for t in cls.stream_ticks(self, run_id)]
            if o.enabled and not o.depth and run_id == o.run_id:
                role = o.role()
                if role[0] == "s" and o.spc.get(role[1]) == "log":
                    k = sum(1 for t in items if _tick_n(t.tick_data) is not None)
                    o.spc[role[1]] = f"start({k})"
                    o.snap_len = k
                    o.emit(f"slog|{role[1]}")
                    await o.gate(role, "log")
            for t in items:
                yield t

        async def append_tick(self, run_id: str, tick_data: dict) -> None:
            o = obs
            await cls.append_tick(self, run_id, tick_data)
            if o.enabled and run_id == o.run_id:
                n = _tick_n(tick_data)
                if n is not None and n in o.buf:
                    o.buf.remove(n)
                    o.sync_work = True  # the reducer has accepted the tick: work until the engine says otherwise
                    o.emit("reduce", n=n)
                    # the reducer has seen the tick: its work is visible from here on
                    o._sync()

        async def append_event(self, run_id: str, event: Any) -> None:
            o = obs
            await cls.append_event(self, run_id, event)
            if o.enabled and run_id == o.run_id and getattr(event, "type", "") == "WorkflowIdleEvent":
                o.events.append({"ev": "idle_published", "t": o.now_ms(), "truly_idle": o.truly_idle(), "inc": o.started - 1,
                                 "open_sender_windows": [i for i, pc in o.spc.items() if pc == "deliver"],
                                 "lock": o.lock_holder})

    store.__class__ = Observed


def _truly_idle(o: Obs) -> dict:
    q = o.queues()
    r = RUNNERS.get(o.run_id or "")
    mb = [x for x in (_ev_n(t) for t in list(q.receive_queue._queue)) if x is not None] if q is not None else []
    w, retry = o.engine_view()
    return {"mailbox": mb, "buf": list(o.buf), "retry": retry, "work": w, "steps_running": o.steps_running,
            "idle": not mb and not o.buf and retry == 0 and not w and o.steps_running == 0}


Obs.truly_idle = _truly_idle  # type: ignore[attr-defined]
Obs.pending_start = None  # type: ignore[attr-defined]
Obs.snap_len = 0  # type: ignore[attr-defined]


def wire(obs: Obs, st: Stack) -> None:
    """per-instance proxies on the real IdleReleaseDecorator"""
    idle = st.idle
    assert idle is not None
    idle._reload_lock = LockProxy(idle._reload_lock, obs)  # type: ignore[assignment]
    orig_spawn = idle._spawn_task

    def spawn(coro: Any) -> Any:
        name = getattr(coro, "__qualname__", "")
        if not name.endswith("_deferred_release") or not obs.enabled:
            return orig_spawn(coro)
        j = obs.next_timer
        obs.next_timer += 1

        async def w() -> None:
            obs.roles[asyncio.current_task()] = ("t", j)
            try:
                await coro
            finally:
                pc = obs.tpc.get(j, "")
                if pc.startswith("decide") or pc == "query":
                    obs.tpc[j] = "done"
                    obs.emit(f"tdecide|{j}")
                else:
                    obs.events.append({"ev": "timer_end", "j": j, "pc": pc, "t": obs.now_ms()})

        obs.marking = False
        obs.tpc[j] = f"sleep@{obs.now_ms() + obs.tau_ms}"
        task = orig_spawn(w())
        obs.emit(f"spawn|{j}")
        return task

    idle._spawn_task = spawn  # type: ignore[method-assign]
    # `_active_run_ids.add` after workflow.run in _ensure_active_run_locked: emit sstart once both have happened
    real_set = idle._active_run_ids

    class ActiveSet(set):
        def add(self, x: Any) -> None:  # type: ignore[override]
            set.add(self, x)
            if obs.enabled and x == obs.run_id and obs.pending_start is not None:
                i = obs.pending_start
                obs.pending_start = None
                obs.start_len = obs.snap_len
                obs.spc[i] = "rclear"
                obs.stage[i] = "rclear"
                obs.sync_retry = 0
                obs.emit(f"sstart|{i}")

    idle._active_run_ids = ActiveSet(real_set)


# --------------------------------------------------------------------------


def _fast_db_path(case: dict) -> str | None:
    """SQLite files on a memory-backed directory when there is one (every store call opens a connection and commits)"""
    import os
    import tempfile

    if case.get("store") != "sqlite":
        return None
    d = "/dev/shm" if os.path.isdir("/dev/shm") and os.access("/dev/shm", os.W_OK) else None
    fd, p = tempfile.mkstemp(prefix="verif_wf_", suffix=".db", dir=d)
    os.close(fd)
    os.unlink(p)
    return p


def _group(plan: list[dict]) -> list[tuple[float, list[int]]]:
    out: list[tuple[float, list[int]]] = []
    for p in plan:
        if out and out[-1][0] == p["at"]:
            out[-1][1].append(p["n"])
        else:
            out.append((p["at"], [p["n"]]))
    return out


def run_case(case: dict, horizon: float | None = None) -> dict:
    """run one case on the real stack; returns ops / impl lines, events, outcome"""
    global _OBS
    install()
    obs = Obs(case)
    _OBS = obs
    RUNNERS.clear()
    tau = case["tau"]
    plan = sorted(case.get("plan", []), key=lambda p: (p["at"], p["n"]))
    end = max([p["at"] for p in plan] + [0.0]) + (horizon if horizon is not None else case.get("tail", 3 * tau + 2.0))
    out: dict[str, Any] = {}

    async def main(loop: VLoop) -> None:
        st = Stack.build(case.get("store", "memory"), idle_timeout=tau, db_path=_fast_db_path(case))
        obs.stack = st
        observe_store(st.store, obs)
        wire(obs, st)
        st.add_workflow("wf", lambda: build_workflow(case, obs))
        await st.start()
        # observation starts with the run: model `init`
        obs.enabled = True
        obs.ops.append(f"init|{obs.tau_ms}")
        hd = await st.start_run("wf", obs.handler_id, StartEvent())
        assert obs.run_id == hd.run_id
        obs.events.append({"ev": "started", "t": obs.now_ms()})

        async def sender(at: float, ns: list[int]) -> None:
            await asyncio.sleep(at)
            for n in ns:  # equal send times: plan order (timer ties would otherwise decide)
                try:
                    await st.send(obs.handler_id, Ext(n=n, k=ks.get(n)))
                    obs.events.append({"ev": "send_accepted", "n": n, "t": obs.now_ms(), "active": st.active(obs.run_id)})
                except Exception as e:
                    obs.events.append({"ev": "send_rejected", "n": n, "t": obs.now_ms(), "error": f"{type(e).__name__}: {e}"})

        ks = {p["n"]: p.get("k") for p in plan}
        tasks = [asyncio.create_task(sender(at, ns)) for at, ns in _group(plan)]
        await asyncio.sleep(end)
        obs.draining = True
        for _ in range(200):
            if not obs.blocked:
                break
            await asyncio.sleep(0)
        # let everything that was delivered (possibly late, by the scheduler's choice) be worked off
        work = sum(float(v) for v in case["wf"].get("dur", {}).values()) + float(case["wf"].get("start_dur", 0))
        work += 2 * float(case["wf"].get("retry_wait", 0.5)) * len(case["wf"].get("fail_once", []))
        await asyncio.sleep(2 * tau + 1.0 + 1.5 * work)
        for _ in range(200):
            if not obs.blocked:
                break
            await asyncio.sleep(0)
        await asyncio.sleep(2 * tau + 0.5)
        for t in tasks:
            if not t.done():
                t.cancel()
        status, result = obs.real_status()
        out["status"] = status
        out["result"] = getattr(result, "result", None) if result is not None else None
        out["active"] = st.active(obs.run_id)
        out["idle_since_set"] = obs.real_idle_since() is not None
        out["log"] = obs.real_log()
        obs.enabled = False
        st.cleanup()

    try:
        run_virtual(main, start=T0, max_time=T0 + end + 100 * tau + 1000.0, hook_factory=lambda loop: (lambda: obs.hook(loop)))
    except TimeoutError:
        out["deadlock"] = True
    finally:
        _OBS = None
    out.update({"ops": obs.ops, "impl": obs.impl, "events": obs.events, "choices": obs.made, "notes": obs.notes,
                "send_results": obs.send_results, "tau_ms": obs.tau_ms})
    return out


def run_reference(case: dict) -> dict:
    """the same workflow and sends on a stack without idle release (nothing is ever released)"""
    global _OBS
    install()
    obs = Obs(dict(case, yielding=False))
    _OBS = None
    plan = sorted(case.get("plan", []), key=lambda p: (p["at"], p["n"]))
    tau = case["tau"]
    end = max([p["at"] for p in plan] + [0.0]) + case.get("tail", 3 * tau + 2.0) + 2 * tau + 1.0
    out: dict[str, Any] = {}

    async def main(loop: VLoop) -> None:
        st = Stack.build(case.get("store", "memory"), idle_timeout=None, db_path=_fast_db_path(case))
        st.add_workflow("wf", lambda: build_workflow(case, obs))
        await st.start()
        hd = await st.start_run("wf", "h1", StartEvent())

        async def sender(at: float, ns: list[int]) -> None:
            await asyncio.sleep(at)
            for n in ns:
                try:
                    await st.send("h1", Ext(n=n, k=ks.get(n)))
                except Exception:
                    pass

        ks = {p["n"]: p.get("k") for p in plan}
        tasks = [asyncio.create_task(sender(at, ns)) for at, ns in _group(plan)]
        await asyncio.sleep(end)
        for t in tasks:
            if not t.done():
                t.cancel()
        ph = await st.handler("h1")
        out["status"] = ph.status
        out["result"] = getattr(ph.result, "result", None) if ph.result is not None else None
        st.cleanup()

    run_virtual(main, start=T0, max_time=T0 + end + 1000.0)
    out["steps"] = [e for e in obs.events if e["ev"] == "step"]
    return out
