import WfModel.Migrate
import WfModel.GenMigrate
/-! The shipped migration directory (regenerated into `Gen.Migrate.files` as plain tuples) decoded into
the model's types. -/
namespace Migrate

def decodeStmt : Gen.Migrate.RawStmt → Stmt
  | ("ct", ifne, _, name, _, cols) => .createTable ifne name (cols.map fun c => { name := c.1, decl := c.2 })
  | ("ac", _, _, _, table, [c]) => .addColumn table { name := c.1, decl := c.2 }
  | ("ci", ifne, uniq, name, table, cols) => .createIndex ifne uniq name table (cols.map (·.1))
  | _ => .invalid

/-- every entry of the shipped migrations directory -/
def shippedFiles : List File :=
  Gen.Migrate.files.map fun f => { name := f.1, text := f.2.1.map Char.ofNat, stmts := f.2.2.map decodeStmt }

/-- `run_migrations(conn)` with the default `sources` -/
def shippedSources : List (String × List File) := [(Gen.Migrate.defaultPackage, shippedFiles)]

/-- every entry of the dbos package's SQLite migrations directory -/
def dbosShippedFiles : List File :=
  Gen.Migrate.dbosFiles.map fun f => { name := f.1, text := f.2.1.map Char.ofNat, stmts := f.2.2.map decodeStmt }

/-- the `sources` `DBOSRuntime.run_migrations` passes (`_SQLITE_SOURCES`): the packages in the regenerated list
order, each with its regenerated directory -/
def productionSources : List (String × List File) :=
  Gen.Migrate.productionPackages.map fun p =>
    (p, if p = Gen.Migrate.dbosPackage then dbosShippedFiles
        else if p = Gen.Migrate.defaultPackage then shippedFiles else [])

end Migrate
