import WfProofs.JournalWitness
/-! C27, extension: a run that is stopped and recovered any number of times.
`Reach` speaks about one never-crashed process; `ReachC` adds the transition "stop here, run
`Loop.recover` on the durable state, continue from the world it produces". -/
namespace Journal

variable {σ κ ν ο : Type} [DecidableEq κ]

/-- configurations the control loop can be in: from `cfg0`, act on any in-flight task with any value, or on a timeout -/
inductive CfgReach (L : Loop σ κ ν ο) : Cfg σ κ → Prop
  | init : CfgReach L L.cfg0
  | act {c} (t : Task κ) (v : ν) : CfgReach L c → t ∈ c.fl → CfgReach L (L.act c (some (t, v))).1
  | tmo {c} : CfgReach L c → CfgReach L (L.act c none).1

/-- in-flight keys pairwise distinct in every configuration (a property of the loop's key allocation alone) -/
def KeysDistinctCfg (L : Loop σ κ ν ο) : Prop := ∀ c, CfgReach L c → (c.fl.map (·.key)).Nodup

/-- worlds of a run that may be stopped at any point and recovered, any number of times -/
inductive ReachC (L : Loop σ κ ν ο) : World σ κ ν ο → Prop
  | init : ReachC L L.world0
  | step {w w'} : ReachC L w → Step L w w' → ReachC L w'
  | crash {w wr} : ReachC L w → L.recover w.jr w.memo w.mbox = .ok wr → ReachC L wr

theorem reach_reachC (L : Loop σ κ ν ο) {w : World σ κ ν ο} (h : Reach L w) : ReachC L w := by
  induction h with
  | init => exact .init
  | step _ hs ih => exact .step ih hs

theorem cfgReach_of_reach (L : Loop σ κ ν ο) {w : World σ κ ν ο} (hr : Reach L w) :
    CfgReach L w.c ∧ ∀ t, w.pend = some t → t ∈ w.c.fl := by
  induction hr with
  | init => exact ⟨.init, by intro t h; simp [Loop.world0] at h⟩
  | step hr hs ih =>
    cases hs with
    | finish => exact ih
    | recv => exact ih
    | send => exact ih
    | record t v hp hm hmemo =>
      refine ⟨ih.1, ?_⟩
      intro t' ht'; cases ht'; exact hm
    | actOn t v hp hmemo =>
      refine ⟨.act t v ih.1 (ih.2 t hp), ?_⟩
      intro t' ht'; cases ht'
    | timeout hp ha =>
      refine ⟨.tmo ih.1, ?_⟩
      intro t' ht'; simp only [hp] at ht'; cases ht'

theorem keysDistinct_of_cfg (L : Loop σ κ ν ο) (h : KeysDistinctCfg L) : KeysDistinct L :=
  fun w hr => h w.c (cfgReach_of_reach L hr).1

/-! ### replay lemmas -/

theorem replay_keys (L : Loop σ κ ν ο) (memo : Nat → Option ν) :
    ∀ (ks : List κ) (c c' : Cfg σ κ) (os : List ο) (ts : List (Task κ)),
      L.replay memo c ks = .ok (c', os, ts) → ts.map (·.key) = ks := by
  intro ks
  induction ks with
  | nil =>
    intro c c' os ts h
    simp only [Loop.replay] at h
    injection h with h; injection h with h1 h2; injection h2 with h2 h3
    subst h3; rfl
  | cons k ks ih =>
    intro c c' os ts h
    simp only [Loop.replay] at h
    split at h
    · cases h
    · rename_i t hf
      split at h
      · cases h
      · rename_i v hm
        split at h
        · cases h
        · rename_i c1 os1 ts1 hrec
          injection h with h; injection h with h1 h2; injection h2 with h2 h3
          subst h3
          have hk := List.find?_some hf
          have hk' : t.key = k := by simpa using hk
          simp only [List.map_cons, hk', ih _ _ _ _ hrec]

theorem replay_memo_some (L : Loop σ κ ν ο) (memo : Nat → Option ν) :
    ∀ (ks : List κ) (c c' : Cfg σ κ) (os : List ο) (ts : List (Task κ)),
      L.replay memo c ks = .ok (c', os, ts) → ∀ t ∈ ts, ∃ v, memo t.fid = some v := by
  intro ks
  induction ks with
  | nil =>
    intro c c' os ts h
    simp only [Loop.replay] at h
    injection h with h; injection h with h1 h2; injection h2 with h2 h3
    subst h3; intro t ht; cases ht
  | cons k ks ih =>
    intro c c' os ts h
    simp only [Loop.replay] at h
    split at h
    · cases h
    · rename_i t hf
      split at h
      · cases h
      · rename_i v hm
        split at h
        · cases h
        · rename_i c1 os1 ts1 hrec
          injection h with h; injection h with h1 h2; injection h2 with h2 h3
          subst h3
          intro t' ht'
          rcases List.mem_cons.mp ht' with e | e
          · subst e; exact ⟨v, hm⟩
          · exact ih _ _ _ _ hrec t' e

theorem replay_congr (L : Loop σ κ ν ο) (memo memo' : Nat → Option ν) :
    ∀ (ks : List κ) (c c' : Cfg σ κ) (os : List ο) (ts : List (Task κ)),
      L.replay memo c ks = .ok (c', os, ts) → (∀ t ∈ ts, memo' t.fid = memo t.fid) →
      L.replay memo' c ks = .ok (c', os, ts) := by
  intro ks
  induction ks with
  | nil => intro c c' os ts h _; simpa [Loop.replay] using h
  | cons k ks ih =>
    intro c c' os ts h hc
    simp only [Loop.replay] at h ⊢
    split at h
    · cases h
    · rename_i t hf
      split at h
      · cases h
      · rename_i v hm
        split at h
        · cases h
        · rename_i c1 os1 ts1 hrec
          injection h with h; injection h with h1 h2; injection h2 with h2 h3
          subst h1; subst h2; subst h3
          have e1 : memo' t.fid = some v := by rw [hc t (by simp), hm]
          have e2 := ih _ _ _ _ hrec (fun t' ht' => hc t' (by simp [ht']))
          simp only [e1, e2]

theorem replay_cfgReach (L : Loop σ κ ν ο) (memo : Nat → Option ν) :
    ∀ (ks : List κ) (c c' : Cfg σ κ) (os : List ο) (ts : List (Task κ)),
      L.replay memo c ks = .ok (c', os, ts) → CfgReach L c → CfgReach L c' := by
  intro ks
  induction ks with
  | nil =>
    intro c c' os ts h hc
    simp only [Loop.replay] at h
    injection h with h; injection h with h1 h2
    subst h1; exact hc
  | cons k ks ih =>
    intro c c' os ts h hc
    simp only [Loop.replay] at h
    split at h
    · cases h
    · rename_i t hf
      split at h
      · cases h
      · rename_i v hm
        split at h
        · cases h
        · rename_i c1 os1 ts1 hrec
          injection h with h; injection h with h1 h2
          subst h1
          exact ih _ _ _ _ hrec (.act t v hc (List.mem_of_find?_eq_some hf))

theorem replay_bound (L : Loop σ κ ν ο) (memo : Nat → Option ν) :
    ∀ (ks : List κ) (c c' : Cfg σ κ) (os : List ο) (ts : List (Task κ)),
      L.replay memo c ks = .ok (c', os, ts) → (∀ t ∈ c.fl, t.fid ≤ c.fidc) → c.base ≤ c.fidc →
      (∀ t ∈ c'.fl, t.fid ≤ c'.fidc) ∧ c'.base ≤ c'.fidc ∧ c.base ≤ c'.base ∧ (∀ t ∈ ts, t.fid ≤ c'.base) := by
  intro ks
  induction ks with
  | nil =>
    intro c c' os ts h hfl hb
    simp only [Loop.replay] at h
    injection h with h; injection h with h1 h2; injection h2 with h2 h3
    subst h1; subst h3
    exact ⟨hfl, hb, Nat.le_refl _, by intro t ht; cases ht⟩
  | cons k ks ih =>
    intro c c' os ts h hfl hb
    simp only [Loop.replay] at h
    split at h
    · cases h
    · rename_i t hf
      split at h
      · cases h
      · rename_i v hm
        split at h
        · cases h
        · rename_i c1 os1 ts1 hrec
          injection h with h; injection h with h1 h2; injection h2 with h2 h3
          subst h1; subst h3
          have hmem := List.mem_of_find?_eq_some hf
          have hfl1 : ∀ t' ∈ (L.act c (some (t, v))).1.fl, t'.fid ≤ (L.act c (some (t, v))).1.fidc := by
            intro t' ht'
            rcases act_fl L _ _ t' ht' with h | h
            · exact Nat.le_trans (hfl t' h) (act_fidc L _ _)
            · exact h.2
          have hbase1 : (L.act c (some (t, v))).1.base = c.fidc := by simp [Loop.act]
          have hb1 : (L.act c (some (t, v))).1.base ≤ (L.act c (some (t, v))).1.fidc := by
            rw [hbase1]; exact act_fidc L _ _
          obtain ⟨r1, r2, r3, r4⟩ := ih _ _ _ _ hrec hfl1 hb1
          rw [hbase1] at r3
          refine ⟨r1, r2, by omega, ?_⟩
          intro t' ht'
          rcases List.mem_cons.mp ht' with e | e
          · subst e; exact Nat.le_trans (hfl _ hmem) r3
          · exact r4 t' e

/-! ### the invariant across recoveries -/

omit [DecidableEq κ] in
theorem hist_of_tasks (memo : Nat → Option ν) :
    ∀ ts : List (Task κ), (∀ t ∈ ts, ∃ v, memo t.fid = some v) →
      actedTasks (ts.map (fun t => (memo t.fid).map (fun v => (t, v)))) = ts ∧
      actedKeys (ts.map (fun t => (memo t.fid).map (fun v => (t, v)))) = ts.map (·.key) ∧
      noTimeout (ts.map (fun t => (memo t.fid).map (fun v => (t, v)))) = true := by
  intro ts
  induction ts with
  | nil => intro _; exact ⟨rfl, rfl, rfl⟩
  | cons t ts ih =>
    intro h
    obtain ⟨v, hv⟩ := h t (by simp)
    obtain ⟨i1, i2, i3⟩ := ih (fun t' ht' => h t' (by simp [ht']))
    simp only [List.map_cons, hv, Option.map_some, actedTasks, actedKeys, noTimeout, i1, i2, i3]
    exact ⟨trivial, trivial, trivial⟩

/-- what holds of every world in which no timeout was acted upon since the last recovery -/
structure InvC (L : Loop σ κ ν ο) (w : World σ κ ν ο) : Prop where
  rep : L.replay w.memo L.cfg0 (actedKeys w.hist) = .ok (w.c, w.outs, actedTasks w.hist)
  jr : w.jr = actedKeys w.hist ++ (match w.pend with | none => [] | some t => [t.key])
  pend : ∀ t, w.pend = some t → t ∈ w.c.fl ∧ ∃ v, w.memo t.fid = some v
  cfg : CfgReach L w.c

theorem invC_step (L : Loop σ κ ν ο) (hk : KeysDistinctCfg L) {w w' : World σ κ ν ο}
    (hs : Step L w w') (hnt : noTimeout w'.hist = true) (hi : InvC L w) : InvC L w' := by
  cases hs with
  | finish t v hm hp hmemo =>
    refine ⟨?_, hi.jr, ?_, hi.cfg⟩
    · exact replay_mono L _ _ (setMemo_mono _ _ _ hmemo) _ _ _ hi.rep
    · intro t' ht'
      obtain ⟨h1, v', h2⟩ := hi.pend t' ht'
      exact ⟨h1, v', setMemo_mono _ _ _ hmemo _ _ h2⟩
  | recv t m rest hm hp hmemo hmb =>
    refine ⟨?_, hi.jr, ?_, hi.cfg⟩
    · exact replay_mono L _ _ (setMemo_mono _ _ _ hmemo) _ _ _ hi.rep
    · intro t' ht'
      obtain ⟨h1, v', h2⟩ := hi.pend t' ht'
      exact ⟨h1, v', setMemo_mono _ _ _ hmemo _ _ h2⟩
  | send m => exact ⟨hi.rep, hi.jr, hi.pend, hi.cfg⟩
  | record t v hp hm hmemo =>
    refine ⟨hi.rep, ?_, ?_, hi.cfg⟩
    · have := hi.jr; rw [hp] at this; simp [this]
    · intro t' ht'; cases ht'; exact ⟨hm, v, hmemo⟩
  | actOn t v hp hmemo =>
    obtain ⟨hmem, _⟩ := hi.pend t hp
    have hf := find_of_mem_nodup w.c.fl t hmem (hk w.c hi.cfg)
    refine ⟨?_, ?_, ?_, .act t v hi.cfg hmem⟩
    · simp only [actedKeys_snoc_some, actedTasks_snoc_some]
      exact replay_snoc L w.memo _ _ _ _ _ _ t v hi.rep hf hmemo
    · have := hi.jr; rw [hp] at this; simp [this, actedKeys_snoc_some]
    · intro t' ht'; cases ht'
  | timeout hp ha =>
    simp [noTimeout_append, noTimeout] at hnt

theorem invC_of_recover (L : Loop σ κ ν ο) {w wr : World σ κ ν ο}
    (h : L.recover w.jr w.memo w.mbox = .ok wr) : InvC L wr ∧ noTimeout wr.hist = true := by
  simp only [Loop.recover] at h
  split at h
  · cases h
  · rename_i c os ts hrep
    injection h with h
    subst h
    have hms := replay_memo_some L w.memo _ _ _ _ _ hrep
    have hks := replay_keys L w.memo _ _ _ _ _ hrep
    obtain ⟨e1, e2, e3⟩ := hist_of_tasks w.memo ts hms
    have hb := replay_bound L w.memo _ _ _ _ _ hrep
      (by
        intro t ht
        have := spawn_fid 0 L.initTasks t (by simpa [Loop.cfg0] using ht)
        simp [Loop.cfg0]; omega)
      (by simp [Loop.cfg0])
    refine ⟨⟨?_, ?_, ?_, ?_⟩, e3⟩
    · simp only [e1, e2, hks]
      apply replay_congr L w.memo _ _ _ _ _ _ hrep
      intro t ht
      have hle := hb.2.2.2 t ht
      simp only [purgeMemo]
      split
      · rfl
      · simp only
        split
        · omega
        · rfl
    · simp only [e2, hks]; simp
    · intro t ht; cases ht
    · exact replay_cfgReach L w.memo _ _ _ _ _ hrep .init

theorem invC_of_reachC (L : Loop σ κ ν ο) (hk : KeysDistinctCfg L) {w : World σ κ ν ο}
    (hr : ReachC L w) : noTimeout w.hist = true → InvC L w := by
  induction hr with
  | init =>
    intro _
    exact ⟨by simp [Loop.world0, actedKeys, actedTasks, Loop.replay], by simp [Loop.world0, actedKeys],
           by intro t h; simp [Loop.world0] at h, .init⟩
  | @step w0 w1 hr hs ih =>
    intro hnt
    have hnt0 : noTimeout w0.hist = true := by
      cases hs <;> first
        | exact hnt
        | (simp only [noTimeout_append, Bool.and_eq_true] at hnt; exact hnt.1)
    exact invC_step L hk hs hnt (ih hnt0)
  | @crash w0 wr hr h _ =>
    intro _
    exact (invC_of_recover L h).1

/-! ### statement-level theorems -/

/-- write order for a run with any number of stops: unconditional on timeouts -/
theorem jr_of_reachC (L : Loop σ κ ν ο) {w : World σ κ ν ο} (hr : ReachC L w) :
    w.jr = actedKeys w.hist ++ (match w.pend with | none => [] | some t => [t.key]) := by
  induction hr with
  | init => simp [Loop.world0, actedKeys]
  | step hr hs ih =>
    cases hs with
    | finish => exact ih
    | recv => exact ih
    | send => exact ih
    | record t v hp hm hmemo => rw [hp] at ih; simp [ih]
    | actOn t v hp hmemo => rw [hp] at ih; simp [ih, actedKeys_snoc_some]
    | timeout hp ha =>
      rw [hp] at ih ⊢
      have : ∀ h : List (Option (Task κ × ν)), actedKeys (h ++ [none]) = actedKeys h := by
        intro h; induction h with
        | nil => rfl
        | cons x xs ih2 => cases x with
          | none => simpa [actedKeys] using ih2
          | some p => obtain ⟨a, b⟩ := p; simp [actedKeys, ih2]
      simp [ih, this]
  | crash hr h _ => exact (invC_of_recover L h).1.jr

/-- replay of the journal of a run with any number of stops (no timeout since the last recovery) -/
theorem replay_of_reachC (L : Loop σ κ ν ο) (hk : KeysDistinctCfg L) (w : World σ κ ν ο)
    (hr : ReachC L w) (hnt : noTimeout w.hist = true) :
    L.replay w.memo L.cfg0 w.jr =
      .ok ((settled L w).c, (settled L w).outs, actedTasks (settled L w).hist) ∧
    (actedTasks (settled L w).hist).map (·.key) = w.jr := by
  have hi := invC_of_reachC L hk hr hnt
  have hkeys : ∀ h : List (Option (Journal.Task κ × ν)), (actedTasks h).map (·.key) = actedKeys h := by
    intro h; induction h with
    | nil => rfl
    | cons x xs ih => cases x with
      | none => simpa [actedTasks, actedKeys] using ih
      | some p => obtain ⟨a, b⟩ := p; simp [actedTasks, actedKeys, ih]
  cases hp : w.pend with
  | none =>
    have e : settled L w = w := by simp [settled, hp]
    have hjr := hi.jr; rw [hp] at hjr; simp at hjr
    rw [e, hjr]; exact ⟨hi.rep, hkeys _⟩
  | some t =>
    obtain ⟨hmem, v, hv⟩ := hi.pend t hp
    have e : settled L w = actedWorld L w t v := by simp [settled, hp, hv]
    have hjr := hi.jr; rw [hp] at hjr
    have hf := find_of_mem_nodup w.c.fl t hmem (hk w.c hi.cfg)
    rw [e, hjr]
    simp only [actedWorld, actedTasks_snoc_some]
    refine ⟨replay_snoc L w.memo _ _ _ _ _ _ t v hi.rep hf hv, ?_⟩
    simp [hkeys]

/-- recovery never fails in such a world: `ReachC.crash` is always enabled -/
theorem recover_ok_of_reachC (L : Loop σ κ ν ο) (hk : KeysDistinctCfg L) (w : World σ κ ν ο)
    (hr : ReachC L w) (hnt : noTimeout w.hist = true) :
    ∃ wr, L.recover w.jr w.memo w.mbox = .ok wr ∧ wr.c = (settled L w).c ∧
      wr.outs = (settled L w).outs ∧ wr.jr = w.jr := by
  have h := (replay_of_reachC L hk w hr hnt).1
  refine ⟨{ c := (settled L w).c, jr := w.jr, memo := purgeMemo w.memo w.jr (settled L w).c.base,
            mbox := w.mbox, pend := none,
            hist := (actedTasks (settled L w).hist).map (fun t => (w.memo t.fid).map (fun v => (t, v))),
            outs := (settled L w).outs }, ?_, rfl, rfl, rfl⟩
  simp only [Loop.recover, h]

/-! ### non-vacuity -/
namespace Witness

theorem Lp_keysCfg : KeysDistinctCfg Lp := by
  have key : ∀ c, CfgReach Lp c →
      (c.s = 0 ∧ (c.fl.map (·.key)).Sublist [0]) ∨ (c.s ≠ 0 ∧ (c.fl.map (·.key)).Sublist [0, 1]) := by
    intro c hc
    induction hc with
    | init => left; simp [Loop.cfg0, Lp, spawn]
    | @act c t v hc hm ih =>
      right
      rcases ih with ⟨h0, hs⟩ | ⟨h0, hs⟩
      · simp only [Loop.act, Lp, h0, if_true, spawn, List.map_append, List.map_cons, List.map_nil]
        refine ⟨by decide, ?_⟩
        have := (((List.erase_sublist (a := t) (l := _)).map (fun x : Task Nat => x.key)).trans hs)
        exact this.append (List.Sublist.refl [1])
      · simp only [Loop.act, Lp, h0, if_false, spawn, List.append_nil]
        exact ⟨by omega, ((List.erase_sublist).map _).trans hs⟩
    | @tmo c hc ih =>
      right
      rcases ih with ⟨h0, hs⟩ | ⟨h0, hs⟩
      · simp only [Loop.act, Lp, h0, if_true, spawn, List.map_append, List.map_cons, List.map_nil]
        refine ⟨by decide, ?_⟩
        exact hs.append (List.Sublist.refl [1])
      · simp only [Loop.act, Lp, h0, if_false, spawn, List.append_nil]
        exact ⟨by omega, hs⟩
  intro c hc
  rcases key c hc with ⟨_, h⟩ | ⟨_, h⟩
  · exact h.nodup (by decide)
  · exact h.nodup (by decide)

theorem wp2_reach : Reach Lp wp2 := by
  have h1 : Reach Lp wp1 := .step .init (Step.finish Lp.world0 t0 5 (by decide) rfl rfl)
  exact .step h1 (Step.record wp1 t0 5 rfl (by decide) rfl)

/-- the world recovery produces when the process stops between the journal INSERT of task 0 and the
return of the wait call: the replay acts on the recorded completion -/
def wpr : World Nat Nat Nat Nat :=
  { c := (Lp.act Lp.cfg0 (some (t0, 5))).1, jr := [0], memo := purgeMemo wp2.memo wp2.jr 1, mbox := [],
    pend := none, hist := [some (t0, 5)], outs := [0] }

theorem wpr_recover : Lp.recover wp2.jr wp2.memo wp2.mbox = .ok wpr := rfl

theorem wpr_reachC : ReachC Lp wpr := .crash (reach_reachC Lp wp2_reach) wpr_recover

/-- a message is sent to the recovered process, which is then stopped and recovered again -/
def wpr1 : World Nat Nat Nat Nat := { wpr with mbox := wpr.mbox ++ [7] }

def wpr2 : World Nat Nat Nat Nat :=
  { c := (Lp.act Lp.cfg0 (some (t0, 5))).1, jr := [0], memo := purgeMemo wpr1.memo wpr1.jr 1, mbox := [7],
    pend := none, hist := [some (t0, 5)], outs := [0] }

theorem wpr2_recover : Lp.recover wpr1.jr wpr1.memo wpr1.mbox = .ok wpr2 := rfl

theorem wpr2_reachC : ∃ w, ReachC Lp w ∧ w.jr = [0] ∧ noTimeout w.hist = true ∧ w.hist ≠ [] :=
  ⟨wpr2, .crash (.step wpr_reachC (Step.send wpr 7)) wpr2_recover, rfl, rfl, by decide⟩

end Witness
end Journal
