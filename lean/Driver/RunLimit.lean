import WfModel.RunLimit
import Driver.Util
open RunLimit Drv

/-! Line protocol for the run-limit model (space separated):

* `mk i lim` (`lim` = `-` for `None`), `start i r`, `begin i r`, `cancel i r`,
  `deliver i r`, `finish i r o` (`o` ∈ `c f x t`), `gc i` — one LTS action applied
  through the scheduler layer (tasks made ready are appended to the ready queue);
  answer `ok` or `disabled`.  `begin`/`deliver` given explicitly also leave the
  ready queue (first occurrence).
* `nstart pi pr i r` — run `pr` of instance `pi`, executing a step, starts run `r` of
  instance `i` (`Sched.nstart`): `ok`, or `disabled` (also when `(pi, pr)` is not inside its limit).
* `tick` — step the head of the ready queue: `tick i r begin|deliver`, `idle`
  (empty queue) or `stuck`.
* `settle` — run the ready queue dry, then print the state.
* `gcsync i p` — `p` = 1/0: the registry of the implementation has / has no entry
  for `i`; applies `gc i` when the model still has one (must be enabled).
* `drain` — like `settle` but answers only `ok`.
* `show` — print the state.
* `reset` — back to the empty runtime (several scenarios in one batch).
-/
namespace Drv.RunLimit

def showFut : Fut → String
  | .pending => "p"
  | .woken => "w"
  | .cancelled => "x"
  | .wokenCancel => "y"

def showOutcome : Outcome → String
  | .completed => "c"
  | .failed => "f"
  | .cancelled => "x"
  | .timedOut => "t"

def parseOutcome? : String → Option Outcome
  | "c" => some .completed
  | "f" => some .failed
  | "x" => some .cancelled
  | "t" => some .timedOut
  | _ => none

def sortNats (l : List Nat) : List Nat := (l.toArray.qsort (· < ·)).toList

def showInst (i : Nat) (x : Inst) : String :=
  let lim := match x.limit with | some n => toString n | none => "-"
  let sem := match x.sem with | some s => toString s.value | none => "-"
  let ws := ",".intercalate (x.waiters.map fun (r, f) => toString r ++ showFut f)
  let cs := ",".intercalate (x.created.map fun (r, c) => toString r ++ (if c then "!" else ""))
  let hs := ",".intercalate ((sortNats x.holding).map toString)
  let fs := ",".intercalate ((sortNats (keys x.finished)).map fun r =>
    toString r ++ (match aget r x.finished with | some o => showOutcome o | none => "?"))
  s!"I{i} lim={lim} sem={sem} W=[{ws}] C=[{cs}] H=[{hs}] F=[{fs}]"

def showWorld (w : World) : String :=
  " ; ".intercalate (w.insts.map fun (i, x) => showInst i x)

def dropReady (i r : Nat) : List (Nat × Nat) → List (Nat × Nat)
  | [] => []
  | p :: l => if p = (i, r) then l else p :: dropReady i r l

def applyAct (s : Sched) (a : Act) : Sched × String :=
  match s.ext a with
  | some s' =>
    let s'' := match a with
      | .on i (.begin r) => { s' with ready := dropReady i r s'.ready }
      | .on i (.deliver r) => { s' with ready := dropReady i r s'.ready }
      | _ => s'
    (s'', "ok")
  | none => (s, "disabled")

def fuelOf (s : Sched) : Nat :=
  s.ready.length + (s.w.insts.map fun (_, x) => x.created.length + x.waiters.length).sum + 1

def step (s : Sched) (line : String) : Sched × String :=
  match line.splitOn " " with
  | ["mk", i, lim] =>
    match parseNat? i, (if lim == "-" then some none else (parseNat? lim).map some) with
    | some i, some l => applyAct s (.mk i l)
    | _, _ => (s, "bad-op")
  | ["start", i, r] =>
    match parseNat? i, parseNat? r with
    | some i, some r => applyAct s (.on i (.start r))
    | _, _ => (s, "bad-op")
  | ["nstart", pi, pr, i, r] =>
    match parseNat? pi, parseNat? pr, parseNat? i, parseNat? r with
    | some pi, some pr, some i, some r =>
      match s.nstart pi pr i r with
      | some s' => (s', "ok")
      | none => (s, "disabled")
    | _, _, _, _ => (s, "bad-op")
  | ["begin", i, r] =>
    match parseNat? i, parseNat? r with
    | some i, some r => applyAct s (.on i (.begin r))
    | _, _ => (s, "bad-op")
  | ["cancel", i, r] =>
    match parseNat? i, parseNat? r with
    | some i, some r => applyAct s (.on i (.cancel r))
    | _, _ => (s, "bad-op")
  | ["deliver", i, r] =>
    match parseNat? i, parseNat? r with
    | some i, some r => applyAct s (.on i (.deliver r))
    | _, _ => (s, "bad-op")
  | ["finish", i, r, o] =>
    match parseNat? i, parseNat? r, parseOutcome? o with
    | some i, some r, some o => applyAct s (.on i (.finish r o))
    | _, _, _ => (s, "bad-op")
  | ["gc", i] =>
    match parseNat? i with
    | some i => applyAct s (.on i .gc)
    | none => (s, "bad-op")
  | ["gcsync", i, p] =>
    match parseNat? i, parseBool? p with
    | some i, some present =>
      match s.w.get i with
      | none => (s, "no-instance")
      | some x =>
        match x.sem, present with
        | some _, false =>
          match s.ext (.on i .gc) with
          | some s' => (s', "ok")
          | none => (s, "gc-disabled")
        | none, true => (s, "no-sem")
        | _, _ => (s, "ok")
    | _, _ => (s, "bad-op")
  | ["tick"] =>
    match s.ready with
    | [] => (s, "idle")
    | _ =>
      match s.tick with
      | some (s', (i, r), a) =>
        let kind := match a with
          | .on _ (.begin _) => "begin"
          | .on _ (.deliver _) => "deliver"
          | _ => "?"
        (s', s!"tick {i} {r} {kind}")
      | none => (s, "stuck")
  | ["settle"] =>
    let s' := s.settle (fuelOf s)
    (s', (if s'.ready.isEmpty then "" else "UNSETTLED ") ++ showWorld s'.w)
  | ["drain"] =>
    let s' := s.settle (fuelOf s)
    (s', if s'.ready.isEmpty then "ok" else "UNSETTLED")
  | ["show"] => (s, showWorld s.w)
  | ["reset"] => ({}, "ok")
  | _ => (s, "bad-op")

end Drv.RunLimit
