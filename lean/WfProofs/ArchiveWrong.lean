import WfProofs.ArchiveRead
/-!
Helper lemmas for C33, part 3: reading an encrypted archive with the wrong password / none.
-/
namespace Archive
open GenArchive

variable {Y : Type}

/-- if the reader fails with `e` on every encrypted-secret member the writer produces, reading the
members of any deployment list in which some deployment has a secret fails with `e` -/
theorem read_writeDeps_fail {A : Aead} (hA : A.Lawful) {C : Codec Y} (hC : C.Lawful) (pw : Bytes)
    (rpw : Option Bytes) {rnd : Nat → Bytes × Bytes} (hr : rndWf rnd) (secrets : List (Name × Y))
    (gens : Option (List (Name × Int))) (e : Err)
    (hW : encPw writeEncTest (some pw) = some pw)
    (hbad : ∀ (st : RState Y) (n : Name) (k : Nat) (x : Bytes), '.' ∉ n →
      readMember A C rpw st (n ++ secEncSuffix, encrypt A pw (rnd k).1 (rnd k).2 x) = .error e) :
    ∀ (ds : List (Option Name × Y)) (k : Nat) (st : RState Y),
      (∀ d ∈ ds, '.' ∉ depName d) → (ds.map depName).Nodup →
      (∀ d ∈ ds, Fresh st (depName d)) → (∃ d ∈ ds, alookup (depName d) secrets ≠ none) →
      readMembers A C rpw st (members (writeDeps A C (some pw) rnd secrets gens k ds)) = .error e
  | [], _, _, _, _, _, hex => by obtain ⟨d, hd, _⟩ := hex; cases hd
  | d :: ds, k, st, hv, hnd, hf, hex => by
    have hdot := hv d (List.mem_cons_self ..)
    simp only [writeDeps, members, List.map_append]
    rw [readMembers_append]
    cases hs : alookup (depName d) secrets with
    | none =>
      have h1 := read_writeDep hA hC (some pw) rpw hr secrets gens k d st hdot
        (hf d (List.mem_cons_self ..)) (Or.inl hs)
      simp only [members] at h1
      rw [h1]
      dsimp only
      simp only [List.map_cons, List.nodup_cons] at hnd
      have hex' : ∃ d' ∈ ds, alookup (depName d') secrets ≠ none := by
        obtain ⟨d', hd', hne⟩ := hex
        rcases List.mem_cons.mp hd' with rfl | hin
        · exact absurd hs hne
        · exact ⟨d', hin, hne⟩
      have ih := read_writeDeps_fail hA hC pw rpw hr secrets gens e hW hbad ds
        (writeDep A C (some pw) rnd secrets gens k d).2 (stAfter st secrets gens [d])
        (fun d' hd' => hv d' (List.mem_cons_of_mem _ hd')) hnd.2
        (fun d' hd' => fresh_stAfter (hf d' (List.mem_cons_of_mem _ hd'))
          (fun e' => hnd.1 (by rw [← e']; exact List.mem_map.mpr ⟨d', hd', rfl⟩)))
        hex'
      simp only [members] at ih
      exact ih
    | some s =>
      have : readMembers A C rpw st
          (List.map (fun x => x.member) (writeDep A C (some pw) rnd secrets gens k d).1) = .error e := by
        simp only [writeDep, hs, hW, List.map_cons, readMembers, readMember, classify_cr hdot, hC.y_rt]
        have := hbad { st with crs := upsert (depName d) d.2 st.crs } (depName d) k (C.encY s) hdot
        simp only [readMember] at this
        rw [this]
      rw [this]

theorem readMember_wrong_pw {A : Aead} (hA : A.Lawful) {C : Codec Y} (pw pw' : Bytes) (hne : pw' ≠ pw)
    {rnd : Nat → Bytes × Bytes} (hr : rndWf rnd) (hR : decPw readNoPwTest (some pw') = some pw')
    (st : RState Y) (n : Name) (k : Nat) (x : Bytes) (hdot : '.' ∉ n) :
    readMember A C (some pw') st (n ++ secEncSuffix, encrypt A pw (rnd k).1 (rnd k).2 x) =
      .error .invalidTag := by
  simp only [readMember, classify_secEnc hdot, hR,
    decrypt_encrypt_wrong hA pw pw' _ _ x hne (hr k).1 (hr k).2]

theorem readMember_no_pw {A : Aead} {C : Codec Y} (pw : Bytes)
    {rnd : Nat → Bytes × Bytes} (hR : decPw readNoPwTest (none : Option Bytes) = none)
    (st : RState Y) (n : Name) (k : Nat) (x : Bytes) (hdot : '.' ∉ n) :
    readMember A C none st (n ++ secEncSuffix, encrypt A pw (rnd k).1 (rnd k).2 x) =
      .error .noPassword := by
  simp only [readMember, classify_secEnc hdot, hR]

end Archive
