"""C01 — a step never runs more invocations at once than its worker limit."""
from __future__ import annotations

from ..engine import monitors, suite
from ..runner import Env, Outcome

THEOREMS = [
    "C01_slots_distinct_in_range",
    "C01_workers_bounded",
    "C01_init",
    "C01_allocator_total",
    "C01_started_on_free_slot",
    "C01_running_subset_in_progress",
    "C01_running_bounded",
    "C01_running_same_event_partial",
    "C01_refuted_running_bounded_unrepaired",
    "C01_refuted_running_subset_in_progress_unrepaired",
    # from whatever state the run (or a replay) is started: no hypothesis on the initial state
    "C01_slots_distinct_in_range_any_start",
    "C01_workers_bounded_any_start",
    "C01_running_subset_in_progress_any_start",
    "C01_running_bounded_any_start",
    "C01_running_same_event_partial_any_start",
    "C01_running_bounded_with_step_sends",
    "C01_allocator_total_any_table",
    "C01_rewind_never_raises",
    # between any two commands of a tick; the slot table as a specification, and the refinement
    "C01_history_ends_in_run",
    "C01_bounded_between_commands",
    "C01_slot_table_refinement",
    "C01_slot_table_spec_safe",
    "C01_refuted_slot_safe_unrepaired",
    # the anchored source as found on this run (harness/gen/worker_slots.py -> WfModel/GenWorkerSlots.lean)
    "C01_slot_choice_is_source",
    "C01_source_pick_is_free",
    "C01_source_shape",
]
LEAN_TARGETS = ["WfProps.C01"]
EXPLANATION = (
    "Invariant proved in Lean by induction over arbitrary tick sequences on the reducer model: in every reachable "
    "state the in-progress worker ids of every step are distinct and in [0,num_workers) (hence at most num_workers), "
    "the slot allocator never fails, and a started worker gets a slot that was free; lifted to the runner LTS for arbitrary action lists: "
    "the live worker tasks are backed by in_progress rows and occupy pairwise distinct slots, hence at most num_workers per step "
    "(every schedule; the reducer before the repair 'at most one collect re-run per step result' is kept as a variant and refuted by a concrete witness). Tie: reducer model vs real "
    "_reduce_tick/rewind_in_progress on generated (state,tick) pairs incl. ill-formed ones, and whole live runs "
    "replayed tick by tick on the runner model (buffer, timers, worker set, commands, state). Search: real step "
    "bodies count concurrent entries per step; stream slot discipline; in_progress tables after every tick. "
    "Extension: none of this needs a hypothesis on the initial state (the rewind empties every in_progress table; the slot choice cannot raise on any table); "
    "the bound holds in every state the runner passes through BETWEEN two commands of a tick (the real loop awaits there; micro-states incl. the early "
    "cleanup of halting ticks, proved to be the same LTS), and every two consecutive such states are one move of a slot-table specification whose safety "
    "is proved independently (refinement); the slot bookkeeping of control_loop.py (capacity test, candidate list and pick translated into Lean functions; "
    "the only mutators of in_progress, the only CommandRunWorker sites, the collect re-run's slot and skip, the runner's worker registration) is re-read on "
    "every run and proved to be what the model transcribes. Tie: per-command tables of worker coroutines/tasks of the real runner vs the model's micro-states; "
    "rewind_in_progress on damaged tables; _add_or_enqueue_event on arbitrary id tables."
)
ASSUMPTIONS = suite.ENGINE_ASSUMPTIONS + [
    "the event of a live task equals the event of its in_progress row only when collect re-runs carry the invocation's own event "
    "(C01_running_same_event_partial; a step may pass any event to collect_events)",
    "cannot exhibit: a sync step whose executor thread outlives its cancelled task",
    "between two commands the runner is observed at the boundaries of process_command (before the first, after each); what other tasks see during an await "
    "inside one process_command is the table before or after that command (process_command changes the tables only in run_worker / cleanup_tasks, "
    "pinned by GenWorkerSlots.pendingMutators / workerTaskMutators)",
    "Runner.running stands for _pending_workers (coroutines not yet started) together with worker_tasks: a pending worker counts as started",
]


def _replay_extension(env: Env, out: Outcome) -> None:
    from ..engine import c01x
    from ..runner import Violation

    case = (env.replay or {}).get("payload", {}).get("case") if env.replay else None
    if not isinstance(case, dict):
        return
    if "corrupt_rewind" in case:
        cr = case["corrupt_rewind"]
        c01x.corrupt_rewind(env, out, cr["index"] + 1, gen_seed=cr["gen_seed"], only_index=cr["index"])
    if "admit" in case:
        a = case["admit"]
        e = c01x._admit_real(a["nw"], list(a["used"]))
        if e.startswith("crash"):
            out.violations.append(Violation("C01/allocator_raises", f"_add_or_enqueue_event raised IndexError with num_workers={a['nw']} and ids {a['used']}", case))
        elif e.startswith("run") and (int(e.split(" ")[1]) in a["used"] or int(e.split(" ")[1]) >= a["nw"]):
            out.violations.append(Violation("C01/allocator_picks_taken_slot", f"_add_or_enqueue_event answered {e} with num_workers={a['nw']} and ids {a['used']}", case))


def run(env: Env) -> Outcome:
    from ..engine import c01x

    out = Outcome()
    c01x.install_micro_observers()
    _replay_extension(env, out)
    out.rule = ("direct: random (state,tick) pairs; live: random scripted workflows (2-5 steps, num_workers 1-4, retries, collect, wait, "
                "handlers, externals) under random gate schedules, plus a fan-in family whose collecting step calls collect_events 2-4 times on one buffer per invocation; plus a twin family (one event object sent 2-3 times to a step with 2-4 workers, all deliveries gated in flight, 1-4 further events queued, 0-2 externals); non-trivial = more than 2 ticks processed; distinct by (spec, schedule); "
                "micro: on every live run the table of worker coroutines/tasks before the first and after every command of every tick and of the start-up rewind; "
                "corrupt_rewind: generated states with damaged in_progress tables (duplicates / out-of-range ids / more rows than workers), distinct by state; "
                "admit: num_workers 1-5 x id tables of length 0..num_workers+2 (45% reachable, 30% duplicates and out-of-range, 25% duplicates in range), distinct by (num_workers, table)")
    suite.direct_corr(env, out, env.budget(3000, 60000))
    import random as _random

    from ..engine import specgen
    mrng = _random.Random(env.rng.randrange(1 << 30))
    multi = [{"spec": specgen.gen_multicollect_spec(mrng), "seed": mrng.randrange(1 << 30)} for _ in range(env.budget(40, 800))]
    out.count("live:multicollect_specs", len(multi))
    # the runner correspondence of these runs is done by c01x.micro_corr: the same rinit/ext/rstep/… lines, plus one line per
    # tick (and one for the start-up) comparing the table of worker coroutines/tasks after every single command
    t1 = suite.live_runs(env, out, env.budget(400, 8000), [monitors.mon_c01, c01x.mon_micro],
                         extra_specs=[c for c in suite.load_corpus("C01")] + multi, check_runner=False)
    c01x.micro_corr(out, t1)
    # fan-in: collecting steps with 1..3 workers, some of them with zero-delay retries that fail before / right after collecting
    t2 = suite.live_runs(env, out, env.budget(250, 5000), [monitors.mon_c01, c01x.mon_micro], gen_kwargs={"family": "fanin", "raise_incomplete": True},
                         check_runner=False)
    c01x.micro_corr(out, t2)
    # one event OBJECT delivered 2-3 times to a step with 2-4 workers, all deliveries in flight, more events queued / arriving
    # later, gates opened in every order: the completion of one delivery frees exactly its own slot
    twin = [{"spec": specgen.gen_twin_spec(mrng), "seed": mrng.randrange(1 << 30)} for _ in range(env.budget(120, 2400))]
    out.count("live:twin_specs", len(twin))
    t3 = suite.live_runs(env, out, 0, [monitors.mon_c01, c01x.mon_micro], extra_specs=twin, check_runner=False)
    c01x.micro_corr(out, t3)
    # states no run leaves behind (duplicated / out-of-range worker ids, more rows than workers): the rewind repairs them
    c01x.corrupt_rewind(env, out, env.budget(400, 8000))
    # the admission on arbitrary id tables
    c01x.admit_corr(env, out, env.budget(600, 12000))
    return out
