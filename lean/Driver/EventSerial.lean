import WfModel.EventSerial
import Driver.Util
open EventSerial Drv

/-!
Line protocol for M8 (`wfdriver eventserial`).  Fields are separated by `|`.

JSON is written as space-separated prefix tokens: `n` `t` `f` `i<int>` `d<cps>` (float token)
`s<cps>` `a<count> item…` `o<count> (k<cps> value)…`, `<cps>` = comma-separated code points.

State: a table of classes (`cls`), of exception classes (`xcls`), and the two import
environments built from the entries declared importable.
-/
namespace Drv.EventSerial

structure St where
  classes : List (String × Shape) := []
  cenv : CEnv := []
  excs : List (String × ExcClass) := []
  xenv : XEnv := []

def strOf (s : String) : Option String := (parseChars? s).map String.ofList
def cpsOf (s : String) : String := showChars s.toList

/-! ### JSON tokens -/

partial def parseJson : List String → Option (Json × List String)
  | [] => none
  | tok :: rest =>
    if tok == "n" then some (.null, rest)
    else if tok == "t" then some (.bool true, rest)
    else if tok == "f" then some (.bool false, rest)
    else
      let body := (tok.drop 1).toString
      match tok.front with
      | 'i' => (body.toInt?).map (fun n => (.int n, rest))
      | 'd' => (strOf body).map (fun s => (.flt s, rest))
      | 's' => (strOf body).map (fun s => (.str s, rest))
      | 'a' =>
        match body.toNat? with
        | none => none
        | some n =>
          let rec items (k : Nat) (acc : List Json) (ts : List String) : Option (List Json × List String) :=
            if k == 0 then some (acc.reverse, ts)
            else match parseJson ts with
              | some (v, ts') => items (k - 1) (v :: acc) ts'
              | none => none
          (items n [] rest).map (fun r => (.arr r.1, r.2))
      | 'o' =>
        match body.toNat? with
        | none => none
        | some n =>
          let rec pairs (k : Nat) (acc : List (String × Json)) (ts : List String) : Option (List (String × Json) × List String) :=
            if k == 0 then some (acc.reverse, ts)
            else match ts with
              | kt :: ts1 =>
                if kt.front != 'k' then none
                else match strOf (kt.drop 1).toString, parseJson ts1 with
                  | some key, some (v, ts2) => pairs (k - 1) ((key, v) :: acc) ts2
                  | _, _ => none
              | [] => none
          (pairs n [] rest).map (fun r => (.obj r.1, r.2))
      | _ => none

def toks (s : String) : List String := (s.splitOn " ").filter (· != "")

def jsonOf (s : String) : Option Json :=
  match parseJson (toks s) with
  | some (j, []) => some j
  | _ => none

partial def showJson : Json → String
  | .null => "n"
  | .bool true => "t"
  | .bool false => "f"
  | .int n => "i" ++ toString n
  | .flt t => "d" ++ cpsOf t
  | .str s => "s" ++ cpsOf s
  | .arr xs => " ".intercalate (("a" ++ toString xs.length) :: xs.map showJson)
  | .obj kvs => " ".intercalate (("o" ++ toString kvs.length) :: kvs.map (fun kv => "k" ++ cpsOf kv.1 ++ " " ++ showJson kv.2))

/-! ### field types -/

partial def parseTy : List String → Option (FTy × List String)
  | [] => none
  | tok :: rest =>
    if tok == "any" then some (.any, rest)
    else if tok == "int" then some (.int, rest)
    else if tok == "str" then some (.str, rest)
    else if tok == "bool" then some (.bool, rest)
    else if tok == "flt" then some (.flt, rest)
    else if tok == "exc" then some (.exc, rest)
    else if tok == "opt" then (parseTy rest).map (fun r => (.opt r.1, r.2))
    else if tok == "list" then (parseTy rest).map (fun r => (.list r.1, r.2))
    else if tok == "dict" then (parseTy rest).map (fun r => (.dict r.1, r.2))
    else if tok == "model" then
      match rest with
      | nt :: rest1 =>
        match nt.toNat? with
        | none => none
        | some n =>
          let rec fs (k : Nat) (acc : List (String × FTy)) (ts : List String) : Option (List (String × FTy) × List String) :=
            if k == 0 then some (acc.reverse, ts)
            else match ts with
              | nm :: ts1 =>
                match strOf nm, parseTy ts1 with
                | some name, some (t, ts2) => fs (k - 1) ((name, t) :: acc) ts2
                | _, _ => none
              | [] => none
          (fs n [] rest1).map (fun r => (.model r.1, r.2))
      | [] => none
    else none

def tyOf (s : String) : Option FTy :=
  match parseTy (toks s) with
  | some (t, []) => some t
  | _ => none

/-- `namecps:type tokens:default json tokens or -` -/
def fieldOf (s : String) : Option Field :=
  match s.splitOn ":" with
  | [n, t, d] =>
    match strOf n, tyOf t with
    | some name, some ty =>
      if d == "-" then some { name := name, ty := ty, dflt := none }
      else (jsonOf d).map (fun j => { name := name, ty := ty, dflt := some j })
    | _, _ => none
  | _ => none

def listOf {α : Type} (sep : String) (f : String → Option α) (s : String) : Option (List α) :=
  if s.isEmpty then some [] else (s.splitOn sep).mapM f

def kindOf (s : String) : Option Kind :=
  if s == "p" then some .plain else if s == "e" then some .event else if s == "s" then some .stop else none

/-! ### descriptions of results -/

def clsId (st : St) (c : Shape) : String :=
  match st.classes.find? (fun p => p.2 == c) with
  | some p => p.1
  | none => "?" ++ c.qual

def descInst (st : St) (e : Inst) : Json :=
  .obj [("cls", .str (clsId st e.cls)), ("typed", .obj e.typed), ("data", .obj e.data), ("result", e.result)]

partial def descPy (st : St) : PyVal → Json
  | .null => .null
  | .bool b => .bool b
  | .int n => .int n
  | .flt t => .flt t
  | .str s => .str s
  | .list xs => .arr (xs.map (descPy st))
  | .dict kvs => .obj [("$dict", .obj (kvs.map (fun kv => (kv.1, descPy st kv.2))))]
  | .model e => .obj [("$model", descInst st e)]

def showXErr : XErr → String
  | .notSubscriptable => "exc-not-subscriptable"
  | .keyError => "exc-key-error"
  | .msgNotStr => "exc-msg-not-str"

def showErr : Err → String
  | .notDict => "not-dict"
  | .missing => "missing"
  | .laxOrInvalid => "lax-or-invalid"
  | .dupKwarg => "dup-kwarg"
  | .dataNotDict => "data-not-dict"
  | .importError => "import-error"
  | .badQualName => "bad-qual-name"
  | .keyError => "key-error"
  | .component => "component"
  | .notObject => "not-object"
  | .validation => "validation"
  | .laxValidation => "validation-lax"
  | .exception e => showXErr e
  | .badTag => "bad-tag"
  | .notModel => "not-model"
  | .envelopeInvalid => "envelope-invalid"
  | .illTyped => "ill-typed"

def showRes {α : Type} (f : α → Json) : Except Err α → String
  | .ok v => "ok " ++ showJson (f v)
  | .error e => "err " ++ showErr e

/-- an instance given as `clsid|typed obj|data obj|result` -/
def instOf (st : St) (cid typed data result : String) : Option Inst :=
  match dget st.classes cid, jsonOf typed, jsonOf data, jsonOf result with
  | some c, some (.obj t), some (.obj d), some r => some { cls := c, typed := t, data := d, result := r }
  | _, _, _, _ => none

/-! ### tick descriptions -/

def instOfDesc (st : St) : Json → Option Inst
  | .obj d =>
    match dget d "cls", dget d "typed", dget d "data", dget d "result" with
    | some (.str cid), some (.obj t), some (.obj dd), some r =>
      (dget st.classes cid).map (fun c => { cls := c, typed := t, data := dd, result := r })
    | _, _, _, _ => none
  | _ => none

def svalOfDesc (st : St) : Json → Option SVal
  | .obj [("j", j)] => some (.json j)
  | .obj [("ev", d)] => (instOfDesc st d).map .event
  | .obj [("none", _)] => some .none
  | .obj [("exc", .obj [("cls", .str xid), ("msg", .str m)])] =>
    (dget st.excs xid).map (fun c => .exc { cls := c, msg := m })
  | .obj [("ty", .str cid)] => (dget st.classes cid).map .evType
  | _ => none

def recOfDesc (st : St) : Json → Option Rec
  | .obj [("tag", .str t), ("vals", .arr vs)] => (vs.mapM (svalOfDesc st)).map (fun l => { tag := t, vals := l })
  | _ => none

def tvalOfDesc (st : St) : Json → Option TVal
  | .obj [("rs", .arr rs)] => (rs.mapM (recOfDesc st)).map .results
  | j => (svalOfDesc st j).map .s

def tickOfDesc (st : St) : Json → Option Tick
  | .obj [("tag", .str t), ("vals", .arr vs)] => (vs.mapM (tvalOfDesc st)).map (fun l => { tag := t, vals := l })
  | _ => none

def descS (st : St) : SVal → Json
  | .json j => .obj [("j", j)]
  | .event e => .obj [("ev", descInst st e)]
  | .none => .obj [("none", .null)]
  | .exc x => .obj [("exc", .obj [("cls", .str x.cls.qual), ("msg", .str x.msg)])]
  | .evType c => .obj [("ty", .str (clsId st c))]

def descRec (st : St) (r : Rec) : Json := .obj [("tag", .str r.tag), ("vals", .arr (r.vals.map (descS st)))]

def descT (st : St) : TVal → Json
  | .s v => descS st v
  | .results rs => .obj [("rs", .arr (rs.map (descRec st)))]

def descTick (st : St) (t : Tick) : Json := .obj [("tag", .str t.tag), ("vals", .arr (t.vals.map (descT st)))]

/-! ### result accessors (`_get_result` overrides)

A chain `item;item;…` (innermost first; empty = the base class): `list`, `obj:<key cps>:<tag key cps>:<json>`,
`field:<key cps>:<field cps>`, `dyn:<key cps>:<dyn key cps>`, `size`, `total`, `first`, `default:<json>`. -/

def accItemOf (s : String) : Option Accessor :=
  match s.splitOn ":" with
  | ["list"] => some .wrapList
  | ["size"] => some .size
  | ["total"] => some .total
  | ["first"] => some .first
  | ["obj", k, tk, j] =>
    match strOf k, strOf tk, jsonOf j with
    | some key, some tagKey, some tag => some (.wrapObj key tagKey tag)
    | _, _, _ => none
  | ["field", k, f] =>
    match strOf k, strOf f with
    | some key, some field => some (.withField key field)
    | _, _ => none
  | ["dyn", k, d] =>
    match strOf k, strOf d with
    | some key, some dyn => some (.withDyn key dyn)
    | _, _ => none
  | ["default", j] => (jsonOf j).map .orDefault
  | _ => none

def accOf (s : String) : Option Accessor :=
  (listOf ";" accItemOf s).map (fun items => items.foldl (fun inner outer => .comp outer inner) .raw)

def showOpt : Option Json → Json
  | some j => j
  | none => .str "<no event>"

/-! ### the step function -/

def registryOf (st : St) (s : String) : Option (List (String × Shape)) :=
  listOf ";" (fun item =>
    match item.splitOn "=" with
    | [n, cid] => match strOf n, dget st.classes cid with
      | some name, some c => some (name, c)
      | _, _ => none
    | _ => none) s

def step (st : St) (line : String) : St × String :=
  match line.splitOn "|" with
  | ["reset"] => ({}, "ok")
  | ["cls", cid, m, n, qn, k, imp, anc, fs] =>
    match strOf m, strOf n, strOf qn, kindOf k, parseBool? imp, listOf ";" strOf anc, listOf ";" fieldOf fs with
    | some md, some nm, some qname, some kd, some im, some an, some fl =>
      let c : Shape := { module := md, name := nm, kind := kd, fields := fl, ancestors := an, qualname := qname }
      let st1 := { st with classes := dset st.classes cid c }
      (if im then { st1 with cenv := dset st1.cenv c.qual c } else st1, "ok")
    | _, _, _, _, _, _, _ => (st, "bad-op")
  | ["xcls", xid, q, imp, ctor, pre, post] =>
    match strOf q, parseBool? imp, parseBool? ctor, strOf pre, strOf post with
    | some ql, some im, some ct, some pr, some po =>
      let c : ExcClass := { qual := ql, ctorOk := ct, pre := pr, post := po }
      let st1 := { st with excs := dset st.excs xid c }
      (if im then { st1 with xenv := dset st1.xenv ql c } else st1, "ok")
    | _, _, _, _, _ => (st, "bad-op")
  | ["dump", cid, t, d, r] =>
    match instOf st cid t d r with
    | some e => (st, showJson (.obj (dumpModel e)))
    | none => (st, "bad-op")
  | ["ser1", cid, t, d, r] =>
    match instOf st cid t d r with
    | some e => (st, showJson (serializeValue (.model e)))
    | none => (st, "bad-op")
  | ["rt1", cid, t, d, r] =>
    match instOf st cid t d r with
    | some e => (st, showRes (descPy st) (deserializeValue st.cenv st.xenv (serializeValue (.model e))))
    | none => (st, "bad-op")
  | ["de1", j] =>
    match jsonOf j with
    | some v => (st, showRes (descPy st) (deserializeValue st.cenv st.xenv v))
    | none => (st, "bad-op")
  | ["mv", cid, j] =>
    match dget st.classes cid, jsonOf j with
    | some c, some v => (st, showRes (descInst st) (modelValidate st.xenv c v))
    | _, _ => (st, "bad-op")
  | ["meta2", cid, t, d, r, qn] =>
    match instOf st cid t d r, parseBool? qn with
    | some e, some b => (st, showJson (metaFromEvent e b))
    | _, _ => (st, "bad-op")
  | ["env2", cid, t, d, r] =>
    match instOf st cid t d r with
    | some e => (st, showJson (envelopeFromEvent e))
    | none => (st, "bad-op")
  | ["load2", j, reg] =>
    match jsonOf j, listOf "," (fun cid => dget st.classes cid) reg with
    | some v, some rs => (st, showRes (descInst st) (loadEvent st.cenv st.xenv v rs))
    | _, _ => (st, "bad-op")
  | ["parse2", j, reg, ex] =>
    let explicit : Option (Option Shape) := if ex == "-" then some none else (dget st.classes ex).map some
    match jsonOf j, registryOf st reg, explicit with
    | some v, some rs, some ex' => (st, showRes (descInst st) (parse st.cenv st.xenv v rs ex'))
    | _, _, _ => (st, "bad-op")
  | ["xenc", xid, m] =>
    match dget st.excs xid, strOf m with
    | some c, some msg => (st, showJson (encodeExc { cls := c, msg := msg }))
    | _, _ => (st, "bad-op")
  | ["xdec", j] =>
    match jsonOf j with
    | some v =>
      match decodeExc st.xenv v with
      | .ok x => (st, "ok " ++ showJson (.obj [("cls", .str x.cls.qual), ("msg", .str x.msg)]))
      | .error e => (st, "err " ++ showXErr e)
    | none => (st, "bad-op")
  | ["tenc", j] =>
    match (jsonOf j).bind (tickOfDesc st) with
    | some t =>
      match findSpec tickSpecs t.tag with
      | some spec => (st, showRes id (encodeTick resultSpecs spec t))
      | none => (st, "err bad-tag")
    | none => (st, "bad-op")
  | ["tdec", j] =>
    match jsonOf j with
    | some v => (st, showRes (descTick st) (decodeTick st.cenv st.xenv tickSpecs resultSpecs v))
    | none => (st, "bad-op")
  | ["pub", acc, cid, t, d, r] =>
    match accOf acc, instOf st cid t d r with
    | some a, some e => (st, showJson (publicResult a e))
    | _, _ => (st, "bad-op")
  | ["pubrt1", acc, cid, t, d, r] =>
    match accOf acc, instOf st cid t d r with
    | some a, some e =>
      (st, showRes (fun v => showOpt (pyPublic a v)) (deserializeValue st.cenv st.xenv (serializeValue (.model e))))
    | _, _ => (st, "bad-op")
  | ["pubrt2", acc, cid, t, d, r, qn, reg] =>
    match accOf acc, instOf st cid t d r, parseBool? qn, listOf "," (fun c => dget st.classes c) reg with
    | some a, some e, some b, some rs =>
      (st, showRes (publicResult a) (loadEvent st.cenv st.xenv (metaFromEvent e b) rs))
    | _, _, _, _ => (st, "bad-op")
  | ["pubrt3", acc, cid, t, d, r] =>
    match accOf acc, instOf st cid t d r with
    | some a, some e =>
      match findSpec tickSpecs "publish_event" with
      | some spec =>
        match encodeTick resultSpecs spec { tag := "publish_event", vals := [.s (.event e)] } with
        | .ok j =>
          (st, showRes (fun t' => .arr (t'.vals.map (fun v => showOpt (slotPublic a v))))
            (decodeTick st.cenv st.xenv tickSpecs resultSpecs j))
        | .error err => (st, "err " ++ showErr err)
      | none => (st, "err bad-tag")
    | _, _ => (st, "bad-op")
  | ["wf", cid, t, d, r] =>
    match instOf st cid t d r with
    | some e =>
      -- the well-formedness facts the theorems assume, recomputed without the proof library
      let names := e.cls.fieldNames
      let ok := names.eraseDups.length == names.length
        && !names.contains "_data" && !names.contains "_result" && !names.contains "self"
        && (e.cls.kind != .stop || !names.contains "result") && e.cls.name != ""
        && keys e.typed == names
        && (List.zip e.cls.fields e.typed).all (fun p => conforms st.xenv p.1.ty p.2.2)
        && (e.cls.kind == .stop || e.result.isNull) && (e.cls.kind != .plain || e.data.isEmpty)
      (st, toString ok)
    | none => (st, "bad-op")
  | _ => (st, "bad-op")

end Drv.EventSerial
