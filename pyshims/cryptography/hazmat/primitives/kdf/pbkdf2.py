"""STAND-IN KDF with the PBKDF2HMAC *interface* -- NOT an iterated PBKDF2 (see cryptography/__init__.py)."""
from __future__ import annotations

from typing import Any

from cryptography import _standin
from cryptography.exceptions import AlreadyFinalized, InvalidKey


class PBKDF2HMAC:
    def __init__(self, algorithm: Any, length: int, salt: bytes, iterations: int, backend: Any = None) -> None:
        if not isinstance(salt, (bytes, bytearray)):
            raise TypeError("salt must be bytes")
        self._algorithm = getattr(algorithm, "name", "?")
        self._length = int(length)
        self._salt = bytes(salt)
        self._iterations = int(iterations)
        self._used = False

    def derive(self, key_material: bytes) -> bytes:
        if self._used:
            raise AlreadyFinalized("PBKDF2 instances can only be used once.")
        if not isinstance(key_material, (bytes, bytearray)):
            raise TypeError("key_material must be bytes")
        self._used = True
        return _standin.kdf(bytes(key_material), self._salt, self._iterations, self._length, self._algorithm)

    def verify(self, key_material: bytes, expected_key: bytes) -> None:
        import hmac

        if not hmac.compare_digest(self.derive(key_material), expected_key):
            raise InvalidKey("Keys do not match.")
