import WfModel.HandlerStatusRun
import WfProofs.HandlerStatus
import WfProofs.RunnerTerminal
/-! The server adapter serving a runner's stream: prefix of non-terminal publications, then the terminal one. -/
set_option linter.unusedVariables false
set_option linter.unusedSimpArgs false
namespace HandlerStatus
open Engine

theorem pubEv_nonterminal (p : Pub) (h : isTerminalPub p = false) :
    (pubEv p).kind = .other ∨ (pubEv p).kind = .idle := by
  cases p with
  | event e =>
    simp only [isTerminalPub] at h
    simp [pubEv, h]
  | stepState => simp [pubEv]
  | idle => simp [pubEv]
  | unhandled => simp [pubEv]
  | cancelled => simp [isTerminalPub] at h
  | failed => simp [isTerminalPub] at h
  | timedOut => simp [isTerminalPub] at h
  | idleReleased => simp [isTerminalPub] at h

/-- transient faults the stack survives at one write: none on the unretried paths (`append_event`, the idle
adapter's status write), at most `L = len(persistence_backoff)` on the retried terminal status write -/
def WithinBudget (L : Nat) (x : Pub × Faults) : Prop :=
  x.2.2 = 0 ∧ ((pubEv x.1).kind = .idle → x.2.1 = 0) ∧ (isTerminalPub x.1 = true → x.2.1 ≤ L)

instance (L : Nat) (x : Pub × Faults) : Decidable (WithinBudget L x) := by
  unfold WithinBudget; infer_instance

theorem serve_cons (run : Nat) (s : St) (p : Pub) (f : Faults) (rest : List (Pub × Faults)) :
    serve run s ((p, f) :: rest) =
      andThen ((s.armed f).writeEvent run (pubEv p) false) (fun x => serve run x rest) := by
  simp [serve, andThen]

theorem serve_append (run : Nat) : ∀ (l1 l2 : List (Pub × Faults)) (s : St),
    serve run s (l1 ++ l2) = andThen (serve run s l1) (fun x => serve run x l2)
  | [], l2, s => by simp [serve, andThen]
  | (p, f) :: l1, l2, s => by
    simp only [List.cons_append, serve_cons]
    cases h : ((s.armed f).writeEvent run (pubEv p) false).2
    · rw [andThen_raised _ _ h, andThen_raised _ _ h, andThen_raised _ _ h]
    · rw [andThen_ok _ _ h, andThen_ok _ _ h, serve_append run l1 l2]

/-- serving non-terminal publications within budget: no exception, the row still says `running` -/
theorem serve_prefix (run : Nat) : ∀ (l : List (Pub × Faults)) (s : St),
    (∀ x ∈ l, isTerminalPub x.1 = false) → (∀ x ∈ l, WithinBudget s.backoff.length x) → RunningFor run s →
    (serve run s l).2 = true ∧ RunningFor run (serve run s l).1 ∧ (serve run s l).1.backoff = s.backoff
  | [], s, _, _, hr => ⟨rfl, hr, rfl⟩
  | (p, f) :: rest, s, hnt, hb, hr => by
    have hp := hnt (p, f) (by simp)
    obtain ⟨hf2, hfi, _⟩ := hb (p, f) (by simp)
    have hw := writeEvent_nonterminal (s.armed f) run (pubEv p) (pubEv_nonterminal p hp) hr hf2 hfi
    obtain ⟨h1, h2, h3, _⟩ := hw
    rw [serve_cons, andThen_ok _ _ h1]
    have hbk : ((s.armed f).writeEvent run (pubEv p) false).1.backoff = s.backoff := h3
    have ih := serve_prefix run rest _ (fun x hx => hnt x (by simp [hx]))
      (fun x hx => by rw [hbk]; exact hb x (by simp [hx])) h2
    exact ⟨ih.1, ih.2.1, ih.2.2.trans hbk⟩

end HandlerStatus
