import WfProofs.EngineRoute
import WfProofs.EngineIdle
import WfModel.Runner
/-!
# C02 — every emitted event reaches each accepting step exactly once

`_process_add_event_tick` (every event a step returns, a step sends or a caller sends
arrives as a `TickAddEvent`) is characterised by counting, for every step, how many
attempts it holds (`size` = queued + in progress) before and after the tick:

* a step that is waiting for the event (`wait_for_event`, matching type and
  requirements, addressed) gets one replay of its original event per matching waiter,
  and those waiters carry the event as their result — it is **not** also handed the
  event as a new input;
* otherwise a step receives the event exactly once iff the event's type is *exactly*
  one of its accepted types and it is the addressed step (or no target was given);
* every other step receives nothing;
* `UnhandledEvent` is published iff nobody received it and it is not an
  `InputRequiredEvent`, and then exactly once.
-/
set_option linter.unusedVariables false
open Engine

/-- how many attempts step `c` receives from an add-event tick -/
def C02.recipients (att : Attempt) (target : Option Nat) (st : State) (c : StepCfg) : Nat :=
  if 0 < wokenCount att.ev target st c then wokenCount att.ev target st c
  else if c.accepted.contains att.ev.ty && (target.isNone || target == some c.name) then 1 else 0

theorem C02.start_workers (att : Attempt) (st : State) : (addEventStart att st).workers = st.workers := by
  unfold addEventStart; split <;> rfl

theorem C02.wokenCount_start (att : Attempt) (target : Option Nat) (st : State) (c : StepCfg) :
    wokenCount att.ev target (addEventStart att st) c = wokenCount att.ev target st c := by
  simp [wokenCount, C02.start_workers]

theorem C02.size_start (att : Attempt) (st : State) (s : Nat) :
    size ((addEventStart att st).workers s) = size (st.workers s) := by
  rw [C02.start_workers]

theorem C02.any_or {α} (l : List α) (f g : α → Bool) :
    (l.any f || l.any g) = l.any (fun x => f x || g x) := by
  induction l with
  | nil => rfl
  | cons a as ih =>
    simp only [List.any_cons, ← ih]
    cases f a <;> cases g a <;> cases as.any f <;> cases as.any g <;> rfl

theorem C02.any_congr {α} (l : List α) (f g : α → Bool) (h : ∀ x ∈ l, f x = g x) : l.any f = l.any g := by
  induction l with
  | nil => rfl
  | cons a as ih =>
    simp only [List.any_cons, h a (by simp), ih (fun x hx => h x (by simp [hx]))]

theorem C02.any_not {α} (l : List α) (f : α → Bool) : l.any (fun x => !f x) = !l.all f := by
  induction l with
  | nil => rfl
  | cons a as ih => simp only [List.any_cons, List.all_cons, ih]; cases f a <;> cases as.all f <;> rfl

/-- **exactly-once routing**, counted per step -/
theorem C02_route_count (cfg : Cfg) (hwf : cfg.WF) (att : Attempt) (target : Option Nat) (st : State)
    (now : Int) (hinv : IdsInv cfg st) :
    ∀ c ∈ cfg.steps,
      size ((processAddEvent cfg att target st now).1.workers c.name) =
        size (st.workers c.name) + C02.recipients att target st c := by
  intro c hc
  rw [processAddEvent_fst]
  have hinv0 : IdsInv cfg (addEventStart att st) := by unfold addEventStart; split <;> exact hinv
  obtain ⟨w1, w2, w3, w4, w5⟩ := addEventWaiters_spec cfg hwf att.ev target now cfg.steps
    { st := addEventStart att st } (fun _ h => h) hwf hinv0
  have hinv1 := addEventWaiters_idsInv cfg hwf att.ev target now cfg.steps
    { st := addEventStart att st } (fun _ h => h) hinv0
  obtain ⟨r1, r2, r3⟩ := addEventRoute_spec cfg hwf att target now cfg.steps _ (fun _ h => h) hwf hinv1
  rw [r1 c hc, w1 c hc, C02.size_start, C02.wokenCount_start]
  have hwoken := w3 c hc
  simp only [List.not_mem_nil, false_or, C02.wokenCount_start] at hwoken
  unfold C02.recipients
  by_cases hpos : 0 < wokenCount att.ev target st c
  · have hcon : (addEventWaiters cfg att.ev target now cfg.steps { st := addEventStart att st }).woken.contains c.name = true := by
      simpa using hwoken.mpr hpos
    have hr : routed att target (addEventWaiters cfg att.ev target now cfg.steps { st := addEventStart att st }).woken c = false := by
      unfold routed; rw [hcon]; rfl
    simp only [hr, Bool.false_eq_true, ↓reduceIte, hpos, Nat.add_zero]
  · have hcon : (addEventWaiters cfg att.ev target now cfg.steps { st := addEventStart att st }).woken.contains c.name = false := by
      cases hcon : (addEventWaiters cfg att.ev target now cfg.steps { st := addEventStart att st }).woken.contains c.name with
      | false => rfl
      | true => exact absurd (hwoken.mp (by simpa using hcon)) hpos
    have hz : wokenCount att.ev target st c = 0 := by omega
    have hr : routed att target (addEventWaiters cfg att.ev target now cfg.steps { st := addEventStart att st }).woken c =
        (c.accepted.contains att.ev.ty && (target.isNone || target == some c.name)) := by
      unfold routed; rw [hcon]; rfl
    simp only [hr, hpos, ↓reduceIte]
    show size (st.workers c.name) + wokenCount att.ev target st c + _ = _
    rw [hz]; rfl

/-- an event is never delivered to a step that neither accepts its exact type nor waits for it -/
theorem C02_never_unaccepted (cfg : Cfg) (hwf : cfg.WF) (att : Attempt) (target : Option Nat) (st : State)
    (now : Int) (hinv : IdsInv cfg st) (c : StepCfg) (hc : c ∈ cfg.steps)
    (hacc : c.accepted.contains att.ev.ty = false)
    (hwait : matching att.ev (st.workers c.name).waiters = []) :
    size ((processAddEvent cfg att target st now).1.workers c.name) = size (st.workers c.name) := by
  rw [C02_route_count cfg hwf att target st now hinv c hc]
  have hz : wokenCount att.ev target st c = 0 := by simp [wokenCount, hwait]
  unfold C02.recipients
  rw [hz, hacc]; rfl

/-- a targeted event reaches only the addressed step -/
theorem C02_target_only (cfg : Cfg) (hwf : cfg.WF) (att : Attempt) (tgt : Nat) (st : State)
    (now : Int) (hinv : IdsInv cfg st) (c : StepCfg) (hc : c ∈ cfg.steps) (hne : c.name ≠ tgt) :
    size ((processAddEvent cfg att (some tgt) st now).1.workers c.name) = size (st.workers c.name) := by
  rw [C02_route_count cfg hwf att (some tgt) st now hinv c hc]
  have h1 : addressed (some tgt) c = false := by
    simp [addressed]; exact fun h => hne h.symm
  have h2 : (some tgt == some c.name) = false := by simpa using fun h => hne h.symm
  simp [C02.recipients, wokenCount, h1, h2]

/-- a step that is waiting for the event receives it as its wait result: exactly the
matching, still unresolved waiters of an addressed step get `resolved_event := ev` -/
theorem C02_waiter_gets_result (ev : Ev) (step nw : Nat) (now : Int) (ss : StepState) (h : IdsOk ss nw) :
    (resolveLoop ev step nw now [] ss.waiters ss [] false).1.waiters =
      ss.waiters.map (fun w => if waiterMatches w ev then { w with resolved := some ev } else w) := by
  have := (resolveLoop_spec ev step nw now ss.waiters [] ss [] false h).2.1
  simpa using this

/-- `UnhandledEvent` is reported iff nobody received the event (and it is not an
`InputRequiredEvent`), and then exactly once -/
theorem C02_unhandled_iff (cfg : Cfg) (hwf : cfg.WF) (att : Attempt) (target : Option Nat) (st : State)
    (now : Int) (hinv : IdsInv cfg st) :
    ((processAddEvent cfg att target st now).2.filter
        (fun c => match c with | .publish (.unhandled _ _ _) => true | _ => false)).length =
      (if (cfg.steps.all (fun c => C02.recipients att target st c == 0)) && att.ev.kind != .inputRequired
       then 1 else 0) := by
  have hinv0 : IdsInv cfg (addEventStart att st) := by unfold addEventStart; split <;> exact hinv
  obtain ⟨w1, w2, w3, w4, w5⟩ := addEventWaiters_spec cfg hwf att.ev target now cfg.steps
    { st := addEventStart att st } (fun _ h => h) hwf hinv0
  have hinv1 := addEventWaiters_idsInv cfg hwf att.ev target now cfg.steps
    { st := addEventStart att st } (fun _ h => h) hinv0
  obtain ⟨r1, r2, r3⟩ := addEventRoute_spec cfg hwf att target now cfg.steps _ (fun _ h => h) hwf hinv1
  have hshape := addEventRoute_shape att target now cfg.steps _
    (addEventWaiters_shape cfg att.ev target now cfg.steps { st := addEventStart att st } (by simp))
  -- per step: "received something" in the two loops' terms and in terms of `recipients`
  have hper : ∀ c ∈ cfg.steps,
      (decide (0 < wokenCount att.ev target (addEventStart att st) c) ||
        routed att target (addEventWaiters cfg att.ev target now cfg.steps { st := addEventStart att st }).woken c) =
      !(C02.recipients att target st c == 0) := by
    intro c hc
    have hwoken := w3 c hc
    simp only [List.not_mem_nil, false_or, C02.wokenCount_start] at hwoken
    rw [C02.wokenCount_start]
    unfold C02.recipients
    by_cases hpos : 0 < wokenCount att.ev target st c
    · have hne : wokenCount att.ev target st c ≠ 0 := by omega
      simp [hpos, hne]
    · have hcon : (addEventWaiters cfg att.ev target now cfg.steps { st := addEventStart att st }).woken.contains c.name = false := by
        cases hcon : (addEventWaiters cfg att.ev target now cfg.steps { st := addEventStart att st }).woken.contains c.name with
        | false => rfl
        | true => exact absurd (hwoken.mp (by simpa using hcon)) hpos
      have hr : routed att target (addEventWaiters cfg att.ev target now cfg.steps { st := addEventStart att st }).woken c =
          (c.accepted.contains att.ev.ty && (target.isNone || target == some c.name)) := by
        unfold routed; rw [hcon]; rfl
      rw [hr]
      simp only [hpos, decide_false, Bool.false_or, ↓reduceIte]
      cases (c.accepted.contains att.ev.ty && (target.isNone || target == some c.name)) <;> simp
  have hhandled : (addEventRoute att target now cfg.steps
      (addEventWaiters cfg att.ev target now cfg.steps { st := addEventStart att st })).handled =
      !(cfg.steps.all (fun c => C02.recipients att target st c == 0)) := by
    rw [r3, w5]
    simp only [Bool.false_or]
    rw [C02.any_or, C02.any_congr _ _ _ hper, C02.any_not]
  unfold processAddEvent
  dsimp only
  generalize (addEventRoute att target now cfg.steps
    (addEventWaiters cfg att.ev target now cfg.steps { st := addEventStart att st })) = a2 at hshape hhandled
  have hnone : (a2.cmds.filter
      (fun c => match c with | .publish (.unhandled _ _ _) => true | _ => false)) = [] := by
    rw [List.filter_eq_nil_iff]
    intro c hc
    rcases hshape c hc with ⟨_, _, _, h⟩ | ⟨_, _, _, _, _, h⟩ | h <;> subst h <;> simp
  rw [List.filter_append, hnone, List.nil_append]
  unfold unhandledCmds
  rw [hhandled]
  cases hall : cfg.steps.all (fun c => C02.recipients att target st c == 0) with
  | false => simp
  | true =>
    by_cases hk : att.ev.kind = .inputRequired
    · simp [hk]
    · simp [hk]

/-- a step's output event is re-queued exactly once, carrying the lineage's recovery counts -/
theorem C02_outputs_requeued (cfg : Cfg) (pol : Policy) (step : Nat) (tickEv : Ev) (dc : Bool)
    (acc : ResAcc) (ev : Ev) (hk : ev.kind ≠ .stop) :
    ∃ pre, (applyRes cfg pol step tickEv dc acc (.result (some ev))).cmds =
      acc.cmds ++ pre ++ [.queueEvent { ev := ev, rc := acc.exec.rc } none none] ∧
      ∀ c ∈ pre, c = .publish (.event ev) := by
  simp only [applyRes, hk, ↓reduceIte]
  by_cases hi : ev.kind = .inputRequired
  · exact ⟨[.publish (.event ev)], by simp [hi], by simp⟩
  · exact ⟨[], by simp [hi], by simp⟩

/-- the runner turns an undelayed `queueEvent` into exactly one buffered `TickAddEvent` -/
theorem C02_queue_command_buffers_once (r : Runner) (att : Attempt) (step : Option Nat) :
    (execCmd r (.queueEvent att step none)).buf = r.buf ++ [.addEvent att step] := rfl

/-! Non-vacuity: fan-out to two accepting steps, a waiter, a target. -/
def C02.exCfg : Cfg :=
  { steps := [{ name := 1, accepted := [5], numWorkers := 1, hasRetry := false },
              { name := 2, accepted := [5, 6], numWorkers := 2, hasRetry := false },
              { name := 3, accepted := [7], numWorkers := 1, hasRetry := false }] }
def C02.e5 : Ev := { ty := 5, kind := .plain, uid := 1 }
example : C02.exCfg.WF := by simp [Cfg.WF, Cfg.names, C02.exCfg]
example : (C02.exCfg.steps.map (C02.recipients { ev := C02.e5 } none initState)) = [1, 1, 0] := by decide
example : (C02.exCfg.steps.map (C02.recipients { ev := C02.e5 } (some 2) initState)) = [0, 1, 0] := by decide
