import WfProofs.ReplayResume
/-!
`rebuild_state_from_ticks(init_state, ticks)` (what `ExternalContext._state`, hence `ctx.to_dict()`
and `running_steps()`, is computed from) versus the live runner — for EVERY start state, i.e. for
fresh and resumed runs alike (C11).

`WfProofs/ReplayLive.lean` proves the corresponding fact for the server's restart path: runs started
fresh from a start event, with the exit command, under "one outcome per step-result tick".  Here the
statement is about the state only, so neither restriction is needed:

* `rewind_sim`: `rewind_in_progress` at two clocks, from two states that agree up to
  `first_attempt_at`, gives two such states and the same commands;
* `rebuildInv_run`: along every schedule, replaying the ticks logged so far (any clock) from a state
  that agrees with the runner's rewound start state never raises and agrees with the live state;
* the erasure FUNCTION `eraseSt` behind the relation `SimSt` (`simSt_iff_erase`), idempotent;
* what a rewind keeps, in order (`rewindStep_order`), and that it is not idempotent.
-/
set_option linter.unusedVariables false
set_option linter.unusedSimpArgs false

namespace Engine

/-! ### `rewind_in_progress` at two clocks -/

theorem inProgToAttempt_erase {x y : InProg} (h : eraseIP x = eraseIP y) :
    eraseA (inProgToAttempt x) = eraseA (inProgToAttempt y) := by
  obtain ⟨h1, _, _, _, h5, h6, h7, h8⟩ := eraseIP_eq h
  simp only [eraseA, inProgToAttempt, h1, h5, h6, h7, h8]

theorem map_inProgToAttempt_erase : ∀ {a b : List InProg}, a.map eraseIP = b.map eraseIP →
    (a.map inProgToAttempt).map eraseA = (b.map inProgToAttempt).map eraseA
  | [], b, h => by rw [nil_of_map_eq_nil eraseIP h]
  | x :: xs, b, h => by
    obtain ⟨y, ys, hb, hxy, hrest⟩ := cons_of_map_eq_cons eraseIP h
    subst hb
    simp only [List.map_cons, inProgToAttempt_erase hxy, map_inProgToAttempt_erase hrest]

theorem rewindStep_sim (c : StepCfg) {a b : StepState} (n n' : Int) (h : SimSS a b) :
    SimSS (rewindStep c a n).1 (rewindStep c b n').1 ∧ (rewindStep c a n).2 = (rewindStep c b n').2 := by
  unfold rewindStep
  have hlen : ((a.inProg.map inProgToAttempt).reverse ++ a.queue).length =
      ((b.inProg.map inProgToAttempt).reverse ++ b.queue).length := by
    simp only [List.length_append, List.length_reverse, List.length_map, h.length, h.queueLength]
  simp only
  rw [hlen]
  apply drain_sim
  refine ⟨?_, h.collected, h.waiters, rfl⟩
  simp only [List.map_append, List.map_reverse, h.queue, map_inProgToAttempt_erase h.inProg]

theorem rewindLoop_sim (n n' : Int) : ∀ (cs : List StepCfg) {a b : State} (cmds : List Cmd), SimSt a b →
    SimSt (rewindLoop n cs a cmds).1 (rewindLoop n' cs b cmds).1 ∧
      (rewindLoop n cs a cmds).2 = (rewindLoop n' cs b cmds).2
  | [], a, b, cmds, h => by simpa [rewindLoop] using h
  | c :: cs, a, b, cmds, h => by
    unfold rewindLoop
    obtain ⟨h1, c1⟩ := rewindStep_sim c n n' (h.workers c.name)
    simp only
    rw [c1]
    exact rewindLoop_sim n n' cs _ (h.set c.name h1)

/-- **rewind, two clocks**: agreement up to `first_attempt_at` is kept and the commands are equal -/
theorem rewind_sim (cfg : Cfg) {a b : State} (n n' : Int) (h : SimSt a b) :
    SimSt (rewind cfg a n).1 (rewind cfg b n').1 ∧ (rewind cfg a n).2 = (rewind cfg b n').2 :=
  rewindLoop_sim n n' _ _ h

/-- `rewind_in_progress` never raises, whatever the state (it empties `in_progress` first) -/
theorem rewind_no_crash (cfg : Cfg) (st : State) (now : Int) : (rewind cfg st now).2.contains .crash = false := by
  cases hc : (rewind cfg st now).2.contains .crash with
  | false => rfl
  | true =>
    have hm : Cmd.crash ∈ (rewind cfg st now).2 := by simpa using hc
    have := rewind_start cfg st now _ hm
    simp [isStartCmd] at this

/-! ### the invariant: replay of the logged ticks agrees with the live state -/

/-- replaying the ticks logged so far from `s0` (any clock) succeeds and agrees with the live state
up to `first_attempt_at` -/
def RebuildInv (cfg : Cfg) (pol : Policy) (clk : Nat → Int) (s0 : State) (r : Runner) : Prop :=
  ∃ rep, replayFrom cfg pol clk 0 { st := s0 } (ticksOf r.log) = some rep ∧ SimSt rep.st r.st

theorem rebuildInv_step (cfg : Cfg) {pol : Policy} (hpol : TimeFree pol) (clk : Nat → Int) (s0 : State)
    (r : Runner) (a : Act) (h : RebuildInv cfg pol clk s0 r) : RebuildInv cfg pol clk s0 (r.step cfg pol a) := by
  unfold Runner.step
  split
  · exact h
  · cases a with
    | drain =>
      simp only
      cases hb : r.buf with
      | nil => simpa using h
      | cons t rest =>
        simp only
        split
        · -- the reducer raised: the run dies, nothing is logged
          obtain ⟨rep, h1, h2⟩ := h
          exact ⟨rep, by simpa [Runner.finish] using h1, by simpa [Runner.finish] using h2⟩
        · rename_i hcrash
          have hsl := execCmds_st_log (reduce cfg pol t r.st r.now).2
            { r with
              buf := rest
              idlePending := (if t = Tick.idleCheck then false else r.idlePending)
              st := (reduce cfg pol t r.st r.now).1
              log := r.log ++ [(t, r.now)] }
          obtain ⟨rep, h1, h2⟩ := h
          have hsim := reduce_simKey cfg hpol t (clk (0 + (ticksOf r.log).length)) r.now h2
          have hnc : (reduce cfg pol t rep.st (clk (0 + (ticksOf r.log).length))).2.contains Cmd.crash = false := by
            rw [contains_crash_key, hsim.2, ← contains_crash_key]
            simpa using hcrash
          refine ⟨{ st := (reduce cfg pol t rep.st (clk (0 + (ticksOf r.log).length))).1,
                    exit := lastExit rep.exit (reduce cfg pol t rep.st (clk (0 + (ticksOf r.log).length))).2 }, ?_, ?_⟩
          · rw [hsl.2]
            simp only [ticksOf, List.map_append, List.map_cons, List.map_nil]
            have := replayFrom_snoc cfg pol clk t (ticksOf r.log) 0 { st := s0 }
            simp only [ticksOf] at this
            rw [this]
            simp only [ticksOf] at h1
            rw [h1]
            simp only [ticksOf] at hnc
            simp only [hnc, Bool.false_eq_true, if_false]
          · rw [hsl.1]
            exact hsim.1
    | workerDone s w res =>
      simp only
      split
      · exact h
      · split <;> exact h
    | pull =>
      simp only
      split
      · exact h
      · split <;> exact h
    | timer => simp only; split <;> exact h
    | advance dt => exact h
    | external t => simp only; split <;> exact h
    | stepWrite p => exact h

theorem rebuildInv_run (cfg : Cfg) {pol : Policy} (hpol : TimeFree pol) (clk : Nat → Int) (s0 : State) :
    ∀ (acts : List Act) (r : Runner), RebuildInv cfg pol clk s0 r → RebuildInv cfg pol clk s0 (Runner.run cfg pol r acts)
  | [], r, h => h
  | a :: as, r, h => by
    simp only [Runner.run, List.foldl_cons]
    exact rebuildInv_run cfg hpol clk s0 as _ (rebuildInv_step cfg hpol clk s0 r a h)

/-- the runner right after `_ControlLoopRunner.__init__` + the head of `run()`: the rewound state,
an empty log — for every start state -/
theorem init_st_log (cfg : Cfg) (st0 : State) (now : Int) (start : Option Ev) (timeout : Option Nat) :
    (Runner.init cfg st0 now start timeout).st = (rewind cfg st0 now).1 ∧
      (Runner.init cfg st0 now start timeout).log = [] := by
  unfold Runner.init
  cases timeout with
  | none => exact ⟨(execCmds_st_log _ _).1, (execCmds_st_log _ _).2⟩
  | some t => exact ⟨(execCmds_st_log _ _).1, (execCmds_st_log _ _).2⟩

/-- **rebuild = live, timestamps aside, for every start state and schedule**: `replayTicks` is
`rebuild_state_from_ticks(init_state, ticks)` (rewind at `now0`, tick `i` at `clk i`) -/
theorem rebuild_agrees (cfg : Cfg) {pol : Policy} (hpol : TimeFree pol) (st0 : State) (now : Int)
    (start : Option Ev) (timeout : Option Nat) (acts : List Act) (now0 : Int) (clk : Nat → Int) :
    ∃ rep, replayTicks cfg pol st0 now0 clk
        (ticksOf (Runner.run cfg pol (Runner.init cfg st0 now start timeout) acts).log) = some rep ∧
      SimSt rep.st (Runner.run cfg pol (Runner.init cfg st0 now start timeout) acts).st := by
  have hi := init_st_log cfg st0 now start timeout
  have h0 : RebuildInv cfg pol clk (rewind cfg st0 now0).1 (Runner.init cfg st0 now start timeout) := by
    refine ⟨{ st := (rewind cfg st0 now0).1 }, ?_, ?_⟩
    · rw [hi.2]; rfl
    · rw [hi.1]; exact (rewind_sim cfg now0 now (SimSt.refl st0)).1
  obtain ⟨rep, h1, h2⟩ := rebuildInv_run cfg hpol clk _ acts _ h0
  refine ⟨rep, ?_, h2⟩
  unfold replayTicks
  simp only [rewind_no_crash, Bool.false_eq_true, if_false]
  exact h1

/-! ### the erasure function -/

def eraseSS (ss : StepState) : StepState :=
  { queue := ss.queue.map eraseA, inProg := ss.inProg.map eraseIP, collected := ss.collected,
    waiters := ss.waiters.map eraseW }

/-- **timestamps aside**: every `first_attempt_at` of the state (queued attempts, in-progress
invocations and the waiter records in their snapshots, waiters) is blanked -/
def eraseSt (st : State) : State :=
  { isRunning := st.isRunning, workers := fun n => eraseSS (st.workers n) }

theorem eraseA_idem (a : Attempt) : eraseA (eraseA a) = eraseA a := rfl
theorem eraseW_idem (w : Waiter) : eraseW (eraseW w) = eraseW w := rfl
theorem eraseIP_idem (ip : InProg) : eraseIP (eraseIP ip) = eraseIP ip := by
  simp [eraseIP, List.map_map, Function.comp_def, eraseW]

theorem simSS_iff_erase {a b : StepState} : SimSS a b ↔ eraseSS a = eraseSS b := by
  constructor
  · intro h
    simp only [eraseSS, h.queue, h.collected, h.waiters, h.inProg]
  · intro h
    exact ⟨(congrArg StepState.queue h : (eraseSS a).queue = (eraseSS b).queue),
      (congrArg StepState.collected h : (eraseSS a).collected = (eraseSS b).collected),
      (congrArg StepState.waiters h : (eraseSS a).waiters = (eraseSS b).waiters),
      (congrArg StepState.inProg h : (eraseSS a).inProg = (eraseSS b).inProg)⟩

theorem simSt_iff_erase {a b : State} : SimSt a b ↔ eraseSt a = eraseSt b := by
  constructor
  · intro h
    have hw : (fun n => eraseSS (a.workers n)) = (fun n => eraseSS (b.workers n)) :=
      funext fun n => simSS_iff_erase.mp (h.workers n)
    simp only [eraseSt, h.running, hw]
  · intro h
    refine ⟨(congrArg State.isRunning h : (eraseSt a).isRunning = (eraseSt b).isRunning),
      fun n => simSS_iff_erase.mpr ?_⟩
    exact congrFun (congrArg State.workers h : (eraseSt a).workers = (eraseSt b).workers) n

theorem eraseSS_idem (ss : StepState) : eraseSS (eraseSS ss) = eraseSS ss := by
  simp only [eraseSS, List.map_map]
  have h1 : (eraseA ∘ eraseA) = eraseA := funext eraseA_idem
  have h2 : (eraseW ∘ eraseW) = eraseW := funext eraseW_idem
  have h3 : (eraseIP ∘ eraseIP) = eraseIP := funext eraseIP_idem
  rw [h1, h2, h3]

theorem eraseSt_idem (st : State) : eraseSt (eraseSt st) = eraseSt st := by
  simp only [eraseSt, eraseSS_idem]

/-- a state and its erasure agree up to `first_attempt_at` -/
theorem sim_eraseSt (st : State) : SimSt st (eraseSt st) :=
  simSt_iff_erase.mpr (eraseSt_idem st).symm

/-! ### what a rewind keeps, in order -/

/-- invocations of a step in the order they will be served: running ones, then queued ones -/
def servedEvs (ss : StepState) : List Ev := ss.inProg.map (·.ev) ++ ss.queue.map (·.ev)

theorem addOrEnqueue_served (att : Attempt) (step : Nat) (ss : StepState) (nw : Nat) (now : Int)
    (h : IdsOk ss nw) (hlt : ss.inProg.length < nw) :
    (addOrEnqueue att step ss nw now).1.inProg.map (·.ev) = ss.inProg.map (·.ev) ++ [att.ev] ∧
      (addOrEnqueue att step ss nw now).1.queue = ss.queue := by
  unfold addOrEnqueue
  simp only [hlt, if_true]
  cases hf : freeIds ss nw with
  | nil => exact absurd hf (freeIds_ne_nil h hlt)
  | cons id rest => simp

/-- the drain serves the queue front to back: running-then-queued order is unchanged -/
theorem drain_served (step nw : Nat) (now : Int) : ∀ (fuel : Nat) (ss : StepState), IdsOk ss nw →
    servedEvs (drain step nw now fuel ss).1 = servedEvs ss
  | 0, ss, _ => by simp [drain]
  | fuel + 1, ss, h => by
    unfold drain
    cases hq : ss.queue with
    | nil => simp
    | cons a q =>
      simp only
      split
      · rename_i hlt
        have hi : IdsOk { ss with queue := q } nw := by simpa [IdsOk, usedIds] using h
        have h1 := addOrEnqueue_served a step { ss with queue := q } nw now hi hlt
        have h2 := drain_served step nw now fuel _ (addOrEnqueue_idsOk a step { ss with queue := q } nw now hi)
        rw [h2]
        simp only [servedEvs, h1.1, h1.2, hq, List.map_cons, List.append_assoc, List.singleton_append]
      · simp [hq]

/-- **`rewind_in_progress`, per step**: the buffers and the waiters are kept; the invocations that
were running come first, in REVERSE order (`queue.insert(0, …)` one by one), followed by the queue -/
theorem rewindStep_order (c : StepCfg) (ss : StepState) (now : Int) :
    servedEvs (rewindStep c ss now).1 = (ss.inProg.map (·.ev)).reverse ++ ss.queue.map (·.ev) := by
  unfold rewindStep
  rw [drain_served _ _ _ _ _ (by simp [IdsOk, usedIds])]
  simp only [servedEvs, List.map_nil, List.nil_append, List.map_append, List.map_reverse, List.map_map]
  have : (List.map ((fun x => x.ev) ∘ inProgToAttempt) ss.inProg) = ss.inProg.map (·.ev) := by
    apply List.map_congr_left; intro x _; rfl
  rw [this]

/-! ### a second rewind: steps with at most one worker -/

theorem drain_full (step nw : Nat) (now : Int) : ∀ (fuel : Nat) (ss : StepState), nw ≤ ss.inProg.length →
    drain step nw now fuel ss = (ss, [])
  | 0, ss, _ => by simp [drain]
  | fuel + 1, ss, h => by
    unfold drain
    cases hq : ss.queue with
    | nil => rfl
    | cons a q =>
      simp only
      have : ¬ ss.inProg.length < nw := by omega
      simp [this]

/-- the in-progress row `_add_or_enqueue_event` creates on worker `id` -/
def startRow (att : Attempt) (ss : StepState) (id : Nat) (now : Int) : InProg :=
  { ev := att.ev, wid := id, snapEvents := ss.collected, snapWaiters := ss.waiters,
    attempts := orNat att.attempts 0, firstAt := orInt att.firstAt now,
    lastExc := att.lastExc, lastFailedAt := att.lastFailedAt, rc := att.rc }

/-- `rewind_in_progress` of a step with one worker: the first pending invocation runs on worker 0 -/
theorem rewindStep_one (c : StepCfg) (hc : c.numWorkers = 1) (ss : StepState) (now : Int) :
    (rewindStep c ss now).1 =
      match (ss.inProg.map inProgToAttempt).reverse ++ ss.queue with
      | [] => { ss with queue := [], inProg := [] }
      | a :: q => { ss with queue := q, inProg := [startRow a ss 0 now] } := by
  unfold rewindStep
  simp only [hc]
  cases hq : (ss.inProg.map inProgToAttempt).reverse ++ ss.queue with
  | nil => simp [drain]
  | cons a q =>
    simp only [List.length_cons]
    unfold drain
    simp only [List.length_nil, Nat.lt_one_iff, if_true]
    have h1 : addOrEnqueue a c.name { ss with queue := q, inProg := [] } 1 now =
        ({ ss with queue := q, inProg := [startRow a ss 0 now] },
          [.runWorker c.name a.ev 0, .publish (.stepState .running c.name a.ev.ty .unset (some 0))]) := by
      simp [addOrEnqueue, freeIds, usedIds, startRow, List.range, List.range.loop]
    rw [h1]
    simp only
    rw [drain_full _ _ _ _ _ (by simp)]

theorem rewindStep_zero (c : StepCfg) (hc : c.numWorkers = 0) (ss : StepState) (now : Int) :
    (rewindStep c ss now).1 = { ss with queue := (ss.inProg.map inProgToAttempt).reverse ++ ss.queue, inProg := [] } := by
  unfold rewindStep
  simp only [hc]
  rw [drain_full _ _ _ _ _ (by simp)]

theorem orNat_some_zero (v : Nat) : orNat (some v) 0 = v := by
  simp only [orNat]; split <;> simp_all

/-- a second rewind of a step with at most one worker changes nothing but `first_attempt_at` -/
theorem rewindStep_idem (c : StepCfg) (hc : c.numWorkers ≤ 1) (ss : StepState) (n n' : Int) :
    SimSS (rewindStep c (rewindStep c ss n).1 n').1 (rewindStep c ss n).1 := by
  have h01 : c.numWorkers = 0 ∨ c.numWorkers = 1 := by omega
  rcases h01 with h0 | h1
  · rw [rewindStep_zero c h0 (rewindStep c ss n).1 n', rewindStep_zero c h0 ss n]
    simp only [List.map_nil, List.reverse_nil, List.nil_append]
    exact SimSS.refl _
  · rw [rewindStep_one c h1 (rewindStep c ss n).1 n', rewindStep_one c h1 ss n]
    cases hq : (ss.inProg.map inProgToAttempt).reverse ++ ss.queue with
    | nil => simp only [List.map_nil, List.reverse_nil, List.nil_append]; exact SimSS.refl _
    | cons a q =>
      simp only [List.map_cons, List.map_nil, List.reverse_cons, List.reverse_nil, List.nil_append, List.singleton_append]
      refine ⟨rfl, rfl, rfl, ?_⟩
      simp [eraseIP, startRow, inProgToAttempt, orNat_some_zero]


/-- **second rewind, whole state**: when no step has more than one worker -/
theorem rewind_idem_single (cfg : Cfg) (hwf : cfg.WF) (h1 : ∀ c ∈ cfg.steps, c.numWorkers ≤ 1) (st : State) (n n' : Int) :
    SimSt (rewind cfg (rewind cfg st n).1 n').1 (rewind cfg st n).1 := by
  have hnd : ((sortedSteps cfg).map (·.name)).Nodup := (sortedSteps_names_perm cfg).nodup_iff.mpr hwf
  refine ⟨rewindLoop_running n' _ _ _, fun k => ?_⟩
  by_cases hk : k ∈ (sortedSteps cfg).map (·.name)
  · obtain ⟨c, hc, rfl⟩ := List.mem_map.mp hk
    have e1 : (rewind cfg (rewind cfg st n).1 n').1.workers c.name =
        (rewindStep c ((rewind cfg st n).1.workers c.name) n').1 := rewindLoop_at n' (sortedSteps cfg) _ [] hnd c hc
    have e2 : (rewind cfg st n).1.workers c.name = (rewindStep c (st.workers c.name) n).1 :=
      rewindLoop_at n (sortedSteps cfg) st [] hnd c hc
    rw [e1, e2]
    exact rewindStep_idem c (h1 c (mem_sortedSteps_iff.mp hc)) _ n n'
  · have e1 : (rewind cfg (rewind cfg st n).1 n').1.workers k = (rewind cfg st n).1.workers k :=
      rewindLoop_other n' (sortedSteps cfg) _ [] k hk
    rw [e1]
    exact SimSS.refl _

end Engine
