"""Dispatch shape of the state-store code paths -> lean/WfModel/GenStateStoreShape.lean  (C19).

`harness/gen/statestore.py` regenerates MAX_DEPTH and the lock / copy flags.  This plug-in re-reads,
from /repo's current sources on every run, the *shape* of the code the sequential machines of
`WfModel/StateStore.lean` were written along (all names below are positional: a renamed parameter
or local does not change the output):

* `traverse_path_step` / `assign_path_step`: the order of their branches (dict key, `DictLikeModel`
  by name, `int(segment)` index inside a `try`, attribute) and the exception classes the index attempt
  swallows -- the model's `child` / `assign` / `rootChild` / `rootAssign` are that dispatch;
* `get_by_path`: the empty path is the root, the path is split on ".", the depth test is `>`,
  every exception becomes the default / ValueError;
* `set_by_path`: the empty path raises, depth test `>`, the exception classes on which a missing
  intermediate is created, and that the intermediate is a fresh `{}` assigned before the loop goes on
  inside it (`setLoop`);
* `merge_state`: replace / parent merge / reject in this order, the merge is
  `{**current.model_dump(), **incoming.model_dump()}` (incoming wins) with argument-free dumps (`overlay`);
* `create_cleared_state` instantiates the type afresh; what each store hands to it in `clear`;
* `SqliteStateStore`: `get` / `get_state` load, `set` is an `edit_state` block around `set_by_path`,
  `_load_state` inserts the default row when there is none (`Sql.load`), `_save_state` is an upsert
  (`Sql.save`), a `DictState` row is `{"_data": ...}`;
* `DictLikeModel.__setattr__` / `__getattr__` go to `_data` for undeclared names (`rootAssign` on `.dict`), and
  `__copy__` gives the copy its own `_data` unconditionally (`snapMut` works on an object of its own);
* the keywords of the `model_dump` call by which `JsonSerializer` writes a typed state to SQLite.

A shape that is not found yields an empty list / `false` and a note; `C19_source_shape_walkers` then fails
to compile and names what drifted.
"""
from __future__ import annotations

import ast

from ..boot import repo_path

LEAN_MODULE = "GenStateStoreShape"
CORE = "packages/llama-index-workflows/src/workflows/context/state_store.py"
EVENTS = "packages/llama-index-workflows/src/workflows/events.py"
SERIAL = "packages/llama-index-workflows/src/workflows/context/serializers.py"
SQLITE = "packages/llama-agents-server/src/llama_agents/server/_store/sqlite/sqlite_state_store.py"


def _parse(rel: str, notes: list[str]) -> ast.Module | None:
    try:
        return ast.parse(open(repo_path(rel)).read())
    except (OSError, SyntaxError) as e:
        notes.append(f"gen/statestore_shape: cannot parse {rel}: {e!r}")
        return None


def _funcs(tree: ast.AST | None) -> dict[str, ast.FunctionDef]:
    if tree is None:
        return {}
    return {f.name: f for f in getattr(tree, "body", []) if isinstance(f, (ast.FunctionDef, ast.AsyncFunctionDef))}


def _class(tree: ast.AST | None, name: str) -> ast.ClassDef | None:
    if tree is None:
        return None
    for n in ast.walk(tree):
        if isinstance(n, ast.ClassDef) and n.name == name:
            return n
    return None


def _params(fn: ast.AST) -> list[str]:
    return [a.arg for a in fn.args.args]  # type: ignore[attr-defined]


def _body(fn: ast.AST) -> list[ast.stmt]:
    """statements without the docstring"""
    b = list(fn.body)  # type: ignore[attr-defined]
    if b and isinstance(b[0], ast.Expr) and isinstance(b[0].value, ast.Constant) and isinstance(b[0].value.value, str):
        b = b[1:]
    return b


def _is_name(e: ast.AST | None, name: str) -> bool:
    return isinstance(e, ast.Name) and e.id == name


def _call_name(e: ast.AST | None) -> str:
    if isinstance(e, ast.Call):
        f = e.func
        if isinstance(f, ast.Name):
            return f.id
        if isinstance(f, ast.Attribute):
            return f.attr
    return ""


def _exc_names(h: ast.ExceptHandler) -> list[str]:
    t = h.type
    if t is None:
        return ["<bare>"]
    if isinstance(t, ast.Tuple):
        return sorted(x.id if isinstance(x, ast.Name) else "?" for x in t.elts)
    return [t.id if isinstance(t, ast.Name) else "?"]


def _step_dispatch(fn: ast.AST | None, getter: str) -> tuple[list[str], list[str]]:
    """branch order of traverse_path_step (getter='getattr') / assign_path_step (getter='setattr')"""
    if fn is None:
        return [], []
    ps = _params(fn)
    if len(ps) < 2:
        return [], []
    obj, seg = ps[0], ps[1]
    out: list[str] = []
    catches: list[str] = []
    for st in _body(fn):
        if isinstance(st, ast.If) and _call_name(st.test) == "isinstance" and not st.orelse:
            c: ast.Call = st.test  # type: ignore[assignment]
            if len(c.args) == 2 and _is_name(c.args[0], obj) and isinstance(c.args[1], ast.Name):
                cls = c.args[1].id
                # what the branch does: subscript by the segment / getattr-setattr by the segment
                subs = any(isinstance(x, ast.Subscript) and _is_name(x.value, obj) and _is_name(x.slice, seg)
                           for b in st.body for x in ast.walk(b))
                attr = any(_call_name(x) == getter and len(x.args) >= 2 and _is_name(x.args[0], obj) and _is_name(x.args[1], seg)
                           for b in st.body for x in ast.walk(b) if isinstance(x, ast.Call))
                leaves = any(isinstance(x, ast.Return) for b in st.body for x in ast.walk(b))
                how = "key" if subs and not attr else ("name" if attr and not subs else "?")
                out.append(f"is:{cls}:{how}" + ("" if leaves else ":falls-through"))
                continue
        if isinstance(st, ast.Try):
            ints = [x for b in st.body for x in ast.walk(b) if _call_name(x) == "int" and len(x.args) == 1 and _is_name(x.args[0], seg)]
            passes = all(len(h.body) == 1 and isinstance(h.body[0], ast.Pass) for h in st.handlers)
            if ints and passes and not st.orelse and not st.finalbody:
                out.append("index")
                for h in st.handlers:
                    catches += _exc_names(h)
                continue
        calls = [x for x in ast.walk(st) if _call_name(x) == getter and len(x.args) >= 2 and _is_name(x.args[0], obj) and _is_name(x.args[1], seg)]
        if calls and isinstance(st, (ast.Return, ast.Expr)):
            out.append("attr")
            continue
        out.append("other:" + type(st).__name__)
    return out, sorted(set(catches))


def _depth_op(fn: ast.AST | None) -> str:
    """comparison of the `len(segments) <op> MAX_DEPTH` test that raises"""
    if fn is None:
        return "<missing>"
    for n in ast.walk(fn):
        if isinstance(n, ast.If) and isinstance(n.test, ast.Compare) and len(n.test.ops) == 1 \
                and _call_name(n.test.left) == "len" and _is_name(n.test.comparators[0], "MAX_DEPTH") \
                and any(isinstance(x, ast.Raise) for x in n.body):
            return type(n.test.ops[0]).__name__
    return "<missing>"


def _split_sep(fn: ast.AST | None, path: str) -> str:
    if fn is None:
        return "<missing>"
    seps = set()
    for n in ast.walk(fn):
        if isinstance(n, ast.Call) and isinstance(n.func, ast.Attribute) and n.func.attr == "split" and _is_name(n.func.value, path):
            if len(n.args) == 1 and isinstance(n.args[0], ast.Constant) and isinstance(n.args[0].value, str) and not n.keywords:
                seps.add(n.args[0].value)
            else:
                seps.add("<other>")
    return seps.pop() if len(seps) == 1 else "<missing>"


def _get_shape(fn: ast.AST | None) -> dict:
    r = {"getSplitSep": "<missing>", "getEmptyPathIsRoot": False, "getDepthOp": "<missing>", "getCatches": [],
         "getMissingRaises": "<missing>", "getUsesTraverse": False}
    if fn is None:
        return r
    ps = _params(fn)
    if len(ps) < 3:
        return r
    path, dflt = ps[1], ps[2]
    r["getSplitSep"] = _split_sep(fn, path)
    r["getDepthOp"] = _depth_op(fn)
    for n in ast.walk(fn):
        # segments = path.split(".") if path else []
        if isinstance(n, ast.IfExp) and _is_name(n.test, path) and isinstance(n.orelse, ast.List) and not n.orelse.elts:
            r["getEmptyPathIsRoot"] = True
        if isinstance(n, ast.Try):
            r["getUsesTraverse"] = any(_call_name(x) == "traverse_path_step" for b in n.body for x in ast.walk(b))
            for h in n.handlers:
                r["getCatches"] += _exc_names(h)
                # handler: `if default is not Ellipsis: return default` then `raise ValueError(...)`
                rets = any(isinstance(x, ast.Return) and _is_name(x.value, dflt) for x in ast.walk(h))
                raises = [x for x in h.body if isinstance(x, ast.Raise)]
                if rets and len(raises) == 1:
                    r["getMissingRaises"] = _call_name(raises[0].exc) or "?"
    r["getCatches"] = sorted(set(r["getCatches"]))
    return r


def _set_shape(fn: ast.AST | None) -> dict:
    r = {"setSplitSep": "<missing>", "setEmptyPathRaises": "<missing>", "setDepthOp": "<missing>", "setCatches": [],
         "setCreatesFreshDict": False, "setLoopOverInits": False, "setFinalAssignsLast": False}
    if fn is None:
        return r
    ps = _params(fn)
    if len(ps) < 3:
        return r
    path, value = ps[1], ps[2]
    r["setSplitSep"] = _split_sep(fn, path)
    r["setDepthOp"] = _depth_op(fn)
    body = _body(fn)
    for st in body:
        if isinstance(st, ast.If) and isinstance(st.test, ast.UnaryOp) and isinstance(st.test.op, ast.Not) and _is_name(st.test.operand, path):
            rs = [x for x in st.body if isinstance(x, ast.Raise)]
            if rs:
                r["setEmptyPathRaises"] = _call_name(rs[0].exc) or "?"
    loops = [st for st in body if isinstance(st, ast.For)]
    if len(loops) == 1:
        lp = loops[0]
        # for segment in segments[:-1]
        it = lp.iter
        if isinstance(it, ast.Subscript) and isinstance(it.slice, ast.Slice) and it.slice.lower is None \
                and isinstance(it.slice.upper, ast.UnaryOp) and isinstance(it.slice.upper.op, ast.USub) \
                and isinstance(it.slice.upper.operand, ast.Constant) and it.slice.upper.operand.value == 1:
            r["setLoopOverInits"] = True
        tries = [x for x in lp.body if isinstance(x, ast.Try)]
        if len(tries) == 1 and len(lp.body) == 1:
            t = tries[0]
            for h in t.handlers:
                r["setCatches"] += _exc_names(h)
                # intermediate = {} ; assign_path_step(current, segment, intermediate) ; current = intermediate
                hb = h.body
                if len(hb) == 3 and isinstance(hb[0], (ast.Assign, ast.AnnAssign)) and isinstance(hb[0].value, ast.Dict) \
                        and not hb[0].value.keys and isinstance(hb[1], ast.Expr) and _call_name(hb[1].value) == "assign_path_step" \
                        and isinstance(hb[2], ast.Assign):
                    tgt = hb[0].targets[0] if isinstance(hb[0], ast.Assign) else hb[0].target
                    call: ast.Call = hb[1].value  # type: ignore[assignment]
                    if isinstance(tgt, ast.Name) and len(call.args) == 3 and _is_name(call.args[2], tgt.id) \
                            and _is_name(hb[2].value, tgt.id) and _is_name(call.args[0], getattr(hb[2].targets[0], "id", "")):
                        r["setCreatesFreshDict"] = True
    r["setCatches"] = sorted(set(r["setCatches"]))
    # last statement: assign_path_step(current, segments[-1], value)
    if body and isinstance(body[-1], ast.Expr) and _call_name(body[-1].value) == "assign_path_step":
        c: ast.Call = body[-1].value  # type: ignore[assignment]
        if len(c.args) == 3 and _is_name(c.args[2], value) and isinstance(c.args[1], ast.Subscript) \
                and isinstance(c.args[1].slice, ast.UnaryOp) and isinstance(c.args[1].slice.op, ast.USub):
            r["setFinalAssignsLast"] = True
    return r


def _merge_shape(fn: ast.AST | None) -> dict:
    r = {"mergeBranches": [], "mergeOrder": [], "mergeDumpArgs": 99}
    if fn is None:
        return r
    ps = _params(fn)
    if len(ps) < 2:
        return r
    cur, inc = ps[0], ps[1]
    # local aliases: current_type = type(current_state), new_type = type(incoming), parent_data = incoming.model_dump()
    typeof: dict[str, str] = {}
    dumpof: dict[str, str] = {}
    for n in ast.walk(fn):
        if isinstance(n, ast.Assign) and len(n.targets) == 1 and isinstance(n.targets[0], ast.Name):
            v = n.value
            if _call_name(v) == "type" and len(v.args) == 1 and isinstance(v.args[0], ast.Name):  # type: ignore[attr-defined]
                typeof[n.targets[0].id] = v.args[0].id  # type: ignore[attr-defined]
            if _call_name(v) == "model_dump" and isinstance(v.func, ast.Attribute) and isinstance(v.func.value, ast.Name):  # type: ignore[attr-defined]
                dumpof[n.targets[0].id] = v.func.value.id  # type: ignore[attr-defined]

    def who(e: ast.AST) -> str:
        """'current' / 'incoming' for an expression denoting the dump of one of the two models"""
        if isinstance(e, ast.Name) and e.id in dumpof:
            return "current" if dumpof[e.id] == cur else ("incoming" if dumpof[e.id] == inc else "?")
        if _call_name(e) == "model_dump" and isinstance(e.func, ast.Attribute) and isinstance(e.func.value, ast.Name):  # type: ignore[attr-defined]
            return "current" if e.func.value.id == cur else ("incoming" if e.func.value.id == inc else "?")  # type: ignore[attr-defined]
        return "?"

    def classify(test: ast.AST, body: list[ast.stmt]) -> str:
        name = _call_name(test)
        args = getattr(test, "args", [])
        if name == "isinstance" and len(args) == 2 and _is_name(args[0], inc) and isinstance(args[1], ast.Name) \
                and typeof.get(args[1].id) == cur and len(body) == 1 and isinstance(body[0], ast.Return) and _is_name(body[0].value, inc):
            return "replace"
        if name == "issubclass" and len(args) == 2 and isinstance(args[0], ast.Name) and isinstance(args[1], ast.Name) \
                and typeof.get(args[0].id) == cur and typeof.get(args[1].id) == inc:
            for x in (y for b in body for y in ast.walk(b)):
                if _call_name(x) == "model_validate" and len(x.args) == 1 and isinstance(x.args[0], ast.Dict):  # type: ignore[attr-defined]
                    d: ast.Dict = x.args[0]  # type: ignore[attr-defined]
                    if all(k is None for k in d.keys):
                        r["mergeOrder"] = [who(v) for v in d.values]
                        fv = x.func.value  # type: ignore[attr-defined]
                        if isinstance(fv, ast.Name) and typeof.get(fv.id) == cur:
                            return "merge"
            return "merge?"
        return "other"

    top = [st for st in _body(fn) if isinstance(st, ast.If)]
    if len(top) == 1:
        node: ast.If = top[0]
        while True:
            r["mergeBranches"].append(classify(node.test, node.body))
            if len(node.orelse) == 1 and isinstance(node.orelse[0], ast.If):
                node = node.orelse[0]
                continue
            if len(node.orelse) == 1 and isinstance(node.orelse[0], ast.Raise):
                r["mergeBranches"].append("reject:" + (_call_name(node.orelse[0].exc) or "?"))
            elif node.orelse:
                r["mergeBranches"].append("other")
            break
    dumps = [n for n in ast.walk(fn) if _call_name(n) == "model_dump"]
    r["mergeDumpArgs"] = sum(len(d.args) + len(d.keywords) for d in dumps) if dumps else 99  # type: ignore[attr-defined]
    return r


def _methods(cls: ast.ClassDef | None) -> dict[str, ast.AST]:
    if cls is None:
        return {}
    return {f.name: f for f in cls.body if isinstance(f, (ast.FunctionDef, ast.AsyncFunctionDef))}


def _unparse(e: ast.AST | None) -> str:
    try:
        return ast.unparse(e) if e is not None else "<missing>"
    except Exception:  # noqa: BLE001
        return "<unparse failed>"


def _clear_arg(fn: ast.AST | None) -> str:
    """`await self.set_state(create_cleared_state(<arg>))` -> source text of <arg>"""
    if fn is None:
        return "<missing>"
    b = _body(fn)
    if len(b) != 1:
        return "<other>"
    for x in ast.walk(b[0]):
        if _call_name(x) == "set_state" and len(x.args) == 1 and _call_name(x.args[0]) == "create_cleared_state" \
                and len(x.args[0].args) == 1:  # type: ignore[attr-defined]
            return _unparse(x.args[0].args[0])  # type: ignore[attr-defined]
    return "<other>"


def _sql_shape(ms: dict[str, ast.AST]) -> dict:
    r = {"sqlSetViaEdit": False, "sqlGetLoads": False, "sqlGetStateLoadsAndCopies": False, "sqlLoadInsertsDefault": False,
         "sqlSaveIsUpsert": False, "sqlDictRowIsData": False}
    fn = ms.get("set")
    if fn is not None:
        b = _body(fn)
        if len(b) == 1 and isinstance(b[0], ast.AsyncWith) and len(b[0].items) == 1:
            it = b[0].items[0]
            inner = b[0].body
            if _call_name(it.context_expr) == "edit_state" and isinstance(it.optional_vars, ast.Name) and len(inner) == 1 \
                    and isinstance(inner[0], ast.Expr) and _call_name(inner[0].value) == "set_by_path":
                c: ast.Call = inner[0].value  # type: ignore[assignment]
                ps = _params(fn)
                r["sqlSetViaEdit"] = len(c.args) == 3 and _is_name(c.args[0], it.optional_vars.id) and len(ps) >= 3 \
                    and _is_name(c.args[1], ps[1]) and _is_name(c.args[2], ps[2])
    fn = ms.get("get")
    if fn is not None:
        b = _body(fn)
        if len(b) == 2 and isinstance(b[0], ast.Assign) and _call_name(b[0].value) == "_load_state" and isinstance(b[1], ast.Return) \
                and _call_name(b[1].value) == "get_by_path":
            c = b[1].value  # type: ignore[assignment]
            r["sqlGetLoads"] = len(c.args) == 3 and _is_name(c.args[0], getattr(b[0].targets[0], "id", ""))
    fn = ms.get("get_state")
    if fn is not None:
        b = _body(fn)
        r["sqlGetStateLoadsAndCopies"] = len(b) == 2 and isinstance(b[0], ast.Assign) and _call_name(b[0].value) == "_load_state" \
            and isinstance(b[1], ast.Return) and _call_name(b[1].value) == "model_copy" \
            and _is_name(getattr(b[1].value.func, "value", None), getattr(b[0].targets[0], "id", ""))  # type: ignore[attr-defined]
    fn = ms.get("_load_state")
    if fn is not None:
        for n in ast.walk(fn):
            if isinstance(n, ast.If) and isinstance(n.test, ast.Compare) and _is_name(n.test.left, "row") \
                    and any(isinstance(o, ast.Is) for o in n.test.ops):
                names = [_call_name(x) for b in n.body for x in ast.walk(b) if isinstance(x, ast.Call)]
                r["sqlLoadInsertsDefault"] = "_create_default_state" in names and "_save_state" in names and "commit" in names \
                    and any(isinstance(x, ast.Return) for x in n.body)
    fn = ms.get("_save_state")
    if fn is not None:
        sqls = [x.value for x in ast.walk(fn) if isinstance(x, ast.Constant) and isinstance(x.value, str) and "INSERT" in x.value.upper()]
        if len(sqls) == 1:
            t = " ".join(sqls[0].split()).upper()
            r["sqlSaveIsUpsert"] = "INSERT INTO WORKFLOW_STATE" in t and "ON CONFLICT(RUN_ID) DO UPDATE SET" in t \
                and "STATE_JSON = EXCLUDED.STATE_JSON" in t
    fn = ms.get("_serialize_state")
    if fn is not None:
        for n in ast.walk(fn):
            if isinstance(n, ast.If) and _call_name(n.test) == "isinstance" and any(_is_name(a, "DictState") for a in n.test.args):  # type: ignore[attr-defined]
                r["sqlDictRowIsData"] = any(_call_name(x) == "serialize_dict_state_data" for b in n.body for x in ast.walk(b))
    return r


def _dictlike_shape(ms: dict[str, ast.AST]) -> dict:
    r = {"dictLikeSetattrToData": False, "dictLikeGetattrFromData": False, "dictLikeCopyUnconditional": False}

    def data_of_self(e: ast.AST, me: str) -> bool:
        return isinstance(e, ast.Attribute) and e.attr == "_data" and _is_name(e.value, me)

    fn = ms.get("__setattr__")
    if fn is not None:
        ps = _params(fn)
        b = _body(fn)
        if len(ps) == 3 and len(b) == 1 and isinstance(b[0], ast.If) and len(b[0].orelse) == 1:
            me, name, value = ps
            e = b[0].orelse[0]
            ok = False
            if isinstance(e, ast.Expr) and _call_name(e.value) == "__setitem__" and data_of_self(e.value.func.value, me):  # type: ignore[attr-defined]
                a = e.value.args  # type: ignore[attr-defined]
                ok = len(a) == 2 and _is_name(a[0], name) and _is_name(a[1], value)
            if isinstance(e, ast.Assign) and isinstance(e.targets[0], ast.Subscript) and data_of_self(e.targets[0].value, me):
                ok = _is_name(e.targets[0].slice, name) and _is_name(e.value, value)
            # the declared-name branch must test membership in the model's fields / private attributes only
            tested = {x.attr for x in ast.walk(b[0].test) if isinstance(x, ast.Attribute)}
            r["dictLikeSetattrToData"] = ok and tested <= {"__private_attributes__", "model_fields", "__class__"}
    fn = ms.get("__copy__")
    if fn is not None:
        ps = _params(fn)
        if len(ps) == 1:
            me = ps[0]
            # a top-level statement (not under any condition): <copy>._data = dict(self._data) / self._data.copy() / {**self._data}
            for st in _body(fn):
                if isinstance(st, ast.Assign) and len(st.targets) == 1 and isinstance(st.targets[0], ast.Attribute) \
                        and st.targets[0].attr == "_data" and not _is_name(st.targets[0].value, me):
                    v = st.value
                    fresh = (_call_name(v) == "dict" and len(v.args) == 1 and data_of_self(v.args[0], me)) \
                        or (_call_name(v) == "copy" and data_of_self(getattr(v.func, "value", None), me)) \
                        or (isinstance(v, ast.Dict) and v.keys == [None] and data_of_self(v.values[0], me))
                    r["dictLikeCopyUnconditional"] = bool(fresh)
    fn = ms.get("__getattr__")
    if fn is not None:
        ps = _params(fn)
        if len(ps) == 2:
            me, name = ps
            rets = [x for x in ast.walk(fn) if isinstance(x, ast.Return) and isinstance(x.value, ast.Subscript)
                    and data_of_self(x.value.value, me) and _is_name(x.value.slice, name)]
            raises = [_call_name(x.exc) for x in ast.walk(fn) if isinstance(x, ast.Raise)]
            r["dictLikeGetattrFromData"] = len(rets) == 1 and raises == ["AttributeError"]
    return r


def extract(notes: list[str]) -> dict:
    core = _parse(CORE, notes)
    ev = _parse(EVENTS, notes)
    sq = _parse(SQLITE, notes)
    se = _parse(SERIAL, notes)
    fs = _funcs(core)
    r: dict = {}
    r["traverseDispatch"], r["traverseIndexCatches"] = _step_dispatch(fs.get("traverse_path_step"), "getattr")
    r["assignDispatch"], r["assignIndexCatches"] = _step_dispatch(fs.get("assign_path_step"), "setattr")
    r.update(_get_shape(fs.get("get_by_path")))
    r.update(_set_shape(fs.get("set_by_path")))
    r.update(_merge_shape(fs.get("merge_state")))
    # create_cleared_state: try: return state_type()
    fresh = False
    fn = fs.get("create_cleared_state")
    if fn is not None:
        ps = _params(fn)
        for t in (x for x in _body(fn) if isinstance(x, ast.Try)):
            if len(t.body) == 1 and isinstance(t.body[0], ast.Return) and isinstance(t.body[0].value, ast.Call):
                c = t.body[0].value
                fresh = bool(ps) and _is_name(c.func, ps[0]) and not c.args and not c.keywords
    r["clearedIsFreshInstance"] = fresh
    mem = _methods(_class(core, "InMemoryStateStore"))
    sql = _methods(_class(sq, "SqliteStateStore"))
    r["memClearArg"] = _clear_arg(mem.get("clear"))
    r["sqlClearArg"] = _clear_arg(sql.get("clear"))
    r.update(_sql_shape(sql))
    r.update(_dictlike_shape(_methods(_class(ev, "DictLikeModel"))))
    kws: list[str] = ["<missing>"]
    js = _methods(_class(se, "JsonSerializer")).get("serialize_value")
    if js is not None:
        for n in ast.walk(js):
            if isinstance(n, ast.If) and _call_name(n.test) == "isinstance" and any(_is_name(a, "BaseModel") for a in n.test.args):  # type: ignore[attr-defined]
                ds = [x for b in n.body for x in ast.walk(b) if _call_name(x) == "model_dump"]
                if len(ds) == 1:
                    kws = sorted(f"{k.arg}={_unparse(k.value)}" for k in ds[0].keywords) + [f"<{len(ds[0].args)} positional>"] * bool(ds[0].args)  # type: ignore[attr-defined]
    r["serializerModelDumpKeywords"] = kws
    expected_nonempty = ["traverseDispatch", "assignDispatch", "getCatches", "setCatches", "mergeBranches", "mergeOrder"]
    for k in expected_nonempty:
        if not r[k]:
            notes.append(f"gen/statestore_shape: {k}: shape not found")
    return r


def _lean_str(s: str) -> str:
    return '"' + s.replace("\\", "\\\\").replace('"', '\\"').replace("\n", "\\n") + '"'


def generate(notes: list[str]) -> list[str]:
    r = extract(notes)
    out = ["namespace GenStateStoreShape"]
    for k, v in r.items():
        if isinstance(v, bool):
            out.append(f"def {k} : Bool := {'true' if v else 'false'}")
        elif isinstance(v, int):
            out.append(f"def {k} : Nat := {v}")
        elif isinstance(v, str):
            out.append(f"def {k} : String := {_lean_str(v)}")
        else:
            out.append(f"def {k} : List String := [{', '.join(_lean_str(x) for x in v)}]")
    out.append("end GenStateStoreShape")
    return out
