import WfModel.Timers
import Driver.Engine
/-! Line protocol for the server × runner composition (`WfModel/Timers.lean`): one handler of the
in-process server stack.  Token formats are those of `Driver/Engine.lean` (harness/engine/enc.py). -/
open Engine

namespace Drv.Timers
open Drv.Engine

structure DState where
  c : SrvCfg := { cfg := { steps := [] } }
  s : Srv := {}

def sStatus : HStatus → String
  | .running => "running" | .completed => "completed" | .failed => "failed" | .cancelled => "cancelled"

def sErr : Option SrvErr → String
  | none => "_"
  | some .replayRaised => "replay-raised"
  | some .noTicks => "no-ticks"
  | some .notRunning => "not-running"
  | some .handlerCompleted => "handler-completed"
  | some .notExternal => "not-external"

def sH (s : Srv) : String :=
  s!"status={sStatus s.status} idle={sOptInt s.idleSince} live={sBool s.live.isSome} loads={s.loads} err={sErr s.err}"

def sLive (cfg : Cfg) (s : Srv) : String :=
  match s.live with
  | some r => sRunner r ++ " ;; " ++ sState cfg r.st
  | none => "not-live"

/-- move the server clock to `now` (never backwards) -/
def setNow (d : DState) (pol : Policy) (now : Int) : Option DState :=
  if now < d.s.now then none
  else some { d with s := d.s.step d.c pol (.run (.advance (now - d.s.now).toNat)) }

def noPol : Policy := fun _ _ _ _ => .stop

def step (d : DState) (line : String) : DState × String :=
  match tokens line with
  | "cfg" :: ts =>
    match cfgP ts with
    | some (c, []) => ({ d with c := { d.c with cfg := c }, s := {} }, "ok")
    | _ => (d, "bad-op")
  | "sstart" :: ts =>
    match (do let now ← int; let e ← ev; let t ← optNat; let it ← nat; pure (now, e, t, it)) ts with
    | some ((now, e, t, it), []) =>
      let c : SrvCfg := { cfg := d.c.cfg, timeout := t, idleTimeout := it }
      let s := Srv.start c e now
      ({ c := c, s := s }, sH s)
    | _ => (d, "bad-op")
  | "ext" :: ts =>
    match tick ts with
    | some (t, []) => ({ d with s := d.s.step d.c noPol (.run (.external t)) }, "ok")
    | _ => (d, "bad-op")
  | "swrite" :: ts =>
    match ev ts with
    | some (e, []) => ({ d with s := d.s.step d.c noPol (.run (.stepWrite (.event e))) }, "ok")
    | _ => (d, "bad-op")
  | "rstep" :: ts =>
    match (do
      let now ← int; let p ← policy
      let h ← tok
      let hint : Option Act ←
        match h with
        | "HW" => do let s ← nat; let w ← nat; let rs ← counted res; pure (some (Act.workerDone s w rs))
        | "HP" => pure (some Act.pull)
        | "HT" => pure (some Act.timer)
        | "H0" => pure none
        | _ => fun _ => none
      pure (now, p, hint)) ts with
    | some ((now, p, hint), []) =>
      match setNow d p now with
      | none => (d, "bad-op")
      | some d0 =>
        match d0.s.live with
        | none => (d0, "not-live")
        | some r0 =>
          let s1 := match hint with
            | some a => if r0.buf.isEmpty then d0.s.step d0.c p (.run a) else d0.s
            | none => d0.s
          match s1.live with
          | none => ({ d0 with s := s1 }, "not-live")
          | some r1 =>
            match r1.buf with
            | [] => ({ d0 with s := s1 }, "empty-buffer " ++ sRunner r1)
            | t :: rest =>
              let pre := { r1 with buf := rest, idlePending := if t = Tick.idleCheck then false else r1.idlePending }
              let s2 := s1.step d0.c p (.run .drain)
              let red := reduce d0.c.cfg p t r1.st r1.now
              ({ d0 with s := s2 }, sTick t ++ " @@ " ++ sRunner pre ++ " => " ++ sResult d0.c.cfg red)
    | _ => (d, "bad-op")
  | "send" :: ts =>
    match (do let now ← int; let p ← policy; let t ← tick; pure (now, p, t)) ts with
    | some ((now, p, t), []) =>
      match setNow d p now with
      | none => (d, "bad-op")
      | some d0 =>
        ({ d0 with s := d0.s.step d0.c p (.send t) }, "ok")
    | _ => (d, "bad-op")
  | "release" :: ts =>
    match int ts with
    | some (now, []) =>
      match setNow d noPol now with
      | none => (d, "bad-op")
      | some d0 => ({ d0 with s := d0.s.step d0.c noPol .release }, "ok")
    | _ => (d, "bad-op")
  | "restart" :: ts =>
    match int ts with
    | some (now, []) =>
      match setNow d noPol now with
      | none => (d, "bad-op")
      | some d0 => ({ d0 with s := d0.s.step d0.c noPol .restart }, "ok")
    | _ => (d, "bad-op")
  | "resume" :: ts =>
    match (do let now ← int; let p ← policy; pure (now, p)) ts with
    | some ((now, p), []) =>
      match setNow d p now with
      | none => (d, "bad-op")
      | some d0 => ({ d0 with s := d0.s.step d0.c p .resume }, "ok")
    | _ => (d, "bad-op")
  | "rtimer" :: ts =>
    -- the control loop's wake-up at `now`: due timers move from the heap into the tick buffer
    match int ts with
    | some (now, []) =>
      match setNow d noPol now with
      | none => (d, "bad-op")
      | some d0 =>
        let s1 := d0.s.step d0.c noPol (.run .timer)
        ({ d0 with s := s1 }, match s1.live with | some r => sList sTick r.buf | none => "not-live")
    | _ => (d, "bad-op")
  | ["wake"] =>
    -- the instant the live control loop sleeps until (`next_wakeup_timeout`, absolute)
    match d.s.live with
    | some r => (d, sOptInt r.nextWakeup)
    | none => (d, "not-live")
  | ["rshow"] => (d, sLive d.c.cfg d.s)
  | ["hstate"] => (d, sH d.s)
  | ["islive"] => (d, sBool d.s.live.isSome)
  | ["persisted"] => (d, sList sTick d.s.persisted)
  | ["timers"] =>
    -- the retry / waiter-timeout timers pending in the in-memory heap
    match d.s.live with
    | some r =>
      (d, sList (fun t => s!"{t.at_} {sTick t.tick}")
        (sortTimers (r.heap.filter (fun t => t.tick.isRetryOrWaiterTimer))))
    | none => (d, "not-live")
  | _ => (d, "bad-op")

end Drv.Timers
