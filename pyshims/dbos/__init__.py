"""Name-only import shim for `dbos` (absent from the sandbox).

`llama_agents.dbos.idle_release` imports `DBOS` and calls `DBOS.retrieve_workflow_async` /
`DBOS.delete_workflow_async` inside `_do_resume` (both wrapped in try/except there).  Every method of this
stand-in raises, unless a harness installs a hook in `HOOKS` — no durability, no workflow handles, no `send`/`recv`.
"""
from __future__ import annotations

from typing import Any, Callable

HOOKS: dict[str, Callable[..., Any]] = {}


class DBOSUnavailable(RuntimeError):
    pass


class DBOS:
    @staticmethod
    async def retrieve_workflow_async(workflow_id: str, *a: Any, **kw: Any) -> Any:
        h = HOOKS.get("retrieve_workflow_async")
        if h is None:
            raise DBOSUnavailable("dbos is not available in this sandbox (name-only shim)")
        return await h(workflow_id)

    @staticmethod
    async def delete_workflow_async(workflow_id: str, *a: Any, **kw: Any) -> Any:
        h = HOOKS.get("delete_workflow_async")
        if h is None:
            raise DBOSUnavailable("dbos is not available in this sandbox (name-only shim)")
        return await h(workflow_id)
