import WfModel.Timers
import WfProofs.SerialLemmas
/-!
Helper lemmas for C14 (3): **the clock of a replay does not matter** (for policies that do not
look at elapsed time).

`replay_ticks_stream` reduces every persisted tick at `time.time()` of the replay, not at the time
the tick was processed live.  The only place where the reducer stores its `now` argument in the
state is `first_attempt_at` of a freshly started in-progress entry (`event.first_attempt_at or
now_seconds`).  Two states that agree except for those values (`Sim`) are mapped by every tick — at
any two clocks — to states that again agree except for those values, the emitted commands agree
except for time-derived payloads (`cE`), and `to_serialized` forgets `first_attempt_at` of
in-progress entries altogether, so the reloaded context is the same.
-/
set_option linter.unusedVariables false
namespace Engine

def ipE (ip : InProg) : InProg := { ip with firstAt := 0 }

structure SSim (a b : StepState) : Prop where
  queue : a.queue = b.queue
  collected : a.collected = b.collected
  waiters : a.waiters = b.waiters
  inProg : a.inProg.map ipE = b.inProg.map ipE

def Sim (st st' : State) : Prop := st.isRunning = st'.isRunning ∧ ∀ n, SSim (st.workers n) (st'.workers n)

/-- the policy's decision does not depend on elapsed time -/
def TimeIndep (pol : Policy) : Prop := ∀ s e e' f x, pol s e f x = pol s e' f x

/-- commands up to time-derived payloads (retry info of re-queued events, elapsed seconds in
failure telemetry); exit commands and the crash marker are kept as they are -/
def cE : Cmd → Cmd
  | .queueEvent _ _ _ => .scheduleIdleCheck
  | .publish _ => .scheduleIdleCheck
  | c => c

theorem SSim.rfl' (a : StepState) : SSim a a := ⟨rfl, rfl, rfl, rfl⟩
theorem Sim.rfl' (st : State) : Sim st st := ⟨rfl, fun n => SSim.rfl' _⟩
theorem SSim.symm' {a b : StepState} (h : SSim a b) : SSim b a := ⟨h.1.symm, h.2.symm, h.3.symm, h.4.symm⟩
theorem Sim.symm' {a b : State} (h : Sim a b) : Sim b a := ⟨h.1.symm, fun n => (h.2 n).symm'⟩
theorem SSim.trans' {a b c : StepState} (h : SSim a b) (g : SSim b c) : SSim a c :=
  ⟨h.1.trans g.1, h.2.trans g.2, h.3.trans g.3, h.4.trans g.4⟩
theorem Sim.trans' {a b c : State} (h : Sim a b) (g : Sim b c) : Sim a c :=
  ⟨h.1.trans g.1, fun n => (h.2 n).trans' (g.2 n)⟩

theorem SSim.length {a b : StepState} (h : SSim a b) : a.inProg.length = b.inProg.length := by
  have := congrArg List.length h.inProg
  simpa using this

theorem SSim.isEmpty {a b : StepState} (h : SSim a b) : a.inProg.isEmpty = b.inProg.isEmpty := by
  have := h.length
  cases ha : a.inProg <;> cases hb : b.inProg <;> simp_all

theorem SSim.usedIds {a b : StepState} (h : SSim a b) : usedIds a = usedIds b := by
  have := congrArg (List.map (·.wid)) h.inProg
  simpa [Engine.usedIds, List.map_map, Function.comp_def, ipE] using this

theorem Sim.set {st st' : State} (h : Sim st st') (s : Nat) {a b : StepState} (hab : SSim a b) :
    Sim (st.set s a) (st'.set s b) := by
  refine ⟨h.1, fun n => ?_⟩
  simp only [State.set]
  split
  · exact hab
  · exact h.2 n

/-! ### `_add_or_enqueue_event`, the queue drain, waiter resolution -/

theorem addOrEnqueue_sim (att : Attempt) (step : Nat) {a b : StepState} (nw : Nat) (now now' : Int) (h : SSim a b) :
    SSim (addOrEnqueue att step a nw now).1 (addOrEnqueue att step b nw now').1 ∧
      (addOrEnqueue att step a nw now).2 = (addOrEnqueue att step b nw now').2 := by
  unfold addOrEnqueue
  rw [h.length, show freeIds a nw = freeIds b nw by simp [freeIds, h.usedIds]]
  split
  · split
    · refine ⟨⟨h.queue, h.collected, h.waiters, ?_⟩, rfl⟩
      simp only [List.map_append, h.inProg, List.map_cons, List.map_nil, ipE, h.collected, h.waiters]
    · exact ⟨h, rfl⟩
  · exact ⟨⟨by simp [h.queue], h.collected, h.waiters, h.inProg⟩, rfl⟩

theorem drain_sim (step nw : Nat) (now now' : Int) :
    ∀ (fuel : Nat) {a b : StepState}, SSim a b →
      SSim (drain step nw now fuel a).1 (drain step nw now' fuel b).1 ∧
        (drain step nw now fuel a).2 = (drain step nw now' fuel b).2
  | 0, a, b, h => by simpa [drain] using h
  | fuel + 1, a, b, h => by
    unfold drain
    rw [← h.queue]
    cases hq : a.queue with
    | nil => exact ⟨h, rfl⟩
    | cons x q =>
      simp only
      rw [h.length]
      split
      · have hab : SSim { a with queue := q } { b with queue := q } := ⟨rfl, h.collected, h.waiters, h.inProg⟩
        obtain ⟨h1, c1⟩ := addOrEnqueue_sim x step nw now now' hab
        obtain ⟨h2, c2⟩ := drain_sim step nw now now' fuel h1
        exact ⟨h2, by rw [c1, c2]⟩
      · exact ⟨h, rfl⟩

theorem resolveLoop_sim (ev : Ev) (step nw : Nat) (now now' : Int) :
    ∀ (rest done : List Waiter) {a b : StepState} (cmds : List Cmd) (hd : Bool), SSim a b →
      SSim (resolveLoop ev step nw now done rest a cmds hd).1 (resolveLoop ev step nw now' done rest b cmds hd).1 ∧
        (resolveLoop ev step nw now done rest a cmds hd).2 = (resolveLoop ev step nw now' done rest b cmds hd).2
  | [], done, a, b, cmds, hd, h => by
    simp only [resolveLoop, and_true]
    exact ⟨h.queue, h.collected, rfl, h.inProg⟩
  | x :: rest, done, a, b, cmds, hd, h => by
    unfold resolveLoop
    split
    · have hab : SSim { a with waiters := done ++ { x with resolved := some ev } :: rest }
          { b with waiters := done ++ { x with resolved := some ev } :: rest } := ⟨h.queue, h.collected, rfl, h.inProg⟩
      obtain ⟨h1, c1⟩ := addOrEnqueue_sim { ev := x.ev } step nw now now' hab
      simp only [c1]
      exact resolveLoop_sim ev step nw now now' rest _ _ true h1
    · exact resolveLoop_sim ev step nw now now' rest _ cmds hd h

/-! ### `_process_add_event_tick` -/

structure AccSim (a b : AddAcc) : Prop where
  st : Sim a.st b.st
  cmds : a.cmds = b.cmds
  handled : a.handled = b.handled
  woken : a.woken = b.woken

theorem addEventWaiters_sim (cfg : Cfg) (ev : Ev) (target : Option Nat) (now now' : Int) :
    ∀ (cs : List StepCfg) {a b : AddAcc}, AccSim a b →
      AccSim (addEventWaiters cfg ev target now cs a) (addEventWaiters cfg ev target now' cs b)
  | [], a, b, h => by simpa [addEventWaiters] using h
  | c :: cs, a, b, h => by
    unfold addEventWaiters
    split
    · exact addEventWaiters_sim cfg ev target now now' cs h
    · simp only []
      have hs := h.st.2 c.name
      obtain ⟨h1, c1⟩ := resolveLoop_sim ev c.name c.numWorkers now now' (a.st.workers c.name).waiters [] [] false hs
      rw [← hs.waiters]
      apply addEventWaiters_sim cfg ev target now now' cs
      rw [c1]
      split
      · exact ⟨h.st.set c.name h1, by rw [h.cmds], rfl, by rw [h.woken]⟩
      · exact h

theorem addEventRoute_sim (att : Attempt) (target : Option Nat) (now now' : Int) :
    ∀ (cs : List StepCfg) {a b : AddAcc}, AccSim a b →
      AccSim (addEventRoute att target now cs a) (addEventRoute att target now' cs b)
  | [], a, b, h => by simpa [addEventRoute] using h
  | c :: cs, a, b, h => by
    unfold addEventRoute
    rw [← h.woken]
    split
    · exact addEventRoute_sim att target now now' cs h
    · split
      · obtain ⟨h1, c1⟩ := addOrEnqueue_sim att c.name c.numWorkers now now' (h.st.2 c.name)
        apply addEventRoute_sim att target now now' cs
        exact ⟨h.st.set c.name h1, by rw [h.cmds, c1], rfl, rfl⟩
      · exact addEventRoute_sim att target now now' cs h

theorem checkIdle_sim (cfg : Cfg) {st st' : State} (h : Sim st st') : checkIdle cfg st = checkIdle cfg st' := by
  unfold checkIdle
  rw [h.1]
  congr 1
  apply List.all_congr rfl
  intro s
  simp only [stepQuiet, (h.2 s).queue, (h.2 s).isEmpty]

theorem processAddEvent_sim (cfg : Cfg) (att : Attempt) (target : Option Nat) {st st' : State} (now now' : Int)
    (h : Sim st st') :
    Sim (processAddEvent cfg att target st now).1 (processAddEvent cfg att target st' now').1 ∧
      (processAddEvent cfg att target st now).2 = (processAddEvent cfg att target st' now').2 := by
  have h0 : AccSim { st := addEventStart att st } { st := addEventStart att st' } := by
    refine ⟨?_, rfl, rfl, rfl⟩
    unfold addEventStart
    split
    · exact ⟨rfl, h.2⟩
    · exact h
  have h1 := addEventWaiters_sim cfg att.ev target now now' cfg.steps h0
  have h2 := addEventRoute_sim att target now now' cfg.steps h1
  simp only [processAddEvent]
  refine ⟨h2.st, ?_⟩
  rw [h2.cmds]
  congr 1
  unfold unhandledCmds
  rw [h2.handled, checkIdle_sim cfg h2.st]


/-! ### `_process_step_result_tick` -/

theorem ipE_eq {x y : InProg} (h : ipE x = ipE y) :
    x.ev = y.ev ∧ x.wid = y.wid ∧ x.snapEvents = y.snapEvents ∧ x.snapWaiters = y.snapWaiters ∧
      x.attempts = y.attempts ∧ x.lastExc = y.lastExc ∧ x.lastFailedAt = y.lastFailedAt ∧ x.rc = y.rc := by
  simp only [ipE, InProg.mk.injEq] at h
  obtain ⟨h1, h2, h3, h4, h5, _, h6, h7, h8⟩ := h
  exact ⟨h1, h2, h3, h4, h5, h6, h7, h8⟩

structure RSim (a b : ResAcc) : Prop where
  st : Sim a.st b.st
  cmds : a.cmds.map cE = b.cmds.map cE
  out : a.out = b.out
  still : a.stillInProgress = b.stillInProgress
  exec : ipE a.exec = ipE b.exec

theorem retryDecision_indep {pol : Policy} (hp : TimeIndep pol) (cfg : Cfg) (step : Nat) (e e' : Int) (f x : Nat) :
    retryDecision cfg pol step e f x = retryDecision cfg pol step e' f x := by
  unfold retryDecision
  split
  · split
    · exact hp _ _ _ _ _
    · rfl
  · rfl

theorem clearAll_sim {st st' : State} (h : Sim st st') :
    Sim (clearAll { st with isRunning := false }) (clearAll { st' with isRunning := false }) := by
  refine ⟨rfl, fun n => ?_⟩
  have := h.2 n
  exact ⟨this.queue, rfl, rfl, this.inProg⟩

theorem applyRes_sim (cfg : Cfg) {pol : Policy} (hp : TimeIndep pol) (step : Nat) (tickEv : Ev) (dc : Bool)
    {a b : ResAcc} (h : RSim a b) (res : Res) :
    RSim (applyRes cfg pol step tickEv dc a res) (applyRes cfg pol step tickEv dc b res) := by
  obtain ⟨e1, e2, e3, e4, e5, e6, e7, e8⟩ := ipE_eq h.exec
  have hs := h.st.2 step
  cases res with
  | result r =>
    cases r with
    | none => exact ⟨h.st, h.cmds, rfl, h.still, h.exec⟩
    | some ev =>
      simp only [applyRes]
      split
      · exact ⟨clearAll_sim h.st, by simp [List.map_append, h.cmds], rfl, h.still, h.exec⟩
      · exact ⟨h.st, by simp [List.map_append, h.cmds, cE], rfl, h.still, h.exec⟩
  | failed exc failedAt =>
    simp only [applyRes]
    rw [retryDecision_indep hp cfg step (failedAt - a.exec.firstAt) (failedAt - b.exec.firstAt), e5]
    cases retryDecision cfg pol step (failedAt - b.exec.firstAt) (b.exec.attempts + 1) exc with
    | retry d => exact ⟨h.st, by simp [List.map_append, h.cmds, cE], h.out, h.still, h.exec⟩
    | raise => exact ⟨h.st, by simp [List.map_append, h.cmds, cE], h.out, h.still, h.exec⟩
    | stop =>
      simp only
      cases handlerOwner cfg step with
      | none =>
        exact ⟨⟨rfl, h.st.2⟩, by simp [List.map_append, h.cmds, cE], h.out, h.still, h.exec⟩
      | some hm =>
        obtain ⟨hh, maxRec⟩ := hm
        simp only [e8]
        split
        · exact ⟨h.st, by simp [List.map_append, h.cmds, cE], h.out, h.still, h.exec⟩
        · exact ⟨⟨rfl, h.st.2⟩, by simp [List.map_append, h.cmds, cE], h.out, h.still, h.exec⟩
  | addCollected buf ev =>
    simp only [applyRes, hs.collected, e3, e2, h.still]
    split
    · exact h
    split
    · refine ⟨h.st.set step ⟨hs.queue, rfl, hs.waiters, hs.inProg⟩, by simp [List.map_append, h.cmds, cE], h.out, rfl, ?_⟩
      simp only [ipE, InProg.mk.injEq, e1, e2, e4, e5, e6, e7, e8, and_self]
    · exact ⟨h.st.set step ⟨hs.queue, rfl, hs.waiters, hs.inProg⟩, h.cmds, h.out, rfl, h.exec⟩
  | deleteCollected buf =>
    simp only [applyRes]
    split
    · exact ⟨h.st.set step ⟨hs.queue, by rw [hs.collected], hs.waiters, hs.inProg⟩, h.cmds, h.out, h.still, h.exec⟩
    · exact h
  | addWaiter wid waiterEv req timeout ty =>
    simp only [applyRes, hs.waiters, e1]
    split
    · exact ⟨h.st.set step ⟨hs.queue, hs.collected, rfl, hs.inProg⟩, h.cmds, h.out, h.still, h.exec⟩
    · exact ⟨h.st.set step ⟨hs.queue, hs.collected, rfl, hs.inProg⟩, by simp [List.map_append, h.cmds], h.out, h.still, h.exec⟩
  | deleteWaiter wid =>
    simp only [applyRes]
    split
    · exact ⟨h.st.set step ⟨hs.queue, hs.collected, by rw [hs.waiters], hs.inProg⟩, h.cmds, h.out, h.still, h.exec⟩
    · exact h

theorem foldl_applyRes_sim (cfg : Cfg) {pol : Policy} (hp : TimeIndep pol) (step : Nat) (tickEv : Ev) (dc : Bool) :
    ∀ (res : List Res) {a b : ResAcc}, RSim a b →
      RSim (res.foldl (applyRes cfg pol step tickEv dc) a) (res.foldl (applyRes cfg pol step tickEv dc) b)
  | [], a, b, h => h
  | r :: rs, a, b, h => foldl_applyRes_sim cfg hp step tickEv dc rs (applyRes_sim cfg hp step tickEv dc h r)


theorem map_modifyFirst_ipE (k : Nat) (e : InProg) : ∀ (l : List InProg),
    (modifyFirst (fun w => w.wid == k) (fun _ => e) l).map ipE =
      modifyFirst (fun w => w.wid == k) (fun _ => ipE e) (l.map ipE)
  | [] => rfl
  | x :: xs => by
    simp only [modifyFirst, List.map_cons]
    have : (ipE x).wid = x.wid := rfl
    rw [this]
    split
    · simp
    · simp [map_modifyFirst_ipE k e xs]

theorem map_eraseP_ipE (k : Nat) (l : List InProg) :
    (l.eraseP (fun w => w.wid == k)).map ipE = (l.map ipE).eraseP (fun w => w.wid == k) := by
  rw [List.eraseP_map]
  rfl

theorem cE_isExit (c : Cmd) : (cE c).isExit = c.isExit := by cases c <;> rfl

theorem any_isExit_cE (cmds : List Cmd) : cmds.any Cmd.isExit = (cmds.map cE).any Cmd.isExit := by
  simp [List.any_map, Function.comp_def, cE_isExit]

theorem settle_sim {a b : ResAcc} (h : RSim a b) (step worker : Nat) (tickEv : Ev) :
    SSim (settle a step worker tickEv).1 (settle b step worker tickEv).1 ∧
      (settle a step worker tickEv).2.map cE = (settle b step worker tickEv).2.map cE := by
  have hs := h.st.2 step
  unfold settle
  rw [h.still]
  split
  · refine ⟨⟨hs.queue, hs.collected, hs.waiters, ?_⟩, h.cmds⟩
    simp only [map_modifyFirst_ipE, hs.inProg, h.exec]
  · refine ⟨⟨hs.queue, hs.collected, hs.waiters, ?_⟩, ?_⟩
    · simp only [map_eraseP_ipE, hs.inProg]
    · simp [h.cmds, h.out, cE]

theorem processStepResult_sim (cfg : Cfg) {pol : Policy} (hp : TimeIndep pol) (step worker : Nat) (tickEv : Ev)
    (res : List Res) {st st' : State} (now now' : Int) (h : Sim st st') :
    Sim (processStepResult cfg pol step worker tickEv res st now).1
        (processStepResult cfg pol step worker tickEv res st' now').1 ∧
      (processStepResult cfg pol step worker tickEv res st now).2.map cE =
        (processStepResult cfg pol step worker tickEv res st' now').2.map cE := by
  unfold processStepResult
  split
  · exact ⟨h, rfl⟩
  · have hs := h.2 step
    have hf : ((st.workers step).inProg.find? (fun w => w.wid == worker)).map ipE =
        ((st'.workers step).inProg.find? (fun w => w.wid == worker)).map ipE := by
      have := congrArg (List.find? (fun w : InProg => w.wid == worker)) hs.inProg
      simpa [List.find?_map, Function.comp_def, ipE] using this
    cases h1 : (st.workers step).inProg.find? (fun w => w.wid == worker) with
    | none =>
      rw [h1] at hf
      cases h2 : (st'.workers step).inProg.find? (fun w => w.wid == worker) with
      | none => exact ⟨h, rfl⟩
      | some y => rw [h2] at hf; simp at hf
    | some x =>
      rw [h1] at hf
      cases h2 : (st'.workers step).inProg.find? (fun w => w.wid == worker) with
      | none => rw [h2] at hf; simp at hf
      | some y =>
        rw [h2] at hf
        simp only [Option.map_some, Option.some.injEq] at hf
        simp only
        have hacc := foldl_applyRes_sim cfg hp step tickEv (res.any isResult) res
          (a := { st := st, exec := x }) (b := { st := st', exec := y }) ⟨h, rfl, rfl, rfl, hf⟩
        obtain ⟨hset, hcm⟩ := settle_sim hacc step worker tickEv
        rw [any_isExit_cE, hacc.cmds, ← any_isExit_cE]
        split
        · exact ⟨hacc.st.set step hset, hcm⟩
        · rw [hset.queue]
          obtain ⟨hd, hdc⟩ := drain_sim step (cfg.nw step) now now'
            (settle (res.foldl (applyRes cfg pol step tickEv (res.any isResult)) { st := st', exec := y }) step worker tickEv).1.queue.length hset
          exact ⟨hacc.st.set step hd, by simp [List.map_append, hcm, hdc]⟩

theorem processWaiterTimeout_sim (cfg : Cfg) (step waiter : Nat) {st st' : State} (now now' : Int) (h : Sim st st') :
    Sim (processWaiterTimeout cfg step waiter st now).1 (processWaiterTimeout cfg step waiter st' now').1 ∧
      (processWaiterTimeout cfg step waiter st now).2 = (processWaiterTimeout cfg step waiter st' now').2 := by
  have hs := h.2 step
  unfold processWaiterTimeout
  split
  · exact ⟨h, rfl⟩
  · simp only [← hs.waiters]
    cases (st.workers step).waiters.find? (fun w => w.wid == waiter) with
    | none => exact ⟨h, rfl⟩
    | some w =>
      simp only
      split
      · exact ⟨h, rfl⟩
      · have hab : SSim { st.workers step with waiters := modifyFirst (fun x => x.wid == waiter) (fun x => { x with timedOut := true }) (st.workers step).waiters }
            { st'.workers step with waiters := modifyFirst (fun x => x.wid == waiter) (fun x => { x with timedOut := true }) (st.workers step).waiters } :=
          ⟨hs.queue, hs.collected, rfl, hs.inProg⟩
        obtain ⟨h1, c1⟩ := addOrEnqueue_sim { ev := w.ev } step (cfg.nw step) now now' hab
        exact ⟨h.set step h1, c1⟩

/-- **one tick, two clocks** -/
theorem reduce_sim (cfg : Cfg) {pol : Policy} (hp : TimeIndep pol) (t : Tick) {st st' : State} (now now' : Int)
    (h : Sim st st') :
    Sim (reduce cfg pol t st now).1 (reduce cfg pol t st' now').1 ∧
      (reduce cfg pol t st now).2.map cE = (reduce cfg pol t st' now').2.map cE := by
  have wi : ∀ {r r' : State × List Cmd}, Sim r.1 r'.1 → r.2.map cE = r'.2.map cE →
      Sim (if checkIdle cfg r.1 then (r.1, r.2 ++ [Cmd.scheduleIdleCheck]) else r).1
          (if checkIdle cfg r'.1 then (r'.1, r'.2 ++ [Cmd.scheduleIdleCheck]) else r').1 ∧
        (if checkIdle cfg r.1 then (r.1, r.2 ++ [Cmd.scheduleIdleCheck]) else r).2.map cE =
          (if checkIdle cfg r'.1 then (r'.1, r'.2 ++ [Cmd.scheduleIdleCheck]) else r').2.map cE := by
    intro r r' hs hc
    rw [checkIdle_sim cfg hs]
    split
    · exact ⟨hs, by simp [List.map_append, hc]⟩
    · exact ⟨hs, hc⟩
  cases t with
  | stepResult s w e rs =>
    obtain ⟨h1, c1⟩ := processStepResult_sim cfg hp s w e rs now now' h
    exact wi h1 c1
  | addEvent att tgt =>
    obtain ⟨h1, c1⟩ := processAddEvent_sim cfg att tgt now now' h
    exact wi h1 (by rw [c1])
  | cancelRun => exact wi (r := (st, _)) (r' := (st', _)) h rfl
  | idleRelease => exact ⟨h, rfl⟩
  | publish ev => exact wi (r := (st, _)) (r' := (st', _)) h rfl
  | timeout tt =>
    have ha : activeSteps cfg st = activeSteps cfg st' := by
      unfold activeSteps
      apply List.filter_congr
      intro s _
      rw [(h.2 s).isEmpty]
    exact wi (r := ({ st with isRunning := false }, _)) (r' := ({ st' with isRunning := false }, _)) ⟨rfl, h.2⟩ (by simp [ha])
  | waiterTimeout s w =>
    obtain ⟨h1, c1⟩ := processWaiterTimeout_sim cfg s w now now' h
    exact wi h1 (by rw [c1])
  | idleCheck =>
    simp only [reduce]
    rw [checkIdle_sim cfg h]
    split <;> exact ⟨h, rfl⟩


/-! ### whole replays, the serialised form -/

theorem cE_crash (c : Cmd) : (cE c == Cmd.crash) = (c == Cmd.crash) := by cases c <;> rfl

theorem contains_crash_cE : ∀ (cmds : List Cmd), cmds.contains .crash = (cmds.map cE).contains .crash
  | [] => rfl
  | c :: cs => by
    simp only [List.map_cons, List.contains_cons]
    rw [contains_crash_cE cs]
    have h1 : (Cmd.crash == c) = (c == Cmd.crash) := by cases c <;> rfl
    have h2 : (Cmd.crash == cE c) = (cE c == Cmd.crash) := by cases c <;> rfl
    rw [h1, h2, cE_crash]

theorem cE_exit_id {c : Cmd} (h : c.isExit = true) : cE c = c := by cases c <;> simp_all [Cmd.isExit, cE]

theorem lastExitOf_cE (cmds : List Cmd) : lastExitOf cmds = lastExitOf (cmds.map cE) := by
  unfold lastExitOf
  rw [List.filter_map]
  have : (Cmd.isExit ∘ cE) = Cmd.isExit := funext cE_isExit
  rw [this, map_eq_self cE _ (fun c hc => cE_exit_id (List.mem_filter.mp hc).2)]

/-- **a whole replay, two clocks**: both raise or neither does; the rebuilt states agree up to
`first_attempt_at` of in-progress entries and the remembered exit command is the same -/
theorem tmReplayFrom_sim (cfg : Cfg) {pol : Policy} (hp : TimeIndep pol) (now now' : Int) :
    ∀ (l : List Tick) {st st' : State} (ex : Option Cmd), Sim st st' →
      match tmReplayFrom cfg pol now l (st, ex), tmReplayFrom cfg pol now' l (st', ex) with
      | some (a, e), some (b, e') => Sim a b ∧ e = e'
      | none, none => True
      | _, _ => False
  | [], st, st', ex, h => by simpa [tmReplayFrom] using h
  | t :: l, st, st', ex, h => by
    obtain ⟨h1, c1⟩ := reduce_sim cfg hp t now now' h
    simp only [tmReplayFrom]
    rw [contains_crash_cE, c1, ← contains_crash_cE, lastExitOf_cE, c1, ← lastExitOf_cE]
    by_cases hc : (reduce cfg pol t st' now').2.contains Cmd.crash = true
    · simp only [hc, if_true]
    · simp only [hc, if_false]
      exact tmReplayFrom_sim cfg hp now now' l _ h1

theorem rewindLoop_empty (now : Int) :
    ∀ (cs : List StepCfg) (st : State) (cmds : List Cmd), (∀ n, st.workers n = {}) →
      (∀ n, (rewindLoop now cs st cmds).1.workers n = {}) ∧ (rewindLoop now cs st cmds).1.isRunning = st.isRunning
  | [], st, cmds, h => by simpa [rewindLoop] using h
  | c :: cs, st, cmds, h => by
    unfold rewindLoop
    have hstep : rewindStep c (st.workers c.name) now = ({}, []) := by simp [rewindStep, h c.name, drain]
    simp only [hstep]
    have := rewindLoop_empty now cs (st.set c.name {}) (cmds ++ []) (by
      intro n; simp only [State.set]; split <;> simp [h n])
    exact this

/-- the start of every replay (`rewind_in_progress` of `BrokerState.from_workflow`) is the same
state at every clock -/
theorem rewind_init_sim (cfg : Cfg) (now now' : Int) :
    Sim (rewind cfg initState now).1 (rewind cfg initState now').1 := by
  obtain ⟨h1, r1⟩ := rewindLoop_empty now (sortedSteps cfg) initState [] (fun _ => rfl)
  obtain ⟨h2, r2⟩ := rewindLoop_empty now' (sortedSteps cfg) initState [] (fun _ => rfl)
  refine ⟨by simp only [rewind, r1, r2], fun n => ?_⟩
  simp only [rewind, h1 n, h2 n]
  exact SSim.rfl' _

theorem tmReplayAt_sim (cfg : Cfg) {pol : Policy} (hp : TimeIndep pol) (ticks : List Tick) (now now' : Int) :
    match tmReplayAt cfg pol ticks now, tmReplayAt cfg pol ticks now' with
    | some (a, e), some (b, e') => Sim a b ∧ e = e'
    | none, none => True
    | _, _ => False :=
  tmReplayFrom_sim cfg hp now now' ticks none (rewind_init_sim cfg now now')

/-- `to_serialized` writes in-progress invocations as bare events: the reloaded context does not
see `first_attempt_at` -/
theorem roundtrip_sim (cfg : Cfg) {st st' : State} (h : Sim st st') : roundtrip cfg st = roundtrip cfg st' := by
  have hser : ser cfg st = ser cfg st' := by
    simp only [ser, h.1, SerState.mk.injEq, true_and]
    apply List.map_congr_left
    intro s _
    have hs := h.2 s
    have hip : (st.workers s).inProg.map (·.ev) = (st'.workers s).inProg.map (·.ev) := by
      have := congrArg (List.map (·.ev)) hs.inProg
      simpa [List.map_map, Function.comp_def, ipE] using this
    simp only [serStep, hs.queue, hs.collected, hs.waiters, hip]
  simp only [roundtrip, hser]


/-! ### the live run against its own log -/

/-- replay with a clock per tick (the live run reduced every tick at the time it was processed) -/
def replayRec (cfg : Cfg) (pol : Policy) : List (Tick × Int) → State × Option Cmd → Option (State × Option Cmd)
  | [], acc => some acc
  | (t, n) :: ts, acc =>
    let r := reduce cfg pol t acc.1 n
    if r.2.contains .crash then none
    else replayRec cfg pol ts (r.1, match lastExitOf r.2 with | some c => some c | none => acc.2)

theorem tmReplayFrom_eq_replayRec (cfg : Cfg) (pol : Policy) (now : Int) :
    ∀ (l : List Tick) (acc : State × Option Cmd),
      tmReplayFrom cfg pol now l acc = replayRec cfg pol (l.map (fun t => (t, now))) acc
  | [], acc => rfl
  | t :: l, acc => by
    simp only [tmReplayFrom, List.map_cons, replayRec]
    split
    · rfl
    · exact tmReplayFrom_eq_replayRec cfg pol now l _

theorem replayRec_sim (cfg : Cfg) {pol : Policy} (hp : TimeIndep pol) :
    ∀ (l l' : List (Tick × Int)) {st st' : State} (ex : Option Cmd), l.map (·.1) = l'.map (·.1) → Sim st st' →
      match replayRec cfg pol l (st, ex), replayRec cfg pol l' (st', ex) with
      | some (a, e), some (b, e') => Sim a b ∧ e = e'
      | none, none => True
      | _, _ => False
  | [], [], st, st', ex, _, h => by simpa [replayRec] using h
  | [], _ :: _, _, _, _, hl, _ => by simp at hl
  | _ :: _, [], _, _, _, hl, _ => by simp at hl
  | (t, n) :: l, (t', n') :: l', st, st', ex, hl, h => by
    simp only [List.map_cons, List.cons.injEq] at hl
    obtain ⟨ht, hl⟩ := hl
    subst ht
    obtain ⟨h1, c1⟩ := reduce_sim cfg hp t n n' h
    simp only [replayRec]
    rw [contains_crash_cE, c1, ← contains_crash_cE, lastExitOf_cE, c1, ← lastExitOf_cE]
    by_cases hc : (reduce cfg pol t st' n').2.contains Cmd.crash = true
    · simp only [hc, if_true]
    · simp only [hc, if_false]
      exact replayRec_sim cfg hp l l' _ hl h1

theorem replayRec_snoc (cfg : Cfg) (pol : Policy) (t : Tick) (n : Int) :
    ∀ (l : List (Tick × Int)) (acc : State × Option Cmd),
      replayRec cfg pol (l ++ [(t, n)]) acc = (replayRec cfg pol l acc).bind (replayRec cfg pol [(t, n)])
  | [], acc => by simp [replayRec]
  | (t', n') :: l, acc => by
    simp only [List.cons_append, replayRec]
    split
    · simp
    · exact replayRec_snoc cfg pol t n l _

theorem execCmd_outcome_some (r : Runner) (c : Cmd) (h : r.outcome.isSome = true) : (execCmd r c).outcome.isSome = true := by
  cases c with
  | queueEvent att step delay =>
    cases delay with
    | none => exact h
    | some d => simp only [execCmd]; split <;> exact h
  | scheduleIdleCheck => simp only [execCmd]; split <;> exact h
  | runWorker _ _ _ => exact h
  | publish _ => exact h
  | scheduleWaiterTimeout _ _ _ => exact h
  | halt _ => rfl
  | completeRun _ => rfl
  | failWorkflow _ _ => rfl
  | crash => rfl

/-- a batch of commands that leaves the run without outcome contained no exit command -/
theorem execCmds_outcome_none : ∀ (cmds : List Cmd) (r : Runner), (execCmds r cmds).outcome = none →
    lastExitOf cmds = none
  | [], r, _ => rfl
  | c :: cs, r, h => by
    simp only [execCmds] at h
    split at h
    · rename_i hs; rw [h] at hs; cases hs
    · rename_i hs
      have hc : c.isExit = false := by
        cases c <;> simp_all [execCmd, Runner.finish, Cmd.isExit]
      have := execCmds_outcome_none cs _ h
      simp only [lastExitOf, List.filter_cons, hc] at this ⊢
      simpa using this

/-- as long as the live run has no outcome, reducing its log tick by tick (each at its recorded
time) from the rewound initial state reproduces its state, never raises and meets no exit command -/
def LogInv (cfg : Cfg) (pol : Policy) (base : State) (r : Runner) : Prop :=
  r.outcome = none → replayRec cfg pol r.log (base, none) = some (r.st, none)

theorem execCmd_st_log' (r : Runner) (c : Cmd) : (execCmd r c).st = r.st ∧ (execCmd r c).log = r.log := by
  cases c with
  | queueEvent att step delay =>
    cases delay with
    | none => exact ⟨rfl, rfl⟩
    | some d => simp only [execCmd]; split <;> exact ⟨rfl, rfl⟩
  | scheduleIdleCheck => simp only [execCmd]; split <;> exact ⟨rfl, rfl⟩
  | _ => exact ⟨rfl, rfl⟩

theorem execCmds_st_log' : ∀ (cmds : List Cmd) (r : Runner),
    (execCmds r cmds).st = r.st ∧ (execCmds r cmds).log = r.log
  | [], r => by simp [execCmds]
  | c :: cs, r => by
    simp only [execCmds]
    split
    · exact execCmd_st_log' r c
    · have h1 := execCmd_st_log' r c
      have h2 := execCmds_st_log' cs (execCmd r c)
      exact ⟨h2.1.trans h1.1, h2.2.trans h1.2⟩

theorem step_logInv (cfg : Cfg) (pol : Policy) (base : State) (r : Runner) (a : Act)
    (h : LogInv cfg pol base r) : LogInv cfg pol base (r.step cfg pol a) := by
  unfold Runner.step
  split
  · exact h
  · rename_i hout
    have hnone : r.outcome = none := by cases ho : r.outcome <;> simp_all
    cases a with
    | drain =>
      simp only
      cases hb : r.buf with
      | nil => simpa using h
      | cons t rest =>
        simp only
        split
        · intro hc; simp [Runner.finish] at hc
        · rename_i hcr
          intro ho
          have hsl := execCmds_st_log' (reduce cfg pol t r.st r.now).2
            { r with buf := rest, idlePending := (if t = Tick.idleCheck then false else r.idlePending),
                     st := (reduce cfg pol t r.st r.now).1, log := r.log ++ [(t, r.now)] }
          have hex := execCmds_outcome_none _ _ ho
          rw [hsl.1, hsl.2]
          simp only
          rw [replayRec_snoc, h hnone]
          simp only [Option.bind_some, replayRec, hex]
          rw [if_neg hcr]
    | workerDone s w res =>
      simp only
      split
      · exact h
      · split <;> exact h
    | pull =>
      simp only
      split
      · exact h
      · split <;> exact h
    | timer => simp only; split <;> exact h
    | advance dt => exact h
    | external t => simp only; split <;> exact h
    | stepWrite p => exact h

theorem init_logInv (cfg : Cfg) (pol : Policy) (st0 : State) (now : Int) (start : Option Ev) (timeout : Option Nat) :
    LogInv cfg pol (rewind cfg st0 now).1 (Runner.init cfg st0 now start timeout) := by
  intro _
  unfold Runner.init
  cases timeout with
  | none =>
    simp only
    rw [(execCmds_st_log' _ _).1, (execCmds_st_log' _ _).2]
    rfl
  | some t =>
    simp only
    rw [(execCmds_st_log' _ _).1, (execCmds_st_log' _ _).2]
    rfl

theorem run_logInv (cfg : Cfg) (pol : Policy) (base : State) : ∀ (acts : List Act) (r : Runner),
    LogInv cfg pol base r → LogInv cfg pol base (Runner.run cfg pol r acts)
  | [], r, h => h
  | a :: as, r, h => by
    simp only [Runner.run, List.foldl_cons]
    exact run_logInv cfg pol base as _ (step_logInv cfg pol base r a h)

end Engine
