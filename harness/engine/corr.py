"""Correspondence of live runs: every reducer call the real runner made is
replayed, in order, on the Lean model; canonical command lists and states must
agree line by line."""
from __future__ import annotations

from typing import Any

from . import enc
from .direct import oracle_tokens
from .live import Trace


def live_lines(tr: Trace) -> tuple[list[str], list[str]]:
    ops: list[str] = []
    outs: list[str] = []
    started = False
    for c in tr.calls:
        if c.caller not in ("run", "_process_tick"):
            continue  # replays through rebuild_state_from_ticks are checked by the C11 monitor
        if c.kind == "rewind":
            ops.append("cfg " + enc.cfg(c.before))
            outs.append("ok")
            ops.append("state " + enc.state(c.before))
            outs.append(enc.state(c.before))
            ops.append(f"rewind {enc.num(c.now)}")
            outs.append(enc.result_line(c.after, c.cmds))
            started = True
            continue
        if not started:
            continue
        ops.append(f"reduce {enc.num(c.now)} {oracle_tokens(c.oracle)} {enc.tick(c.tick)}")
        outs.append("crash" if c.error is not None else enc.result_line(c.after, c.cmds))
    return ops, outs


def _summary(info: dict, stream_len: int) -> str:
    heap = [f"{enc.num(t)} {seq} {enc.tick(tk)}" for (t, seq, tk) in info["heap"]]
    workers = sorted([(int(enc.step_id(s)), w) for (s, w) in list(info["running_workers"]) + list(info["pending_workers"])])
    return "B %s H %s R %s S %d P %d O running" % (
        enc.lst([enc.tick(t) for t in info["buffer"]]), enc.lst(heap), enc.lst([f"{a} {b}" for a, b in workers]),
        stream_len, 1 if info["idle_pending"] else 0)


def outcome_str(tr: Trace) -> str | None:
    from workflows.errors import WorkflowCancelledByUser, WorkflowTimeoutError
    from . import evtypes as ET

    kind, val = tr.outcome
    if kind == "result":
        ev = tr.handler.get_stop_event() if tr.handler is not None else None
        return "completed " + enc.pub(ev) if ev is not None else None
    if kind == "cancelled":
        return "halted cancelled"
    if kind == "timeout":
        return "halted timeout"
    if kind == "error":
        if isinstance(val, ET.Boom):
            return "failed"
        return "error"
    return None


def _lifecycle(tr: Trace, upto_idx: int | None = None) -> str:
    """the StepStateChanged events the runner wrote to the stream (in order), optionally only those written before
    `upto_idx` reducer calls had been made"""
    from workflows.events import StepStateChanged

    return enc.lst([enc.pub(e) for (e, _t, idx, origin) in tr.stream
                    if origin == "runner" and isinstance(e, StepStateChanged) and (upto_idx is None or idx <= upto_idx)])


def runner_lines(tr: Trace, lifecycle: bool = False) -> tuple[list[str], list[str]]:
    """The whole run as runner-LTS actions; expected outputs from the implementation's
    recorded runner internals (buffer, timer heap, workers, stream length) at every tick.
    `lifecycle` (C35): additionally compare the CONTENT of the lifecycle telemetry on the stream -- right after
    start-up (what the rewind of a fresh / restored state announces) and after the last processed tick."""
    from workflows.runtime.types import ticks as T

    ops: list[str] = []
    outs: list[str] = []
    calls = [c for c in tr.calls if c.caller in ("run", "_process_tick")]
    if not calls or calls[0].kind != "rewind":
        return ops, outs
    first = calls[0]
    timeout = tr.spec.get("timeout")
    ops.append("cfg " + enc.cfg(first.before)); outs.append("ok")
    ops.append("state " + enc.state(first.before)); outs.append(enc.state(first.before))
    start = tr.start_event
    ops.append("rinit %s %s %s" % (enc.num(first.now), enc.opt_ev(start), enc.num(timeout)))
    outs.append("ok")
    if lifecycle:
        ops.append("rlife"); outs.append(_lifecycle(tr, upto_idx=tr.calls.index(first) + 1))
    puts = list(tr.puts)
    issued = 0
    # ctx.send_event calls of scripted steps: event object -> (sending step, its worker id)
    sends = {id(rec[5]["obj"]): (rec[1], rec[5]["wid"]) for rec in tr.steps
             if rec[0] == "sent" and rec[5].get("obj") is not None and rec[5].get("wid") is not None}
    step_writes = [(e, idx) for (e, _t, idx, origin) in tr.stream if origin == "step"]
    sw = 0
    all_calls_index = {id(c): i for i, c in enumerate(tr.calls)}
    # worker tasks that ended CANCELLED while the run went on (script op self_cancel): no tick; the model's `wgone` takes the
    # worker out of the task set where the real runner is seen without it (state, buffer and log must not move: compared below)
    gone = [(rec[1], rec[5].get("wid"), rec[5].get("at_call", 0)) for rec in tr.steps if rec[0] == "self_cancel" and rec[5].get("wid") is not None]
    for c in calls[1:]:
        k = all_calls_index[id(c)]
        for g in list(gone):
            if g[2] <= k and (g[0], g[1]) not in list(c.runner.get("running_workers", [])) + list(c.runner.get("pending_workers", [])):
                ops.append("wgone %s %d" % (enc.step_id(g[0]), g[1])); outs.append("ok")
                gone.remove(g)
        # step-side stream writes that happened before this reducer call
        while sw < len(step_writes) and step_writes[sw][1] <= k:
            ops.append("swrite " + enc.ev(step_writes[sw][0])); outs.append("ok")
            sw += 1
        while issued < len(puts) and puts[issued][1] <= k:
            snd = sends.get(id(getattr(puts[issued][0], "event", None))) if puts[issued][2] == "internal" else None
            if snd is not None and isinstance(puts[issued][0], T.TickAddEvent):
                # a running invocation called ctx.send_event: the model derives the tick (its recovery counts) from the
                # invocation's in-progress entry; the implementation's tick must be that tick
                ops.append("ssend %s %d %s %s" % (enc.step_id(snd[0]), snd[1], enc.step_id(puts[issued][0].step_name), enc.ev(puts[issued][0].event)))
                outs.append(enc.tick(puts[issued][0]))
            else:
                ops.append("ext " + enc.tick(puts[issued][0])); outs.append("ok")
            issued += 1
        tk = c.tick
        if isinstance(tk, T.TickStepResult):
            hint = "HW %s %d %s" % (enc.step_id(tk.step_name), tk.worker_id, enc.lst([enc.res(r) for r in tk.result]))
        elif any(tk is p[0] for p in puts):
            hint = "HP"
        elif isinstance(tk, (T.TickTimeout, T.TickWaiterTimeout)) or (isinstance(tk, T.TickAddEvent) and tk.attempts):
            hint = "HT"
        else:
            hint = "H0"
        ops.append(f"rstep {enc.num(c.now)} {oracle_tokens(c.oracle)} {hint}")
        if c.error is not None:
            res = "crash"
        else:
            res = enc.result_line(c.after, c.cmds)
        outs.append(enc.tick(tk) + " @@ " + _summary(c.runner, c.stream_len) + " => " + res)
    if lifecycle:
        ops.append("rlife"); outs.append(_lifecycle(tr))
    # the adapter's tick log (what ctx.to_dict()/replay is rebuilt from) is the model's log
    if tr.handler is not None:
        try:
            logged = list(tr.handler._external_adapter.replay())
        except Exception:
            logged = None
        if logged is not None:
            ops.append("rticks")
            outs.append(enc.lst([enc.tick(t) for t in logged]))
    return ops, outs


def rebuild_lines(tr: Trace) -> tuple[list[str], list[str]]:
    """`rebuild_state_from_ticks` -- what ctx.to_dict()/running_steps() compute -- on the run's own inputs: the state the
    run was started from (before the runner rewound it) and the adapter's tick log.  To be appended to `runner_lines(tr)`:
    the driver then holds exactly that state and that log (`rticks` has just compared it with the adapter's), and the model
    rebuilds on its own (`rebuildAt`: rewind, then every tick at the current clock).  The real function is called here, at a
    fixed virtual clock, with the decisions of the real retry policies during the replay recorded per tick."""
    import random
    import types

    from workflows.runtime import control_loop as CL

    from .. import vloop
    from . import live

    calls = [c for c in tr.calls if c.caller in ("run", "_process_tick")]
    if tr.handler is None or not calls or calls[0].kind != "rewind" or any(c.error is not None for c in calls):
        return [], []
    try:
        logged = list(tr.handler._external_adapter.replay())
    except Exception:
        return [], []
    now = float(int(tr.end_time)) + 1.0
    dummy = live.Run({"steps": []}, random.Random(0))
    live._ACTIVE.append(dummy)
    saved = vloop.CURRENT
    vloop.CURRENT = types.SimpleNamespace(time=lambda: now)  # type: ignore[assignment]
    try:
        try:
            rebuilt = CL.rebuild_state_from_ticks(calls[0].before, logged)
            expected = enc.state(rebuilt)
        except (ValueError, KeyError, IndexError) as e:
            expected = "crash"
            tr.notes.append(f"rebuild_state_from_ticks raised {type(e).__name__}: {e}")
    finally:
        vloop.CURRENT = saved
        live._ACTIVE.pop()
    pols = [oracle_tokens(c.oracle) for c in dummy.trace.calls if c.kind == "reduce"]
    pols += ["P 0"] * (len(logged) - len(pols))
    return [f"rebuild {enc.num(now)} {enc.lst(pols[: len(logged)])}"], [expected]
