import WfProofs.PolicyLemmas
import WfProofs.PolicyBudget
import WfProofs.RunnerAcct
import WfProofs.EngineFork
import WfProofs.EngineForkUnrepaired
import WfModel.GenRetryAcct
import WfProofs.EngineReduce
import WfProofs.EngineWaitUnrepaired
/-!
# C05 — retry budgets count attempts and elapsed time correctly

Two layers, both for all inputs:

* **policy** (`Policy.Composed.next`, bodies regenerated from the source): with
  `stop_after_attempt(n)` an always-failing invocation is executed exactly `max(n,1)`
  times; a non-retryable error ends after one execution; `stop_after_delay(d)` gives up
  exactly when the elapsed time it is handed is `≥ d`;
* **engine bookkeeping** (reducer model): the policy is asked with
  `failures = attempts + 1` and `elapsed = failed_at − first_attempt_at`; a granted retry
  is re-queued with `attempts + 1`, the same `first_attempt_at` and the exception; the
  re-started invocation therefore sees `retry_number = 0,1,2,…` and the previous
  exception; the failure events report `attempts + 1` and that same elapsed time.

`first_attempt_at` is the adapter's `get_now()` and `failed_at` the step wrapper's
`time.time()`; they are the same clock on BasicRuntime since fix 1b4aba5 (F01) and on the
DBOS adapter (epoch seconds).  The model treats both as the one clock `now`.
-/
set_option linter.unusedVariables false
open Policy Gen.RP Engine

/-- how the control loop calls the policy (regenerated from `_process_step_result_tick`) -/
theorem C05_source_shape :
    loopFailures = "this_execution.attempts + 1" ∧ loopNextArgs = "elapsed_time, failures, result.exception" ∧
    -- every time limit (a number of seconds or a timedelta) reaches the policy as its total number of seconds
    toSecondsBody = "return float(value.total_seconds() if isinstance(value, timedelta) else value)" :=
  ⟨rfl, rfl, rfl⟩

/-- executions of an always-failing invocation: the `k`-th failure (`k = 1,2,…`) is followed
by another execution iff the policy grants a retry -/
def C05.executions (p : Composed) (el : Nat → Rat) (e : Nat) (u : Nat → Rat) : Nat → Nat → Nat
  | 0, k => k
  | fuel + 1, k =>
    match p.next (el k) k e (u k) with
    | none => k
    | some _ => C05.executions p el e u fuel (k + 1)

theorem C05.next_afterAttempt (retry : Option Cond) (w : Wait) (n : Nat) (el : Rat) (k e : Nat) (u : Rat)
    (hr : ∀ r, retry = some r → r e = true) :
    ({ retry := retry, wait := w, stop := stopAfterAttempt (n : Rat) } : Composed).next el k e u =
      if n ≤ k then none else some (w k u) := by
  have hcast : decide ((k : Rat) ≥ (n : Rat)) = decide (n ≤ k) := by
    simp [Rat.natCast_le_natCast]
  cases retry with
  | none =>
    simp only [Composed.next, stopAfterAttempt, hcast]
    by_cases h : n ≤ k <;> simp [h]
  | some r =>
    have hre := hr r rfl
    simp only [Composed.next, stopAfterAttempt, hcast, hre]
    by_cases h : n ≤ k <;> simp [h]

/-- **attempt budget**: `stop_after_attempt(n)`, any retryable error, any wait strategy, any
clock: exactly `max(n,1)` executions -/
theorem C05_attempt_budget (retry : Option Cond) (w : Wait) (n : Nat) (el : Nat → Rat) (e : Nat)
    (u : Nat → Rat) (hr : ∀ r, retry = some r → r e = true) (fuel : Nat) (hf : n ≤ fuel) :
    C05.executions { retry := retry, wait := w, stop := stopAfterAttempt (n : Rat) } el e u fuel 1 = max n 1 := by
  suffices h : ∀ fuel k, 1 ≤ k → k ≤ max n 1 → max n 1 ≤ k + fuel →
      C05.executions { retry := retry, wait := w, stop := stopAfterAttempt (n : Rat) } el e u fuel k = max n 1 by
    exact h fuel 1 (Nat.le_refl 1) (by omega) (by omega)
  intro fuel
  induction fuel with
  | zero => intro k _ h2 h3; simp only [C05.executions]; omega
  | succ f ih =>
    intro k h1 h2 h3
    simp only [C05.executions, C05.next_afterAttempt retry w n (el k) k e (u k) hr]
    by_cases hnk : n ≤ k
    · simp only [hnk, ↓reduceIte]; omega
    · simp only [hnk, ↓reduceIte]
      exact ih (k + 1) (by omega) (by omega) (by omega)

/-- a non-retryable error is executed once -/
theorem C05_non_retryable_once (r : Cond) (w : Wait) (s : Stop) (el : Nat → Rat) (e : Nat) (u : Nat → Rat)
    (hr : r e = false) (fuel : Nat) :
    C05.executions { retry := some r, wait := w, stop := s } el e u (fuel + 1) 1 = 1 := by
  simp [C05.executions, Composed.next, hr]

/-- `stop_after_delay(d)`: a retryable failure is retried iff the elapsed time handed to the
policy is `< d` -/
theorem C05_delay_budget (retry : Option Cond) (w : Wait) (d : Rat) (el : Rat) (k e : Nat) (u : Rat)
    (hr : ∀ r, retry = some r → r e = true) :
    ({ retry := retry, wait := w, stop := stopAfterDelay d } : Composed).next el k e u =
      if d ≤ el then none else some (w k u) := by
  cases retry with
  | none =>
    simp only [Composed.next, stopAfterDelay]
    by_cases h : d ≤ el <;> simp [h]
  | some r =>
    have hre := hr r rfl
    simp only [Composed.next, stopAfterDelay, hre]
    by_cases h : d ≤ el <;> simp [h]

/-! ## engine bookkeeping -/

/-- the reducer asks the policy with `failures = attempts + 1` and
`elapsed = failed_at − first_attempt_at`, and a granted retry is re-queued — addressed to the
failing step — with `attempts + 1`, the unchanged `first_attempt_at`, the exception, its time
and the lineage's recovery counts -/
theorem C05_retry_requeue (cfg : Cfg) (pol : Policy) (step : Nat) (tickEv : Ev) (dc : Bool) (acc : ResAcc)
    (exc : Nat) (failedAt : Int) (c : StepCfg) (hc : cfg.find step = some c) (hretry : c.hasRetry = true) (d : Nat)
    (hp : pol step (failedAt - acc.exec.firstAt) (acc.exec.attempts + 1) exc = .retry d)
    -- (the failure of an execution that an earlier result of the same list already scheduled to run again is skipped:
    -- `C05_failure_after_scheduled_rerun_skipped`)
    (hsip : acc.stillInProgress = false) :
    (applyRes cfg pol step tickEv dc acc (.failed exc failedAt)).cmds = acc.cmds ++
      [.queueEvent { ev := tickEv, attempts := some (acc.exec.attempts + 1), firstAt := some acc.exec.firstAt,
                     lastExc := some exc, lastFailedAt := some failedAt, rc := acc.exec.rc } (some step) (some d)] := by
  simp [applyRes, retryDecision, hc, hretry, hp, hsip]

/-- a step without a retry policy, or whose policy gives up, is not retried: with no
handler the run fails and the failure event reports `attempts + 1` and the elapsed time -/
theorem C05_failure_report (cfg : Cfg) (pol : Policy) (step : Nat) (tickEv : Ev) (dc : Bool) (acc : ResAcc)
    (exc : Nat) (failedAt : Int) (hnoh : handlerOwner cfg step = none)
    (hp : retryDecision cfg pol step (failedAt - acc.exec.firstAt) (acc.exec.attempts + 1) exc = .stop)
    (hsip : acc.stillInProgress = false) :
    (applyRes cfg pol step tickEv dc acc (.failed exc failedAt)).cmds = acc.cmds ++
      [.publish (.failed step exc (acc.exec.attempts + 1) (failedAt - acc.exec.firstAt)), .failWorkflow step exc] := by
  simp [applyRes, hp, hnoh, hsip]

/-- a re-queued retry, once started, runs with `retry_number = attempts`, the original
`first_attempt_at` and the previous exception -/
theorem C05_retry_number (ev : Ev) (k : Nat) (t0 : Int) (exc : Nat) (tf : Int) (rc : RC) (step : Nat)
    (ss : StepState) (nw : Nat) (now : Int) (h : IdsOk ss nw) (hlt : ss.inProg.length < nw)
    (hk : k ≠ 0) (ht : t0 ≠ 0) :
    ∃ wid, (addOrEnqueue { ev := ev, attempts := some k, firstAt := some t0, lastExc := some exc,
                           lastFailedAt := some tf, rc := rc } step ss nw now).1.inProg =
      ss.inProg ++ [{ ev := ev, wid := wid, snapEvents := ss.collected, snapWaiters := ss.waiters,
                      attempts := k, firstAt := t0, lastExc := some exc, lastFailedAt := some tf, rc := rc }] := by
  unfold addOrEnqueue
  simp only [hlt, ↓reduceIte]
  cases hfree : freeIds ss nw with
  | nil => exact absurd hfree (freeIds_ne_nil h hlt)
  | cons i rest => exact ⟨i, by simp [orNat, orInt, hk, ht]⟩

/-- a first attempt starts with `retry_number = 0` and `first_attempt_at = now` -/
theorem C05_first_attempt (ev : Ev) (step : Nat) (ss : StepState) (nw : Nat) (now : Int) (h : IdsOk ss nw)
    (hlt : ss.inProg.length < nw) :
    ∃ wid, (addOrEnqueue { ev := ev } step ss nw now).1.inProg =
      ss.inProg ++ [{ ev := ev, wid := wid, snapEvents := ss.collected, snapWaiters := ss.waiters,
                      attempts := 0, firstAt := now }] := by
  unfold addOrEnqueue
  simp only [hlt, ↓reduceIte]
  cases hfree : freeIds ss nw with
  | nil => exact absurd hfree (freeIds_ne_nil h hlt)
  | cons i rest => exact ⟨i, by simp [orNat, orInt]⟩

/-! ## a wait does not restart the count

A retried invocation that suspends in `ctx.wait_for_event` is replayed — when the awaited event
arrives, when the wait times out, when the run is resumed from a serialised context — with the
attempt record it had when it suspended (`newWaiter` stores it, `Waiter.replay` rebuilds it): the
replayed invocation continues with the same `retry_number`, `first_attempt_at`, last exception and
last failure time.  (Repair of C08/handler_entered_beyond_budget:lineage_suspended_in_wait; before
it the replay was a fresh attempt, `Waiter.replayUnrepaired`.) -/

/-- what the waiter replays is the suspended invocation's own attempt (the one
`rewind_in_progress` would re-queue) -/
theorem C05_wait_replay_is_the_suspended_attempt (x : InProg) (wid ty : Nat) (req : Option Nat) :
    (newWaiter x wid ty req).replay = inProgToAttempt x := rfl

/-- **the replay keeps `attempts`**: once started, the replay of an invocation that suspended on
its `k`-th retry runs with `retry_number = k`, the original `first_attempt_at` and the previous
exception and failure time (as `C05_retry_number` for a re-queued retry) -/
theorem C05_wait_replay_keeps_attempts (x : InProg) (wid ty : Nat) (req : Option Nat) (step : Nat)
    (ss : StepState) (nw : Nat) (now : Int) (h : IdsOk ss nw) (hlt : ss.inProg.length < nw) (ht : x.firstAt ≠ 0) :
    ∃ id, (addOrEnqueue (newWaiter x wid ty req).replay step ss nw now).1.inProg =
      ss.inProg ++ [{ ev := x.ev, wid := id, snapEvents := ss.collected, snapWaiters := ss.waiters,
                      attempts := x.attempts, firstAt := x.firstAt, lastExc := x.lastExc,
                      lastFailedAt := x.lastFailedAt, rc := x.rc }] := by
  unfold addOrEnqueue
  simp only [hlt, ↓reduceIte]
  cases hfree : freeIds ss nw with
  | nil => exact absurd hfree (freeIds_ne_nil h hlt)
  | cons i rest =>
    refine ⟨i, ?_⟩
    have h1 : orNat (some x.attempts) 0 = x.attempts := by
      by_cases h0 : x.attempts = 0 <;> simp [orNat, h0]
    simp [Waiter.replay, newWaiter, h1, orInt, ht]

/-- hence a failure after the wait is counted on: the policy is asked with `failures = k + 1` and
the elapsed time since the **first** attempt, not since the replay -/
theorem C05_failure_after_wait_counts_on (cfg : Cfg) (pol : Policy) (step : Nat) (tickEv : Ev) (dc : Bool)
    (st : State) (x : InProg) (wid ty : Nat) (req : Option Nat) (id : Nat) (snapE : Collected) (snapW : List Waiter)
    (exc : Nat) (failedAt : Int) (c : StepCfg) (hc : cfg.find step = some c) (hretry : c.hasRetry = true) (d : Nat)
    (hp : pol step (failedAt - x.firstAt) (x.attempts + 1) exc = .retry d) :
    (applyRes cfg pol step tickEv dc
        { st := st, exec := { ev := x.ev, wid := id, snapEvents := snapE, snapWaiters := snapW, attempts := x.attempts,
                              firstAt := x.firstAt, lastExc := x.lastExc, lastFailedAt := x.lastFailedAt, rc := x.rc } }
        (.failed exc failedAt)).cmds =
      [.queueEvent { ev := tickEv, attempts := some (x.attempts + 1), firstAt := some x.firstAt,
                     lastExc := some exc, lastFailedAt := some failedAt, rc := x.rc } (some step) (some d)] := by
  simp [applyRes, retryDecision, hc, hretry, hp]

/-- **unrepaired, refuted**: the fresh attempt the replay used to be starts again at
`retry_number = 0` whatever the suspended invocation's count was -/
theorem C05_unrepaired_wait_replay_restarts_count (x : InProg) (wid ty : Nat) (req : Option Nat) (hx : x.attempts ≠ 0) :
    (Waiter.replayUnrepaired (newWaiter x wid ty req)).attempts = none ∧
      orNat (Waiter.replayUnrepaired (newWaiter x wid ty req)).attempts 0 ≠ x.attempts ∧
      orNat (newWaiter x wid ty req).replay.attempts 0 = x.attempts := by
  refine ⟨rfl, ?_, ?_⟩
  · simp only [Waiter.replayUnrepaired, orNat]; exact fun e => hx e.symm
  · simp [Waiter.replay, newWaiter, orNat, hx]

/-! Non-vacuity -/
/-- an invocation on its second retry (`attempts = 2`) that suspends in a wait -/
def C05.susp : InProg :=
  { ev := { ty := 5, kind := .plain, uid := 1 }, wid := 0, snapEvents := [], snapWaiters := [],
    attempts := 2, firstAt := 10, lastExc := some 7, lastFailedAt := some 12 }
example : ∃ id, (addOrEnqueue (newWaiter C05.susp 1 6 none).replay 3 {} 1 20).1.inProg =
    [{ ev := { ty := 5, kind := .plain, uid := 1 }, wid := id, snapEvents := [], snapWaiters := [],
       attempts := 2, firstAt := 10, lastExc := some 7, lastFailedAt := some 12 }] :=
  C05_wait_replay_keeps_attempts C05.susp 1 6 none 3 {} 1 20 (idsOk_empty 1) (by decide) (by decide)
example : orNat (Waiter.replayUnrepaired (newWaiter C05.susp 1 6 none)).attempts 0 = 0 := by decide
example : C05.executions { retry := none, wait := waitFixed 0, stop := stopAfterAttempt 3 }
    (fun _ => 0) 7 (fun _ => 0) 10 1 = 3 := by
  have := C05_attempt_budget none (waitFixed 0) 3 (fun _ => 0) 7 (fun _ => 0) (by simp) 10 (by omega)
  simpa using this

/-! ## composed policies of any nesting depth, every clock

`stop_any` / `stop_all` / `|` / `&` nest (`Policy.STree`); the retry loop of an always-failing invocation
is `C05.executions`.  For EVERY composed policy the number of executions is the least failure number at
which `next` refuses; for trees the attempt limits bound it from above on every clock (`STree.cap`:
`stop_any` = least operand, `stop_all` = greatest) and the tree's `STree.lo` from below, with equality
whenever the two agree (e.g. every tree over attempt limits and `stop_never`). -/

theorem C05.executions_eq_runs (p : Composed) (el : Nat → Rat) (e : Nat) (u : Nat → Rat) :
    ∀ (fuel k : Nat), C05.executions p el e u fuel k = Policy.runs p el e u fuel k
  | 0, k => rfl
  | fuel + 1, k => by
    simp only [C05.executions, Policy.runs]
    cases p.next (el k) k e (u k) with
    | none => rfl
    | some _ => exact C05.executions_eq_runs p el e u fuel (k + 1)

/-- **every composed policy**: an always-failing invocation is executed `r` times where `r` is the LEAST
failure number at which `next` answers `None`: every earlier failure was granted a retry, and (unless the
observation window `fuel` ended first) the `r`-th one was refused -/
theorem C05_executions_least (p : Composed) (el : Nat → Rat) (e : Nat) (u : Nat → Rat) (fuel : Nat) :
    1 ≤ C05.executions p el e u fuel 1 ∧ C05.executions p el e u fuel 1 ≤ fuel + 1 ∧
    (∀ j, 1 ≤ j → j < C05.executions p el e u fuel 1 → (p.next (el j) j e (u j)).isSome = true) ∧
    (C05.executions p el e u fuel 1 ≤ fuel →
      p.next (el (C05.executions p el e u fuel 1)) (C05.executions p el e u fuel 1) e (u (C05.executions p el e u fuel 1)) = none) := by
  rw [C05.executions_eq_runs]
  have hb := Policy.runs_bounds p el e u fuel 1
  refine ⟨hb.1, by omega, fun j h1 h2 => Policy.runs_retried p el e u fuel 1 j h1 h2, fun h => ?_⟩
  exact Policy.runs_stopped p el e u fuel 1 (by omega)

/-- **attempt limits cap the executions on every clock**: whatever else the stop tree contains (delay limits,
`stop_never`, any nesting) and whatever the error, wait strategy and elapsed times: at most `max(cap,1)` executions -/
theorem C05_attempt_cap_tree (retry : Option Cond) (w : Wait) (t : STree) (n : Nat) (hcap : t.cap = some n)
    (el : Nat → Rat) (e : Nat) (u : Nat → Rat) (fuel : Nat) :
    C05.executions { retry := retry, wait := w, stop := t.eval } el e u fuel 1 ≤ max n 1 := by
  rw [C05.executions_eq_runs]
  apply Policy.runs_le_of_stop _ el e u (max n 1) _ fuel 1 (by omega)
  apply Policy.next_none_of_stop
  exact STree.cap_sound _ _ _ t ⟨n, hcap, by omega⟩

/-- **no tree stops a retryable failure before its lower bound**: at least `max(lo,1)` executions (as far as the
window reaches); a tree without finite lower bound (`stop_never` on every `any`-path) never gives up -/
theorem C05_attempt_floor_tree (retry : Option Cond) (w : Wait) (t : STree) (el : Nat → Rat) (e : Nat) (u : Nat → Rat)
    (hr : ∀ r, retry = some r → r e = true) (fuel : Nat) :
    (∀ m, t.lo = some m → min (max m 1) (fuel + 1) ≤ C05.executions { retry := retry, wait := w, stop := t.eval } el e u fuel 1) ∧
    (t.lo = none → C05.executions { retry := retry, wait := w, stop := t.eval } el e u fuel 1 = fuel + 1) := by
  rw [C05.executions_eq_runs]
  have hnext : ∀ j, (∀ m, t.lo = some m → j < m) →
      (({ retry := retry, wait := w, stop := t.eval } : Composed).next (el j) j e (u j)).isSome = true := by
    intro j hj
    rw [Policy.next_retryable _ _ _ _ _ hr]
    by_cases hs : t.eval j (el j) (w j (u j)) = true
    · obtain ⟨m, hm, hmj⟩ := STree.lo_sound _ _ _ t hs
      have := hj m hm; omega
    · simp [hs]
  constructor
  · intro m hm
    apply Policy.runs_ge_of_retry _ el e u _ fuel 1 _ (by omega) (by omega)
    intro j h1 h2
    apply hnext j
    intro m' hm'; rw [hm] at hm'; injection hm' with hm'; omega
  · intro hnone
    have hb := Policy.runs_bounds ({ retry := retry, wait := w, stop := t.eval } : Composed) el e u fuel 1
    have := Policy.runs_ge_of_retry ({ retry := retry, wait := w, stop := t.eval } : Composed) el e u (fuel + 1) fuel 1
      (fun j _ _ => hnext j (fun m hm => by rw [hnone] at hm; cases hm)) (by omega) (by omega)
    omega

/-- **exact budget of a nested stop tree**: when the two bounds agree (`n`) a retryable, always-failing invocation
is executed exactly `max(n,1)` times on every clock, with any wait strategy -/
theorem C05_attempt_budget_tree (retry : Option Cond) (w : Wait) (t : STree) (n : Nat) (hcap : t.cap = some n)
    (hlo : t.lo = some n) (el : Nat → Rat) (e : Nat) (u : Nat → Rat) (hr : ∀ r, retry = some r → r e = true)
    (fuel : Nat) (hf : n ≤ fuel) :
    C05.executions { retry := retry, wait := w, stop := t.eval } el e u fuel 1 = max n 1 := by
  have h1 := C05_attempt_cap_tree retry w t n hcap el e u fuel
  have h2 := (C05_attempt_floor_tree retry w t el e u hr fuel).1 n hlo
  omega

/-- **the retry loop under any stop tree, on the clock it is handed**: failures `1 … r-1` found the tree false at
the elapsed time and upcoming sleep of that moment, failure `r` found it true -/
theorem C05_stop_tree_run (retry : Option Cond) (w : Wait) (t : STree) (el : Nat → Rat) (e : Nat) (u : Nat → Rat)
    (hr : ∀ r, retry = some r → r e = true) (fuel : Nat) :
    (∀ j, 1 ≤ j → j < C05.executions { retry := retry, wait := w, stop := t.eval } el e u fuel 1 →
        t.eval j (el j) (w j (u j)) = false) ∧
    (C05.executions { retry := retry, wait := w, stop := t.eval } el e u fuel 1 ≤ fuel →
        t.eval (C05.executions { retry := retry, wait := w, stop := t.eval } el e u fuel 1)
          (el (C05.executions { retry := retry, wait := w, stop := t.eval } el e u fuel 1))
          (w (C05.executions { retry := retry, wait := w, stop := t.eval } el e u fuel 1)
             (u (C05.executions { retry := retry, wait := w, stop := t.eval } el e u fuel 1))) = true) := by
  obtain ⟨_, _, h3, h4⟩ := C05_executions_least { retry := retry, wait := w, stop := t.eval } el e u fuel
  constructor
  · intro j h1 h2
    have := h3 j h1 h2
    rw [Policy.next_retryable _ _ _ _ _ hr] at this
    by_cases hs : t.eval j (el j) (w j (u j)) = true
    · simp [hs] at this
    · simpa using hs
  · intro hle
    have := h4 hle
    rw [Policy.next_retryable _ _ _ _ _ hr] at this
    generalize C05.executions { retry := retry, wait := w, stop := t.eval } el e u fuel 1 = r at this ⊢
    by_cases hs : t.eval r (el r) (w r (u r)) = true
    · exact hs
    · simp [hs] at this

/-- **`stop_after_delay(d)` over a whole run**: the invocation keeps being retried while the elapsed time handed to
the policy is `< d` and stops at the first failure whose elapsed time is `≥ d` -/
theorem C05_delay_budget_run (retry : Option Cond) (w : Wait) (d : Rat) (el : Nat → Rat) (e : Nat) (u : Nat → Rat)
    (hr : ∀ r, retry = some r → r e = true) (fuel : Nat) :
    (∀ j, 1 ≤ j → j < C05.executions { retry := retry, wait := w, stop := stopAfterDelay d } el e u fuel 1 → el j < d) ∧
    (C05.executions { retry := retry, wait := w, stop := stopAfterDelay d } el e u fuel 1 ≤ fuel →
        d ≤ el (C05.executions { retry := retry, wait := w, stop := stopAfterDelay d } el e u fuel 1)) := by
  have h := C05_stop_tree_run retry w (.leaf (.afterDelay d)) el e u hr fuel
  simp only [STree.eval, SLeaf.eval] at h
  constructor
  · intro j h1 h2
    have := h.1 j h1 h2
    simp only [stopAfterDelay, decide_eq_false_iff_not, ge_iff_le] at this
    exact Rat.not_le.mp this
  · intro hle
    have := h.2 hle
    simpa [stopAfterDelay] using this

/-- **a budget once exhausted stays exhausted**: a tree of attempt and delay limits (any nesting, no
`stop_before_delay`) that holds at `(k, elapsed)` holds at every later failure count and elapsed time, whatever
the upcoming sleeps -/
theorem C05_budget_monotone (t : STree) (ht : t.noBefore = true) (k k' : Nat) (el el' up up' : Rat) (hk : k ≤ k')
    (he : el ≤ el') (h : t.eval k el up = true) : t.eval k' el' up' = true :=
  STree.mono k k' el el' up up' hk he t ht h

/-- `stop_after_attempt(q)` for ANY number `q` (the constructor does not insist on an int): `⌈q⌉` failures -/
theorem C05_attempt_threshold (q : Rat) (k : Nat) (el up : Rat) : stopAfterAttempt q k el up = decide (Policy.thr q ≤ k) :=
  Policy.stopAfterAttempt_eq q k el up

/-! Non-vacuity (nested trees) -/
/-- `stop_any(stop_all(stop_after_attempt(5), stop_after_attempt(3)), stop_after_attempt(7), stop_never())` -/
def C05.tree1 : STree := .any [.all [.leaf (.afterAttempt 5), .leaf (.afterAttempt 3)], .leaf (.afterAttempt 7), .leaf .never]
/-- `(stop_after_attempt(4) | stop_after_delay(10)) & stop_after_attempt(2)` -/
def C05.tree2 : STree := .all [.any [.leaf (.afterAttempt 4), .leaf (.afterDelay 10)], .leaf (.afterAttempt 2)]
example : C05.tree1.cap = some 5 ∧ C05.tree1.lo = some 5 := by decide
example : C05.tree2.cap = some 4 ∧ C05.tree2.lo = some 2 ∧ C05.tree2.noBefore = true := by decide
example : C05.executions { retry := none, wait := waitFixed 1, stop := C05.tree1.eval } (fun k => k) 7 (fun _ => 0) 20 1 = 5 := by
  have := C05_attempt_budget_tree none (waitFixed 1) C05.tree1 5 (by decide) (by decide) (fun k => k) 7 (fun _ => 0) (by simp) 20 (by omega)
  simpa using this
-- a delay limit inside: between the bounds, decided by the clock (here 1 s per failure … 12 s per failure)
example : C05.executions { retry := none, wait := waitFixed 1, stop := C05.tree2.eval } (fun k => k) 7 (fun _ => 0) 20 1 = 4 := by decide
example : C05.executions { retry := none, wait := waitFixed 1, stop := C05.tree2.eval } (fun k => 12 * k) 7 (fun _ => 0) 20 1 = 2 := by decide +kernel
example : Policy.thr (5 / 2) = 3 := by decide +kernel
example : C05.executions { retry := none, wait := waitFixed 1, stop := stopAfterDelay 5 } (fun k => 2 * k) 7 (fun _ => 0) 20 1 = 3 := by decide +kernel

/-! ## every reachable state of the runner, every schedule

`Engine.AcctInv` (`WfProofs/EngineAcct.lean`, `RunnerAcct.lean`): every attempt record anywhere — queued, in progress, kept
in a waiter, in the tick buffer, the mailbox, the timer heap — with retry number `k ≠ 0` carries the first-attempt time, the
time and exception of its last failure, ordered on the clock, and **was granted by the step's policy at exactly these
numbers**; every `WorkflowFailedEvent` on the stream and every `StepFailedEvent` the reducer creates reports
`attempts = k + 1`, `elapsed = failed_at − first_attempt_at ≥ 0` and was issued because the policy refused at exactly these
numbers.  Preserved by every action of the runner from a fresh or resumed start, for every configuration and policy
(clock assumption: failures are stamped with the runner's clock; other parties send fresh attempts). -/

/-- the start of a fresh run is accounted for -/
theorem C05_accounting_init (cfg : Cfg) (pol : Policy) (now : Int) (hnow : 0 < now) (start : Option Ev) (timeout : Option Nat) :
    AcctInv cfg pol (Runner.init cfg initState now start timeout) :=
  init_acct cfg pol initState now hnow (acctSt_init cfg pol now) start timeout

/-- … and so is a run resumed from any accounted state (a serialised context) -/
theorem C05_accounting_init_resumed (cfg : Cfg) (pol : Policy) (st0 : State) (now : Int) (hnow : 0 < now)
    (h0 : AcctSt cfg pol now st0) (start : Option Ev) (timeout : Option Nat) :
    AcctInv cfg pol (Runner.init cfg st0 now start timeout) :=
  init_acct cfg pol st0 now hnow h0 start timeout

/-- **the accounting invariant holds in every reachable state**, for every admissible schedule -/
theorem C05_accounting_invariant (cfg : Cfg) (pol : Policy) (r0 : Runner) (h0 : AcctInv cfg pol r0) (acts : List Act)
    (hs : AcctSched cfg pol r0 acts) : AcctInv cfg pol (Runner.run cfg pol r0 acts) :=
  run_acct cfg pol acts r0 hs h0

/-- **`retry_info()` material in every reachable state**: an in-progress invocation with retry number `0` has no previous
exception and no failure time; one with retry number `k ≠ 0` has both, its first attempt began at a positive clock reading
not after that failure, the failure is not in the future, and the step's policy granted exactly this retry -/
theorem C05_retry_records_wellformed (cfg : Cfg) (pol : Policy) (r0 : Runner) (h0 : AcctInv cfg pol r0) (acts : List Act)
    (hs : AcctSched cfg pol r0 acts) (s : Nat) (ip : InProg)
    (hip : ip ∈ ((Runner.run cfg pol r0 acts).st.workers s).inProg) :
    0 < ip.firstAt ∧ ip.firstAt ≤ (Runner.run cfg pol r0 acts).now ∧
    (ip.attempts = 0 → ip.lastExc = none ∧ ip.lastFailedAt = none) ∧
    (ip.attempts ≠ 0 → ∃ tf exc d, ip.lastFailedAt = some tf ∧ ip.lastExc = some exc ∧ ip.firstAt ≤ tf ∧
        tf ≤ (Runner.run cfg pol r0 acts).now ∧ retryDecision cfg pol s (tf - ip.firstAt) ip.attempts exc = .retry d) := by
  have h := ((C05_accounting_invariant cfg pol r0 h0 acts hs).st s).2.1 ip hip
  have h1 := h.1 ip.firstAt rfl
  refine ⟨h1.1, h1.2, h.2.1, fun hk => ?_⟩
  obtain ⟨t0, tf, exc, e1, e2, e3, e4, e5, e6⟩ := h.2.2 hk
  simp only [InProg.acct, Option.some.injEq] at e1 e2 e3 e6
  subst e1
  obtain ⟨d, hd⟩ := e6.head.2.2
  exact ⟨tf, exc, d, e2, e3, e4, e5, hd⟩

/-- **retry numbers are never skipped, in any reachable state**: an in-progress invocation with retry number `k` has behind it
granted retries numbered `1, 2, …, k` — each asked at a non-negative elapsed time not larger than the one of its last
failure — so `retry_info().retry_number` counts failures the policy was really asked about, one by one -/
theorem C05_retry_numbers_consecutive (cfg : Cfg) (pol : Policy) (r0 : Runner) (h0 : AcctInv cfg pol r0) (acts : List Act)
    (hs : AcctSched cfg pol r0 acts) (s : Nat) (ip : InProg)
    (hip : ip ∈ ((Runner.run cfg pol r0 acts).st.workers s).inProg) (j : Nat) (h1 : 1 ≤ j) (h2 : j ≤ ip.attempts) :
    ∃ tf el exc d, ip.lastFailedAt = some tf ∧ 0 ≤ el ∧ el ≤ tf - ip.firstAt ∧ retryDecision cfg pol s el j exc = .retry d := by
  have h := ((C05_accounting_invariant cfg pol r0 h0 acts hs).st s).2.1 ip hip
  have hk : ip.acct.k ≠ 0 := by simp only [InProg.acct]; omega
  obtain ⟨t0, tf, exc, e1, e2, e3, e4, e5, e6⟩ := h.2.2 hk
  simp only [InProg.acct, Option.some.injEq] at e1 e2 e6
  subst e1
  obtain ⟨el, exc', d, a1, a2, a3⟩ := e6.all j h1 h2
  exact ⟨tf, el, exc', d, e2, a1, a2, a3⟩

/-- … and a `WorkflowFailedEvent` reporting `a` attempts stands at the end of granted retries `1, …, a − 1` -/
theorem C05_reported_attempts_consecutive (cfg : Cfg) (pol : Policy) (r0 : Runner) (h0 : AcctInv cfg pol r0) (acts : List Act)
    (hs : AcctSched cfg pol r0 acts) (s exc a : Nat) (el : Int)
    (hp : Pub.failed s exc a el ∈ (Runner.run cfg pol r0 acts).stream) (j : Nat) (h1 : 1 ≤ j) (h2 : j < a) :
    (∃ el' exc' d, 0 ≤ el' ∧ el' ≤ el ∧ retryDecision cfg pol s el' j exc' = .retry d) ∧
      ∀ d, retryDecision cfg pol s el a exc ≠ .retry d := by
  have hr : FailRep cfg pol s exc a el := (C05_accounting_invariant cfg pol r0 h0 acts hs).stream _ hp
  refine ⟨?_, hr.2.2.1⟩
  obtain ⟨el', exc', hle, hg⟩ := hr.2.2.2 (by omega)
  obtain ⟨el'', exc'', d, a1, a2, a3⟩ := hg.all j h1 (by omega)
  exact ⟨el'', exc'', d, a1, by omega, a3⟩

/-! ### M1 × M2: composed policies as the engine's oracle -/

/-- the engine-side oracle of composed policies: step `s` has policy `p s`; the jitter draw of step `s` at failure `k` is
`u s k` (the seed is `sha256(run_id:step:failures)`); the delay is rounded to the model's integral seconds by `rd` -/
def C05.oracle (p : Nat → Composed) (u : Nat → Nat → Rat) (rd : Rat → Nat) : Engine.Policy :=
  fun s el k e => match (p s).next (el : Rat) k e (u s k) with | none => .stop | some d => .retry (rd d)

theorem C05.oracle_granted {cfg : Cfg} {p : Nat → Composed} {u : Nat → Nat → Rat} {rd : Rat → Nat} {s : Nat} {el : Int}
    {k exc d : Nat} (h : retryDecision cfg (C05.oracle p u rd) s el k exc = .retry d) :
    ((p s).next (el : Rat) k exc (u s k)).isSome = true := by
  unfold retryDecision at h
  split at h
  · split at h
    · simp only [C05.oracle] at h
      split at h
      · cases h
      · rename_i hn; simp [hn]
    · cases h
  · cases h

theorem C05.oracle_refused {cfg : Cfg} {p : Nat → Composed} {u : Nat → Nat → Rat} {rd : Rat → Nat} {s : Nat} {el : Int}
    {k exc : Nat} {c : StepCfg} (hc : cfg.find s = some c) (hr : c.hasRetry = true)
    (h : ∀ d, retryDecision cfg (C05.oracle p u rd) s el k exc ≠ .retry d) :
    (p s).next (el : Rat) k exc (u s k) = none := by
  simp only [retryDecision, hc, hr, ↓reduceIte, C05.oracle] at h
  cases hn : (p s).next (el : Rat) k exc (u s k) with
  | none => rfl
  | some d => rw [hn] at h; exact absurd rfl (h (rd d))

/-- a granted retry lies below every attempt cap of the step's stop tree -/
theorem C05.granted_lt_cap {cfg : Cfg} {p : Nat → Composed} {u : Nat → Nat → Rat} {rd : Rat → Nat} {s : Nat} {el : Int}
    {k exc d : Nat} {t : STree} {n : Nat} (hstop : (p s).stop = t.eval) (hcap : t.cap = some n)
    (h : retryDecision cfg (C05.oracle p u rd) s el k exc = .retry d) : k < n := by
  have hg := C05.oracle_granted h
  apply Decidable.byContradiction
  intro hk
  have hs : (p s).stop k (el : Rat) ((p s).wait k (u s k)) = true := by
    rw [hstop]; exact STree.cap_sound _ _ _ t ⟨n, hcap, by omega⟩
  rw [Policy.next_none_of_stop _ _ _ _ _ hs] at hg
  cases hg

theorem C05.recOk_lt_cap {cfg : Cfg} {p : Nat → Composed} {u : Nat → Nat → Rat} {rd : Rat → Nat} {s : Nat} {now : Int}
    {t : STree} {n : Nat} (hstop : (p s).stop = t.eval) (hcap : t.cap = some n) {r : Acct}
    (h : RecOk cfg (C05.oracle p u rd) now s r) : r.k < max n 1 := by
  by_cases hk : r.k = 0
  · omega
  · obtain ⟨t0, tf, exc, _, _, _, _, _, e6⟩ := h.2.2 hk
    obtain ⟨d, hd⟩ := e6.head.2.2
    have := C05.granted_lt_cap hstop hcap hd
    omega

/-- **the attempt budget is never exceeded, anywhere, ever**: if the stop tree of step `s` (any nesting, any other
limits inside) has attempt cap `n`, then in every reachable state every in-progress invocation of `s` runs with
`retry_number < max(n,1)`, so does every queued attempt, every record kept in a waiter and every retry scheduled on the
timer heap, and every `WorkflowFailedEvent` for `s` reports at most `max(n,1)` attempts -/
theorem C05_budget_never_exceeded (cfg : Cfg) (p : Nat → Composed) (u : Nat → Nat → Rat) (rd : Rat → Nat) (r0 : Runner)
    (h0 : AcctInv cfg (C05.oracle p u rd) r0) (acts : List Act) (hs : AcctSched cfg (C05.oracle p u rd) r0 acts)
    (s : Nat) (t : STree) (n : Nat) (hstop : (p s).stop = t.eval) (hcap : t.cap = some n) :
    (∀ ip ∈ ((Runner.run cfg (C05.oracle p u rd) r0 acts).st.workers s).inProg, ip.attempts < max n 1) ∧
    (∀ a ∈ ((Runner.run cfg (C05.oracle p u rd) r0 acts).st.workers s).queue, orNat a.attempts 0 < max n 1) ∧
    (∀ w ∈ ((Runner.run cfg (C05.oracle p u rd) r0 acts).st.workers s).waiters, w.attempts < max n 1) ∧
    (∀ tm ∈ (Runner.run cfg (C05.oracle p u rd) r0 acts).heap, ∀ att, tm.tick = .addEvent att (some s) →
        orNat att.attempts 0 < max n 1) ∧
    (∀ exc a el, Pub.failed s exc a el ∈ (Runner.run cfg (C05.oracle p u rd) r0 acts).stream → a ≤ max n 1) := by
  have h := C05_accounting_invariant cfg (C05.oracle p u rd) r0 h0 acts hs
  refine ⟨fun ip hip => C05.recOk_lt_cap hstop hcap ((h.st s).2.1 ip hip),
    fun a ha => C05.recOk_lt_cap hstop hcap ((h.st s).1 a ha),
    fun w hw => C05.recOk_lt_cap hstop hcap ((h.st s).2.2 w hw), ?_, ?_⟩
  · intro tm htm att hatt
    have h1 := (h.heap tm htm).1
    rw [hatt] at h1
    exact C05.recOk_lt_cap hstop hcap (h1 s (Or.inr rfl))
  · intro exc a el hp
    have h1 : FailRep cfg (C05.oracle p u rd) s exc a el := h.stream _ hp
    by_cases ha : a = 1
    · omega
    · obtain ⟨el', exc', _, hg⟩ := h1.2.2.2 ha
      obtain ⟨d, hd⟩ := hg.head.2.2
      have := C05.granted_lt_cap hstop hcap hd
      omega

/-- **the reported attempt count is exact**: when moreover the tree's lower bound is the same `n`, every error is
retryable and the step has the policy configured, every `WorkflowFailedEvent` for `s` on the stream of every reachable
state reports exactly `max(n,1)` attempts, and a non-negative elapsed time -/
theorem C05_reported_attempts_exact (cfg : Cfg) (p : Nat → Composed) (u : Nat → Nat → Rat) (rd : Rat → Nat) (r0 : Runner)
    (h0 : AcctInv cfg (C05.oracle p u rd) r0) (acts : List Act) (hs : AcctSched cfg (C05.oracle p u rd) r0 acts)
    (s : Nat) (t : STree) (n : Nat) (hstop : (p s).stop = t.eval) (hcap : t.cap = some n) (hlo : t.lo = some n)
    (hre : ∀ r, (p s).retry = some r → ∀ e, r e = true) (c : StepCfg) (hc : cfg.find s = some c) (hr : c.hasRetry = true)
    (exc a : Nat) (el : Int) (hp : Pub.failed s exc a el ∈ (Runner.run cfg (C05.oracle p u rd) r0 acts).stream) :
    a = max n 1 ∧ 0 ≤ el := by
  have h := C05_accounting_invariant cfg (C05.oracle p u rd) r0 h0 acts hs
  have h1 : FailRep cfg (C05.oracle p u rd) s exc a el := h.stream _ hp
  have hle := (C05_budget_never_exceeded cfg p u rd r0 h0 acts hs s t n hstop hcap).2.2.2.2 exc a el hp
  have hnone := C05.oracle_refused hc hr h1.2.2.1
  rw [Policy.next_retryable _ _ _ _ _ (fun r hr' => hre r hr' exc)] at hnone
  have hstopped : t.eval a (el : Rat) ((p s).wait a (u s a)) = true := by
    rw [← hstop]
    by_cases hs' : (p s).stop a (el : Rat) ((p s).wait a (u s a)) = true
    · exact hs'
    · simp [hs'] at hnone
  obtain ⟨m, hm, hma⟩ := STree.lo_sound _ _ _ t hstopped
  rw [hlo] at hm; injection hm with hm
  have := h1.1
  exact ⟨by omega, h1.2.1⟩

/-- **a step without a retry policy is executed once per event**: in every reachable state its in-progress invocations run
with retry number `0`, and a `WorkflowFailedEvent` for it reports one attempt -/
theorem C05_no_policy_single_attempt (cfg : Cfg) (pol : Policy) (r0 : Runner) (h0 : AcctInv cfg pol r0) (acts : List Act)
    (hs : AcctSched cfg pol r0 acts) (s : Nat) (hno : ∀ c, cfg.find s = some c → c.hasRetry = false) :
    (∀ ip ∈ ((Runner.run cfg pol r0 acts).st.workers s).inProg, ip.attempts = 0) ∧
    (∀ exc a el, Pub.failed s exc a el ∈ (Runner.run cfg pol r0 acts).stream → a = 1) := by
  have h := C05_accounting_invariant cfg pol r0 h0 acts hs
  have hnever : ∀ el k exc d, retryDecision cfg pol s el k exc ≠ .retry d := by
    intro el k exc d hd
    unfold retryDecision at hd
    split at hd
    · rename_i c hc; simp [hno c hc] at hd
    · cases hd
  constructor
  · intro ip hip
    apply Decidable.byContradiction
    intro hk
    obtain ⟨_, _, _, _, _, _, _, _, e6⟩ := ((h.st s).2.1 ip hip).2.2 hk
    obtain ⟨d, hd⟩ := e6.head.2.2
    exact hnever _ _ _ _ hd
  · intro exc a el hp
    have h1 : FailRep cfg pol s exc a el := h.stream _ hp
    apply Decidable.byContradiction
    intro ha
    obtain ⟨_, _, _, hg⟩ := h1.2.2.2 ha
    obtain ⟨d, hd⟩ := hg.head.2.2
    exact hnever _ _ _ _ hd

/-- **`stop_after_delay` over every history**: if the stop condition of `s` holds whenever `d` seconds have elapsed
(a delay limit `d` anywhere on an `any`-path), every retry in every reachable state was granted while LESS than `d` seconds
had elapsed between the first attempt and the failure it follows; if conversely the condition holds only then (and errors
are retryable), a `WorkflowFailedEvent` is issued only once at least `d` seconds have elapsed -/
theorem C05_delay_budget_reachable (cfg : Cfg) (p : Nat → Composed) (u : Nat → Nat → Rat) (rd : Rat → Nat) (r0 : Runner)
    (h0 : AcctInv cfg (C05.oracle p u rd) r0) (acts : List Act) (hs : AcctSched cfg (C05.oracle p u rd) r0 acts)
    (s : Nat) (d : Rat) :
    ((∀ k el up, d ≤ el → (p s).stop k el up = true) →
      ∀ ip ∈ ((Runner.run cfg (C05.oracle p u rd) r0 acts).st.workers s).inProg, ip.attempts ≠ 0 →
        ∃ tf, ip.lastFailedAt = some tf ∧ ((tf - ip.firstAt : Int) : Rat) < d) ∧
    ((∀ k el up, (p s).stop k el up = true → d ≤ el) → (∀ r, (p s).retry = some r → ∀ e, r e = true) →
      ∀ c, cfg.find s = some c → c.hasRetry = true →
      ∀ exc a el, Pub.failed s exc a el ∈ (Runner.run cfg (C05.oracle p u rd) r0 acts).stream → d ≤ (el : Rat)) := by
  have h := C05_accounting_invariant cfg (C05.oracle p u rd) r0 h0 acts hs
  constructor
  · intro hd ip hip hk
    obtain ⟨t0, tf, exc, e1, e2, _, _, _, e6⟩ := ((h.st s).2.1 ip hip).2.2 hk
    simp only [InProg.acct, Option.some.injEq] at e1 e2 e6
    subst e1
    refine ⟨tf, e2, ?_⟩
    obtain ⟨dd, hdd⟩ := e6.head.2.2
    have hg := C05.oracle_granted hdd
    apply Rat.not_le.mp
    intro hle
    rw [Policy.next_none_of_stop _ _ _ _ _ (hd _ _ _ hle)] at hg
    cases hg
  · intro hd hre c hc hr exc a el hp
    have h1 : FailRep cfg (C05.oracle p u rd) s exc a el := h.stream _ hp
    have hnone := C05.oracle_refused hc hr h1.2.2.1
    rw [Policy.next_retryable _ _ _ _ _ (fun r hr' => hre r hr' exc)] at hnone
    by_cases hs' : (p s).stop a (el : Rat) ((p s).wait a (u s a)) = true
    · exact hd _ _ _ hs'
    · simp [hs'] at hnone

/-- **every `StepFailedEvent` the reducer ever creates is exact**: at a reachable state, whatever tick is processed, a
failure routed to a `@catch_error` handler carries `attempts ≥ 1`, `elapsed ≥ 0`, was refused a retry by the step's policy at
exactly `(elapsed, attempts, exception)`, and — unless it is the first failure — retry `attempts − 1` had been granted -/
theorem C05_step_failed_event_exact (cfg : Cfg) (pol : Policy) (r0 : Runner) (h0 : AcctInv cfg pol r0) (acts : List Act)
    (hs : AcctSched cfg pol r0 acts) (t : Tick) (rest : List Tick)
    (hbuf : (Runner.run cfg pol r0 acts).buf = t :: rest) (att : Attempt) (h : Nat) (fi : FailInfo)
    (hcmd : Cmd.queueEvent att (some h) none ∈
      (reduce cfg pol t (Runner.run cfg pol r0 acts).st (Runner.run cfg pol r0 acts).now).2)
    (hfi : att.ev.fail = some fi) :
    FailRep cfg pol fi.step fi.exc fi.attempts fi.elapsed := by
  have hinv := C05_accounting_invariant cfg pol r0 h0 acts hs
  generalize Runner.run cfg pol r0 acts = r at hinv hbuf hcmd
  have htick : TickOk cfg pol r.now r.st t := by
    cases t with
    | addEvent a tgt => exact hinv.buf (.addEvent a tgt) (by simp [hbuf])
    | stepResult s w ev res => exact (hinv.sr s w ev res (by simp [hbuf])).2
    | _ => trivial
  exact ((reduce_acct cfg pol t r.st r.now hinv.now hinv.st htick).2 _ hcmd).2 h fi rfl rfl hfi

/-! ### `retry_info()` in every reachable state -/

/-- the `RetryAttempt` `run_worker` hands to the invocation of an in-progress entry
(`retry_number=worker.attempts, first_attempt_at=worker.first_attempt_at, last_exception=…, last_failed_at=…`;
pinned to the source by `GenRetryAcct.runWorkerRetryKwargs`) -/
def C05.runWorkerAttempt (ip : InProg) : RetryAttempt :=
  { retryNumber := ip.attempts, firstAt := ip.firstAt, lastExc := ip.lastExc, lastFailedAt := ip.lastFailedAt.map (fun t => (t : Rat)) }

/-- **`retry_info()` of every invocation of every reachable state**, called at any later clock reading `now'`: the retry
number is the record's, `elapsed_seconds` is `0` on the first attempt and exactly `now' − first_attempt_at` on a retry,
`last_exception` / `last_failed_at` are the record's — and `retry_number = 0` iff there is no previous exception -/
theorem C05_retry_info_reachable (cfg : Cfg) (pol : Policy) (r0 : Runner) (h0 : AcctInv cfg pol r0) (acts : List Act)
    (hs : AcctSched cfg pol r0 acts) (s : Nat) (ip : InProg)
    (hip : ip ∈ ((Runner.run cfg pol r0 acts).st.workers s).inProg) (now' : Rat)
    (hnow : ((Runner.run cfg pol r0 acts).now : Rat) ≤ now') :
    retryInfo (C05.runWorkerAttempt ip) now' =
      { retryNumber := ip.attempts, elapsed := if ip.attempts = 0 then 0 else now' - (ip.firstAt : Rat),
        lastExc := ip.lastExc, lastFailedAt := ip.lastFailedAt.map (fun t => (t : Rat)) } ∧
    ((retryInfo (C05.runWorkerAttempt ip) now').retryNumber = 0 ↔ (retryInfo (C05.runWorkerAttempt ip) now').lastExc = none) := by
  obtain ⟨hpos, hle, hz, hnz⟩ := C05_retry_records_wellformed cfg pol r0 h0 acts hs s ip hip
  have hf0 : ¬ ((ip.firstAt : Rat) = 0) := by
    rw [Rat.intCast_eq_zero_iff]; omega
  have hfle : (ip.firstAt : Rat) ≤ now' := Rat.le_trans (Rat.intCast_le_intCast.mpr hle) hnow
  constructor
  · simp only [retryInfo, C05.runWorkerAttempt, RetryInfo.mk.injEq, true_and, and_true]
    by_cases hk : ip.attempts = 0
    · simp [hk]
    · have hk' : ¬ ((ip.attempts : Int) ≤ 0) := by omega
      simp only [hk', hf0, or_self, ↓reduceIte, hk]
      grind
  · simp only [retryInfo, C05.runWorkerAttempt]
    constructor
    · intro h0'
      have : ip.attempts = 0 := by omega
      exact (hz this).1
    · intro hx
      apply Decidable.byContradiction
      intro hk
      have hk' : ip.attempts ≠ 0 := by omega
      obtain ⟨_, exc, _, _, e3, _⟩ := hnz hk'
      rw [e3] at hx; cases hx

/-! Non-vacuity (runner level): a step with `stop_after_attempt(2)`, two failing executions stamped on the runner's clock -/
def C05.xcfg : Cfg := { steps := [{ name := 1, accepted := [0], numWorkers := 1, hasRetry := true }] }
def C05.xp : Nat → Composed := fun _ => { retry := none, wait := waitFixed 0, stop := (STree.leaf (.afterAttempt 2)).eval }
def C05.xpol : Engine.Policy := C05.oracle C05.xp (fun _ _ => 0) (fun _ => 0)
def C05.xr0 : Runner := Runner.init C05.xcfg initState 5 (some { ty := 0, kind := .start, uid := 1 }) none
def C05.xacts : List Act :=
  [.drain, .workerDone 1 0 [.failed 7 5], .drain, .drain, .drain, .workerDone 1 0 [.failed 7 5], .drain]

theorem C05.xinit : AcctInv C05.xcfg C05.xpol C05.xr0 := C05_accounting_init _ _ 5 (by decide) _ _

theorem C05.xsched : AcctSched C05.xcfg C05.xpol C05.xr0 C05.xacts := by
  refine ⟨trivial, ?_, trivial, trivial, trivial, ?_, trivial, trivial⟩
  · intro exc t h
    simp only [List.mem_singleton, Res.failed.injEq] at h
    rw [h.2]; decide +kernel
  · intro exc t h
    simp only [List.mem_singleton, Res.failed.injEq] at h
    rw [h.2]; decide +kernel

-- after the first failure the retry is in progress with retry number 1, the first-attempt time and the exception …
example : ((Runner.run C05.xcfg C05.xpol C05.xr0 (C05.xacts.take 4)).st.workers 1).inProg =
    [{ ev := { ty := 0, kind := .start, uid := 1 }, wid := 0, snapEvents := [], snapWaiters := [],
       attempts := 1, firstAt := 5, lastExc := some 7, lastFailedAt := some 5 }] := by decide +kernel
-- … and after the second the run has failed with `attempts = 2`
example : (Runner.run C05.xcfg C05.xpol C05.xr0 C05.xacts).stream.filter (fun p => match p with | .failed .. => true | _ => false)
    = [.failed 1 7 2 0] := by decide +kernel
example (exc a : Nat) (el : Int) (hp : Pub.failed 1 exc a el ∈ (Runner.run C05.xcfg C05.xpol C05.xr0 C05.xacts).stream) :
    a = 2 ∧ 0 ≤ el := by
  have := C05_reported_attempts_exact C05.xcfg C05.xp (fun _ _ => 0) (fun _ => 0) C05.xr0 C05.xinit C05.xacts C05.xsched 1
    (.leaf (.afterAttempt 2)) 2 rfl (by decide +kernel) (by decide +kernel) (by intro r h; cases h) _ rfl rfl exc a el hp
  simpa using this
example : Policy.retryInfo { retryNumber := 2, firstAt := 10, lastExc := some 7, lastFailedAt := some 12 } 15 =
    { retryNumber := 2, elapsed := 5, lastExc := some 7, lastFailedAt := some 12 } := by decide +kernel
example : Policy.retryInfo { retryNumber := 0, firstAt := 10 } 15 = { retryNumber := 0, elapsed := 0, lastExc := none, lastFailedAt := none } := by
  decide +kernel

/-! ## where the accounting fields are written, as the source has it (`harness/gen/retry_acct.py`) -/

/-- every place of the source that writes `attempts` / `first_attempt_at` / `last_exception` / `last_failed_at`, the failure
count and elapsed expressions, what the failure events report, the two clock sources and `retry_info()`, as the model has
them (`applyRes`, `addOrEnqueue`, `newWaiter`, `Waiter.replay`, `inProgToAttempt`, `execCmd`, `C05.runWorkerAttempt`,
`Policy.retryInfo`) -/
theorem C05_accounting_source_shape :
    -- `retry_policy.next(elapsed, failures, exception)` (names of locals erased, single-assignment locals inlined)
    GenRetryAcct.policyNextArgs = ["_.failed_at - _.first_attempt_at", "_.attempts + 1", "_.exception"] ∧
    GenRetryAcct.retryQueueKwargs = [("event", "_.event"), ("step_name", "_.step_name"), ("attempts", "_.attempts + 1"),
      ("first_attempt_at", "_.first_attempt_at"), ("last_exception", "_.exception"), ("last_failed_at", "_.failed_at")] ∧
    -- a returned event and a `StepFailedEvent` for its handler start fresh records
    GenRetryAcct.otherQueueAcctKwargs = [[], []] ∧
    GenRetryAcct.stepFailedKwargs = [("attempts", "_.attempts + 1"), ("elapsed_seconds", "_.failed_at - _.first_attempt_at")] ∧
    GenRetryAcct.workflowFailedKwargs = [("attempts", "_.attempts + 1"), ("elapsed_seconds", "_.failed_at - _.first_attempt_at")] ∧
    GenRetryAcct.newWaiterKwargs = [("attempts", "_.attempts"), ("first_attempt_at", "_.first_attempt_at"),
      ("last_exception", "_.last_exception"), ("last_failed_at", "_.last_failed_at")] ∧
    GenRetryAcct.replayKwargs = [("attempts", "_.attempts"), ("first_attempt_at", "_.first_attempt_at"),
      ("last_exception", "_.last_exception"), ("last_failed_at", "_.last_failed_at")] ∧
    -- the only other `EventAttempt` is the one `_process_add_event_tick` rebuilds from the tick it processes
    GenRetryAcct.otherEventAttempts = ["_process_add_event_tick:attempts=_.attempts,first_attempt_at=_.first_attempt_at,last_exception=_.last_exception,last_failed_at=_.last_failed_at"] ∧
    GenRetryAcct.rewindKwargs = [("attempts", "_.attempts"), ("first_attempt_at", "_.first_attempt_at"),
      ("last_exception", "_.last_exception"), ("last_failed_at", "_.last_failed_at")] ∧
    GenRetryAcct.admitKwargs = [("attempts", "_.attempts or 0"), ("first_attempt_at", "_.first_attempt_at or _"),
      ("last_exception", "_.last_exception"), ("last_failed_at", "_.last_failed_at")] ∧
    GenRetryAcct.runWorkerRetryKwargs = [("retry_number", "_.attempts"), ("first_attempt_at", "_.first_attempt_at"),
      ("last_exception", "_.last_exception"), ("last_failed_at", "_.last_failed_at")] ∧
    GenRetryAcct.queueTickKwargs = [("attempts", "_.attempts"), ("first_attempt_at", "_.first_attempt_at"),
      ("last_exception", "_.last_exception"), ("last_failed_at", "_.last_failed_at")] ∧
    -- one clock: failures are stamped with `time.time()` (step wrapper) or the adapter's `get_now()`, which on BasicRuntime is `time.time()`
    GenRetryAcct.loopFailedAt = [("failed_at", "await _.adapter.get_now()")] ∧
    GenRetryAcct.wrapperFailedAt = [[("failed_at", "time.time()")]] ∧
    GenRetryAcct.basicGetNow = "return time.time()" ∧
    GenRetryAcct.retryInfoZeroCond = "_.retry.retry_number <= 0 or not _.retry.first_attempt_at" ∧
    GenRetryAcct.retryInfoElapsed = ["0.0", "max(0.0, time.time() - _.retry.first_attempt_at)"] ∧
    GenRetryAcct.retryInfoKwargs = [("retry_number", "_.retry.retry_number"), ("last_exception", "_.retry.last_exception")] := by
  refine ⟨rfl, rfl, rfl, rfl, rfl, rfl, rfl, rfl, rfl, rfl, rfl, rfl, rfl, rfl, rfl, rfl, rfl, rfl⟩

/-! ## one failed execution, one successor

A result list may leave its execution in progress (stale `collect_events` snapshot: re-run at once, same retry number) and it
may queue a retry (a granted `StepWorkerFailed`: run again later, retry number + 1).  Doing BOTH continues one invocation
twice: with `stop_after_attempt(n)` the input event then runs far beyond `n` times while the failure report still says `n`.
The unchanged code did this for `[AddCollectedEvent (stale), StepWorkerFailed]` — a collecting step with a retry policy that
raises after its `collect_events` call while another worker has added to the buffer
(`harness/corpus/c05_collect_rerun_forks_retry.json`; repaired: the failure of an execution already scheduled to run again is
skipped).  The reducer before the repair is `applyResForks` / `Runner.runForks` (`WfProofs/EngineForkUnrepaired.lean`). -/

/-- after the result list of a tick the execution is scheduled to run again at once AND a retry of it is queued; `ap` is the
reducer's per-result function (`applyRes cfg pol`, or the one before the repair) -/
def C05.forksWith (ap : Nat → Ev → Bool → ResAcc → Res → ResAcc) (step : Nat) (tickEv : Ev) (res : List Res) (st : State)
    (exec : InProg) : Prop :=
  (res.foldl (ap step tickEv (res.any isResult)) { st := st, exec := exec }).stillInProgress = true ∧
  (res.foldl (ap step tickEv (res.any isResult)) { st := st, exec := exec }).cmds.any Cmd.isRetry = true

def C05.forks (cfg : Cfg) (pol : Policy) (step : Nat) (tickEv : Ev) (res : List Res) (st : State) (exec : InProg) : Prop :=
  C05.forksWith (applyRes cfg pol) step tickEv res st exec

/-- **full statement** (for a reducer `ap`): on every result list in which nothing is collected after a failure — the step
wrapper appends the `StepWorkerFailed` last (`GenRetryAcct.wrapperAppendsAfterFailure = []`) — a failed execution has ONE
successor: the re-run or the retry, never both -/
def C05_statement_failed_execution_one_successor (ap : Cfg → Policy → Nat → Ev → Bool → ResAcc → Res → ResAcc) : Prop :=
  ∀ (cfg : Cfg) (pol : Policy) (step : Nat) (tickEv : Ev) (res : List Res) (st : State) (exec : InProg),
    collectAfterFailure res = false → ¬ C05.forksWith (ap cfg pol) step tickEv res st exec

/-- **the reducer (repaired) satisfies it**, for every configuration, policy, state and result list -/
theorem C05_failed_execution_one_successor : C05_statement_failed_execution_one_successor applyRes := by
  intro cfg pol step tickEv res st exec hlast
  exact foldl_applyRes_noFork cfg pol step tickEv _ res { st := st, exec := exec } hlast (by intro h; simp at h)

/-- what the source must look like for that: the `StepWorkerFailed` branch starts with the guard, and the step wrapper appends
nothing to its result list after the failure -/
theorem C05_one_successor_source_shape :
    GenRetryAcct.failureSkippedAfterRerun = true ∧ GenRetryAcct.wrapperAppendsAfterFailure = [] := ⟨rfl, rfl⟩

def C05.fcfg : Cfg := { steps := [{ name := 1, accepted := [5], numWorkers := 2, hasRetry := true }] }
def C05.fa : Ev := { ty := 5, kind := .plain, uid := 1 }
def C05.fb : Ev := { ty := 5, kind := .plain, uid := 2 }
/-- `b` runs on an empty snapshot while `a` has meanwhile been collected into buffer 0 -/
def C05.fst : State :=
  { isRunning := true,
    workers := fun s => if s = 1 then
      { inProg := [{ ev := C05.fb, wid := 1, snapEvents := [], snapWaiters := [], attempts := 0, firstAt := 5 }],
        collected := [(0, [C05.fa])] } else {} }
def C05.fexec : InProg := { ev := C05.fb, wid := 1, snapEvents := [], snapWaiters := [], attempts := 0, firstAt := 5 }

/-- **the reducer before the repair: refuted** — `[AddCollectedEvent (stale snapshot), StepWorkerFailed]` is re-run AND retried -/
theorem C05_refuted_failed_execution_one_successor_unrepaired :
    ¬ C05_statement_failed_execution_one_successor applyResForks := by
  intro h
  exact h C05.fcfg C05.xpol 1 C05.fb [.addCollected 0 C05.fb, .failed 7 5] C05.fst C05.fexec (by decide)
    ⟨by decide +kernel, by decide +kernel⟩

-- the same tick on the repaired reducer: re-run only
example : ¬ C05.forks C05.fcfg C05.xpol 1 C05.fb [.addCollected 0 C05.fb, .failed 7 5] C05.fst C05.fexec :=
  C05_failed_execution_one_successor C05.fcfg C05.xpol 1 C05.fb _ C05.fst C05.fexec (by decide)
example : ([.addCollected 0 C05.fb, .failed 7 5].foldl (applyRes C05.fcfg C05.xpol 1 C05.fb false) { st := C05.fst, exec := C05.fexec }).cmds
    = [.runWorker 1 C05.fb 1] := by decide +kernel
-- the hypothesis is needed: a list that collects AFTER its failure (which no step wrapper returns) still does both
example : C05.forks C05.fcfg C05.xpol 1 C05.fb [.failed 7 5, .addCollected 0 C05.fb] C05.fst C05.fexec :=
  ⟨by decide +kernel, by decide +kernel⟩

/-- **guarded form that does not look at the order** (the list does not carry both an `AddCollectedEvent` and a
`StepWorkerFailed`) -/
theorem C05_failed_execution_one_successor_partial (cfg : Cfg) (pol : Policy) (step : Nat) (tickEv : Ev) (res : List Res)
    (st : State) (exec : InProg)
    (hg : res.all (fun r => !isAddCollected r) = true ∨ res.all (fun r => !isFailed r) = true) :
    ¬ C05.forks cfg pol step tickEv res st exec := by
  intro ⟨h1, h2⟩
  rcases hg with hg | hg
  · rw [foldl_applyRes_still cfg pol step tickEv _ res _ hg] at h1; cases h1
  · rw [foldl_applyRes_noRetry cfg pol step tickEv _ res _ hg (by simp)] at h2; cases h2

/-- **a failure after a scheduled re-run is skipped**: no command, no state change, the record untouched -/
theorem C05_failure_after_scheduled_rerun_skipped (cfg : Cfg) (pol : Policy) (step : Nat) (tickEv : Ev) (dc : Bool)
    (acc : ResAcc) (exc : Nat) (failedAt : Int) (h : acc.stillInProgress = true) :
    applyRes cfg pol step tickEv dc acc (.failed exc failedAt) = acc :=
  applyRes_failed_still cfg pol step tickEv dc acc exc failedAt h

/-! the consequence over a whole run, `stop_after_attempt(2)`: how often retry number 1 of one input event is delivered -/

/-- retries of the input event `ev` of step `s` with retry number `k` that the runner handed to the reducer -/
def C05.retryDeliveries (r : Runner) (s : Nat) (ev : Ev) (k : Nat) : Nat :=
  (r.log.filter (fun p => match p.1 with
    | .addEvent att (some s') => s' == s && att.ev == ev && att.attempts == some k
    | _ => false)).length

def C05.fr0 : Runner := Runner.init C05.fcfg initState 5 none none
def C05.facts : List Act :=
  [.external (.addEvent { ev := C05.fa } none), .external (.addEvent { ev := C05.fb } none),
   .pull, .drain, .pull, .drain,
   .workerDone 1 0 [.addCollected 0 C05.fa], .drain,
   .workerDone 1 1 [.addCollected 0 C05.fb, .failed 7 5], .drain,   -- stale: `b` is run again on worker 1 (before the repair: AND retry 1 queued)
   .drain,                                                           -- (before the repair: the retry starts on worker 0, `b` runs twice at once)
   .workerDone 1 1 [.failed 7 5], .drain,                            -- the re-run fails: retry 1 queued (before the repair: a second time)
   .drain,
   .workerDone 1 0 [.failed 7 5], .drain]                            -- retry 1 fails: budget exhausted, the run fails

theorem C05.fsched : AcctSched C05.fcfg C05.xpol C05.fr0 C05.facts := by
  have hw : ∀ (r : Runner) (res : List Res), r.now = 5 → (∀ exc t, Res.failed exc t ∈ res → t = 5) →
      ∀ exc t, Res.failed exc t ∈ res → t = r.now := fun r res h1 h2 exc t h => by rw [h1]; exact h2 exc t h
  refine ⟨tickRec_fresh _ _ _ _ _ _, tickRec_fresh _ _ _ _ _ _, trivial, trivial, trivial, trivial, ?_, trivial, ?_, trivial,
    trivial, ?_, trivial, trivial, ?_, trivial, trivial⟩
  · exact hw _ _ (by decide +kernel) (by intro exc t h; simp at h)
  · exact hw _ _ (by decide +kernel) (by intro exc t h; simp at h; exact h.2)
  · exact hw _ _ (by decide +kernel) (by intro exc t h; simp at h; exact h.2)
  · exact hw _ _ (by decide +kernel) (by intro exc t h; simp at h; exact h.2)

/-- **before the repair**: on this schedule (each event delivered once, failures stamped on the clock) retry number 1 of `b`
is delivered TWICE under `stop_after_attempt(2)`, `b` is executed four times, and the failure report says `attempts = 2` -/
theorem C05_fork_run_exceeds_budget_unrepaired :
    (STree.leaf (.afterAttempt 2)).cap = some 2 ∧
    C05.retryDeliveries (Runner.runForks C05.fcfg C05.xpol C05.fr0 C05.facts) 1 C05.fb 1 = 2 ∧
    (Runner.runForks C05.fcfg C05.xpol C05.fr0 C05.facts).stream.filter (fun p => match p with | .failed .. => true | _ => false)
      = [.failed 1 7 2 0] ∧
    (Runner.runForks C05.fcfg C05.xpol C05.fr0 C05.facts).outcome = some (.failed 1 7) :=
  ⟨by decide +kernel, by decide +kernel, by decide +kernel, by decide +kernel⟩

/-- **the reducer as it is**: the same schedule is admissible, retry number 1 of `b` is delivered once, and the run ends with
the same report -/
theorem C05_fork_run_within_budget :
    AcctSched C05.fcfg C05.xpol C05.fr0 C05.facts ∧
    C05.retryDeliveries (Runner.run C05.fcfg C05.xpol C05.fr0 C05.facts) 1 C05.fb 1 = 1 ∧
    (Runner.run C05.fcfg C05.xpol C05.fr0 C05.facts).stream.filter (fun p => match p with | .failed .. => true | _ => false)
      = [.failed 1 7 2 0] ∧
    (Runner.run C05.fcfg C05.xpol C05.fr0 C05.facts).outcome = some (.failed 1 7) :=
  ⟨C05.fsched, by decide +kernel, by decide +kernel, by decide +kernel⟩
