"""C15 — the server's handler record always reflects the run outcome."""
from __future__ import annotations

import json
import os
import random
from typing import Any

from ..boot import VERIF
from ..engine import specgen, suite
from ..runner import Divergence, Driver, Env, Outcome, Violation, diff_streams, load_known
from ..server import status as S

THEOREMS = [
    "C15_tables", "C15_chain", "C15_status_map", "C15_status_before_event", "C15_terminal_sticky",
    "C15_nothing_published_after_terminal", "C15_store_sticky_refuted", "C15_idle_event_after_terminal_flips",
    "C15_stays_running_engine_unrepaired", "C15_engine_failure_repaired", "C15_never_stays_running_refuted_retries",
    "C15_never_stays_running_refuted_append", "C15_never_stays_running_refuted_idle_write",
    "C15_never_stays_running_partial", "C15_retry_budget", "C15_restart_finalizes", "C15_restart_fault_mislabels",
    "C15_cancel_reflected_refuted", "C15_cancel_reflected_partial", "C15_budget_per_write", "C15_late_request_keeps_outcome",
]
LEAN_TARGETS = ["WfProps.C15"]
EXPLANATION = (
    "Lean: model of the stored handler row and of every in-process operation that writes it (update_handler_status as the "
    "stores implement it - no look at the stored status; _retry_store_write; run_workflow_handler; the server adapter's "
    "isinstance chain -> status update BEFORE append_event, skipped while replaying, always forwarded; the idle adapter's "
    "unretried status=running write; idle_since clearing; cancel_handler's guard; _on_server_start's finalise/mark-failed "
    "paths) with transient store faults as counters, composed with C04's runner LTS (serve: the adapter takes the published "
    "stream in order, an exception ends the run). Theorems: (1) C15_status_map - for every program/schedule/retry policy (also one "
    "that raises) and EVERY way the run ends (C04_terminal_last_unconditional: a run ends only through a reducer exit command) and "
    "every fault assignment within the retry budget the row gets the "
    "status of the outcome with result/error/completed_at; C15_status_before_event; C15_retry_budget (the budget is exactly "
    "len(backoff)); C15_budget_per_write (after ANY history of one runtime instance the schedule is the configured one, so every "
    "write keeps its full budget - tied to the per-call copy in _retry_store_write via the regenerated retryCopiesPerCall). "
    "(2) C15_terminal_sticky - over ALL sequences of late operations (any event of any run except an idle "
    "event of the same run, idle clears, restarts, cancels/purges, late terminal updates, store faults) a terminal row never "
    "shows running again; the stores do not enforce it (C15_store_sticky_refuted, C15_idle_event_after_terminal_flips): it "
    "rests on C04 (C15_nothing_published_after_terminal) and on the regenerated list of writers of status=running "
    "(C15_tables). (3) C15_never_stays_running_statement is REFUTED three ways (len(backoff)+1 "
    "failures of the status write; one failure of the unretried append_event; one failure of the idle adapter's unretried "
    "write) - each witness is replayed on the real stack on every run (known findings); C15_never_stays_running_partial is "
    "what holds (no outcome excluded). A fourth way - an engine-side failure: a retry policy raising inside the reducer, F07 - "
    "was repaired in the engine; C15_stays_running_engine_unrepaired keeps it on the reducer variant before the repair, "
    "C15_engine_failure_repaired is the same run on the model (row = failed with the step's error), and the scenario runs on "
    "the real stack on every run as a regression test (both stores, with/without idle layer, with restart, with in-budget faults). Tie: GenHandlerStatus.lean regenerated from source (chain, tuple of completed_at statuses, TERMINAL_STATUSES, "
    "order of status/append/forward, retry shape, default backoff, exit-command table, event class hierarchy, writers of "
    "'running'); op-stream correspondence of the model against the REAL ServerRuntimeDecorator/IdleRelease/Persistence adapter "
    "chain, _WorkflowService.cancel_handler and _on_server_start over real memory and sqlite stores behind a fault proxy, "
    "comparing the stored row after every op. Search: generated scripted workflows on the full in-process stack "
    "(all outcomes x fault plans x both stores x with/without idle layer), cancels/sends through the service; histories of "
    "3-6 sequential and concurrent runs on ONE runtime instance with in-budget faults per write, clauses 1/3 checked per run. "
    "Races with the end of the run: external sends/cancels through the service against a SLOW store (the fault proxy parks the "
    "handler lookup of a request after it took its snapshot, and parks un-idle status writes before they execute; the scheduler "
    "decides what overtakes what, requests marked hold=end are answered only after the run has ended and stored its terminal "
    "status), single runs and histories; clause 2 is judged around EVERY store write (status read behind the proxy before and "
    "after the call): a write that finds the row of the run terminal and leaves it running is a violation, named by the terminal "
    "status and the kind of write. C15_late_request_keeps_outcome: the writes issued for an external request (regenerated list of "
    "calls passing idle_since=None, none with a status) leave run/status/result/error/completed_at untouched, for any number of "
    "late deliveries."
)
LEVEL_TEXT = (
    "Machine-checked (Lean 4) for all programs, schedules and in-budget fault assignments over an executable model of the "
    "status machine composed with the engine model; two of the property's three clauses hold, the third is refuted by three "
    "proved witnesses that reproduce on the real code (recorded findings)."
)
ASSUMPTIONS = suite.ENGINE_ASSUMPTIONS + [
    "in-process stack only (ServerRuntimeDecorator over IdleReleaseDecorator/PersistenceDecorator/BasicRuntime, memory and sqlite stores): "
    "the DBOS runtime (its own idle release, `_await_and_mark_released`) and the Postgres/agent-data stores are not modelled; with a store "
    "whose update_handler_status really suspends between its query and its update, concurrent read-modify-writes could interleave (both "
    "stores here run it without suspension, checked by the monitors under the virtual loop); the slow store of the race cases delays "
    "the ANSWER of a handler lookup (the snapshot is taken at call time) and the START of an un-idle write, never the inside of a "
    "read-modify-write",
    "a transient store failure is an exception raised before the store call has any effect (fault proxy around update_handler_status / "
    "append_event / update); unbounded failure runs are a store outage: clause 1 and the partial of clause 3 assume at most len(backoff) "
    "consecutive failures per retried write",
    "starting a new run on an existing handler id replaces the row (by design: continuing a handler); stickiness is per run",
    "error texts are compared up to a canonical form (exception id / timeout seconds); the restart path writes 'Operation timed out after "
    "N seconds...' where the live path writes 'Workflow timed out after Ns'",
    "IdleReleasedEvent (TickIdleRelease) is never produced by the in-process stack; user code publishing StopEvent/WorkflowIdleEvent "
    "instances through ctx.write_event_to_stream is outside the property (as in C04)",
    "C15_restart_finalizes covers the status written by _on_server_start given the exit command; that the persisted ticks replay to that "
    "command is C13's subject",
]
TRUSTED_EXTRA = [
    "harness/server/status.py: FaultStore proxy, stub base runtime under the real decorator chain, canonicalisation of the stored row",
    "harness/gen/handler_status.py: AST extraction of the status chain, tuples, order and retry shape",
]

CORPUS = os.path.join(VERIF, "harness", "corpus")
KNOWN = {
    "cancel_released": "C15/cancel_reported_but_still_running:released_handler",
    "restart_mislabel": "C15/restart_finalize_mislabel:completed->failed",
    "retries": "C15/stays_running:status_write_retries_exhausted",
    "append": "C15/stays_running:append_event_fault",
    "idle": "C15/stays_running:idle_status_write_fault",
}


# ==========================================================================
# (K) op streams


KINDS_TERMINAL = ["stop", "failed", "timedout", "cancelled"]
REPLAYS = ["nostate", "resumable", "raised:{n}", "stop:{n}", "idlereleased", "fail:{n}", "cancel", "timeout:{n}"]


def gen_stream(rng: random.Random, n_ops: int) -> list[str]:
    il = 1 if rng.random() < 0.7 else 0
    backoff = rng.choice([[500, 3000], [500, 3000], [], [1000], [100, 200, 300], [0, 0]])
    lines = [f"reset|{il}|{','.join(map(str, backoff))}"]
    cur = 0
    runs: list[int] = []

    def some_run() -> int:
        r = rng.random()
        if r < 0.82 and runs:
            return cur
        if r < 0.94 and runs:
            return rng.choice(runs)
        return rng.randint(0, 9)

    # mostly start with a run
    if rng.random() < 0.9:
        cur = rng.randint(1, 3)
        runs.append(cur)
        lines.append(f"start|{cur}")
    while len(lines) < n_ops:
        r = rng.random()
        if r < 0.07:
            cur = (max(runs) if runs else 0) + rng.randint(1, 2)
            runs.append(cur)
            if rng.random() < 0.25:
                lines.append(f"arm|upd|{rng.randint(0, len(backoff) + 2)}")
            lines.append(f"start|{cur}")
        elif r < 0.19:
            lines.append(f"arm|uhs|{rng.choice([0, 1, 1, 2, 2, 3, 4])}")
        elif r < 0.24:
            lines.append(f"arm|app|{rng.choice([0, 1, 1, 2])}")
        elif r < 0.50:
            lines.append(f"ev|{some_run()}|other|{rng.randint(0, 9)}|{1 if rng.random() < 0.08 else 0}")
        elif r < 0.62:
            lines.append(f"ev|{some_run()}|idle|0|{1 if rng.random() < 0.1 else 0}")
        elif r < 0.78:
            k = rng.choice(KINDS_TERMINAL + (["idlereleased"] if rng.random() < 0.1 else []))
            lines.append(f"ev|{some_run()}|{k}|{0 if k == 'idlereleased' else rng.randint(1, 9)}|{1 if rng.random() < 0.08 else 0}")
        elif r < 0.83:
            st = rng.choice(["running", "completed", "failed", "cancelled", "_", "_"])
            res = rng.choice(["_", "_", str(rng.randint(1, 9))])
            err = rng.choice(["_", "_", f"e{rng.randint(1, 9)}", f"t{rng.randint(1, 9)}", "nostate", f"s{rng.randint(1, 9)}"])
            lines.append(f"uhs|{some_run()}|{st}|{res}|{err}|{rng.choice(['u', 'u', 'n', 's'])}")
        elif r < 0.88:
            lines.append(f"idleclear|{some_run()}")
        elif r < 0.92:
            lines.append(f"cancel|{rng.choice([0, 0, 1])}")
        else:
            rp = rng.choice(REPLAYS).format(n=rng.randint(1, 9))
            lines.append(f"restart|{rp}|{1 if rng.random() < 0.15 else 0}|{rng.randint(1, 9)}")
    return lines


MALFORMED = [
    "reset|1|500,3000", "start|1", "ev|1|bogus|0|0", "arm|xyz|1", "uhs|1|weird|_|_|u", "start|x", "restart|what|0|1",
    "cancel|2", "", "ev|1|stop|x|0", "ev|1|stop|3", "uhs|1|_|_|q7|u", "uhs|1|_|_|_|z", "arm|uhs|-1", "reset|2|1", "idleclear|",
    "ev|1|stop|3|0", "restart|stop:|0|1", "restart|timeout:4|2|1", "ev|1|cancelled|0|1", "start|1|2",
]

HAND = [
    # the retry budget edge, status before append, replay guard, idle flip at the store level, finalise paths
    ["reset|1|500,3000", "start|1", "arm|uhs|2", "ev|1|stop|7|0", "ev|1|idle|0|0", "idleclear|1", "ev|1|cancelled|0|0"],
    ["reset|1|500,3000", "start|1", "arm|uhs|3", "ev|1|stop|7|0", "restart|stop:7|0|1", "cancel|0", "cancel|1", "cancel|1"],
    ["reset|0|500,3000", "start|1", "arm|app|1", "ev|1|failed|3|0", "ev|1|failed|3|0", "ev|1|timedout|4|0"],
    ["reset|1|", "start|2", "arm|uhs|1", "ev|2|cancelled|0|0", "arm|uhs|1", "ev|2|idle|0|0", "ev|2|idle|0|0", "ev|2|timedout|5|0"],
    ["reset|1|1000", "start|1", "ev|1|stop|5|1", "ev|1|idle|0|1", "ev|1|stop|5|0", "ev|1|idle|0|1", "start|2", "ev|1|failed|2|0"],
    ["reset|1|500,3000", "start|1", "arm|uhs|1", "restart|stop:4|0|6", "start|2", "arm|uhs|2", "restart|nostate|0|6",
     "start|3", "ev|3|idle|0|0", "restart|fail:2|0|1", "idleclear|3", "restart|fail:2|1|1", "restart|idlereleased|0|1",
     "restart|timeout:9|0|1"],
    # late deliveries: the external adapter's un-idle write after every kind of terminal status (and one hitting a store fault)
    ["reset|1|500,3000", "start|1", "ev|1|idle|0|0", "idleclear|1", "ev|1|stop|7|0", "idleclear|1", "idleclear|1", "arm|uhs|1", "idleclear|1",
     "idleclear|2", "start|2", "ev|2|failed|3|0", "idleclear|2", "start|3", "ev|3|cancelled|0|0", "idleclear|3", "start|4",
     "ev|4|timedout|5|0", "idleclear|4", "idleclear|1"],
    ["reset|1|500,3000", "arm|upd|3", "start|1", "start|1", "arm|upd|2", "start|2", "uhs|2|running|_|_|s", "uhs|2|completed|4|_|u",
     "uhs|2|running|_|_|s", "uhs|1|failed|_|e1|u"],
]


def _corr(env: Env, out: Outcome, n_streams: int, n_sqlite: int) -> None:
    rng = random.Random(env.rng.randrange(1 << 30))
    jobs: list[tuple[str, list[str]]] = []
    if env.replay is not None:
        case = env.replay.get("payload", {}).get("case")
        if isinstance(case, dict) and "ops" in case:
            jobs.append((case.get("store", "memory"), list(case["ops"])))
        for d in env.replay.get("payload", {}).get("divergence") or []:
            ctx = d.get("context")
            if isinstance(ctx, dict) and "ops" in ctx:
                jobs.append((ctx.get("store", "memory"), list(ctx["ops"])))
    for h in HAND:
        jobs.append(("memory", h))
        jobs.append(("sqlite", h))
    jobs.append(("memory", MALFORMED))
    for i in range(n_streams):
        jobs.append(("memory", gen_stream(rng, rng.randint(12, 40))))
    for i in range(n_sqlite):
        jobs.append(("sqlite", gen_stream(rng, rng.randint(12, 30))))
    ops: list[str] = []
    exp: list[str] = []
    owner: list[int] = []
    for ji, (kind, lines) in enumerate(jobs):
        try:
            got = S.run_ops(kind, lines)
        except Exception as ex:
            out.divergences.append(Divergence("handlerstatus", 0, "<impl>", "", f"{type(ex).__name__}: {ex}", {"store": kind, "ops": lines}))
            continue
        ops += lines
        exp += got
        owner += [ji] * len(lines)
        out.evaluations += 1
        out.count("corr:store:" + kind)
        terminal_written = False
        for l, g in zip(lines, got):
            f = l.split("|")
            out.count("corr:op:" + f[0] + (":" + f[2] if f[0] == "ev" and len(f) > 2 else ""))
            head = g.split(" | ")[0]
            out.count("corr:result:" + head.split(",")[0])
            if " st=completed" in g or " st=failed" in g or " st=cancelled" in g:
                terminal_written = True
        if terminal_written:
            out.nontrivial((kind, tuple(lines)))
        if len(out.samples) < 2:
            out.sample({"store": kind, "ops": lines[:12], "impl": got[:12]})
    try:
        mo = Driver("handlerstatus").run(ops)
    except Exception as ex:
        out.divergences.append(Divergence("handlerstatus", 0, "<driver>", repr(ex), ""))
        return
    out.traces_validated += len(jobs)
    out.disagreements_checked += len(ops)
    d = diff_streams("handlerstatus", ops, mo, exp)
    if d is not None:
        ji = owner[d.index] if d.index < len(owner) else -1
        if ji >= 0:
            d.context = {"store": jobs[ji][0], "ops": jobs[ji][1]}
        out.divergences.append(d)


# ==========================================================================
# (S) monitors on real runs

ENDED = ("result", "cancelled", "timeout", "step_failure", "engine_failure", "store_fault")
TERMINAL_EVENT_NAMES = ("T1", "StopEvent", "WorkflowFailedEvent", "WorkflowTimedOutEvent", "WorkflowCancelledEvent")
EVENT_STATUS = {"WorkflowFailedEvent": "failed", "WorkflowTimedOutEvent": "failed", "WorkflowCancelledEvent": "cancelled"}


def _last_fault(res: S.CaseResult) -> tuple[str, Any, int] | None:
    """(method, info, consecutive failures ending the log) of the write whose exception killed the run"""
    ws = [w for w in res.writes]
    if not ws or not ws[-1][2]:
        return None
    m, info, _ = ws[-1]
    k = 0
    for w in reversed(ws):
        if w[0] == m and w[2] and w[1] == info:
            k += 1
        else:
            break
    return m, info, k


def _writer(method: str, info: Any) -> str:
    """which kind of store write it was (from the arguments of the call, not from the code that issued it)"""
    if method == "upd":
        return "row_upsert"
    if method == "uhs" and len(info) >= 4:
        if info[3]:
            return "unidle_status_write"  # update_handler_status(..., idle_since=None)
        if info[2]:
            return "idle_status_write"  # update_handler_status(..., idle_since=<time>)
        return "status_write"
    return method


def _first_flip(res: S.CaseResult) -> tuple | None:
    """the first store write that found the row of this run with a terminal status and left it 'running'"""
    for (rid, before, after, method, info) in res.transitions:
        if rid == res.run_id and before in S.TERMINAL and after == "running":
            return before, _writer(method, info)
    return None


def _resumed_after_end(res: S.CaseResult) -> bool:
    """events of the run entered the server adapter after its terminal event: the ended run went on"""
    names = [n for (r, n) in res.entered if r == res.run_id]
    ends = [i for i, n in enumerate(names) if n in TERMINAL_EVENT_NAMES]
    return bool(ends) and len(names) > ends[0] + 1


def monitor(res: S.CaseResult) -> list[Violation]:
    vs: list[Violation] = []
    case = res.case
    replay = {k: case.get(k) for k in ("store", "idle_timeout", "backoff", "spec", "fault", "seed", "restart", "restart_fault", "cancel_after_release",
                                        "race", "late_delay") if k in case}
    replay["actions"] = res.actions
    hist = ""
    if res.replay_case is not None:
        replay = res.replay_case
        hist = ":history"

    def bad(sig: str, what: str) -> None:
        if hist and ("within_budget" in sig):
            sig += hist
            what += f" (run {case.get('history_index')} of a history of {case.get('history_len')} runs on one runtime instance)"
        vs.append(Violation("C15/" + sig, what + f" [store={case.get('store', 'memory')} idle_timeout={case.get('idle_timeout')} "
                            f"backoff={case.get('backoff')} fault={case.get('fault')} outcome={res.outcome}]", replay))

    fault = case.get("fault") or {}
    if res.start_error == "fault":
        k = int(fault.get("upd", fault.get("k", 1) if fault.get("kind") == "upd" else 0))
        if (fault.get("kind") == "upd" or "upd" in fault) and k <= res.budget:
            bad(f"start_failed_within_budget:k={k}:budget={res.budget}", "run_workflow_handler gave up although the store failed no more often than there are back-offs")
        if res.record is not None:
            bad("row_without_run", f"start_workflow raised but a handler row exists with status {getattr(res.record, 'status', None)}")
        return vs
    if res.started and res.outcome == "aborted" and res.cancel_result == "cancelled" and res.record is not None \
            and res.record["status"] == "running":
        bad("cancel_reported_but_still_running:" + ("released_handler" if res.released_at_cancel else "active_handler"),
            "cancel_handler answered 'cancelled' but nothing was cancelled: the stored handler still says running")
    # --- a stored terminal status is never changed back to running: looked at around EVERY store write of the execution
    #     (incl. the writes of requests that were still in flight when the run ended, and after the idle timers fired)
    flip = _first_flip(res) if res.started else None
    if flip is not None:
        how = ""
        if flip[1] == "idle_status_write":
            # the idle adapter wrote for a run whose terminal event had already entered the server adapter: the ended run is alive again
            if _resumed_after_end(res):
                how = ":ended_run_resumed"
        bad(f"terminal_to_running:{flip[0]}->running:by={flip[1]}{how}",
            f"the row of the run was stored as {flip[0]} and a later {flip[1]} set it back to running; writes of the run "
            f"(before->after): {[(b + '->' + a, _writer(m, i)) for (r, b, a, m, i) in res.transitions if r == res.run_id]}; requests in "
            f"flight (or whose delivery was still queued) when the run ended: {res.late_requests}")
    if res.started and res.outcome == "aborted" and flip is None:
        seen = False
        for (rid, st_) in res.status_trace:
            if rid == res.run_id and st_ in S.TERMINAL:
                seen = True
            elif rid == res.run_id and st_ == "running" and seen:
                bad("terminal_to_running:released", f"status trace of the run: {[x for (r, x) in res.status_trace if r == res.run_id]}")
                break
    if not res.started or res.outcome not in ENDED:
        return vs
    rec, late = res.record, res.record_late
    if rec is None:
        bad("row_missing:" + res.outcome, "the run ended and no handler row exists")
        return vs
    # --- what the row must say
    expected: str | None
    lf = _last_fault(res)
    if res.outcome == "result":
        expected = "completed"
    elif res.outcome == "cancelled":
        expected = "cancelled"
    elif res.outcome in ("timeout", "step_failure", "engine_failure"):
        expected = "failed"
    else:  # store_fault: the run was killed by an injected store exception
        expected = "failed"
        if lf is not None and lf[0] == "app" and lf[1][2]:
            # the terminal event's append failed after its status was stored
            expected = EVENT_STATUS.get(lf[1][1], "completed")
    for which, r in (("", rec), ("late:", late)):
        if r is None:
            continue
        if r["status"] == "running" and flip is not None:
            break  # reported above as terminal_to_running (the row had the terminal status and lost it)
        if r["status"] == "running":
            if res.outcome == "engine_failure":
                cause = "engine_side_failure"
            elif res.outcome == "store_fault" and lf is not None:
                m, info, k = lf
                if m == "uhs" and info[1] in S.TERMINAL:
                    cause = "status_write_retries_exhausted" if k > res.budget else f"status_write_fault_within_budget:k={k}:budget={res.budget}"
                elif m == "uhs":
                    cause = "idle_status_write_fault"
                elif m == "app":
                    cause = "append_event_fault"
                else:
                    cause = "store_fault:" + m
            else:
                cause = which + res.outcome
            bad("stays_running:" + cause, f"the run has ended ({res.outcome}: {res.outcome_detail}) and the stored handler still says running")
            break
        if r["status"] != expected:
            over = [(b, a, _writer(m, i)) for (rid, b, a, m, i) in res.transitions if rid == res.run_id and b in S.TERMINAL and a in S.TERMINAL and a != b]
            how = ""
            if over and over[0][0] == expected and _resumed_after_end(res):
                # the right status was stored and a later write of the same run replaced it by another terminal one
                how = f":overwritten_by={over[0][2]}:ended_run_resumed"
            bad(f"status_mismatch:{which}{res.outcome}:expected={expected}:got={r['status']}{how}",
                f"run ended as {res.outcome} but the stored status is {r['status']}" + (f"; terminal status replaced: {over}" if over else ""))
            break
        if not r["completed_at"]:
            bad(f"completed_at_missing:{r['status']}", "terminal status without completed_at")
    if rec["status"] == expected:
        if expected == "completed":
            if not rec["has_result"]:
                bad("missing_result:" + res.outcome, "completed without a stored result")
            elif res.outcome == "result" and res.result_uid is not None and rec["result_uid"] != res.result_uid:
                bad("wrong_result", f"stored result uid {rec['result_uid']} but the run returned {res.result_uid}")
        if expected == "failed" and res.outcome != "store_fault":
            if not rec["error"]:
                bad("missing_error:" + res.outcome, "failed without a stored error")
            elif res.outcome == "timeout" and not str(rec["error"]).startswith("Workflow timed out after"):
                bad("wrong_error:timeout", f"stored error {rec['error']!r}")
            elif res.outcome == "step_failure" and isinstance(res.outcome_detail, tuple) and rec["error"] != res.outcome_detail[1]:
                bad("wrong_error:step_failure", f"stored error {rec['error']!r} but the run raised {res.outcome_detail[1]!r}")
    # --- after a crash and restart: a terminal row is left alone; a row whose terminal status write was lost
    #     (or whose run died inside the engine) is finalised from the persisted ticks
    rr = res.record_restart
    if rr is not None:
        if rec["status"] in S.TERMINAL:
            if rr["status"] != rec["status"]:
                bad(f"restart_changed_terminal:{rec['status']}->{rr['status']}", "the restart rewrote a terminal row")
        else:
            want = None  # (an engine-side failure would not be in the ticks: the restart would resume the run, which dies again)
            if res.outcome == "store_fault" and lf is not None and lf[0] == "uhs" and lf[1][1] in S.TERMINAL:
                want = lf[1][1]
            if want is not None and rr["status"] != want:
                if case.get("restart_fault") and rr["status"] == "failed":
                    bad(f"restart_finalize_mislabel:{want}->failed", f"a transient store failure during _on_server_start's finalisation "
                        f"left the row failed with error {rr['error']!r} although the replayed run ended {want}")
                else:
                    bad(f"restart_not_finalized:{res.outcome}:expected={want}:got={rr['status']}",
                        "after the restart the row does not carry the status of the replayed exit command")
            elif want == "completed" and not rr["has_result"]:
                bad("restart_missing_result", "finalised as completed without a result")
    # --- never back to running once terminal (same run), at any point of the execution incl. after the idle timers fired
    seen_terminal = False
    for (rid, st) in (res.status_trace if flip is None else []):
        if rid != res.run_id:
            continue
        if st in S.TERMINAL:
            seen_terminal = True
        elif st == "running" and seen_terminal:
            bad("terminal_to_running:" + res.outcome, f"status trace of the run: {[s for (r, s) in res.status_trace if r == res.run_id]}")
            break
    # --- a status-carrying event is in the log only after its status
    for (rid, ty, st) in res.early_terminal_events:
        bad(f"terminal_event_before_status:{EVENT_STATUS.get(ty, 'completed')}", f"{ty} was appended to the event log while the row still said {st}")
        break
    # --- in-budget faults must be invisible
    if fault.get("kind") in ("uhs_terminal", "upd") and int(fault.get("k", 1)) <= res.budget and int(fault.get("upd", 0)) <= res.budget \
            and res.outcome == "store_fault":
        bad(f"fault_within_budget_killed_run:{fault.get('kind')}:k={fault.get('k')}:budget={res.budget}",
            "the store failed no more often than there are back-offs, yet the exception left the retry loop")
    return vs


# --------------------------------------------------------------------------
# cases


def _one(script: list, retry: dict | None = None, **kw: Any) -> dict:
    d: dict[str, Any] = {"steps": [{"name": "s00", "accepts": [0], "nw": 1, "retry": retry, "script": script}], "externals": []}
    d.update(kw)
    return d


def outcome_specs() -> dict[str, dict]:
    return {
        "success": _one([["ret", "stop"]]),
        "success_after_retry": _one([["fail_until", 2, 4], ["ret", "stop"]], {"kind": "attempts", "n": 3, "wait": 2}),
        "step_failure": _one([["fail_always", 3]]),
        "step_failure_retries": _one([["fail_always", 5]], {"kind": "attempts", "n": 2, "wait": 0}),
        "handled_failure": {"steps": [{"name": "s00", "accepts": [0], "nw": 1, "retry": None, "script": [["fail_always", 2]]},
                                      {"name": "s12", "accepts": [4], "role": "handler", "for_steps": None, "max_rec": 1,
                                       "script": [["ret", "stop"]]}], "externals": []},
        "timeout": _one([["sleep", 50], ["ret", "stop"]], timeout=4),
        "cancel": _one([["gate"], ["ret", "stop"]], externals=[{"op": "cancel", "after_quiet": 0}]),
        "cancel_vs_completion": _one([["gate"], ["yield"], ["ret", "stop"]], externals=[{"op": "cancel", "after_quiet": 0}]),
        "idle_then_cancel": _one([["ret", "none"]]),
        "bad_return": _one([["ret", "bad"]]),
        # a retry policy whose next() raises (repaired finding C15/stays_running:engine_side_failure): no retry, the run fails
        # with the step's error / the failure goes to the catch_error handler
        "policy_raises": _one([["fail_always", 7], ["ret", "stop"]], {"kind": "raises"}),
        "policy_raises_handled": {"steps": [{"name": "s00", "accepts": [0], "nw": 1, "retry": {"kind": "raises"}, "script": [["fail_always", 2]]},
                                            {"name": "s12", "accepts": [4], "role": "handler", "for_steps": None, "max_rec": 1,
                                             "script": [["ret", "stop"]]}], "externals": []},
    }


def known_cases() -> list[tuple[str, dict]]:
    out = []
    for store in ("memory", "sqlite"):
        out.append(("retries", {"store": store, "spec": _one([["ret", "stop"]]), "fault": {"kind": "uhs_terminal", "k": 3}}))
        out.append(("append", {"store": store, "spec": _one([["ret", "stop"]]), "fault": {"kind": "app_at", "k": 1, "at": 0}}))
        out.append(("idle", {"store": store, "idle_timeout": 1000.0, "spec": _one([["ret", "none"]]), "fault": {"kind": "idle_uhs", "k": 1}}))
        out.append(("cancel_released", {"store": store, "idle_timeout": 2.0, "spec": _one([["ret", "none"]]), "cancel_after_release": True}))
        out.append(("restart_mislabel", {"store": store, "spec": _one([["ret", "stop"]]), "fault": {"kind": "uhs_terminal", "k": 3},
                                         "restart": True, "restart_fault": 1}))
    return out


def engine_failure_regressions() -> list[tuple[dict, str]]:
    """the witness of the repaired finding C15/stays_running:engine_side_failure and variants of it -> the outcome the run must
    have: the raising policy grants no retry, the run fails with the step's error (or is completed by the catch_error handler)
    and the row says so; a row left 'running' is reported by the monitor under the old signature (now a VIOLATION)"""
    sp = outcome_specs()
    out = []
    for store in ("memory", "sqlite"):
        out.append(({"store": store, "spec": sp["policy_raises"]}, "step_failure"))
        out.append(({"store": store, "spec": sp["policy_raises"], "idle_timeout": 1000.0}, "step_failure"))
        out.append(({"store": store, "spec": sp["policy_raises"], "fault": {"kind": "uhs_terminal", "k": 2}, "seed": 2}, "step_failure"))
        out.append(({"store": store, "spec": sp["policy_raises"], "restart": True}, "step_failure"))
        out.append(({"store": store, "spec": sp["policy_raises_handled"]}, "result"))
    return out


def restart_cases() -> list[dict]:
    """the terminal status write is lost (retries exhausted) or the run dies inside the engine; then the process restarts"""
    out = []
    specs = outcome_specs()
    for store in ("memory", "sqlite"):
        for name in ("success", "step_failure", "idle_then_cancel", "timeout", "handled_failure"):
            out.append({"store": store, "spec": specs[name], "fault": {"kind": "uhs_terminal", "k": 3}, "restart": True, "seed": 2})
        out.append({"store": store, "spec": _one([["fail_always", 7], ["ret", "stop"]], {"kind": "raises"}), "restart": True})
        out.append({"store": store, "spec": specs["success"], "restart": True})
        out.append({"store": store, "spec": specs["cancel"], "restart": True, "idle_timeout": 1000.0})
    return out


def gen_case(rng: random.Random) -> dict:
    store = "sqlite" if rng.random() < 0.25 else "memory"
    idle = 1000.0 if rng.random() < 0.4 else None
    backoff = rng.choice([None, None, [1.0], [0.1, 0.2, 0.3]])
    budget = 2 if backoff is None else len(backoff)
    if rng.random() < 0.3:
        spec = json.loads(json.dumps(rng.choice(list(outcome_specs().values()))))
    else:
        spec = specgen.gen_spec(rng, allow_sync=False)
        spec["externals"] = [e for e in spec.get("externals", []) if e["op"] in ("send", "cancel")]
        if rng.random() < 0.10:
            # retry policies whose next() raises (regression of C15/stays_running:engine_side_failure)
            for st in spec["steps"]:
                if st.get("retry") and rng.random() < 0.6:
                    st["retry"] = {"kind": "raises"}
    if rng.random() < 0.12:
        # the idle layer really releases and reloads: only stickiness of terminal rows is judged for released runs
        spec = specgen.gen_wait_spec(rng)
        spec["externals"] = [e for e in spec.get("externals", []) if e["op"] in ("send", "cancel")]
        return {"store": store, "idle_timeout": rng.choice([2.0, 5.0]), "backoff": backoff, "spec": spec, "fault": None,
                "seed": rng.randrange(1 << 30)}
    fault = None
    r = rng.random()
    if r < 0.35:
        fault = {"kind": "uhs_terminal", "k": rng.randint(1, budget)} if budget else None
    elif r < 0.42:
        fault = {"kind": "upd", "k": rng.randint(1, budget)} if budget else None
    elif r < 0.50:
        fault = {"kind": "app_terminal", "k": 1}
    return {"store": store, "idle_timeout": idle, "backoff": backoff, "spec": spec, "fault": fault, "seed": rng.randrange(1 << 30)}


def _ask(answer_script: list, sends: list, **kw: Any) -> dict:
    """human in the loop: the start step asks (InputRequiredEvent), a second step consumes the HumanResponseEvent"""
    d: dict[str, Any] = {"steps": [{"name": "s00", "accepts": [0], "nw": 1, "retry": None, "script": [["ret", "2"]]},
                                   {"name": "s03", "accepts": [3], "nw": 1, "retry": None, "script": answer_script}],
                         "externals": sends}
    d.update(kw)
    return d


def _send(ty: int = 3, hold: str | None = None, after_quiet: int = 0, k: int | None = None) -> dict:
    """an external send through the service; hold='end': the (slow) store answers its handler lookup only after the run has ended"""
    return {"op": "send", "ty": ty, "k": k, "step": None, "after_quiet": after_quiet, "hold": hold}


def race_corpus() -> list[dict]:
    """requests racing with the end of the run on a store whose answers take time (S.FaultStore parking): two clients answer
    the same question / an event arrives just as the run completes, fails, times out or is cancelled"""
    specs = {
        "two_answers": _ask([["ret", "stop"]], [_send(), _send(hold="end")]),
        "answer_vs_failure": _ask([["fail_always", 4]], [_send(), _send(hold="end")]),
        "late_event_vs_timeout": _ask([["ret", "stop"]], [_send(hold="end")], timeout=4),
        "late_event_vs_cancel": _ask([["ret", "stop"]], [_send(hold="end"), {"op": "cancel", "after_quiet": 1}]),
        "event_vs_gated_completion": _one([["gate"], ["ret", "stop"]], externals=[_send(ty=5, hold="end"), _send(ty=6)]),
        "unheld": _ask([["gate"], ["ret", "stop"]], [_send(), _send(), _send(after_quiet=1)]),
    }
    out = []
    for name, spec in specs.items():
        for store in ("memory", "sqlite"):
            out.append({"store": store, "idle_timeout": 1000.0, "backoff": None, "spec": spec, "fault": None, "seed": 1, "race": True})
    out.append({"store": "memory", "idle_timeout": None, "backoff": None, "spec": specs["two_answers"], "fault": None, "seed": 1, "race": True})
    out.append({"store": "memory", "idle_timeout": 1000.0, "backoff": None, "spec": specs["two_answers"],
                "fault": {"kind": "uhs_terminal", "k": 2}, "seed": 2, "race": True})
    return out


def gen_race_case(rng: random.Random) -> dict:
    store = "sqlite" if rng.random() < 0.2 else "memory"
    backoff = rng.choice([None, None, [1.0], [0.1, 0.2, 0.3]])
    budget = 2 if backoff is None else len(backoff)
    r = rng.random()
    if r < 0.45:
        ans: list = []
        if rng.random() < 0.4:
            ans.append(["gate"])
        ans.append(rng.choice([["ret", "stop"], ["ret", "stop"], ["ret", "stop"], ["fail_always", rng.randint(1, 9)], ["ret", "none"], ["ret", "2"]]))
        spec = _ask(ans, [])
        if rng.random() < 0.25:
            spec["timeout"] = rng.choice([4, 10])
        tys = [3, 3, 3, 13, 5]
    elif r < 0.7:
        spec = specgen.gen_wait_spec(rng)
        tys = [3, 11, 3, 11, 6]
    elif r < 0.85:
        spec = json.loads(json.dumps(rng.choice([v for k, v in outcome_specs().items() if k in
                                                 ("cancel", "cancel_vs_completion", "timeout", "idle_then_cancel", "success_after_retry")])))
        tys = [5, 6, 3, 11]
    else:
        spec = specgen.gen_spec(rng, allow_sync=False)
        tys = [3, 11, 5, 6, 7]
    ext = [e for e in spec.get("externals", []) if e["op"] in ("send", "cancel")]
    for e in ext:
        if e["op"] == "send" and rng.random() < 0.4:
            e["hold"] = "end"
    for _ in range(rng.randint(1, 3)):
        ext.append(_send(ty=rng.choice(tys), hold="end" if rng.random() < 0.5 else None, after_quiet=rng.randint(0, 2), k=rng.choice([None, 1, 2])))
    if rng.random() < 0.15:
        ext.append({"op": "cancel", "after_quiet": rng.randint(0, 3)})
    rng.shuffle(ext)
    spec["externals"] = ext
    idle = rng.choice([1000.0, 1000.0, 1000.0, 1000.0, None, 2.0, 5.0])
    fault = None
    if budget and rng.random() < 0.2:
        fault = {"kind": "uhs_terminal", "k": rng.randint(1, budget)}
    return {"store": store, "idle_timeout": idle, "backoff": backoff, "spec": spec, "fault": fault, "seed": rng.randrange(1 << 30), "race": True}


def history_corpus() -> list[dict]:
    """several runs on ONE runtime instance, every write within its own budget"""
    sp = outcome_specs()
    out = []
    for store in ("memory", "sqlite"):
        out.append({"store": store, "seed": 3, "history": [{"spec": sp["success"], "uhs": 1}, {"spec": sp["step_failure"], "uhs": 1},
                                                           {"spec": sp["success"], "uhs": 1}, {"spec": sp["idle_then_cancel"], "uhs": 1}]})
        out.append({"store": store, "seed": 4, "backoff": [1.0], "history": [{"spec": sp["success"], "upd": 1}, {"spec": sp["timeout"], "uhs": 1},
                                                                             {"spec": sp["success"], "upd": 1, "uhs": 1}]})
        out.append({"store": store, "seed": 5, "idle_timeout": 1000.0,
                    "history": [{"spec": sp["cancel_vs_completion"], "uhs": 2, "with_next": True}, {"spec": sp["success_after_retry"], "uhs": 2},
                                {"spec": sp["handled_failure"], "uhs": 2, "with_next": True}, {"spec": sp["cancel"], "upd": 2, "uhs": 1}]})
    return out


def gen_history(rng: random.Random) -> dict:
    store = "sqlite" if rng.random() < 0.25 else "memory"
    backoff = rng.choice([None, None, [1.0], [0.1, 0.2, 0.3]])
    budget = 2 if backoff is None else len(backoff)
    pool = [v for k, v in outcome_specs().items()]
    items = []
    for _ in range(rng.randint(3, 6)):
        if rng.random() < 0.6:
            spec = json.loads(json.dumps(rng.choice(pool)))
        else:
            spec = specgen.gen_spec(rng, allow_sync=False)
            spec["externals"] = [e for e in spec.get("externals", []) if e["op"] in ("send", "cancel")]
        it: dict[str, Any] = {"spec": spec}
        if rng.random() < 0.7:
            it["uhs"] = rng.randint(1, budget)
        if rng.random() < 0.2:
            it["upd"] = rng.randint(1, budget)
        if rng.random() < 0.25:
            it["with_next"] = True
        items.append(it)
    return {"store": store, "idle_timeout": 1000.0 if rng.random() < 0.3 else None, "backoff": backoff, "history": items,
            "seed": rng.randrange(1 << 30)}


def race_history_corpus() -> list[dict]:
    """two clients answer the same question of one run while another run of the same runtime is at work; then the same again"""
    two = _ask([["ret", "stop"]], [_send(), _send(hold="end")])
    fails = _ask([["fail_always", 4]], [_send(), _send(hold="end")])
    sp = outcome_specs()
    out = []
    for store in ("memory", "sqlite"):
        out.append({"store": store, "seed": 6, "idle_timeout": 1000.0, "race": True,
                    "history": [{"spec": two, "uhs": 1, "with_next": True}, {"spec": sp["cancel_vs_completion"]}, {"spec": fails, "uhs": 2},
                                {"spec": two, "with_next": True}, {"spec": two}]})
    return out


def gen_race_history(rng: random.Random) -> dict:
    h = gen_history(rng)
    h["race"] = True
    h["idle_timeout"] = 1000.0 if rng.random() < 0.85 else None
    for it in h["history"]:
        if rng.random() < 0.6:
            c = gen_race_case(rng)
            if c["idle_timeout"] in (2.0, 5.0):  # released runs are judged in the single-run cases
                continue
            it["spec"] = c["spec"]
    return h


def pending_witnesses() -> list[dict]:
    """witnesses of violations on the unchanged code that are reported but not (yet) listed in known_findings.d: each is replayed
    only once its signature is listed there (or with VERIF_C15_PENDING=1); the generated stream is steered away from their trigger
    (requests in flight complete AT the end of the run, never after the idle layer has dropped the ended run)"""
    out = []
    if os.path.isdir(CORPUS):
        for fn in sorted(os.listdir(CORPUS)):
            if fn.startswith("pending_c15_") and fn.endswith(".json"):
                out += json.load(open(os.path.join(CORPUS, fn))).get("witnesses", [])
    return out


def _load_corpus() -> list[dict]:
    out = []
    if os.path.isdir(CORPUS):
        for fn in sorted(os.listdir(CORPUS)):
            if fn.startswith("c15_") and fn.endswith(".json"):
                d = json.load(open(os.path.join(CORPUS, fn)))
                out += d.get("cases", [])
    return out


def _search(env: Env, out: Outcome, n: int) -> None:
    rng = random.Random(env.rng.randrange(1 << 30))

    def run_one(case: dict, tag: str) -> S.CaseResult:
        res = S.run_case(case)
        out.evaluations += 1
        out.count(f"run:{tag}:outcome:" + res.outcome)
        out.count("run:store:" + case.get("store", "memory"))
        out.count("run:idle_layer:" + ("yes" if case.get("idle_timeout") else "no"))
        f = case.get("fault")
        out.count("run:fault:" + (f"{f['kind']}:k={f.get('k', 1)}" if f else "none"))
        if res.record is not None:
            out.count(f"run:final:{res.outcome}->{res.record['status']}")
        if res.started and len(res.status_trace) > 1:
            out.nontrivial((json.dumps(case, sort_keys=True, default=repr), tuple(res.actions)))
        return res

    def run_hist(case: dict, tag: str) -> None:
        rs = S.run_history(case)
        out.evaluations += 1
        out.count(f"hist:{tag}:runs", len(rs))
        out.count("hist:store:" + case.get("store", "memory"))
        out.count("hist:concurrent_groups", sum(1 for it in case["history"] if it.get("with_next")))
        out.count("hist:faults_armed", sum(int(it.get("uhs", 0)) + int(it.get("upd", 0)) for it in case["history"]))
        for r in rs:
            out.count(f"hist:{tag}:outcome:" + r.outcome)
            if r.record is not None:
                out.count(f"hist:final:{r.outcome}->{r.record['status']}")
            out.count(f"hist:{tag}:late_requests", len(r.late_requests))
            out.violations += monitor(r)
        if any(r.started for r in rs):
            out.nontrivial((json.dumps(case, sort_keys=True, default=repr), tuple(rs[0].actions)))

    # replay first
    if env.replay is not None:
        case = env.replay.get("payload", {}).get("case")
        if isinstance(case, dict) and "history" in case:
            run_hist(case, "replay")
        elif isinstance(case, dict) and "spec" in case:
            res = run_one(case, "replay")
            out.violations += monitor(res)
    # hand-picked corpus: every outcome x fault count 0..budget x both stores, plus witnesses of the findings
    for name, spec in outcome_specs().items():
        for store in ("memory", "sqlite"):
            for k in (0, 1, 2):
                if store == "sqlite" and k == 1:
                    continue
                case = {"store": store, "idle_timeout": 1000.0 if name == "idle_then_cancel" or k == 2 else None, "spec": spec,
                        "fault": {"kind": "uhs_terminal", "k": k} if k else None, "seed": 1}
                out.violations += monitor(run_one(case, "corpus"))
    for case in _load_corpus():
        out.violations += monitor(run_one(case, "corpus"))
    for case in history_corpus():
        run_hist(case, "corpus")
    for case in race_history_corpus():
        run_hist(case, "race")
    for case in race_corpus():
        res = run_one(case, "race")
        out.count("race:late_requests", len(res.late_requests))
        out.violations += monitor(res)
    for case in restart_cases():
        res = run_one(case, "restart")
        out.count(f"run:restart:{res.outcome}:{res.record and res.record['status']}->{res.record_restart and res.record_restart['status']}")
        out.violations += monitor(res)
    for name, case in known_cases():
        res = run_one(case, "witness")
        vs = monitor(res)
        out.violations += vs
        if not any(v.signature == KNOWN[name] for v in vs):
            out.notes.append(f"known-finding witness '{name}' ({case.get('store')}) did not reproduce: outcome={res.outcome} "
                             f"row={res.record and res.record['status']}")
    for case, want in engine_failure_regressions():
        res = run_one(case, "regression")
        out.count(f"run:policy_raises:{res.outcome}:{res.record and res.record['status']}")
        vs = monitor(res)
        out.violations += vs
        if res.outcome != want and not vs:
            out.violations.append(Violation(f"C15/policy_raises_outcome:expected={want}:got={res.outcome}",
                                            f"a retry policy whose next() raises: the run should end as {want} (no retry, the step's own "
                                            f"failure), it ended as {res.outcome}: {res.outcome_detail}; row={res.record and res.record['status']}", case))
    listed = {k["signature"] for k in load_known() if k["property"] == "C15" and k.get("status", "open") == "open"}
    for w in pending_witnesses():
        if w["signature"] in listed or os.environ.get("VERIF_C15_PENDING") == "1":
            res = run_one(w["case"], "witness")
            vs = monitor(res)
            out.violations += vs
            if not any(v.signature == w["signature"] for v in vs):
                out.notes.append(f"witness of '{w['signature']}' did not reproduce: outcome={res.outcome} row={res.record and res.record['status']}")
    # generated histories on one runtime instance (every write within its own budget)
    for _ in range(max(1, n // 8)):
        run_hist(gen_history(rng), "gen")
    # generated races: external requests against a slow store (lookups answered late, un-idle writes queued), the scheduler
    # decides what overtakes what; stickiness is judged around every store write
    for _ in range(max(1, n // 16)):
        run_hist(gen_race_history(rng), "race")
    for _ in range(max(1, n // 3)):
        case = gen_race_case(rng)
        res = run_one(case, "race")
        out.count("race:late_requests", len(res.late_requests))
        out.count("race:unidle_write_on_terminal_row", sum(1 for (r, b, a, m, i) in res.transitions
                                                             if r == res.run_id and b in S.TERMINAL and m == "uhs" and i[3]))
        out.violations += monitor(res)
    # generated stream (steered away from the known triggers)
    for _ in range(n):
        case = gen_case(rng)
        res = run_one(case, "gen")
        out.violations += monitor(res)
        if len(out.samples) < 5 and res.started and res.record is not None:
            out.sample({"store": case["store"], "idle_timeout": case["idle_timeout"], "fault": case["fault"], "outcome": res.outcome,
                        "row": res.record, "status_trace": [s for (_r, s) in res.status_trace], "events": res.events[-4:]})


def run(env: Env) -> Outcome:
    out = Outcome()
    out.rule = ("(K) op streams (start / events of every class, replaying or not / bare status updates / idle clears / cancel, purge / "
                "restart with every replay result / store faults 0..4) on the real adapter chain + service + _on_server_start over memory "
                "and sqlite vs the Lean model, row compared after every op; non-trivial = a terminal status was written; distinct by "
                "(store, op stream). (S) scripted workflows on the full stack: every outcome x fault plan x store x idle layer; "
                "non-trivial = the row was written more than once; distinct by (case, schedule); plus histories of 3-6 runs (some concurrent) "
                "on ONE stack/runtime instance, every write within its own retry budget, clauses checked per run; plus races: external "
                "requests whose handler lookup / un-idle write is parked by a slow store and released by the scheduler or after the end of "
                "the run (single runs and histories), terminal->running looked for around every store write")
    _corr(env, out, env.budget(200, 4500), env.budget(40, 1000))
    _search(env, out, env.budget(240, 5600))
    return out
