"""C07: constructor-level facts of workflows/retry_policy.py re-extracted from the current source
(lean/WfModel/GenRpCtors.lean, namespace Gen.RPC).  `Gen.RP` (harness/translate.py) regenerates the
`__call__` bodies; this plug-in regenerates what lies between a user's constructor call and those bodies:

  * dflt_<class>_<param>    - the default of every numeric constructor parameter of the wait strategies, of
                              `retry_policy` / `_ComposableRetryPolicy` and of the two deprecated policy
                              constructors (`float('inf')` becomes `none`: only `wait_incrementing.max`)
  * init_<class>            - the `__init__` body (which attribute every parameter is stored in and through
                              which conversion), whitespace-normalised
  * ret_<function>          - the return expression(s) of the function-style constructors `retry_policy`,
                              `ConstantDelayRetryPolicy`, `ExponentialBackoffRetryPolicy`, `wait_full_jitter`
  * ebpJitterWait / ebpPlainWait - the two branches of `ExponentialBackoffRetryPolicy`
  * dflt_policy_wait / dflt_policy_stop / dflt_policy_retry - default components of a composed policy
  * reflected_<base>_<op>   - bodies of the reflected operators (`__rand__`, `__ror__`, `__radd__`)
  * classBases              - `class X(Base)` for every class of the module (aliases / subclasses:
                              `wait_none(wait_fixed)`, `retry_unless_exception_type(retry_if_not_exception_type)`)

A missing shape yields the sentinel "<missing>" (strings) or the value -1 (numbers) and a note.
"""
from __future__ import annotations

import ast
import re
from fractions import Fraction

from ..boot import repo_path

LEAN_MODULE = "GenRpCtors"
REL = "packages/llama-index-workflows/src/workflows/retry_policy.py"

NUMERIC_DEFAULTS = {
    "wait_exponential": ["multiplier", "exp_base", "max", "min"],
    "wait_incrementing": ["start", "increment", "max"],
    "wait_random": ["min", "max"],
    "wait_exponential_jitter": ["initial", "exp_base", "max", "jitter"],
    "wait_random_exponential": ["multiplier", "exp_base", "max", "min"],
    "wait_full_jitter": ["multiplier", "exp_base", "max", "min"],
    "ConstantDelayRetryPolicy": ["maximum_attempts", "delay"],
    "ExponentialBackoffRetryPolicy": ["maximum_attempts", "initial_delay", "multiplier", "max_delay"],
}
OPTIONAL = {("wait_incrementing", "max")}
INIT_CLASSES = ["wait_fixed", "wait_none", "wait_exponential", "wait_incrementing", "wait_random", "wait_exponential_jitter",
                "wait_random_exponential", "wait_chain", "wait_combine", "stop_after_attempt", "stop_after_delay", "stop_before_delay",
                "stop_any", "stop_all", "retry_any", "retry_all", "_ComposableRetryPolicy"]


def lean_str(s: str | None) -> str:
    if s is None:
        return '"<missing>"'
    return '"' + s.replace("\\", "\\\\").replace('"', '\\"') + '"'


def _norm(nodes: list[ast.stmt]) -> str:
    body = [n for n in nodes if not (isinstance(n, ast.Expr) and isinstance(n.value, ast.Constant) and isinstance(n.value.value, str))]
    return re.sub(r"\s+", " ", " ; ".join(ast.unparse(n) for n in body))


def _top(tree: ast.Module, name: str) -> ast.AST | None:
    for n in tree.body:
        if isinstance(n, (ast.ClassDef, ast.FunctionDef)) and n.name == name:
            return n
    return None


def _fn_of(node: ast.AST | None, method: str = "__init__") -> ast.FunctionDef | None:
    if isinstance(node, ast.FunctionDef):
        return node
    if isinstance(node, ast.ClassDef):
        for m in node.body:
            if isinstance(m, ast.FunctionDef) and m.name == method:
                return m
    return None


def _defaults(fn: ast.FunctionDef) -> dict[str, ast.expr]:
    a = fn.args
    pos = a.posonlyargs + a.args
    out: dict[str, ast.expr] = {}
    for arg, d in zip(pos[len(pos) - len(a.defaults):], a.defaults):
        out[arg.arg] = d
    for arg, d in zip(a.kwonlyargs, a.kw_defaults):
        if d is not None:
            out[arg.arg] = d
    return out


def _num(e: ast.expr | None) -> Fraction | None | str:
    """Fraction for a finite numeric literal, 'inf' for float('inf'), None when it is anything else"""
    if e is None:
        return None
    if isinstance(e, ast.Constant) and isinstance(e.value, (int, float)) and not isinstance(e.value, bool):
        return Fraction(e.value)
    if isinstance(e, ast.UnaryOp) and isinstance(e.op, ast.USub):
        v = _num(e.operand)
        return -v if isinstance(v, Fraction) else None
    if isinstance(e, ast.Call) and isinstance(e.func, ast.Name) and e.func.id == "float" and len(e.args) == 1 \
            and isinstance(e.args[0], ast.Constant) and e.args[0].value in ("inf", "Infinity", "+inf"):
        return "inf"
    return None


def _rat(f: Fraction) -> str:
    return f"(({f.numerator} : Rat) / ({f.denominator} : Rat))" if f.denominator != 1 else f"({f.numerator} : Rat)"


def extract() -> dict:
    facts: dict = {"defaults": {}, "bool_defaults": {}, "init": {}, "ret": {}, "reflected": {}, "bases": [], "notes": [],
                   "policy_defaults": {}, "policy_default_args": {}, "ebp": {}}
    notes = facts["notes"]
    tree = ast.parse(open(repo_path(REL)).read())
    for cls, params in NUMERIC_DEFAULTS.items():
        fn = _fn_of(_top(tree, cls))
        ds = _defaults(fn) if fn is not None else {}
        for p in params:
            v = _num(ds.get(p))
            if v is None:
                notes.append(f"rp_ctors: default of {cls}({p}=...) not a numeric literal")
            facts["defaults"][(cls, p)] = v
    fn = _fn_of(_top(tree, "ExponentialBackoffRetryPolicy"))
    jd = _defaults(fn).get("jitter") if fn is not None else None
    facts["bool_defaults"][("ExponentialBackoffRetryPolicy", "jitter")] = jd.value if isinstance(jd, ast.Constant) and isinstance(jd.value, bool) else None
    for cls in INIT_CLASSES:
        fn = _fn_of(_top(tree, cls))
        facts["init"][cls] = _norm(fn.body) if fn is not None else None
    for f in ("retry_policy", "ConstantDelayRetryPolicy", "ExponentialBackoffRetryPolicy", "wait_full_jitter"):
        fn = _fn_of(_top(tree, f))
        rets = [re.sub(r"\s+", " ", ast.unparse(n.value)) for n in ast.walk(fn) if isinstance(n, ast.Return) and n.value is not None] if fn is not None else []
        facts["ret"][f] = " | ".join(rets) if rets else None
    # the two branches of ExponentialBackoffRetryPolicy
    fn = _fn_of(_top(tree, "ExponentialBackoffRetryPolicy"))
    if fn is not None:
        for n in fn.body:
            if isinstance(n, ast.If) and isinstance(n.test, ast.Name) and n.test.id == "jitter":
                facts["ebp"]["jitter"] = _norm(n.body)
                facts["ebp"]["plain"] = _norm(n.orelse)
    # defaults of the composed policy: retry_policy(...) and _ComposableRetryPolicy.__init__ must agree
    for owner in ("retry_policy", "_ComposableRetryPolicy"):
        fn = _fn_of(_top(tree, owner))
        ds = _defaults(fn) if fn is not None else {}
        for p in ("retry", "wait", "stop"):
            facts["policy_defaults"][(owner, p)] = ast.unparse(ds[p]) if p in ds else None
            d = ds.get(p)
            if p != "retry":
                # `wait_fixed(5)` / `stop_after_attempt(3)`: the callee and its single numeric argument
                ok = isinstance(d, ast.Call) and isinstance(d.func, ast.Name) and len(d.args) == 1 and not d.keywords and isinstance(_num(d.args[0]), Fraction)
                facts["policy_default_args"][(owner, p)] = (d.func.id, _num(d.args[0])) if ok else None  # type: ignore[union-attr]
                if not ok:
                    notes.append(f"rp_ctors: default {p} of {owner} is not `ctor(<number>)`")
    for base, ops in (("_RetryConditionBase", ("__rand__", "__ror__")), ("_StopConditionBase", ("__rand__", "__ror__")), ("_WaitStrategyBase", ("__radd__",))):
        for op in ops:
            fn = _fn_of(_top(tree, base), op)
            facts["reflected"][(base, op)] = _norm(fn.body) if fn is not None else None
    for n in tree.body:
        if isinstance(n, ast.ClassDef):
            facts["bases"].append(f"{n.name}({', '.join(ast.unparse(b) for b in n.bases)})")
    return facts


def generate(notes: list[str]) -> list[str]:
    f = extract()
    notes.extend(f["notes"])
    L = ["namespace Gen.RPC"]
    for (cls, p), v in f["defaults"].items():
        name = f"dflt_{cls}_{p}"
        if (cls, p) in OPTIONAL:
            if v == "inf":
                L.append(f"def {name} : Option Rat := none")
            elif isinstance(v, Fraction):
                L.append(f"def {name} : Option Rat := some {_rat(v)}")
            else:
                L.append(f"def {name} : Option Rat := some (-1 : Rat)")
        else:
            if isinstance(v, Fraction):
                L.append(f"def {name} : Rat := {_rat(v)}")
            else:
                if v == "inf":
                    notes.append(f"rp_ctors: default of {cls}({p}=...) is infinite; the model has a finite number there")
                L.append(f"def {name} : Rat := (-1 : Rat)")
    for (cls, p), v in f["bool_defaults"].items():
        L.append(f"def dflt_{cls}_{p} : Option Bool := {'none' if v is None else ('some true' if v else 'some false')}")
    for cls, s in f["init"].items():
        L.append(f"def init_{cls.strip('_')} : String := {lean_str(s)}")
    for fn, s in f["ret"].items():
        L.append(f"def ret_{fn} : String := {lean_str(s)}")
    L.append(f"def ebpJitterWait : String := {lean_str(f['ebp'].get('jitter'))}")
    L.append(f"def ebpPlainWait : String := {lean_str(f['ebp'].get('plain'))}")
    for (owner, p), s in f["policy_defaults"].items():
        L.append(f"def dflt_{owner.strip('_')}_{p} : String := {lean_str(s)}")
    for (owner, p), v in f["policy_default_args"].items():
        L.append(f"def dflt_{owner.strip('_')}_{p}_ctor : String := {lean_str(v[0] if v else None)}")
        L.append(f"def dflt_{owner.strip('_')}_{p}_arg : Rat := {_rat(v[1]) if v else '(-1 : Rat)'}")
    for (base, op), s in f["reflected"].items():
        L.append(f"def reflected_{base.strip('_')}_{op.strip('_')} : String := {lean_str(s)}")
    L.append("def classBases : List String := [" + ", ".join(lean_str(x) for x in f["bases"]) + "]")
    L.append("end Gen.RPC")
    return L
