"""C23 (extension) — sessions: chains of real Workflow subclasses, `add_step`, instances, `validate()` and the cached
`_validate()` that `run()` calls, against the compiled session model (`wfdriver validatecache`); and the whole result
record of `_validate_workflow` (op `X`).

A session is replayable: `{"bases": class table, "ops": [...]}` with ops
  {"op": "C", "methods": [step, ...]}            new class deriving from the last one (from Workflow for the first)
  {"op": "A", "k": class, "step": step}          free function registered with @step(workflow=cls)  (-> cls.add_step)
  {"op": "N", "k": class, "skip": [...], "disabled": bool}   instance
  {"op": "V", "i": instance}                     wf.validate()
  {"op": "R", "i": instance}                     wf._validate()   (what run() calls)
Steps are the dicts of harness/props/c23.py (`_mk`).
"""
from __future__ import annotations

import random
from typing import Any

from .runner import Driver, Env, Outcome, Violation, diff_streams, Divergence


class _NoSession(Exception):
    pass


def _c23():
    from .props import c23
    return c23


# --------------------------------------------------------------------------
# real objects


def _method(cname: str, s: dict, classes: list[type]) -> Any:
    from workflows import catch_error, step

    c23 = _c23()
    name = c23.step_name(s["name"])

    async def fn(self: Any, ev: Any) -> Any:  # pragma: no cover - never run
        return None

    fn.__name__ = name
    fn.__qualname__ = f"{cname}.{name}"
    ret = [classes[c] for c in s["ret"]]
    fn.__annotations__ = {"ev": c23._union([classes[c] for c in s["acc"]]), "return": None if ret == [type(None)] else c23._union(ret)}
    if s["handler"]:
        return catch_error(for_steps=None if s["for"] is None else [c23.step_name(t) for t in s["for"]], max_recoveries=s["maxrec"])(fn)
    return step(skip_graph_checks=list(s["skip"]))(fn)


def _free(s: dict, classes: list[type]) -> Any:
    c23 = _c23()
    name = c23.step_name(s["name"])

    async def ffn(ev: Any) -> Any:  # pragma: no cover
        return None

    ffn.__name__ = name
    ffn.__qualname__ = name
    ret = [classes[c] for c in s["ret"]]
    ffn.__annotations__ = {"ev": c23._union([classes[c] for c in s["acc"]]), "return": None if ret == [type(None)] else c23._union(ret)}
    return ffn


def _step_tokens(s: dict) -> str:
    """a step description in the driver's notation (used only when the real StepConfig cannot be read back)"""
    c23 = _c23()
    skip = [c23._code(x) for x in s["skip"]]
    toks = [str(s["name"]), str(len(s["acc"])), *map(str, s["acc"]), str(len(s["ret"])), *map(str, s["ret"]), str(len(skip)), *map(str, skip),
            "1" if s["handler"] else "0"]
    toks += ["_"] if s["for"] is None else [str(len(s["for"])), *map(str, s["for"])]
    toks.append(str(s["maxrec"]))
    return " ".join(toks)


def _decl(h: Any) -> str:
    fs = h.for_steps
    f = "_" if fs is None else "[" + (",".join(str(int(t[1:])) for t in fs) if fs else "-") + "]"
    return f"{int(h.step_name[1:])}:{f}:{h.max_recoveries}"


def _decls(hs: dict) -> str:
    return ";".join(_decl(h) for h in hs.values()) if hs else "-"


def _routes(m: dict) -> str:
    items = sorted((int(k[1:]), int(v[1:])) for k, v in m.items())
    return ",".join(f"{a}>{b}" for a, b in items) if items else "-"


def inst_state(wf: Any, classes: list[type]) -> str:
    c23 = _c23()
    res = wf._validation_result
    steps = list(wf._step_configs())
    return (f"start={c23.cls_id(classes, wf._start_event_class)} stop={c23.cls_id(classes, wf._stop_event_class)} "
            f"h={_decls(wf._catch_error_handlers)} r={_routes(wf._handler_for_step)} "
            f"res={'None' if res is None else int(res)} ver={wf._validated_version} vis={type(wf)._step_functions_version} "
            f"steps={','.join(str(int(n[1:])) for n in steps) if steps else '-'}")


def result_line(res: Any, classes: list[type]) -> str:
    c23 = _c23()
    return (f"ok {int(bool(res.uses_hitl))} start={c23.cls_id(classes, res.start_event_class)} stop={c23.cls_id(classes, res.stop_event_class)} "
            f"h={_decls(res.catch_error_handlers)} r={_routes(res.handler_for_step)}")


# --------------------------------------------------------------------------
# running one session on the implementation


def _fresh(wf: Any, classes: list[type]) -> tuple[str, Any]:
    """what a fresh `_validate_workflow` on the instance's current steps answers (no cache involved)"""
    from workflows.errors import WorkflowConfigurationError, WorkflowValidationError
    from workflows.representation.validate import _validate_workflow

    c23 = _c23()
    try:
        r = _validate_workflow(wf._step_configs(), type(wf).__name__, wf._skip_graph_checks)
        return f"ok {int(bool(r.uses_hitl))}", r
    except (WorkflowConfigurationError, WorkflowValidationError) as e:
        return "err " + c23.classify(e, classes), None


def run_session(sess: dict, out: Outcome) -> tuple[list[str], list[str], list[Violation]] | None:
    """-> (op lines, implementation answers, violations); None when the first class cannot be built"""
    from workflows import Workflow, step
    from workflows.errors import WorkflowConfigurationError, WorkflowValidationError

    c23 = _c23()
    classes = c23.build_classes(sess["bases"])
    if classes is None:
        return None
    ops = [f"H {c23.op_hier(sess['bases'])}"]
    exp = ["ok"]
    viols: list[Violation] = []
    chain: list[type] = []
    insts: list[Any] = []
    inst_meta: list[dict] = []

    def violation(sig: str, what: str) -> None:
        viols.append(Violation(sig, what, {"session": sess}))

    def one_op(op: dict) -> bool:
        """-> False when the session cannot go on"""
        kind = op["op"]
        if kind == "C":
            k = len(chain)
            cname = f"WF{k}"
            try:
                methods = {c23.step_name(s["name"]): _method(cname, s, classes) for s in op["methods"]}
                methods["__module__"] = "c23_generated"
                parent = chain[-1] if chain else Workflow
                cls = type(Workflow)(cname, (parent,), methods)
            except WorkflowValidationError:
                if not chain:
                    raise _NoSession()
                out.count("session:class-not-expressible")
                return True
            chain.append(cls)
            cfgs = {n: f._step_config for n, f in cls._get_steps_from_class().items()}
            ops.append(f"C {c23.op_steps(cfgs, classes)}")
            exp.append(f"ok cls={k} vis={cls._step_functions_version}")
            out.count("session-op:class" + ("" if k == 0 else "-sub"))
        elif kind == "A":
            k = op["k"]
            if k >= len(chain):
                return True
            cls = chain[k]
            s = op["step"]
            name = c23.step_name(s["name"])
            before = dict(cls._step_functions)
            try:
                step(workflow=cls, skip_graph_checks=list(s["skip"]))(_free(s, classes))
                toks = c23.op_steps({name: cls._step_functions[name]._step_config}, classes).split(" ", 1)[1]
                ans = "ok"
            except WorkflowValidationError as e:
                if "is already part of this workflow" not in str(e):
                    out.count("session:step-not-expressible")
                    return True
                toks = _step_tokens(s)
                ans = "dup"
                if dict(cls._step_functions) != before:
                    violation("C23/add_step_refused_but_stored", f"add_step raised for {name} but changed _step_functions")
            ops.append(f"A {k} {toks}")
            exp.append(f"{ans} vis={cls._step_functions_version}")
            out.count("session-op:add_step:" + ans + (":" + op["why"] if op.get("why") else ""))
        elif kind == "N":
            k = op["k"]
            if k >= len(chain):
                return True
            codes = [c23._code(x) for x in op["skip"]]
            ops.append(f"N {k} {len(codes)} {' '.join(map(str, codes))} {int(op['disabled'])}".replace("  ", " "))
            try:
                wf = chain[k](skip_graph_checks=set(op["skip"]), disable_validation=op["disabled"])
                insts.append(wf)
                inst_meta.append({"k": k, "skip": list(op["skip"]), "disabled": op["disabled"]})
                exp.append(f"inst {len(insts) - 1} {inst_state(wf, classes)}")
                out.count("session-op:instance" + (":disabled" if op["disabled"] else ""))
            except (WorkflowConfigurationError, WorkflowValidationError) as e:
                exp.append("err " + c23.classify(e, classes))
                out.count("session-op:instance:refused")
        elif kind in ("V", "R"):
            i = op["i"]
            ops.append(f"{kind} {i}")
            if i >= len(insts):
                exp.append("bad-op | ?")
                return True
            wf = insts[i]
            meta = inst_meta[i]
            fresh, fres = _fresh(wf, classes)
            # how the call will be answered, judged from the instance alone (for the recorded distribution)
            seen = type(wf)._step_functions_version
            if kind == "R":
                if meta["disabled"]:
                    path = "disabled"
                elif wf._validation_result is not None and wf._validated_version == seen:
                    path = "cache-hit"
                elif wf._validated_version == -1:
                    path = "first"
                else:
                    path = "stale-revalidate" + (":inherited-version" if "_step_functions_version" not in vars(type(wf)) else "")
            else:
                path = "forced"
            try:
                r = wf.validate() if kind == "V" else wf._validate()
                ans = f"ok {int(r)}" if isinstance(r, bool) else f"ok?{r!r}"
            except (WorkflowConfigurationError, WorkflowValidationError) as e:
                ans = "err " + c23.classify(e, classes)
            exp.append(f"{ans} | {inst_state(wf, classes)}")
            out.count(f"session-op:{'validate' if kind == 'V' else '_validate'}:{path}:{ans.split(' ')[0]}")
            out.evaluations += 1
            out.nontrivial(f"S {ops[-1]} {path} {ans} {len(ops)} {hash(tuple(ops)) & 0xffffff}")
            if path == "disabled":
                if ans != "ok 0":
                    violation("C23/disabled_validation_answered:" + ans.split(" ")[0], f"_validate() on a disable_validation instance answered {ans}")
                return True
            # (S) never a stale verdict: the answer is the answer of a fresh _validate_workflow on the current steps
            if ans.split(" ")[:2] != fresh.split(" ")[:2] and not (ans.startswith("err") and fresh.startswith("err") and
                                                                 ans.split(" ")[1] == fresh.split(" ")[1]):
                violation(f"C23/stale_cached_verdict:{' '.join(fresh.split(' ')[:2])}->{' '.join(ans.split(' ')[:2])}:{path}",
                          f"{'validate()' if kind == 'V' else '_validate()'} answered `{ans}` but a fresh _validate_workflow on the instance's "
                          f"current steps {list(wf._step_configs())} answers `{fresh}` (path: {path}; validated version "
                          f"{wf._validated_version}, class version {seen})")
            elif ans.startswith("ok") and fres is not None:
                for field, got, want in (("handler_for_step", wf._handler_for_step, fres.handler_for_step),
                                         ("catch_error_handlers", {k_: _decl(v) for k_, v in wf._catch_error_handlers.items()},
                                          {k_: _decl(v) for k_, v in fres.catch_error_handlers.items()}),
                                         ("start_event_class", wf._start_event_class, fres.start_event_class),
                                         ("stop_event_class", wf._stop_event_class, fres.stop_event_class)):
                    if got != want:
                        violation(f"C23/stale_validation_state:{field}:{path}",
                                  f"after {kind} answered {ans} the instance holds {field}={got!r} but a fresh validation gives {want!r}")
            # (S) the reference oracle of the property on the current step set
            case_like = {"skip": meta["skip"], "path": "V", "session": sess}
            v = c23.monitor(case_like, ans, wf._step_configs(), out, classes)
            if v is not None:
                v.signature = v.signature + ":session"
                viols.append(v)
        return True

    for op in sess["ops"]:
        try:
            one_op(op)
        except _NoSession:
            return None
        except KeyError as e:   # an event class of another pool: the class lists steps it never declared
            violation("C23/session_foreign_step", f"a class of the session lists a step it never declared ({e!r})")
            break
    del ops[len(exp):]
    return ops, exp, viols


# --------------------------------------------------------------------------
# generator


def gen_session(rng: random.Random, bases: list[list[int]]) -> dict:
    c23 = _c23()
    case, _label = c23.gen_flow(rng, bases, "W")
    if _label.startswith("mut:") and rng.random() < 0.7:
        for _ in range(6):
            case, _label = c23.gen_flow(rng, bases, "W")
            if not _label.startswith("mut:"):
                break
    fam = c23._families(bases)
    steps = case["steps"]
    used_names = {s["name"] for s in steps}
    used_types = {c for s in steps for c in s["acc"] + s["ret"]}
    starts = [c for c in used_types if c in fam["start"]]
    stops = [c for c in used_types if c in fam["stop"]]
    mids = [c for c in used_types if c in fam["plain"] and c != 0]
    fresh_plain = [p for p in fam["plain"] if p not in used_types and p != 0]
    keep_boundary = rng.random() < 0.8   # mostly keep the start consumer and a stop producer as methods: instances can be built
    for s in steps:
        boundary = any(c in fam["start"] for c in s["acc"]) or any(c in fam["stop"] for c in s["ret"])
        s["free"] = (not s["handler"]) and rng.random() < 0.35 and not (keep_boundary and boundary)
    methods0 = [s for s in steps if not s["free"]]
    pending: dict[int, list[dict]] = {0: [s for s in steps if s["free"]]}
    rng.shuffle(pending[0])
    if not methods0:
        methods0, pending[0] = pending[0][:1], pending[0][1:]
    ops: list[dict] = [{"op": "C", "methods": methods0}]
    ncls, ninst = 1, 0

    def new_name() -> int:
        n = next(x for x in range(60, 99) if x not in used_names)
        used_names.add(n)
        return n

    need_producer: dict[int, list[int]] = {}   # per class: types consumed by an added step that nothing produces yet
    need_consumer: dict[int, list[int]] = {}
    progress = [0.0]                            # how far the session is (breaking steps come late: they cannot be undone)

    def extra(k: int) -> tuple[dict, str]:
        T = rng.choice(stops) if stops else 2
        S = rng.choice(starts) if starts else 1
        src = rng.choice(mids) if mids else S
        if need_producer.get(k) and rng.random() < 0.6:
            return c23._mk(new_name(), [src], [need_producer[k].pop(), T]), "repair"
        if need_consumer.get(k) and rng.random() < 0.6:
            return c23._mk(new_name(), [need_consumer[k].pop()], [T]), "repair"
        if rng.random() < (0.12 if progress[0] < 0.6 else 0.45):
            why = rng.choice(["dup", "second_start", "stop_consumer", "island", "island"])
        else:
            why = rng.choice(["extend", "extend", "extend", "hitl", "hitl", "break_consume", "break_produce"])
        if why == "extend":
            return c23._mk(new_name(), [src], [T]), why
        if why == "hitl":
            return c23._mk(new_name(), [rng.choice(fam["hr"])], [T]), why
        if why == "break_consume":
            q = rng.choice(fresh_plain or fam["plain"])
            need_producer.setdefault(k, []).append(q)
            return c23._mk(new_name(), [q], [T]), why
        if why == "break_produce":
            q = rng.choice(fresh_plain or fam["plain"])
            need_consumer.setdefault(k, []).append(q)
            return c23._mk(new_name(), [src], [q, T]), why
        if why == "dup":
            return c23._mk(rng.choice(sorted(used_names)), [S], [T]), why
        if why == "second_start":
            others = [c for c in fam["start"] if c not in starts]
            return c23._mk(new_name(), [rng.choice(others) if others else S], [T]), why
        if why == "island":
            q = rng.choice(fresh_plain or fam["plain"])
            return c23._mk(new_name(), [q], [q, T], skip=rng.choice([[], [], ["reachability"]])), why
        return c23._mk(new_name(), [src, T], [T]), why

    if rng.random() < 0.45:
        # complete the planned workflow first: later validations mostly succeed, so caches get filled and hit
        while pending[0]:
            ops.append({"op": "A", "k": 0, "step": pending[0].pop(), "why": "planned"})
    n_ops = rng.randint(8, 24)
    for step_no in range(n_ops):
        progress[0] = step_no / n_ops
        r = rng.random()
        if r < 0.16 or ninst == 0 and r < 0.5:
            skip = list(case["skip"]) if rng.random() < 0.5 else (rng.sample(c23.CHECKS, rng.randint(0, 2)) if rng.random() < 0.3 else [])
            if rng.random() < 0.04:
                skip = skip + ["bogus"]
            ops.append({"op": "N", "k": ncls - 1 if rng.random() < 0.5 else rng.randrange(ncls), "skip": skip, "disabled": rng.random() < 0.12})
            ninst += 1
        elif r < 0.28:
            ops.append({"op": "V", "i": rng.randrange(ninst + (1 if rng.random() < 0.03 else 0)) if ninst else 0})
        elif r < 0.66:
            ops.append({"op": "R", "i": rng.randrange(ninst + (1 if rng.random() < 0.03 else 0)) if ninst else 0})
        elif r < 0.90:
            with_pending = [k for k in range(ncls) if pending.get(k)]
            if with_pending and rng.random() < 0.7:
                k = rng.choice(with_pending)
                ops.append({"op": "A", "k": k, "step": pending[k].pop(), "why": "planned"})
            else:
                k = rng.randrange(ncls)
                s, why = extra(k)
                ops.append({"op": "A", "k": k, "step": s, "why": why})
        elif ncls < 4:
            ms = []
            for _m in range(rng.randint(0, 2)):
                s, why = extra(ncls)
                if why != "dup":
                    ms.append(s)
            if rng.random() < 0.3 and methods0:
                # override an inherited method with a different signature
                o = dict(rng.choice(methods0))
                o["ret"] = list(o["ret"]) + ([rng.choice(mids)] if mids and rng.random() < 0.5 else [])
                o["free"] = False
                ms.append(o)
            ops.append({"op": "C", "methods": ms})
            pending[ncls] = []
            ncls += 1
    if rng.random() < 0.3 and ncls < 4:
        # a subclass instance that sees an *inherited* class version: validated, then the parent gets a step
        ops.append({"op": "C", "methods": [extra(ncls)[0]] if rng.random() < 0.4 else []})
        ops.append({"op": "N", "k": ncls, "skip": list(case["skip"]), "disabled": False})
        ops += [{"op": "R", "i": ninst}, {"op": "A", "k": rng.randrange(ncls), "step": c23._mk(new_name(), [rng.choice(mids) if mids else 1], [rng.choice(stops) if stops else 2]), "why": "extend"},
                {"op": "R", "i": ninst}, {"op": "R", "i": ninst}]
    return {"bases": bases, "ops": ops}


def corpus_sessions() -> list[tuple[dict, str]]:
    c23 = _c23()
    m = c23._mk
    B = [[3], [4], [0], [7], [8], [1], [2], [9], [4, 0], [5]]   # as in c23.corpus()
    one = m(1, [1], [2])
    return [
        ({"bases": B, "ops": [{"op": "C", "methods": [one]}, {"op": "N", "k": 0, "skip": [], "disabled": False}, {"op": "R", "i": 0},
                              {"op": "R", "i": 0}, {"op": "A", "k": 0, "step": m(2, [9], [2])}, {"op": "R", "i": 0}, {"op": "V", "i": 0},
                              {"op": "A", "k": 0, "step": m(3, [1], [9])}, {"op": "R", "i": 0}, {"op": "R", "i": 0}]},
         "cache hit, then add_step breaks and a second add_step repairs the workflow"),
        ({"bases": B, "ops": [{"op": "C", "methods": [one]}, {"op": "N", "k": 0, "skip": [], "disabled": False}, {"op": "V", "i": 0},
                              {"op": "A", "k": 0, "step": m(2, [8], [2])}, {"op": "R", "i": 0}, {"op": "R", "i": 0}]},
         "add_step of a HumanResponseEvent consumer flips the cached flag"),
        ({"bases": B, "ops": [{"op": "C", "methods": [one]}, {"op": "C", "methods": []}, {"op": "N", "k": 1, "skip": [], "disabled": False},
                              {"op": "R", "i": 0}, {"op": "A", "k": 0, "step": m(2, [9], [2])}, {"op": "R", "i": 0},
                              {"op": "A", "k": 1, "step": m(3, [9], [2])}, {"op": "R", "i": 0}, {"op": "A", "k": 0, "step": m(4, [1], [9])},
                              {"op": "N", "k": 0, "skip": [], "disabled": False}, {"op": "R", "i": 1}, {"op": "R", "i": 0}]},
         "subclass instance: sees the parent's version until its own class gets a step; parent's free steps are not inherited"),
        ({"bases": B, "ops": [{"op": "C", "methods": [one, m(5, [5], [2], handler=True)]}, {"op": "N", "k": 0, "skip": [], "disabled": True},
                              {"op": "R", "i": 0}, {"op": "V", "i": 0}, {"op": "R", "i": 0},
                              {"op": "A", "k": 0, "step": m(1, [1], [2])}, {"op": "R", "i": 0}, {"op": "V", "i": 7}]},
         "disable_validation: _validate() answers False and leaves the routing table empty until validate(); duplicate add_step; unknown instance"),
        ({"bases": B, "ops": [{"op": "C", "methods": [one, m(5, [5], [2], handler=True, **{"for": [1]}), m(6, [5], [2], handler=True)]},
                              {"op": "N", "k": 0, "skip": ["reachability"], "disabled": False}, {"op": "N", "k": 0, "skip": ["bogus"], "disabled": False},
                              {"op": "R", "i": 0}, {"op": "A", "k": 0, "step": m(2, [1], [2])}, {"op": "R", "i": 0}, {"op": "R", "i": 0}]},
         "scoped + wildcard handlers: the routing table grows with the added step"),
    ]


# --------------------------------------------------------------------------
# correspondence


def run_sessions(env: Env, out: Outcome, sessions: list[tuple[dict, str]]) -> None:
    ops: list[str] = []
    exp: list[str] = []
    ctx: list[Any] = []
    for sess, label in sessions:
        r = run_session(sess, out)
        if r is None:
            out.count("session:not-expressible")
            continue
        o, e, viols = r
        ops += o
        exp += e
        ctx += [{"session": sess, "label": label}] * len(o)
        out.violations.extend(viols)
        out.count("session")
        if label != "generated":
            out.sample({"label": "session: " + label, "ops": o, "impl": e})
    if not ops:
        return
    try:
        mo = Driver("validatecache").run(ops)
    except Exception as ex:  # noqa: BLE001
        out.divergences.append(Divergence("validatecache", 0, "<driver>", repr(ex), ""))
        return
    out.traces_validated += len(sessions)
    out.disagreements_checked += len(ops)
    d = diff_streams("validatecache", ops, mo, exp, None)
    if d is not None:
        if d.index < len(ctx):
            d.context = ctx[d.index]
        out.divergences.append(d)


def result_corr(out: Outcome, cases: list[dict]) -> None:
    """op `X`: the whole result record of `_validate_workflow` (start / stop classes, handler descriptors, routing table, flag)"""
    from workflows.errors import WorkflowConfigurationError, WorkflowValidationError
    from workflows.representation.validate import _validate_workflow

    c23 = _c23()
    ops, exp = [], []
    for case in cases:
        classes = c23.build_classes(case["bases"])
        if classes is None:
            continue
        steps = c23.direct_configs(case, classes)
        codes = [c23._code(s) for s in case["skip"]]
        ops.append(f"X {c23.op_hier(case['bases'])} {c23.op_steps(steps, classes)} {' '.join([str(len(codes)), *map(str, codes)])}")
        try:
            res = _validate_workflow(steps, "WF", set(case["skip"]))
            exp.append(result_line(res, classes))
            out.count("result-op:ok" + (":routes" if res.handler_for_step else ""))
            # (S) the routing table against the property's reading of @catch_error, independent of the model
            handlers = {n: cfg for n, cfg in steps.items() if cfg.role == "catch_error"}
            want: dict[str, str] = {}
            wild = [n for n, h in handlers.items() if h.catch_error_for_steps is None]
            for n in steps:
                owners = [h for h, cfg in handlers.items() if cfg.catch_error_for_steps is not None and n in cfg.catch_error_for_steps]
                if owners:
                    want[n] = owners[0]
                elif wild and n not in handlers:
                    want[n] = wild[0]
            from workflows.events import StartEvent, StopEvent
            starts = {c for cfg in steps.values() for c in cfg.accepted_events if issubclass(c, StartEvent)}
            stops = {c for cfg in steps.values() for c in cfg.return_types if issubclass(c, StopEvent)}
            if {res.start_event_class} != starts:
                out.violations.append(Violation("C23/result_record_differs:start_event_class",
                                                f"start_event_class={res.start_event_class!r} but the StartEvent types consumed are {starts}", case))
            if {res.stop_event_class} != stops:
                out.violations.append(Violation("C23/result_record_differs:stop_event_class",
                                                f"stop_event_class={res.stop_event_class!r} but the StopEvent types returned are {stops}", case))
            if list(res.catch_error_handlers) != list(handlers) or any(
                    (h.for_steps, h.max_recoveries) != (None if handlers[n].catch_error_for_steps is None else list(handlers[n].catch_error_for_steps),
                                                        handlers[n].catch_error_max_recoveries) for n, h in res.catch_error_handlers.items()):
                out.violations.append(Violation("C23/result_record_differs:catch_error_handlers",
                                                f"catch_error_handlers={res.catch_error_handlers!r} does not describe the @catch_error steps {list(handlers)}", case))
            if dict(res.handler_for_step) != want:
                out.violations.append(Violation("C23/routing_table_differs", f"handler_for_step={dict(res.handler_for_step)} but the handlers declare {want}", case))
        except (WorkflowConfigurationError, WorkflowValidationError) as e:
            exp.append("err " + c23.classify(e, classes))
            out.count("result-op:err")
        out.evaluations += 1
    if not ops:
        return
    try:
        mo = Driver("validatecache").run(ops)
    except Exception as ex:  # noqa: BLE001
        out.divergences.append(Divergence("validatecache", 0, "<driver>", repr(ex), ""))
        return
    out.traces_validated += len(ops)
    out.disagreements_checked += len(ops)
    d = diff_streams("validatecache", ops, mo, exp, None)
    if d is not None:
        out.divergences.append(d)
