import WfProofs.EngineReduce
import WfProofs.RunnerWorkers
/-!
# C01 — a step never runs more invocations at once than its worker limit

The reducer owns the table of in-progress invocations (`in_progress`); a worker
coroutine exists only for an entry of that table (`CommandRunWorker` is emitted
next to the insertion, and on a collect re-run for the same slot).  The theorems
below hold for **every** sequence of ticks — well-formed or not, any results,
any retry-policy decisions, any clock values — so they cover every workflow
graph, worker count and completion order at once.
-/
open Engine

/-- All states reachable from `init` by rewinding and then reducing an arbitrary
list of (tick, now) pairs. -/
def C01.reach (cfg : Cfg) (pol : Policy) (st0 : State) (now0 : Int) (ticks : List (Tick × Int)) : State :=
  ticks.foldl (fun st tn => (reduce cfg pol tn.1 st tn.2).1) (rewind cfg st0 now0).1

/-- **Invariant**: in every reachable state, for every step, the worker ids of the
in-progress invocations are pairwise distinct and lie in `[0, num_workers)`. -/
theorem C01_slots_distinct_in_range (cfg : Cfg) (hwf : cfg.WF) (pol : Policy) (st0 : State)
    (h0 : IdsInv cfg st0) (now0 : Int) (ticks : List (Tick × Int)) :
    IdsInv cfg (C01.reach cfg pol st0 now0 ticks) := by
  unfold C01.reach
  have hr := rewind_idsInv cfg hwf st0 now0 h0
  generalize (rewind cfg st0 now0).1 = st at hr
  induction ticks generalizing st with
  | nil => simpa using hr
  | cons tn rest ih =>
    simp only [List.foldl_cons]
    exact ih _ (reduce_idsInv cfg hwf pol tn.1 st tn.2 hr)

/-- **Worker limit**: hence at most `num_workers` invocations of a step are in
progress in any reachable state (pigeonhole on the slots). -/
theorem C01_workers_bounded (cfg : Cfg) (hwf : cfg.WF) (pol : Policy) (st0 : State)
    (h0 : IdsInv cfg st0) (now0 : Int) (ticks : List (Tick × Int)) :
    ∀ c ∈ cfg.steps,
      ((C01.reach cfg pol st0 now0 ticks).workers c.name).inProg.length ≤ c.numWorkers := by
  intro c hc
  exact (C01_slots_distinct_in_range cfg hwf pol st0 h0 now0 ticks c hc).length_le

/-- A fresh run starts from a state satisfying the invariant (and so does any
deserialised state, whose `in_progress` lists are empty). -/
theorem C01_init (cfg : Cfg) : IdsInv cfg initState := idsInv_init cfg

/-- The slot allocator never fails: with the invariant, `id_candidates[0]` exists
whenever there is capacity, so starting a worker never raises. -/
theorem C01_allocator_total (att : Attempt) (step : Nat) (ss : StepState) (nw : Nat) (now : Int)
    (h : IdsOk ss nw) : Cmd.crash ∉ (addOrEnqueue att step ss nw now).2 :=
  addOrEnqueue_no_crash att step ss nw now h

/-- A started worker always owns the slot it is told to run on: the `runWorker`
command of `addOrEnqueue` names an id that is in the new table and was free before. -/
theorem C01_started_on_free_slot (att : Attempt) (step : Nat) (ss : StepState) (nw : Nat) (now : Int)
    (ev : Ev) (w : Nat) (h : Cmd.runWorker step ev w ∈ (addOrEnqueue att step ss nw now).2) :
    w ∉ usedIds ss ∧ w < nw ∧ w ∈ usedIds (addOrEnqueue att step ss nw now).1 := by
  unfold addOrEnqueue at h ⊢
  by_cases hlt : ss.inProg.length < nw
  · simp only [hlt, ↓reduceIte] at h ⊢
    cases hfree : freeIds ss nw with
    | nil => simp [hfree] at h
    | cons i rest =>
      simp only [hfree, List.mem_cons, Cmd.runWorker.injEq, List.mem_nil_iff, or_false,
        reduceCtorEq] at h
      obtain ⟨_, _, hw⟩ := h
      subst hw
      have hmem : w ∈ freeIds ss nw := by rw [hfree]; simp
      obtain ⟨h1, h2⟩ := mem_freeIds hmem
      refine ⟨h2, h1, ?_⟩
      simp [usedIds]
  · simp [hlt] at h

/-! Non-vacuity: a concrete configuration with two workers, three events, any order. -/
def C01.exCfg : Cfg := { steps := [{ name := 1, accepted := [5], numWorkers := 2, hasRetry := false }] }
def C01.exEv (u : Nat) : Ev := { ty := 5, kind := .plain, uid := u }
example : C01.exCfg.WF := by simp [Cfg.WF, Cfg.names, C01.exCfg]
example :
    let st := C01.reach C01.exCfg (fun _ _ _ _ => .stop) initState 0
      [(.addEvent { ev := C01.exEv 1 } none, 0), (.addEvent { ev := C01.exEv 2 } none, 0),
       (.addEvent { ev := C01.exEv 3 } none, 0)]
    ((st.workers 1).inProg.map (·.wid), (st.workers 1).queue.length) = ([0, 1], 1) := by decide

/-! ## The runner: live worker tasks

What the property literally talks about is the set of started-and-unfinished worker
tasks, `Runner.running`.  Below: `running` is a duplicate-free sub-table of the reducer's
`in_progress` tables in every state the runner LTS reaches — for every schedule
(`acts : List Act`: buffer drains, workers finishing in any order with any results, mailbox
pulls, timers, time, external ticks, stream writes), every policy, every (possibly resumed)
initial state.  It is an inclusion, not an equality: between a `workerDone` and the `drain`
of its `stepResult` tick the task is gone while its in-progress row still exists.

**Finding.**  Stated without a guard, this is FALSE of the reducer as it is: a collect
re-run re-issues `CommandRunWorker` for the finishing worker's own slot, and one
`stepResult` tick can take the re-run branch *twice* when the results name the same
collect buffer three times (`ctx.collect_events(ev, …, buffer_id=b)` called three times in
one invocation of a multi-worker step: re-run, append, re-run again against the refreshed
snapshot).  Two tasks then run on one slot, a 2-worker step has 3 live tasks, and the
second task's result finds no in-progress row (the real engine raises
`ValueError: Worker 1 not found in in_progress`; reproduced on the real code by
`harness/corpus/c01_double_collect_rerun_witness.py`).  `C01_refuted_*` are the concrete
witnesses; the `…_partial` theorems hold for every schedule in which no invocation names
a collect buffer twice (`Act.CollectOnce`, a decidable property of the action list alone).
-/

/-- start of a run, then an arbitrary schedule -/
abbrev C01.runFrom (cfg : Cfg) (pol : Policy) (st0 : State) (now : Int) (start : Option Ev)
    (timeout : Option Nat) (acts : List Act) : Runner :=
  Runner.run cfg pol (Runner.init cfg st0 now start timeout) acts

/-- full-strength clause 1 (as asked): every live task is backed by an in-progress row of its
step with its worker id and event, and no two live tasks share a `(step, worker id)` slot -/
def C01_statement_running_subset_in_progress : Prop :=
  ∀ (cfg : Cfg), cfg.WF → ∀ (pol : Policy) (st0 : State), IdsInv cfg st0 →
    ∀ (now : Int) (start : Option Ev) (timeout : Option Nat) (acts : List Act),
      (∀ w ∈ (C01.runFrom cfg pol st0 now start timeout acts).running,
        ∃ ip ∈ ((C01.runFrom cfg pol st0 now start timeout acts).st.workers w.step).inProg,
          ip.wid = w.wid ∧ ip.ev = w.ev) ∧
      ((C01.runFrom cfg pol st0 now start timeout acts).running.map Worker.slot).Nodup

/-- full-strength clause 2: at most `num_workers` live tasks per step -/
def C01_statement_running_bounded : Prop :=
  ∀ (cfg : Cfg), cfg.WF → ∀ (pol : Policy) (st0 : State), IdsInv cfg st0 →
    ∀ (now : Int) (start : Option Ev) (timeout : Option Nat) (acts : List Act),
      ∀ c ∈ cfg.steps,
        ((C01.runFrom cfg pol st0 now start timeout acts).running.filter
          (fun w => w.step == c.name)).length ≤ c.numWorkers

/-- deliver event `u` to the run: external `send_event`, mailbox pull, process the tick -/
def C01.feed (u : Nat) : List Act :=
  [.external (.addEvent { ev := C01.exEv u } none), .pull, .drain]

/-- the witness schedule on the 2-worker step of `C01.exCfg`: events 1 and 2 run on slots 0
and 1; the first finishes adding its event to collect buffer 7; event 3 takes slot 0; the
second finishes naming buffer 7 three times -/
def C01.doubleRerun : List Act :=
  C01.feed 1 ++ C01.feed 2 ++
  [.workerDone 1 0 [.addCollected 7 (C01.exEv 1), .result none], .drain] ++
  C01.feed 3 ++
  [.workerDone 1 1 [.addCollected 7 (C01.exEv 2), .addCollected 7 (C01.exEv 2),
      .addCollected 7 (C01.exEv 2)], .drain]

def C01.exPol : Policy := fun _ _ _ _ => .stop

/-- the witness: three live tasks on the 2-worker step, two of them on slot 1, nothing crashed -/
example :
    let r := C01.runFrom C01.exCfg C01.exPol initState 0 none none C01.doubleRerun
    (r.running.map Worker.slot, r.outcome, (r.st.workers 1).inProg.map (·.wid))
      = ([(1, 0), (1, 1), (1, 1)], none, [1, 0]) := by decide

theorem C01_refuted_running_bounded : ¬ C01_statement_running_bounded := by
  intro h
  have := h C01.exCfg (by simp [Cfg.WF, Cfg.names, C01.exCfg]) C01.exPol initState (idsInv_init _)
    0 none none C01.doubleRerun { name := 1, accepted := [5], numWorkers := 2, hasRetry := false }
    (by simp [C01.exCfg])
  revert this
  decide

theorem C01_refuted_running_subset_in_progress : ¬ C01_statement_running_subset_in_progress := by
  intro h
  have := (h C01.exCfg (by simp [Cfg.WF, Cfg.names, C01.exCfg]) C01.exPol initState (idsInv_init _)
    0 none none C01.doubleRerun).2
  revert this
  decide

/-- …and the inclusion itself breaks one step later: the first of the two slot-1 tasks
completes, its row is removed, the second is still live with no row behind it -/
example :
    let r := C01.runFrom C01.exCfg C01.exPol initState 0 none none
      (C01.doubleRerun ++ [.workerDone 1 1 [.result none], .drain])
    (r.running.map Worker.slot, (r.st.workers 1).inProg.map (·.wid)) = ([(1, 0), (1, 1)], [0]) := by
  decide

/-- the event clause fails on its own too: a collect re-run runs with the event named by the
`AddCollectedEvent` result, which need not be the invocation's event (here uid 9 vs 2) -/
example :
    let r := C01.runFrom C01.exCfg C01.exPol initState 0 none none
      (C01.feed 1 ++ C01.feed 2 ++
        [.workerDone 1 0 [.addCollected 7 (C01.exEv 1), .result none], .drain,
         .workerDone 1 1 [.addCollected 7 (C01.exEv 9)], .drain])
    (r.running.map (fun w => (w.step, w.wid, w.ev.uid)),
      (r.st.workers 1).inProg.map (fun ip => (ip.wid, ip.ev.uid))) = ([(1, 1, 9)], [(1, 2)]) := by
  decide

/-- **Clause 1, strongest true form** (invariant of the runner LTS): if no invocation's results
name a collect buffer twice, then in every reachable runner state every live worker task is
backed by an in-progress row of its (configured) step with its worker id, and the
`(step, worker id)` slots of the live tasks are pairwise distinct. -/
theorem C01_running_subset_in_progress_partial (cfg : Cfg) (hwf : cfg.WF) (pol : Policy) (st0 : State)
    (h0 : IdsInv cfg st0) (now : Int) (start : Option Ev) (timeout : Option Nat) (acts : List Act)
    (hg : ∀ a ∈ acts, a.CollectOnce) :
    (∀ w ∈ (C01.runFrom cfg pol st0 now start timeout acts).running,
      w.step ∈ cfg.names ∧
      ∃ ip ∈ ((C01.runFrom cfg pol st0 now start timeout acts).st.workers w.step).inProg,
        ip.wid = w.wid) ∧
    ((C01.runFrom cfg pol st0 now start timeout acts).running.map Worker.slot).Nodup := by
  have h := run_runInv cfg hwf pol False acts _ (guarded_of_collectOnce cfg pol acts _ hg)
    (init_runInv cfg hwf False st0 h0 now start timeout)
  refine ⟨fun w hw => ?_, h.nodup⟩
  obtain ⟨h1, ip, hip, hwid, _⟩ := h.sub w hw
  exact ⟨h1, ip, hip, hwid⟩

/-- **Clause 1, event part**: if moreover every collect re-run carries the finishing worker's own
event (`Runner.sameEvent`, checked along the run), the backing row has the task's event. -/
theorem C01_running_same_event_partial (cfg : Cfg) (hwf : cfg.WF) (pol : Policy) (st0 : State)
    (h0 : IdsInv cfg st0) (now : Int) (start : Option Ev) (timeout : Option Nat) (acts : List Act)
    (hg : ∀ a ∈ acts, a.CollectOnce)
    (he : Runner.sameEvent cfg pol (Runner.init cfg st0 now start timeout) acts = true) :
    ∀ w ∈ (C01.runFrom cfg pol st0 now start timeout acts).running,
      ∃ ip ∈ ((C01.runFrom cfg pol st0 now start timeout acts).st.workers w.step).inProg,
        ip.wid = w.wid ∧ ip.ev = w.ev := by
  have h := run_runInv cfg hwf pol True acts _ (guarded_of_sameEvent cfg pol acts _ hg he)
    (init_runInv cfg hwf True st0 h0 now start timeout)
  intro w hw
  obtain ⟨_, ip, hip, hwid, hev⟩ := h.sub w hw
  exact ⟨ip, hip, hwid, hev trivial⟩

/-- **Clause 2, strongest true form**: under the same guard, a step never has more live worker
tasks than `num_workers`, and every live task runs on a slot in `[0, num_workers)` —
for retries, collect re-runs, waiter replays and resumed runs alike. -/
theorem C01_running_bounded_partial (cfg : Cfg) (hwf : cfg.WF) (pol : Policy) (st0 : State)
    (h0 : IdsInv cfg st0) (now : Int) (start : Option Ev) (timeout : Option Nat) (acts : List Act)
    (hg : ∀ a ∈ acts, a.CollectOnce) :
    (∀ c ∈ cfg.steps,
      ((C01.runFrom cfg pol st0 now start timeout acts).running.filter
        (fun w => w.step == c.name)).length ≤ c.numWorkers) ∧
    ∀ w ∈ (C01.runFrom cfg pol st0 now start timeout acts).running, w.wid < cfg.nw w.step :=
  (run_runInv cfg hwf pol False acts _ (guarded_of_collectOnce cfg pol acts _ hg)
    (init_runInv cfg hwf False st0 h0 now start timeout)).bounded hwf

/-! Non-vacuity: guarded schedules that do reach the limit, a re-run and a resumed run. -/

/-- two workers of the 2-worker step live at once, the third event stays queued -/
example :
    let acts := C01.feed 1 ++ C01.feed 2 ++ C01.feed 3
    let r := C01.runFrom C01.exCfg C01.exPol initState 0 none none acts
    (∀ a ∈ acts, a.CollectOnce) ∧ Runner.sameEvent C01.exCfg C01.exPol
        (Runner.init C01.exCfg initState 0 none none) acts = true ∧
      (r.running.map Worker.slot, (r.st.workers 1).inProg.map (·.wid), (r.st.workers 1).queue.length)
        = ([(1, 0), (1, 1)], [0, 1], 1) := by decide

/-- a guarded schedule with a genuine collect re-run (slot 1 re-issued once) and a slot
re-used by the queued event (slot 0) -/
example :
    let acts := C01.feed 1 ++ C01.feed 2 ++ C01.feed 3 ++
      [.workerDone 1 0 [.addCollected 7 (C01.exEv 1), .result none], .drain,
       .workerDone 1 1 [.addCollected 7 (C01.exEv 2), .addCollected 8 (C01.exEv 2)], .drain]
    let r := C01.runFrom C01.exCfg C01.exPol initState 0 none none acts
    (∀ a ∈ acts, a.CollectOnce) ∧ Runner.sameEvent C01.exCfg C01.exPol
        (Runner.init C01.exCfg initState 0 none none) acts = true ∧
      (r.running.map (fun w => (w.step, w.wid, w.ev.uid)), (r.st.workers 1).inProg.map (·.wid))
        = ([(1, 0, 3), (1, 1, 2)], [1, 0]) := by decide

/-- a resumed run: the serialized state has two in-progress rows and a backlog; the rewind
restarts exactly two workers -/
example :
    let ip (u w : Nat) : InProg :=
      { ev := C01.exEv u, wid := w, snapEvents := [], snapWaiters := [], attempts := 0, firstAt := 0 }
    let st0 : State := { isRunning := true, workers := fun s =>
      if s = 1 then { inProg := [ip 1 1, ip 2 0], queue := [{ ev := C01.exEv 3 }] } else {} }
    let r := Runner.init C01.exCfg st0 5 none none
    (r.running.map (fun w => (w.step, w.wid, w.ev.uid)), (r.st.workers 1).queue.length)
      = ([(1, 0, 2), (1, 1, 1)], 1) := by decide
