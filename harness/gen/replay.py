"""Tables and control shape of the restart path -> lean/WfModel/GenReplay.lean.

Re-read from /repo's current sources on every run:

* `PersistenceDecorator._on_server_start`: the `HandlerQuery(...)` it issues (status_in, is_idle, workflow filter);
* `handler_status_from_exit_command`: the status string of every `return`, in source order;
* `replay_ticks_stream`: rewinds before the loop, one `_reduce_tick` per tick, no early exit from the loop, the
  classes it remembers as exit commands;
* `_ControlLoopRunner._process_tick`: `adapter.on_tick(tick)` is awaited before the loop that executes the commands;
* `TickPersistenceDecorator.context_from_ticks`: validates the workflow (builds the catch_error tables) before replay.

* `SqliteWorkflowStore.stream_ticks` (the tick source of the replay): `_TICK_PAGE_SIZE`, every page query is limited by
  exactly that constant, the keyset cursor is the sequence of the row just yielded, the loop ends on a short page
  (`C13_tick_stream_shape`, model `WfModel/TickStream.lean`).

* the idle marker the start query reads (`idle_release_runtime.py`): the idle announcement writes `idle_since` before the
  event is published; `IdleReleaseExternalRunAdapter.send_event` clears it (`idle_since=None`) on the path of a run that is
  in memory and reloads a released run, both before the tick is handed on; the reload clears it after `workflow.run`
  (`C13_idle_mark_shape`, model `RowMark`).

* `append_tick` / `get_ticks` of the sqlite and the memory store (how a run's sequence column comes about): the sqlite
  statement's `COALESCE((SELECT MAX(sequence) FROM ticks WHERE run_id = ?), c) + i` with the run id bound to both
  placeholders, `get_ticks`' `WHERE run_id = ? ORDER BY sequence`; the memory store's
  `existing[-1].sequence + i if existing else f`, stored under that sequence at the end of the run's own list
  (`C13_tick_append_shape`, model `WfModel/TickTable.lean`).

`WfProps/C13.lean` (`C13_source_shape`) pins these to what the model `WfModel/Replay.lean` does.
"""
from __future__ import annotations

import ast

from ..boot import repo_path

LEAN_MODULE = "GenReplay"
PERSIST = "packages/llama-agents-server/src/llama_agents/server/_runtime/persistence_runtime.py"
LOOP = "packages/llama-index-workflows/src/workflows/runtime/control_loop.py"
SQLITE_STORE = "packages/llama-agents-server/src/llama_agents/server/_store/sqlite/sqlite_workflow_store.py"
IDLE = "packages/llama-agents-server/src/llama_agents/server/_runtime/idle_release_runtime.py"
MEMORY_STORE = "packages/llama-agents-server/src/llama_agents/server/_store/memory_workflow_store.py"
PAGE_CONST = "_TICK_PAGE_SIZE"


def tick_page_size(notes: list[str] | None = None) -> int | None:
    """`_TICK_PAGE_SIZE` of the sqlite store, read from the source text (None when it is not a literal int)"""
    try:
        tree = ast.parse(open(repo_path(SQLITE_STORE)).read())
    except (OSError, SyntaxError) as e:
        if notes is not None:
            notes.append(f"gen/replay: cannot parse the sqlite store: {e!r}")
        return None
    for n in tree.body:
        tgt = None
        if isinstance(n, ast.Assign) and len(n.targets) == 1 and isinstance(n.targets[0], ast.Name):
            tgt, val = n.targets[0].id, n.value
        elif isinstance(n, ast.AnnAssign) and isinstance(n.target, ast.Name) and n.value is not None:
            tgt, val = n.target.id, n.value
        if tgt == PAGE_CONST:
            if isinstance(val, ast.Constant) and isinstance(val.value, int) and not isinstance(val.value, bool):
                return int(val.value)
            break
    if notes is not None:
        notes.append(f"gen/replay: {PAGE_CONST} is not a literal int in the sqlite store")
    return None


def _is_page_const(n: ast.AST) -> bool:
    return isinstance(n, ast.Name) and n.id == PAGE_CONST


def _stream_shape(notes: list[str]) -> dict:
    """shape of SqliteWorkflowStore.stream_ticks"""
    res = {"tickPageSize": 0, "streamLimitIsPageSize": False, "streamCursorIsLastYielded": False, "streamStopsOnShortPage": False}
    ps = tick_page_size(notes)
    res["tickPageSize"] = ps if ps is not None and ps >= 0 else 0
    try:
        tree = ast.parse(open(repo_path(SQLITE_STORE)).read())
    except (OSError, SyntaxError):
        return res
    fn = _find_def(tree, "stream_ticks", "SqliteWorkflowStore")
    if fn is None:
        notes.append("gen/replay: SqliteWorkflowStore.stream_ticks not found")
        return res
    # every `params = [...]` of the function: last element (the LIMIT) is the page constant itself
    plists = []
    for n in ast.walk(fn):
        val = None
        if isinstance(n, ast.Assign) and any(isinstance(t, ast.Name) and t.id == "params" for t in n.targets):
            val = n.value
        elif isinstance(n, ast.AnnAssign) and isinstance(n.target, ast.Name) and n.target.id == "params":
            val = n.value
        if val is not None:
            plists.append(val)
    sqls = [" ".join(c.value.split()) for c in ast.walk(fn) if isinstance(c, ast.Constant) and isinstance(c.value, str) and "SELECT" in c.value]
    res["streamLimitIsPageSize"] = (bool(plists) and all(isinstance(v, ast.List) and v.elts and _is_page_const(v.elts[-1]) for v in plists)
                                    and len(sqls) == 2 and all(q.endswith("ORDER BY sequence LIMIT ?") for q in sqls)
                                    and sum(1 for q in sqls if "AND sequence > ?" in q) == 1)
    # the cursor: the name compared with None; assigned only `None` outside the yielding loop and `<yielded>.sequence` inside it
    cursor = None
    for n in ast.walk(fn):
        if isinstance(n, ast.Compare) and isinstance(n.left, ast.Name) and len(n.ops) == 1 and isinstance(n.ops[0], ast.Is) \
                and isinstance(n.comparators[0], ast.Constant) and n.comparators[0].value is None:
            cursor = n.left.id
            break
    yloop = next((n for n in ast.walk(fn) if isinstance(n, ast.For) and any(isinstance(c, ast.Yield) for c in ast.walk(n))), None)
    if cursor is not None and yloop is not None:
        ynames = [c.value.id for c in ast.walk(yloop) if isinstance(c, ast.Yield) and isinstance(c.value, ast.Name)]
        inside = {id(c) for c in ast.walk(yloop)}
        ok = len(ynames) == 1
        n_in = 0
        for n in ast.walk(fn):
            tgt = None
            if isinstance(n, ast.Assign) and len(n.targets) == 1 and isinstance(n.targets[0], ast.Name):
                tgt, val = n.targets[0].id, n.value
            elif isinstance(n, ast.AnnAssign) and isinstance(n.target, ast.Name):
                tgt, val = n.target.id, n.value
            if tgt != cursor:
                continue
            if id(n) in inside:
                n_in += 1
                ok = ok and isinstance(val, ast.Attribute) and val.attr == "sequence" and isinstance(val.value, ast.Name) and val.value.id in ynames
            else:
                ok = ok and isinstance(val, ast.Constant) and val.value is None
        # the loop walks the fetched rows themselves (no slice, no filter)
        ok = ok and isinstance(yloop.iter, ast.Name)
        res["streamCursorIsLastYielded"] = bool(ok and n_in == 1)
    # `if len(rows) < _TICK_PAGE_SIZE: return`
    for n in ast.walk(fn):
        if isinstance(n, ast.If) and isinstance(n.test, ast.Compare) and len(n.test.ops) == 1 and isinstance(n.test.ops[0], ast.Lt) \
                and _call_name(n.test.left) == "len" and _is_page_const(n.test.comparators[0]) \
                and len(n.body) == 1 and isinstance(n.body[0], ast.Return) and not n.orelse:
            if yloop is not None and isinstance(yloop.iter, ast.Name) and isinstance(n.test.left, ast.Call) and n.test.left.args \
                    and isinstance(n.test.left.args[0], ast.Name) and n.test.left.args[0].id == yloop.iter.id:
                res["streamStopsOnShortPage"] = True
    return res


def _append_shape(notes: list[str]) -> dict:
    """how `append_tick` of the two shipped stores numbers a run's ticks, and how `get_ticks` orders them"""
    import re

    res = {"sqlAppendCoalesce": 0, "sqlAppendInc": 0, "sqlAppendMaxIsPerRun": False, "sqlGetTicksOrdered": False,
           "memAppendFirst": 999, "memAppendInc": 0, "memAppendAtEndOfRunList": False, "memGetTicksIsRunList": False}
    try:
        stree = ast.parse(open(repo_path(SQLITE_STORE)).read())
        mtree = ast.parse(open(repo_path(MEMORY_STORE)).read())
    except (OSError, SyntaxError) as e:
        notes.append(f"gen/replay: cannot parse the stores: {e!r}")
        return res
    fn = _find_def(stree, "append_tick", "SqliteWorkflowStore")
    if fn is None:
        notes.append("gen/replay: SqliteWorkflowStore.append_tick not found")
    else:
        execs = [c for c in ast.walk(fn) if isinstance(c, ast.Call) and isinstance(c.func, ast.Attribute) and c.func.attr == "execute"]
        inserts = [c for c in execs if c.args and isinstance(c.args[0], ast.Constant) and isinstance(c.args[0].value, str)
                   and "INSERT INTO ticks" in c.args[0].value]
        if len(inserts) != 1 or len(execs) != 1:
            notes.append("gen/replay: SqliteWorkflowStore.append_tick is not one INSERT statement")
        else:
            sql = " ".join(inserts[0].args[0].value.split())
            m = re.search(r"INSERT INTO ticks \(run_id, sequence, timestamp, tick_data\) VALUES \(\?, "
                          r"COALESCE\(\(SELECT MAX\(sequence\) FROM ticks WHERE run_id = \?\), (-?\d+)\) \+ (\d+), CURRENT_TIMESTAMP, \?\)$", sql)
            if m is None:
                notes.append(f"gen/replay: unexpected INSERT of append_tick: {sql!r}")
            else:
                res["sqlAppendCoalesce"] = int(m.group(1))
                res["sqlAppendInc"] = int(m.group(2))
                prm = inserts[0].args[1] if len(inserts[0].args) > 1 else None
                arg0 = fn.args.args[1].arg if len(fn.args.args) > 1 else None
                res["sqlAppendMaxIsPerRun"] = bool(isinstance(prm, ast.Tuple) and len(prm.elts) == 3 and arg0 is not None
                                                   and all(isinstance(e, ast.Name) and e.id == arg0 for e in prm.elts[:2]))
    fn = _find_def(stree, "get_ticks", "SqliteWorkflowStore")
    if fn is None:
        notes.append("gen/replay: SqliteWorkflowStore.get_ticks not found")
    else:
        sqls = [" ".join(c.value.split()) for c in ast.walk(fn) if isinstance(c, ast.Constant) and isinstance(c.value, str) and "SELECT" in c.value]
        res["sqlGetTicksOrdered"] = len(sqls) == 1 and sqls[0].endswith("FROM ticks WHERE run_id = ? ORDER BY sequence")
    fn = _find_def(mtree, "append_tick", "MemoryWorkflowStore")
    if fn is None:
        notes.append("gen/replay: MemoryWorkflowStore.append_tick not found")
    else:
        rid = fn.args.args[1].arg if len(fn.args.args) > 1 else None
        lst = None   # the name bound to `self.ticks[run_id]`
        seq_name = None
        for n in ast.walk(fn):
            if isinstance(n, ast.Assign) and len(n.targets) == 1 and isinstance(n.targets[0], ast.Name):
                v = n.value
                if isinstance(v, ast.Subscript) and isinstance(v.value, ast.Attribute) and v.value.attr == "ticks" \
                        and isinstance(v.slice, ast.Name) and v.slice.id == rid:
                    lst = n.targets[0].id
                if isinstance(v, ast.IfExp) and lst is not None and isinstance(v.test, ast.Name) and v.test.id == lst \
                        and isinstance(v.orelse, ast.Constant) and isinstance(v.orelse.value, int) \
                        and isinstance(v.body, ast.BinOp) and isinstance(v.body.op, ast.Add) \
                        and isinstance(v.body.right, ast.Constant) and isinstance(v.body.right.value, int) \
                        and isinstance(v.body.left, ast.Attribute) and v.body.left.attr == "sequence" \
                        and isinstance(v.body.left.value, ast.Subscript) and isinstance(v.body.left.value.value, ast.Name) \
                        and v.body.left.value.value.id == lst and isinstance(v.body.left.value.slice, ast.UnaryOp) \
                        and isinstance(v.body.left.value.slice.op, ast.USub) and isinstance(v.body.left.value.slice.operand, ast.Constant) \
                        and v.body.left.value.slice.operand.value == 1:
                    seq_name = n.targets[0].id
                    res["memAppendFirst"] = int(v.orelse.value)
                    res["memAppendInc"] = int(v.body.right.value)
        if seq_name is None:
            notes.append("gen/replay: MemoryWorkflowStore.append_tick: `next = existing[-1].sequence + i if existing else f` not found")
        else:
            stored = None
            for n in ast.walk(fn):
                if isinstance(n, ast.Assign) and len(n.targets) == 1 and isinstance(n.targets[0], ast.Name) and _call_name(n.value) == "StoredTick":
                    kws = {k.arg: k.value for k in n.value.keywords}
                    if isinstance(kws.get("sequence"), ast.Name) and kws["sequence"].id == seq_name \
                            and isinstance(kws.get("run_id"), ast.Name) and kws["run_id"].id == rid:
                        stored = n.targets[0].id
            appends = [c for c in ast.walk(fn) if isinstance(c, ast.Call) and isinstance(c.func, ast.Attribute)
                       and c.func.attr in ("append", "insert", "extend")]
            res["memAppendAtEndOfRunList"] = bool(stored is not None and len(appends) == 1 and appends[0].func.attr == "append"
                                                  and isinstance(appends[0].func.value, ast.Name) and appends[0].func.value.id == lst
                                                  and len(appends[0].args) == 1 and isinstance(appends[0].args[0], ast.Name)
                                                  and appends[0].args[0].id == stored)
    fn = _find_def(mtree, "get_ticks", "MemoryWorkflowStore")
    if fn is None:
        notes.append("gen/replay: MemoryWorkflowStore.get_ticks not found")
    else:
        rid = fn.args.args[1].arg if len(fn.args.args) > 1 else None
        rets = [n for n in ast.walk(fn) if isinstance(n, ast.Return)]
        ok = len(rets) == 1 and _call_name(rets[0].value) == "list" and len(rets[0].value.args) == 1
        if ok:
            a = rets[0].value.args[0]
            ok = isinstance(a, ast.Call) and isinstance(a.func, ast.Attribute) and a.func.attr == "get" \
                and isinstance(a.func.value, ast.Attribute) and a.func.value.attr == "ticks" \
                and len(a.args) == 2 and isinstance(a.args[0], ast.Name) and a.args[0].id == rid \
                and isinstance(a.args[1], ast.List) and not a.args[1].elts
        res["memGetTicksIsRunList"] = bool(ok)
    return res


def _marker_write(n: ast.AST) -> str | None:
    """`….update_handler_status(…, idle_since=X)`: "clear" for X = None, "set" for anything else; None: not such a call"""
    if _call_name(n) != "update_handler_status":
        return None
    for kw in n.keywords:  # type: ignore[attr-defined]
        if kw.arg == "idle_since":
            return "clear" if isinstance(kw.value, ast.Constant) and kw.value.value is None else "set"
    return None


def _mentions(n: ast.AST, name: str) -> bool:
    return any((isinstance(c, ast.Attribute) and c.attr == name) or (isinstance(c, ast.Name) and c.id == name) for c in ast.walk(n))


def _active_test(test: ast.AST, aliases: dict | None = None) -> str | None:
    """which branch of `if <test>` a run that is in memory takes: "body" for `x in …_active_run_ids`, "else" for `not in`
    (`aliases`: local names assigned such a membership test)"""
    neg = False
    while True:
        if isinstance(test, ast.UnaryOp) and isinstance(test.op, ast.Not):
            neg = not neg
            test = test.operand
        elif isinstance(test, ast.Name) and aliases and test.id in aliases:
            test = aliases[test.id]
        else:
            break
    if isinstance(test, ast.Compare) and len(test.ops) == 1 and _mentions(test.comparators[0], "_active_run_ids"):
        if isinstance(test.ops[0], ast.In):
            return "else" if neg else "body"
        if isinstance(test.ops[0], ast.NotIn):
            return "body" if neg else "else"
    return None


def _walk_path(stmts: list, in_memory: bool, deliver: str, acc: list, aliases: dict | None = None, tree: ast.AST | None = None,
               depth: int = 0) -> bool:
    """the calls made, in order, by the path of a run that is (not) in memory through `stmts`, up to the call of `deliver`
    (appended as "deliver"); True once the path is over (delivered / returned / raised).  Branches that do not test the
    active set are not followed (a write inside one is conditional: recorded as "maybe:…")."""
    aliases = {} if aliases is None else aliases
    for st in stmts:
        if isinstance(st, (ast.AsyncWith, ast.With)):
            if _walk_path(st.body, in_memory, deliver, acc, aliases, tree, depth):
                return True
            continue
        if isinstance(st, ast.Assign) and len(st.targets) == 1 and isinstance(st.targets[0], ast.Name) \
                and _active_test(st.value, aliases) is not None and not any(isinstance(c, ast.Call) for c in ast.walk(st.value)):
            aliases[st.targets[0].id] = st.value
            continue
        if isinstance(st, ast.If):
            side = _active_test(st.test, aliases)
            if side is not None:
                take = st.body if (side == "body") == in_memory else st.orelse
                if _walk_path(take, in_memory, deliver, acc, aliases, tree, depth):
                    return True
                continue
            for c in ast.walk(st):
                w = _marker_write(c)
                if w is not None:
                    acc.append("maybe:" + w)
            continue
        if isinstance(st, (ast.Return, ast.Raise)):
            for c in ast.walk(st):
                if _call_name(c) == deliver:
                    acc.append("deliver")
            return True
        calls = sorted((c for c in ast.walk(st) if isinstance(c, ast.Call)), key=lambda c: (c.end_lineno or 0, c.end_col_offset or 0))
        for c in calls:
            w = _marker_write(c)
            if w is not None:
                acc.append(w)
            elif _call_name(c) in ("_ensure_active_run_locked", "_ensure_active_run"):
                acc.append("reload")
                # what the callee does on this kind of run (e.g. an early return for a run in memory) is part of the path
                callee = _find_def(tree, _call_name(c) or "", "IdleReleaseDecorator") if tree is not None and depth < 2 else None
                if callee is not None:
                    _walk_path(callee.body, in_memory, "\0", acc, {}, tree, depth + 1)  # type: ignore[attr-defined]
            elif _call_name(c) == deliver and isinstance(c.func, ast.Attribute) and _mentions(c.func.value, "_decorated"):
                acc.append("deliver")
                return True
    return False


def _idle_mark_shape(notes: list[str]) -> dict:
    res = {"idleAnnouncementMarksRow": False, "sendClearsMarkInMemory": False, "sendReloadsReleasedRun": False, "reloadClearsMark": False}
    try:
        tree = ast.parse(open(repo_path(IDLE)).read())
    except (OSError, SyntaxError) as e:
        notes.append(f"gen/replay: cannot parse the idle-release runtime: {e!r}")
        return res
    # ---- the announcement: idle_since is written, under `isinstance(event, WorkflowIdleEvent)`, before the event is handed on
    fn = _find_def(tree, "write_to_event_stream", "_IdleReleaseInternalRunAdapter")
    if fn is None:
        notes.append("gen/replay: _IdleReleaseInternalRunAdapter.write_to_event_stream not found")
    else:
        sets = [c.lineno for i in ast.walk(fn) if isinstance(i, ast.If) and _mentions(i.test, "WorkflowIdleEvent")
                for c in ast.walk(i) if _marker_write(c) == "set"]
        pub = [c.lineno for c in ast.walk(fn) if _call_name(c) == "write_to_event_stream"]
        res["idleAnnouncementMarksRow"] = bool(sets) and bool(pub) and min(sets) < min(pub)
    # ---- send_event: what happens before the tick is handed to the decorated adapter, per kind of run
    fn = _find_def(tree, "send_event", "IdleReleaseExternalRunAdapter")
    if fn is None:
        notes.append("gen/replay: IdleReleaseExternalRunAdapter.send_event not found")
    else:
        mem: list = []
        rel: list = []
        _walk_path(fn.body, True, "send_event", mem, None, tree)  # type: ignore[attr-defined]
        _walk_path(fn.body, False, "send_event", rel, None, tree)  # type: ignore[attr-defined]
        res["sendClearsMarkInMemory"] = "deliver" in mem and "clear" in mem[: mem.index("deliver")] and "set" not in mem and "maybe:set" not in mem
        res["sendReloadsReleasedRun"] = "deliver" in rel and "reload" in rel[: rel.index("deliver")]
    # ---- the reload: idle_since cleared after the run was started again, on the function's main path
    fn = _find_def(tree, "_ensure_active_run_locked", "IdleReleaseDecorator")
    if fn is None:
        notes.append("gen/replay: IdleReleaseDecorator._ensure_active_run_locked not found")
    else:
        top = [st for st in fn.body if not isinstance(st, ast.If)]  # type: ignore[attr-defined]
        runs = [c.lineno for st in top for c in ast.walk(st) if _call_name(c) == "run"]
        clears = [c.lineno for st in top for c in ast.walk(st) if _marker_write(c) == "clear"]
        res["reloadClearsMark"] = bool(runs) and bool(clears) and min(runs) < max(clears)
    return res


def _find_def(tree: ast.AST, name: str, cls: str | None = None) -> ast.AST | None:
    for n in ast.walk(tree):
        if cls is not None:
            if isinstance(n, ast.ClassDef) and n.name == cls:
                for f in n.body:
                    if isinstance(f, (ast.FunctionDef, ast.AsyncFunctionDef)) and f.name == name:
                        return f
        elif isinstance(n, (ast.FunctionDef, ast.AsyncFunctionDef)) and n.name == name:
            return n
    return None


def _lstr(xs: list[str]) -> str:
    return "[" + ", ".join('"%s"' % x for x in xs) + "]"


def _call_name(n: ast.AST) -> str | None:
    if isinstance(n, ast.Call):
        f = n.func
        if isinstance(f, ast.Name):
            return f.id
        if isinstance(f, ast.Attribute):
            return f.attr
    return None


def extract(notes: list[str]) -> dict:
    res: dict = {"startStatusIn": ["<missing>"], "startIsIdle": "none", "startFiltersWorkflow": False,
                 "exitStatuses": ["<missing>"], "exitClasses": ["<missing>"], "replayRewindsFirst": False,
                 "replayReducesPerTick": 999, "replayLoopHasEarlyExit": True, "persistBeforeCommands": False,
                 "validatesBeforeReplay": False}
    res.update(_stream_shape(notes))
    res.update(_idle_mark_shape(notes))
    res.update(_append_shape(notes))
    try:
        ptree = ast.parse(open(repo_path(PERSIST)).read())
        ltree = ast.parse(open(repo_path(LOOP)).read())
    except (OSError, SyntaxError) as e:
        notes.append(f"gen/replay: cannot parse sources: {e!r}")
        return res
    # ---- _on_server_start's query
    fn = _find_def(ptree, "_on_server_start", "PersistenceDecorator")
    if fn is None:
        notes.append("gen/replay: PersistenceDecorator._on_server_start not found")
    else:
        q = next((c for c in ast.walk(fn) if _call_name(c) == "HandlerQuery"), None)
        if q is None:
            notes.append("gen/replay: no HandlerQuery(...) in _on_server_start")
        else:
            res["startStatusIn"] = []
            res["startIsIdle"] = "none"
            for kw in q.keywords:
                if kw.arg == "status_in" and isinstance(kw.value, ast.List):
                    res["startStatusIn"] = [e.value for e in kw.value.elts if isinstance(e, ast.Constant) and isinstance(e.value, str)]
                elif kw.arg == "is_idle" and isinstance(kw.value, ast.Constant):
                    res["startIsIdle"] = {True: "some true", False: "some false", None: "none"}.get(kw.value.value, "none")
                elif kw.arg == "workflow_name_in":
                    res["startFiltersWorkflow"] = True
    # ---- handler_status_from_exit_command
    fn = _find_def(ptree, "handler_status_from_exit_command")
    if fn is None:
        notes.append("gen/replay: handler_status_from_exit_command not found")
    else:
        sts: list[str] = []
        rets = sorted((n for n in ast.walk(fn) if isinstance(n, ast.Return)), key=lambda n: (n.lineno, n.col_offset))
        for r in rets:
            v = r.value
            if v is None or (isinstance(v, ast.Constant) and v.value is None):
                sts.append("none")
            elif isinstance(v, ast.Tuple) and v.elts and isinstance(v.elts[0], ast.Constant) and isinstance(v.elts[0].value, str):
                sts.append(v.elts[0].value)
            else:
                sts.append("<other>")
        res["exitStatuses"] = sts
    # ---- context_from_ticks validates first
    fn = _find_def(ptree, "context_from_ticks", "TickPersistenceDecorator")
    if fn is None:
        notes.append("gen/replay: TickPersistenceDecorator.context_from_ticks not found")
    else:
        val = [n.lineno for n in ast.walk(fn) if _call_name(n) in ("_validate", "validate")]
        rep = [n.lineno for n in ast.walk(fn) if _call_name(n) in ("replay_ticks_stream", "from_workflow", "from_serialized")]
        res["validatesBeforeReplay"] = bool(val) and bool(rep) and min(val) < min(rep)
    # ---- replay_ticks_stream
    fn = _find_def(ltree, "replay_ticks_stream")
    if fn is None:
        notes.append("gen/replay: replay_ticks_stream not found")
    else:
        loop = next((n for n in fn.body if isinstance(n, (ast.AsyncFor, ast.For))), None)
        if loop is None:
            notes.append("gen/replay: replay_ticks_stream has no top-level loop over the ticks")
        else:
            before = [n for n in fn.body if n.lineno < loop.lineno]
            res["replayRewindsFirst"] = any(_call_name(c) == "rewind_in_progress" for b in before for c in ast.walk(b))
            res["replayReducesPerTick"] = sum(1 for c in ast.walk(loop) if _call_name(c) == "_reduce_tick")
            res["replayLoopHasEarlyExit"] = any(isinstance(c, (ast.Break, ast.Return, ast.Continue)) for c in ast.walk(loop))
            classes: list[str] = []
            for c in ast.walk(loop):
                if _call_name(c) == "isinstance" and len(c.args) == 2:
                    a = c.args[1]
                    elts = a.elts if isinstance(a, ast.Tuple) else [a]
                    classes += [e.id for e in elts if isinstance(e, ast.Name)]
                elif _call_name(c) == "indicates_exit":
                    classes += ["CommandCompleteRun", "CommandFailWorkflow", "CommandHalt"]
            res["exitClasses"] = sorted(set(classes))
    # ---- _process_tick: persist before executing the commands
    fn = _find_def(ltree, "_process_tick", "_ControlLoopRunner")
    if fn is None:
        notes.append("gen/replay: _ControlLoopRunner._process_tick not found")
    else:
        on_tick = [n.lineno for n in ast.walk(fn) if _call_name(n) == "on_tick"]
        loops = [n for n in fn.body if isinstance(n, ast.For)]
        cmd_loop = next((l for l in loops if any(_call_name(c) == "process_command" for c in ast.walk(l))), None)
        res["persistBeforeCommands"] = (len(on_tick) == 1 and cmd_loop is not None and on_tick[0] < cmd_loop.lineno)
    return res


def generate(notes: list[str]) -> list[str]:
    r = extract(notes)
    b = lambda x: "true" if x else "false"  # noqa: E731
    return [
        "namespace Engine.GenReplay",
        "",
        "/-- `HandlerQuery(status_in=…)` of `_on_server_start` -/",
        f"def startStatusIn : List String := {_lstr(r['startStatusIn'])}",
        "/-- `HandlerQuery(is_idle=…)` of `_on_server_start` -/",
        f"def startIsIdle : Option Bool := {r['startIsIdle']}",
        f"def startFiltersWorkflow : Bool := {b(r['startFiltersWorkflow'])}",
        "/-- status of every `return` of `handler_status_from_exit_command`, in source order -/",
        f"def exitStatuses : List String := {_lstr(r['exitStatuses'])}",
        "/-- the command classes `replay_ticks_stream` remembers -/",
        f"def exitClasses : List String := {_lstr(r['exitClasses'])}",
        f"def replayRewindsFirst : Bool := {b(r['replayRewindsFirst'])}",
        f"def replayReducesPerTick : Nat := {int(r['replayReducesPerTick'])}",
        f"def replayLoopHasEarlyExit : Bool := {b(r['replayLoopHasEarlyExit'])}",
        "/-- `_process_tick` awaits `adapter.on_tick(tick)` exactly once, before the loop that executes the commands -/",
        f"def persistBeforeCommands : Bool := {b(r['persistBeforeCommands'])}",
        "/-- `context_from_ticks` validates the workflow (catch_error tables) before it builds the replay state -/",
        f"def validatesBeforeReplay : Bool := {b(r['validatesBeforeReplay'])}",
        "/-- `_TICK_PAGE_SIZE` of the sqlite store (0: not a literal) -/",
        f"def tickPageSize : Nat := {int(r['tickPageSize'])}",
        "/-- every page query of `SqliteWorkflowStore.stream_ticks` is `… ORDER BY sequence LIMIT _TICK_PAGE_SIZE` -/",
        f"def streamLimitIsPageSize : Bool := {b(r['streamLimitIsPageSize'])}",
        "/-- the keyset cursor is assigned only the sequence of the row just yielded -/",
        f"def streamCursorIsLastYielded : Bool := {b(r['streamCursorIsLastYielded'])}",
        "/-- `if len(rows) < _TICK_PAGE_SIZE: return` is the loop's exit -/",
        f"def streamStopsOnShortPage : Bool := {b(r['streamStopsOnShortPage'])}",
        "/-- the idle announcement writes `idle_since` before the `WorkflowIdleEvent` is published -/",
        f"def idleAnnouncementMarksRow : Bool := {b(r['idleAnnouncementMarksRow'])}",
        "/-- `IdleReleaseExternalRunAdapter.send_event`, run in memory: `idle_since=None` is written before the tick is handed on -/",
        f"def sendClearsMarkInMemory : Bool := {b(r['sendClearsMarkInMemory'])}",
        "/-- `IdleReleaseExternalRunAdapter.send_event`, run released: it is reloaded before the tick is handed on -/",
        f"def sendReloadsReleasedRun : Bool := {b(r['sendReloadsReleasedRun'])}",
        "/-- `_ensure_active_run_locked` writes `idle_since=None` after `workflow.run` on its main path -/",
        f"def reloadClearsMark : Bool := {b(r['reloadClearsMark'])}",
        "/-- `COALESCE((SELECT MAX(sequence) FROM ticks WHERE run_id = ?), c) + i` of the sqlite `append_tick`: `c` -/",
        f"def sqlAppendCoalesce : Int := {int(r['sqlAppendCoalesce'])}",
        f"def sqlAppendInc : Int := {int(r['sqlAppendInc'])}",
        "/-- the one INSERT of `append_tick` binds the run id to the row and to the `MAX(sequence)` sub-select -/",
        f"def sqlAppendMaxIsPerRun : Bool := {b(r['sqlAppendMaxIsPerRun'])}",
        "/-- sqlite `get_ticks` is `… WHERE run_id = ? ORDER BY sequence` -/",
        f"def sqlGetTicksOrdered : Bool := {b(r['sqlGetTicksOrdered'])}",
        "/-- memory `append_tick`: `existing[-1].sequence + i if existing else f` -/",
        f"def memAppendFirst : Nat := {int(r['memAppendFirst'])}",
        f"def memAppendInc : Nat := {int(r['memAppendInc'])}",
        "/-- … stored under that sequence by the one `existing.append(stored)` on the run's own list -/",
        f"def memAppendAtEndOfRunList : Bool := {b(r['memAppendAtEndOfRunList'])}",
        "/-- memory `get_ticks` is `list(self.ticks.get(run_id, []))` -/",
        f"def memGetTicksIsRunList : Bool := {b(r['memGetTicksIsRunList'])}",
        "",
        "end Engine.GenReplay",
    ]
