import WfProofs.RunLimitSem
/-!
The per-instance invariant of the run-limit model (permit conservation, no lost
wake-up, idle registry entry) and its preservation by every action; lifted to the
runtime (`World`) and to arbitrary action lists (`exec`).
-/
namespace RunLimit

/-! ### semaphore operations -/

/-- `_wake_up_next` called with a positive value conserves `value + in-flight` and never
leaves a pending waiter behind a spare permit without an in-flight one. -/
theorem wakeNext_spec (s : Sem) (hv : 0 < s.value) :
    (s.wakeNext).1.value + nInflight (s.wakeNext).1.waiters = s.value + nInflight s.waiters ∧
    (hasPending (s.wakeNext).1.waiters = true → hasInflight (s.wakeNext).1.waiters = true) := by
  unfold Sem.wakeNext
  cases hw : wake s.waiters with
  | none =>
    have := (wake_none_iff _).mp hw
    simp [this]
  | some p =>
    obtain ⟨ws', q⟩ := p
    have := wake_inflight _ _ _ hw
    simp only [this.1, this.2, implies_true, and_true]
    omega

theorem release_spec (s : Sem) :
    (s.release).1.value + nInflight (s.release).1.waiters = s.value + 1 + nInflight s.waiters ∧
    (hasPending (s.release).1.waiters = true → hasInflight (s.release).1.waiters = true) := by
  unfold Sem.release
  exact wakeNext_spec { s with value := s.value + 1 } (by simp)

/-! ### the invariant -/

structure Inst.Inv (x : Inst) : Prop where
  /-- `num_concurrent_runs=None`: no semaphore is ever created -/
  unlimited : x.limit = none → x.sem = none
  /-- no registry entry ⇒ nobody holds a permit -/
  idle : ∀ n, x.limit = some n → x.sem = none → x.holding = []
  /-- permits are conserved: free + held + travelling with a woken waiter = limit -/
  conserve : ∀ n s, x.limit = some n → x.sem = some s →
    s.value + x.holding.length + nInflight s.waiters = n
  /-- no lost wake-up: a spare permit with a pending waiter always has a woken waiter
  in the queue that will pass it on -/
  noLost : ∀ s, x.sem = some s → 0 < s.value → hasPending s.waiters = true →
    hasInflight s.waiters = true

theorem Inst.inv_init (lim : Option Nat) : Inst.Inv { limit := lim } where
  unlimited := fun _ => rfl
  idle := fun _ _ _ => rfl
  conserve := fun _ _ _ h => by simp at h
  noLost := fun _ h => by simp at h

theorem Inst.step_limit (x x' : Inst) (a : IAct) (woke : List Nat)
    (h : x.step a = some (x', woke)) : x'.limit = x.limit := by
  cases a with
  | start r =>
    simp only [Inst.step, Inst.start] at h
    split at h <;> simp at h
    rw [← h.1]
  | «begin» r =>
    simp only [Inst.step, Inst.begin] at h
    split at h
    · cases h
    · simp at h; rw [← h.1]
    · split at h
      · simp at h; rw [← h.1]
      · simp at h
        rw [← h.1]; unfold Inst.enter; simp only; split <;> rfl
  | cancel r =>
    simp only [Inst.step, Inst.cancel] at h
    split at h
    · simp at h; rw [← h.1]
    · split at h
      · split at h
        · simp at h; rw [← h.1]
        · simp at h; rw [← h.1]
        · simp at h; rw [← h.1]
        · split at h <;> simp at h
          rw [← h.1]
      · split at h <;> simp at h
        rw [← h.1]
  | deliver r =>
    simp only [Inst.step, Inst.deliver] at h
    split at h
    · cases h
    · split at h
      · cases h
      · cases h
      · simp at h; rw [← h.1]
      · simp at h; rw [← h.1]
      · simp at h; rw [← h.1]
  | finish r o =>
    simp only [Inst.step, Inst.finish] at h
    split at h
    · split at h
      · simp at h; rw [← h.1]
      · split at h
        · cases h
        · simp at h; rw [← h.1]
    · cases h
  | gc =>
    simp only [Inst.step, Inst.gc] at h
    split at h
    · cases h
    · split at h <;> simp at h
      rw [← h.1]

theorem Inst.enter_inv (x : Inst) (r n : Nat) (hx : x.Inv) (hl : x.limit = some n) :
    (x.enter r n).Inv := by
  have hfresh : ∀ s, x.sem.getD (Sem.fresh n) = s →
      s.value + x.holding.length + nInflight s.waiters = n ∧
      (0 < s.value → hasPending s.waiters = true → hasInflight s.waiters = true) := by
    intro s hs
    cases hsem : x.sem with
    | none =>
      rw [hsem] at hs
      simp only [Option.getD_none] at hs
      subst hs
      have := hx.idle n hl hsem
      simp [Sem.fresh, this, nInflight, hasPending]
    | some s0 =>
      rw [hsem] at hs
      simp only [Option.getD_some] at hs
      subst hs
      exact ⟨hx.conserve n s0 hl hsem, hx.noLost s0 hsem⟩
  unfold Inst.enter
  simp only
  obtain ⟨hc, hn⟩ := hfresh _ rfl
  generalize x.sem.getD (Sem.fresh n) = s at hc hn ⊢
  cases hlk : s.locked with
  | true =>
    simp only [if_true]
    refine ⟨fun h => by simp [hl] at h, fun _ _ h => by simp at h, ?_, ?_⟩
    · intro n' s' hl' hs'
      simp only at hl' hs'
      rw [hl] at hl'
      cases hl'
      simp only [Option.some.injEq] at hs'
      subst hs'
      simp only [nInflight_append, nInflight, inflight_pending, Bool.false_eq_true, if_false]
      omega
    · intro s' hs' hv hp
      simp only [Option.some.injEq] at hs'
      subst hs'
      simp only [hasInflight_append, Bool.or_eq_true] at hv hp ⊢
      simp only [Sem.locked, Bool.or_eq_true, beq_iff_eq] at hlk
      rcases hlk with h0 | hany
      · omega
      · rcases locked_waiters _ hany with hp' | hi
        · exact Or.inl (hn hv hp')
        · exact Or.inl hi
  | false =>
    simp only [Bool.false_eq_true, if_false]
    simp only [Sem.locked, Bool.or_eq_false_iff, beq_eq_false_iff_ne, ne_eq] at hlk
    obtain ⟨hv0, hany⟩ := hlk
    obtain ⟨np, ni, _⟩ := not_locked_waiters _ hany
    refine ⟨fun h => by simp [hl] at h, fun _ _ h => by simp at h, ?_, ?_⟩
    · intro n' s' hl' hs'
      simp only at hl' hs'
      rw [hl] at hl'
      cases hl'
      simp only [Option.some.injEq] at hs'
      subst hs'
      simp only [List.length_append, List.length_cons, List.length_nil]
      omega
    · intro s' hs' _ hp
      simp only [Option.some.injEq] at hs'
      subst hs'
      simp only at hp
      rw [np] at hp
      cases hp

theorem Inst.step_inv (x x' : Inst) (a : IAct) (woke : List Nat) (hx : x.Inv)
    (h : x.step a = some (x', woke)) : x'.Inv := by
  cases a with
  | start r =>
    simp only [Inst.step, Inst.start] at h
    split at h <;> simp at h
    rw [← h.1]
    exact ⟨hx.unlimited, hx.idle, hx.conserve, hx.noLost⟩
  | «begin» r =>
    simp only [Inst.step, Inst.begin] at h
    split at h
    · cases h
    · simp at h; rw [← h.1]
      exact ⟨hx.unlimited, hx.idle, hx.conserve, hx.noLost⟩
    · split at h
      · rename_i hl
        simp at h; rw [← h.1]
        refine ⟨hx.unlimited, fun n hn _ => by simp [hl] at hn, fun n s hn _ => by simp [hl] at hn, hx.noLost⟩
      · rename_i n hl
        simp at h; rw [← h.1]
        exact Inst.enter_inv x r n hx hl
  | cancel r =>
    simp only [Inst.step, Inst.cancel] at h
    split at h
    · simp at h; rw [← h.1]
      exact ⟨hx.unlimited, hx.idle, hx.conserve, hx.noLost⟩
    · split at h
      · rename_i s hs
        split at h
        · rename_i hf
          simp at h; rw [← h.1]
          refine ⟨fun hl => by simp [hx.unlimited hl] at hs, fun _ _ h => by simp at h, ?_, ?_⟩
          · intro n s' hl hs'
            simp only [Option.some.injEq] at hs'
            subst hs'
            have := hx.conserve n s hl hs
            simp only [nInflight_aset r .pending .cancelled s.waiters hf rfl]
            exact this
          · intro s' hs' hv hp
            simp only [Option.some.injEq] at hs'
            subst hs'
            simp only at hv hp ⊢
            rw [hasInflight_aset r .pending .cancelled s.waiters hf rfl]
            exact hx.noLost s hs hv (hasPending_aset_cancelled r s.waiters hp)
        · rename_i hf
          simp at h; rw [← h.1]
          refine ⟨fun hl => by simp [hx.unlimited hl] at hs, fun _ _ h => by simp at h, ?_, ?_⟩
          · intro n s' hl hs'
            simp only [Option.some.injEq] at hs'
            subst hs'
            have := hx.conserve n s hl hs
            simp only [nInflight_aset r .woken .wokenCancel s.waiters hf rfl]
            exact this
          · intro s' hs' hv hp
            simp only [Option.some.injEq] at hs'
            subst hs'
            simp only at hv hp ⊢
            rw [hasInflight_aset r .woken .wokenCancel s.waiters hf rfl]
            rw [hasPending_aset_wokenCancel r s.waiters hf] at hp
            exact hx.noLost s hs hv hp
        · simp at h; rw [← h.1]; exact hx
        · split at h <;> simp at h
          rw [← h.1]; exact hx
      · split at h <;> simp at h
        rw [← h.1]; exact hx
  | deliver r =>
    simp only [Inst.step, Inst.deliver] at h
    split at h
    · cases h
    · rename_i s hs
      have hlim : ∀ n, x.limit = some n → s.value + x.holding.length + nInflight s.waiters = n :=
        fun n hl => hx.conserve n s hl hs
      have hnl : x.limit ≠ none := fun hl => by simp [hx.unlimited hl] at hs
      split at h
      · cases h
      · cases h
      · -- woken: take the permit, pass a spare one on
        rename_i hf
        have hdel := nInflight_adel r .woken s.waiters hf
        simp only [inflight_woken, if_true] at hdel
        simp at h
        rw [← h.1]
        by_cases hv : 0 < s.value
        · have hw := wakeNext_spec { value := s.value, waiters := adel r s.waiters } hv
          simp only [hv, if_true]
          refine ⟨fun hl => absurd hl hnl, fun _ _ h => by simp at h, ?_, ?_⟩
          · intro n s' hl hs'
            simp only [Option.some.injEq] at hs'
            subst hs'
            have := hlim n hl
            simp only [List.length_append, List.length_cons, List.length_nil]
            simp only at hw
            omega
          · intro s' hs' _ hp
            simp only [Option.some.injEq] at hs'
            subst hs'
            exact hw.2 hp
        · simp only [hv, if_false]
          refine ⟨fun hl => absurd hl hnl, fun _ _ h => by simp at h, ?_, ?_⟩
          · intro n s' hl hs'
            simp only [Option.some.injEq] at hs'
            subst hs'
            have := hlim n hl
            simp only [List.length_append, List.length_cons, List.length_nil]
            omega
          · intro s' hs' hv' _
            simp only [Option.some.injEq] at hs'
            subst hs'
            simp only at hv'
            omega
      · -- cancelled while pending: just leave the queue
        rename_i hf
        have hdel := nInflight_adel r .cancelled s.waiters hf
        simp only [inflight_cancelled, Bool.false_eq_true, if_false, Nat.add_zero] at hdel
        simp at h
        rw [← h.1]
        refine ⟨fun hl => absurd hl hnl, fun _ _ h => by simp at h, ?_, ?_⟩
        · intro n s' hl hs'
          simp only [Option.some.injEq] at hs'
          subst hs'
          have := hlim n hl
          simp only
          omega
        · intro s' hs' hv hp
          simp only [Option.some.injEq] at hs'
          subst hs'
          simp only at hv hp ⊢
          rw [hasPending_adel r .cancelled s.waiters hf (by decide)] at hp
          rw [hasInflight_adel r .cancelled s.waiters hf rfl]
          exact hx.noLost s hs hv hp
      · -- cancelled after the wake-up: give the permit back
        rename_i hf
        have hdel := nInflight_adel r .wokenCancel s.waiters hf
        simp only [inflight_wokenCancel, if_true] at hdel
        have hr := release_spec { value := s.value, waiters := adel r s.waiters }
        simp at h
        rw [← h.1]
        refine ⟨fun hl => absurd hl hnl, fun _ _ h => by simp at h, ?_, ?_⟩
        · intro n s' hl hs'
          simp only [Option.some.injEq] at hs'
          subst hs'
          have := hlim n hl
          simp only at hr ⊢
          omega
        · intro s' hs' _ hp
          simp only [Option.some.injEq] at hs'
          subst hs'
          exact hr.2 hp
  | finish r o =>
    simp only [Inst.step, Inst.finish] at h
    split at h
    · rename_i hmem
      split at h
      · rename_i hl
        simp at h; rw [← h.1]
        exact ⟨hx.unlimited, fun n hn _ => by simp [hl] at hn, fun n s hn _ => by simp [hl] at hn, hx.noLost⟩
      · rename_i n hl
        split at h
        · cases h
        · rename_i s hs
          have hr := release_spec s
          have hc := hx.conserve n s hl hs
          have hlen : (x.holding.erase r).length + 1 = x.holding.length := by
            rw [List.length_erase_of_mem hmem]
            have : 0 < x.holding.length := List.length_pos_of_mem hmem
            omega
          simp at h; rw [← h.1]
          refine ⟨fun hl' => by simp [hl] at hl', fun _ _ h => by simp at h, ?_, ?_⟩
          · intro n' s' hl' hs'
            simp only at hl'
            rw [hl] at hl'
            cases hl'
            simp only [Option.some.injEq] at hs'
            subst hs'
            simp only
            omega
          · intro s' hs' _ hp
            simp only [Option.some.injEq] at hs'
            subst hs'
            exact hr.2 hp
    · cases h
  | gc =>
    simp only [Inst.step, Inst.gc] at h
    split at h
    · cases h
    · split at h <;> simp at h
      rename_i hidle
      rw [← h.1]
      exact ⟨fun _ => rfl, fun _ _ _ => hidle.1, fun _ _ _ h => by simp at h, fun _ h => by simp at h⟩

/-! ### lifting to the runtime -/

def World.Inv (w : World) : Prop := ∀ i x, w.get i = some x → x.Inv

theorem World.inv_init : World.Inv {} := by
  intro i x h
  simp [World.get, aget] at h

theorem World.get_step_mk (w w' : World) (i : Nat) (lim : Option Nat) (woke : List (Nat × Nat))
    (h : w.step (.mk i lim) = some (w', woke)) (j : Nat) :
    w'.get j = if j = i then some { limit := lim } else w.get j := by
  simp only [World.step] at h
  split at h
  · cases h
  · rename_i hnone
    simp at h
    rw [← h.1]
    simp only [World.get, aget_append] at hnone ⊢
    by_cases hj : j = i
    · subst hj
      simp [hnone, aget]
    · have : ¬ i = j := fun e => hj e.symm
      cases hg : aget j w.insts <;> simp [aget, hj, this]

theorem World.get_step_on (w w' : World) (i : Nat) (a : IAct) (woke : List (Nat × Nat))
    (h : w.step (.on i a) = some (w', woke)) :
    ∃ x x' wk, w.get i = some x ∧ x.step a = some (x', wk) ∧ woke = wk.map (fun r => (i, r)) ∧
      ∀ j, w'.get j = if j = i then some x' else w.get j := by
  simp only [World.step] at h
  split at h
  · cases h
  · rename_i x hx
    split at h
    · cases h
    · rename_i x' wk hstep
      simp at h
      refine ⟨x, x', wk, hx, hstep, h.2.symm, ?_⟩
      intro j
      rw [← h.1]
      simp only [World.get, aget_aset] at hx ⊢
      by_cases hj : j = i
      · subst hj; simp [hx]
      · simp [hj]

theorem World.step_inv (w w' : World) (a : Act) (woke : List (Nat × Nat)) (hw : w.Inv)
    (h : w.step a = some (w', woke)) : w'.Inv := by
  intro j y hy
  cases a with
  | mk i lim =>
    rw [World.get_step_mk w w' i lim woke h j] at hy
    split at hy
    · cases hy; exact Inst.inv_init lim
    · exact hw j y hy
  | on i a =>
    obtain ⟨x, x', wk, hx, hstep, _, hget⟩ := World.get_step_on w w' i a woke h
    rw [hget j] at hy
    split at hy
    · cases hy; exact Inst.step_inv x _ a wk (hw i x hx) hstep
    · exact hw j y hy

theorem World.stepD_inv (w : World) (a : Act) (hw : w.Inv) : (w.stepD a).Inv := by
  unfold World.stepD
  cases h : w.step a with
  | none => exact hw
  | some p => exact World.step_inv w p.1 a p.2 hw h

theorem foldl_stepD_inv (acts : List Act) (w : World) (hw : w.Inv) :
    (acts.foldl World.stepD w).Inv := by
  induction acts generalizing w with
  | nil => exact hw
  | cons a acts ih => exact ih _ (World.stepD_inv w a hw)

theorem exec_inv (acts : List Act) : (exec acts).Inv :=
  foldl_stepD_inv acts {} World.inv_init

end RunLimit
