import WfProofs.PolicyLemmas
import WfProofs.RunnerTerminal
/-!
# C06 — retry delays follow the wait strategy in documented order

* **Not before the delay** (proved, runner LTS): a retry granted with delay `d > 0` at time
  `t` is parked in the timer heap for time `t + d` and the `timer` action releases it into
  the tick buffer only when the clock has reached that time.
* **Documented order** (the property's second sentence: the first retry uses the first
  strategy of `wait_chain` / the initial delay of the exponential strategies, i.e. tenacity's
  indexing): **refuted**.  The control loop hands `failures = attempts + 1` to `next()`
  (`Gen.RP.loopFailures`), which hands it unchanged to the 0-based strategies
  (`Gen.RP.composedNext`, `Gen.RP.waitChainIndex`), so the k-th retry uses index `k`, not
  `k − 1`: the first strategy of a chain is never used, the first exponential delay is
  `multiplier·base`, the first incrementing delay `start + increment`.  Known finding
  C06/retry_delay_index_off_by_one; the package's own unit tests pin `next()`'s current
  behaviour, so this is recorded rather than repaired.
-/
set_option linter.unusedVariables false
open Policy Gen.RP Engine

/-- a delayed retry goes to the timer heap, due at `now + d`, and not into the buffer -/
theorem C06_delayed_retry_parked (r : Runner) (att : Attempt) (step : Option Nat) (d : Nat) (hd : 0 < d) :
    (execCmd r (.queueEvent att step (some d))).heap =
        r.heap ++ [{ at_ := r.now + d, seq := r.seq, tick := .addEvent att step }] ∧
      (execCmd r (.queueEvent att step (some d))).buf = r.buf := by
  simp [execCmd, Runner.push, hd]

/-- **not before the delay**: whatever the `timer` action moves into the buffer was due -/
theorem C06_not_before_delay (cfg : Cfg) (pol : Engine.Policy) (r : Runner) (hlive : r.outcome = none)
    (hempty : r.buf = []) :
    (∀ t ∈ (r.step cfg pol .timer).buf, ∃ tm ∈ r.heap, tm.tick = t ∧ tm.at_ ≤ r.now) ∧
    (∀ tm ∈ r.heap, r.now < tm.at_ → tm ∈ (r.step cfg pol .timer).heap) := by
  unfold Runner.step
  simp only [hlive, Option.isSome_none, Bool.false_eq_true, ↓reduceIte, hempty, List.isEmpty_nil,
    Bool.not_true]
  constructor
  · intro t ht
    simp only [List.mem_map] at ht
    obtain ⟨tm, htm, rfl⟩ := ht
    have := List.mem_filter.mp (mem_sortTimers htm)
    exact ⟨tm, this.1, rfl, by simpa using this.2⟩
  · intro tm htm hlt
    simp only [List.mem_filter, htm, true_and, Bool.not_eq_true', decide_eq_false_iff_not, Int.not_le]
    exact hlt

/-- no other action moves heap entries into the buffer -/
theorem C06_only_timer_releases (cfg : Cfg) (pol : Engine.Policy) (r : Runner) (a : Act)
    (ha : a ≠ .drain ∧ a ≠ .timer) : (r.step cfg pol a).heap = r.heap := by
  unfold Runner.step
  split
  · rfl
  · cases a with
    | drain => exact absurd rfl ha.1
    | timer => exact absurd rfl ha.2
    | workerDone s w res => simp only; split; · rfl
                            split <;> rfl
    | pull => simp only; split; · rfl
              split <;> rfl
    | advance dt => rfl
    | external t => simp only; split <;> rfl
    | stepWrite p => rfl

/-! ## documented order: statement and refutation -/

/-- delay the engine uses before the `k`-th retry (`k ≥ 1`): it calls `next(elapsed, k, exc)` -/
def C06.engineDelay (p : Composed) (k : Nat) (el : Rat) (e : Nat) (u : Rat) : Option Rat := p.next el k e u

/-- tenacity's convention, which the module mirrors and the property demands: the `k`-th
retry waits what the strategy documents for index `k − 1` -/
def C06_delay_index_statement : Prop :=
  ∀ (ws : List Wait) (n : Nat) (k : Nat) (el : Rat) (e : Nat) (u : Rat), ws ≠ [] → 1 ≤ k → k < n →
    C06.engineDelay { retry := none, wait := waitChain ws, stop := stopAfterAttempt n } k el e u =
      some (waitChain ws (k - 1) u)

/-- F02 witness: `wait_chain(wait_fixed(3), wait_fixed(1), wait_fixed(2))`: the first retry
waits 1, not 3 -/
theorem C06_refuted_witness :
    C06.engineDelay { retry := none, wait := waitChain [waitFixed 3, waitFixed 1, waitFixed 2],
                      stop := stopAfterAttempt 5 } 1 0 0 0 = some 1 := by
  simp [C06.engineDelay, Composed.next, waitChain, waitFixed, stopAfterAttempt]
  grind

theorem C06_refuted : ¬ C06_delay_index_statement := by
  intro h
  have h1 := h [waitFixed 3, waitFixed 1, waitFixed 2] 5 1 0 0 0 (by simp) (by omega) (by omega)
  have h2 := C06_refuted_witness
  have h3 : waitChain [waitFixed 3, waitFixed 1, waitFixed 2] (1 - 1) 0 = 3 := by
    simp [waitChain, waitFixed]
  have hcast : ((5 : Nat) : Rat) = 5 := by rfl
  rw [hcast, h2, h3] at h1
  have : (1 : Rat) = 3 := Option.some.inj h1
  grind

/-- what *is* true of the code: the `k`-th retry waits the strategy's value at index `k` -/
theorem C06_delay_index_actual (w : Wait) (n k : Nat) (el : Rat) (e : Nat) (u : Rat) (hk : k < n) :
    C06.engineDelay { retry := none, wait := w, stop := stopAfterAttempt (n : Rat) } k el e u = some (w k u) := by
  have hcast : decide ((k : Rat) ≥ (n : Rat)) = false := by
    simp [Rat.natCast_le_natCast]; omega
  simp [C06.engineDelay, Composed.next, stopAfterAttempt, hcast]
