import WfModel.Archive
/-!
C33: the hypotheses of the theorems are satisfiable — a lawful AEAD and a lawful codec.
-/
namespace Archive
open GenArchive

theorem prefixAead_lawful : prefixAead.Lawful where
  open_seal pw salt nonce m := by
    simp only [prefixAead, List.append_assoc, true_and]
    rw [List.take_left' rfl, List.drop_left' rfl]
    simp
  auth pw pw' salt nonce m hne := by
    simp only [prefixAead, List.append_assoc]
    rw [if_neg]
    rintro ⟨hl, ht⟩
    rw [List.take_left' rfl] at ht
    exact hne ht.symm
  seal_length pw salt nonce m := by
    simp [prefixAead]; omega

theorem pOptInt_enc (i : Int) (r : Bytes) : pOptInt (encOptInt (some i) ++ r) = some (some i, r) := by
  by_cases h : i < 0
  · simp only [encOptInt, encInt, h, if_true, List.cons_append, List.nil_append, pOptInt]
    congr 2; congr 1; simp only [Int.ofNat_eq_natCast]; omega
  · simp only [encOptInt, encInt, h, if_false, List.cons_append, List.nil_append, pOptInt]
    congr 2; congr 1; simp only [Int.ofNat_eq_natCast]; omega

theorem pOptStr_enc (s : Str) (r : Bytes) : pOptStr (encOptStr (some s) ++ r) = some (some s, r) := by
  simp [encOptStr, pOptStr]

theorem tokenCodec_lawful : tokenCodec.Lawful where
  y_rt y := rfl
  manifest_rt m := by
    simp only [tokenCodec, encRawManifest, RawManifest.ofManifest, decRawManifest, pOptInt_enc, pOptStr_enc]
    cases m.encrypted <;> simp [encOptBool, pOptBool]
  meta_rt g := by
    have := pOptInt_enc g []
    simp only [List.append_nil] at this
    simp only [tokenCodec, this]

end Archive
