"""C11 — `ExternalContext._state` / `running_steps()` / `to_dict()` on prefixes of a recorded run.

For a finished live trace the adapter still holds the run's `init_state` and its tick log.  A `PrefixAdapter` shows the
real `ExternalContext` the first k ticks of that log — exactly what a caller would have seen had it looked at the live
handler right after the k-th tick — and the three public views are taken through the real code
(`external_context.py` -> `rebuild_state_from_ticks`) at a clock of our choosing:

* (K) `rebuild_lines`: the rebuilt state, `running_steps()` and the context loaded from `to_dict()` (`from_serialized`) are
  compared with the model's `replayTicks` / `activeSteps` / `roundtrip` (driver ops `rbclear`, `rbtick`, `rebuild`) — the
  functions `C11_rebuild_agrees_with_live`, `C11_running_steps_describe_run`, `C11_to_dict_describes_run` are about;
* (S) `mon_views`: `running_steps()` must be the steps whose LIVE `in_progress` table was non-empty after the k-th tick, and
  `to_dict()` must be the serialisation of that live state, timestamps aside (attempt-based retry policies only).
"""
from __future__ import annotations

import json
import random
from typing import Any

from workflows.context.context_types import SerializedContext
from workflows.context.external_context import ExternalContext
from workflows.context.serializers import JsonSerializer
from workflows.plugins import basic as BASIC
from workflows.runtime import control_loop as CL
from workflows.runtime.types.internal_state import BrokerState

from ..runner import Violation
from . import enc, live
from .direct import oracle_tokens
from .live import Trace


class FixedClock:
    """stand-in for the `time` module of control_loop.py while a rebuild is observed: `time.time()` is `t`"""

    def __init__(self, t: float):
        self._t = float(t)
        self._real = __import__("time")

    def time(self) -> float:
        return self._t

    def __getattr__(self, name: str) -> Any:
        return getattr(self._real, name)


class PrefixAdapter(BASIC.ExternalAsyncioAdapter):
    """the run's real external adapter, showing only the first k recorded ticks"""

    def __init__(self, base: Any, k: int):
        super().__init__(base._outer, base._queues)
        self._k = k

    def replay(self) -> list:
        return list(self._queues.ticks[: self._k])


def _drive(coro: Any) -> Any:
    """run a coroutine that never suspends (`async def running_steps`)"""
    try:
        coro.send(None)
    except StopIteration as e:
        return e.value
    coro.close()
    raise RuntimeError("coroutine suspended")


def logged_ticks(tr: Trace) -> list | None:
    if tr.handler is None:
        return None
    try:
        return list(tr.handler._external_adapter.replay())
    except Exception:
        return None


def observe(tr: Trace, k: int, clock: float) -> dict:
    """the three views of the real ExternalContext over the first k ticks, at `clock`"""
    base = tr.handler._external_adapter
    face0 = tr.handler.ctx._face
    wf = face0._workflow
    face = ExternalContext(workflow=wf, external_adapter=PrefixAdapter(base, k), serializer=face0._serializer)
    scratch = live.Run({"steps": []}, random.Random(0))
    live._ACTIVE.append(scratch)  # swallow (and keep) the recordings of the replays
    saved = CL.time
    CL.time = FixedClock(clock)  # type: ignore[attr-defined]
    res: dict[str, Any] = {"k": k, "clock": clock}
    try:
        try:
            res["state"] = face._state
            res["_n_state_calls"] = len(scratch.trace.calls)
            res["running_steps"] = _drive(face.running_steps())
            d = face.to_dict()
            res["dict"] = json.loads(json.dumps(d, default=str))
            res["loaded"] = BrokerState.from_serialized(SerializedContext.model_validate(json.loads(json.dumps(d))), wf, JsonSerializer())
        except Exception as e:  # noqa: BLE001 - a raising rebuild is an observation
            res["error"] = f"{type(e).__name__}: {e}"
    finally:
        CL.time = saved  # type: ignore[attr-defined]
        live._ACTIVE.pop()
    oracle: list = []
    for c in scratch.trace.calls:
        for o in c.oracle:
            oracle.append(o)
    res["oracle"] = oracle
    # the policy consultations of ONE rebuild (the `_state` call), in order
    res["oracle_state"] = [o for c in scratch.trace.calls[: res.pop("_n_state_calls", len(scratch.trace.calls))] for o in c.oracle]
    res["reduce_calls"] = sum(1 for c in scratch.trace.calls if c.kind == "reduce")
    res["rewind_calls"] = sum(1 for c in scratch.trace.calls if c.kind == "rewind")
    return res


def rebuild_lines(tr: Trace, obs: dict) -> tuple[list[str], list[str]]:
    """driver ops + what the implementation answered, for one observation"""
    base = tr.handler._external_adapter
    init = base.init_state
    ticks = list(base._queues.ticks[: obs["k"]])
    ops = ["cfg " + enc.cfg(init), "state " + enc.state(init), "rbclear"]
    exp = ["ok", enc.state(init), "ok"]
    for t in ticks:
        ops.append("rbtick " + enc.tick(t))
        exp.append("ok")
    ops.append("rbuild %s %s %s" % (enc.num(obs["clock"]), enc.num(obs["clock"]), oracle_tokens(obs["oracle"])))
    if "error" in obs:
        exp.append("crash")
    else:
        exp.append("%s ;; A %s ;; D %s" % (enc.state(obs["state"]), enc.lst([enc.step_id(s) for s in obs["running_steps"]]),
                                           enc.state(obs["loaded"])))
    return ops, exp


def _strip(d: dict) -> dict:
    d = json.loads(json.dumps(d, default=str))
    for w in d.get("workers", {}).values():
        # timestamps aside: queued attempts and the attempt records kept in waiters
        for a in list(w.get("queue", [])) + list(w.get("collected_waiters", [])):
            a["first_attempt_at"] = None
            a["last_failed_at"] = None
    d.pop("state", None)
    return d


def live_states(tr: Trace) -> list | None:
    """live broker state after 0, 1, 2, … recorded ticks (None: the trace has no runner calls)"""
    calls = [c for c in tr.calls if c.caller in ("run", "_process_tick")]
    if not calls:
        return None
    if calls[0].kind == "rewind":
        states = [calls[0].after]
        rest = calls[1:]
    else:
        states = [calls[0].before]
        rest = calls
    for c in rest:
        if c.error is not None:
            break
        states.append(c.after)
    return states


def mon_views(tr: Trace, obs: dict) -> list[Violation]:
    """(S) what a caller of the live handler sees after the k-th tick describes the live run"""
    out: list[Violation] = []
    states = live_states(tr)
    k = obs["k"]
    if states is None or k >= len(states):
        return out
    case = {"spec": tr.spec, "actions": tr.actions, "prefix": k, "clock": obs["clock"]}
    if "error" in obs:
        out.append(Violation("C11/view_raises", f"ExternalContext over the first {k} recorded ticks raised {obs['error']}", case))
        return out
    lv = states[k]
    want_rs = [s for s in lv.workers.keys() if lv.workers[s].in_progress]
    if list(obs["running_steps"]) != want_rs:
        out.append(Violation("C11/running_steps_differs_from_live",
                             f"running_steps() after {k} ticks says {obs['running_steps']}, the live engine has work in progress for {want_rs}", case))
    want = json.loads(json.dumps(lv.to_serialized(JsonSerializer()).model_dump(mode="python"), default=str))
    if _strip(want) != _strip(obs["dict"]):
        out.append(Violation("C11/to_dict_differs_from_live", f"ctx.to_dict() after {k} ticks does not describe the live run state", case))
    return out


def pick_prefixes(rng: random.Random, n: int, extra: int) -> list[int]:
    ks = {n}
    for _ in range(extra):
        ks.add(rng.randint(0, n))
    return sorted(ks)


# ----------------------------------------------------------------------------------------------------------------------
# known finding: a rebuild RE-DECIDES retry policies that stop by elapsed time (it reduces every tick at the clock of the call)

KNOWN = "C11/replay_redecides_elapsed_time_policy"


def elapsed_stop_steps(spec: dict) -> set[str]:
    """steps of the spec whose retry policy stops by elapsed time (`stop_after_delay`)"""
    return {s["name"] for s in spec.get("steps", []) if (s.get("retry") or {}).get("kind") == "delay"}


def live_consults(tr: Trace, k: int) -> list:
    """policy consultations of the live reducer while it processed the first k recorded ticks, in order"""
    calls = [c for c in tr.calls if c.caller in ("run", "_process_tick")]
    if calls and calls[0].kind == "rewind":
        calls = calls[1:]
    out: list = []
    n = 0
    for c in calls:
        if c.error is not None or n >= k:
            break
        out += list(c.oracle)
        n += 1
    return out


def _decisions(cons: list) -> list[tuple]:
    return [(s, att, enc.exc(err), "X" if d == "RAISE" else enc.num(d)) for (s, _el, att, err, d) in cons]


_MODEL_AGREES_LIVE: dict[int, bool] = {}


def _model_agrees(label: str, ops: list[str], exp: list[str]) -> bool:
    from ..runner import Driver, diff_streams

    try:
        mo = Driver("engine").run(ops)
    except Exception:  # noqa: BLE001
        return False
    return diff_streams(label, ops, mo, exp) is None


def redecided(tr: Trace, obs: dict) -> bool:
    """the difference between what was rebuilt from the first k ticks and the live state after them is explained by a retry
    decision taken differently: (1) a step whose policy stops by elapsed time was answered differently in the rebuild than
    live — the first consultation that differs is one of such a step; (2) the model, fed the REBUILD's recorded answers at the
    rebuild's clock, is the real rebuild (so nothing but the answers and the clock went into it: a reducer that reads its
    clock in any other way fails here); (3) the model, fed the LIVE answers at the recorded times, is the live run."""
    slow = elapsed_stop_steps(tr.spec)
    if not slow or "error" in obs or tr.handler is None:
        return False
    lv, rb = _decisions(live_consults(tr, obs["k"])), _decisions(obs.get("oracle_state", []))
    i = 0
    while i < min(len(lv), len(rb)) and lv[i] == rb[i]:
        i += 1
    if i == len(lv) == len(rb):
        return False  # every consultation was answered as it was live
    first = rb[i] if i < len(rb) else lv[i]
    if first[0] not in slow:
        return False
    o, e = rebuild_lines(tr, obs)
    if not _model_agrees("engine-rebuild", o, e):
        return False
    if id(tr) not in _MODEL_AGREES_LIVE:
        from . import corr

        try:
            lo, le = corr.live_lines(tr)
            _MODEL_AGREES_LIVE[id(tr)] = bool(lo) and _model_agrees("engine-live", lo, le)
        except Exception:  # noqa: BLE001
            _MODEL_AGREES_LIVE[id(tr)] = False
    return _MODEL_AGREES_LIVE[id(tr)]


def classify_views(tr: Trace, obs: dict, vs: list[Violation]) -> list[Violation]:
    """`mon_views` violations of one observation, with the known finding told apart"""
    if not vs or not any(v.signature in ("C11/running_steps_differs_from_live", "C11/to_dict_differs_from_live") for v in vs):
        return vs
    if not redecided(tr, obs):
        return vs
    out = []
    for v in vs:
        if v.signature == "C11/running_steps_differs_from_live":
            v = Violation(KNOWN + ":running_steps", v.what, v.replay)
        elif v.signature == "C11/to_dict_differs_from_live":
            v = Violation(KNOWN + ":to_dict", v.what, v.replay)
        out.append(v)
    return out


def _first_differing_prefix(tr: Trace, clock: float) -> int | None:
    from . import monitors

    states = live_states(tr)
    base = tr.handler._external_adapter
    if states is None:
        return None
    init, ticks = base.init_state, list(base._queues.ticks)
    scratch = live.Run({"steps": []}, random.Random(0))
    live._ACTIVE.append(scratch)
    saved = CL.time
    CL.time = FixedClock(clock)  # type: ignore[attr-defined]
    try:
        for k in range(min(len(states), len(ticks) + 1)):
            try:
                rebuilt = CL.rebuild_state_from_ticks(init, ticks[:k])
            except Exception:  # noqa: BLE001
                return None
            if monitors.state_sans_time(rebuilt) != monitors.state_sans_time(states[k]):
                return k
    finally:
        CL.time = saved  # type: ignore[attr-defined]
        live._ACTIVE.pop()
    return None


def mon_c11_classified(tr: Trace) -> list[Violation]:
    """`monitors.mon_c11`, with the known finding told apart (only for runs that have a step whose policy stops by elapsed
    time; every other run, and every difference that is not a re-decided retry, keeps mon_c11's signatures)"""
    from . import monitors

    vs = monitors.mon_c11(tr)
    if not vs or not elapsed_stop_steps(tr.spec) or tr.handler is None or logged_ticks(tr) is None:
        return vs
    out: list[Violation] = []
    end = int(getattr(tr, "end_time", 0) or 1000)
    snaps_done = False
    for v in vs:
        if v.signature == "C11/replay_differs":
            clock = end + 1000  # like mon_c11 (wall clock): later than everything the run recorded
            k = _first_differing_prefix(tr, clock)
            if k is not None and redecided(tr, observe(tr, k, clock)):
                v = Violation(KNOWN, v.what + f" (first at {k} ticks: a retry policy that stops by elapsed time answered differently in the rebuild)", v.replay)
            out.append(v)
        elif v.signature == "C11/to_dict_differs_from_live":
            if snaps_done:
                continue
            snaps_done = True
            # every snapshot the run took: re-observed at its own clock over the ticks recorded before it
            generic = known = 0
            for snap in tr.snapshots:
                runner_calls = [c for c in tr.calls[: snap["at_call"]] if c.caller in ("run", "_process_tick")]
                k = sum(1 for c in runner_calls if c.kind == "reduce" and c.error is None)
                try:
                    obs = observe(tr, k, int(snap["vtime"]))
                except Exception:  # noqa: BLE001
                    generic += 1
                    continue
                got = [x for x in mon_views(tr, obs) if x.signature == "C11/to_dict_differs_from_live"]
                if not got:
                    continue
                if redecided(tr, obs):
                    known += 1
                else:
                    generic += 1
            if known:
                out.append(Violation(KNOWN + ":to_dict", v.what, v.replay))
            if generic or not known:
                out.append(v)
        else:
            out.append(v)
    return out
