import WfModel.GenStreamGate
/-!
# `ExternalAsyncioAdapter.stream_published_events` under several consumers (workflows/plugins/basic.py)

```
async def stream_published_events(self):
    async with self._queues.stream_lock:
        if (self._queues.stream_finished or self._queues.complete.done()) and self._queues.publish_queue.empty():
            raise WorkflowRuntimeError("Event stream already consumed. ...")
        while True:
            item = await self._queues.publish_queue.get()
            if isinstance(item, StopEvent):
                self._queues.stream_finished = True
            yield item
            if isinstance(item, StopEvent):
                break
```
(before the repair of C04/overlap_consumer_never_terminates:stream_free_before_outcome_available there was no
`stream_finished`: the guard tested `complete.done()` alone; `Cfg.finishedFlag = false`.)

Labelled transition system whose actions are the await-free sections of that code, per consumer (one call of the
async generator iterated by one task), together with the two things the run does to the shared state (publish an
event, finish its task).  `asyncio.Lock` is FIFO: `release()` clears `_locked` and gives the first waiter its
result; until that waiter has resumed it stays in `_waiters`, so a newcomer queues behind it (no barging) —
hence "lock free" is `holder = none ∧ waiters = []`, and `wake` (the first waiter resumes) is enabled exactly
when `holder = none ∧ waiters ≠ []`.  A consumer that holds the lock and finds the queue non-empty takes item
after item without suspending (`Queue.get` returns at once, the `yield` hands the item to the consumer's loop
body, which asks for the next one) until the queue is empty (`waitItem`), it has the terminal item (`heldTerm`:
the consumer has been given the terminal event and has not asked for more — it may await the run's outcome
there), or it has had `lim` items and closes the generator (`left`; the `async with` releases the lock).

The position of the guard (`Cfg.guardUnderLock`) and whether it knows that the terminal item has been taken
(`Cfg.finishedFlag`; the model's `termTaken` is that flag) are parameters, extracted from the current source
(`GenStreamGate`).  Not modelled: cancellation of a consumer task; consumers whose loop body awaits something
other than the run's outcome.
-/
namespace StreamGate

inductive Item where
  | note (n : Nat)
  | term
  deriving DecidableEq, Repr

inductive HPhase where
  | waitItem   -- suspended in `publish_queue.get()`
  | heldTerm   -- suspended at the `yield` of the terminal item
  deriving DecidableEq, Repr

inductive Fin where
  | ended     -- the generator finished after the terminal item
  | refused   -- WorkflowRuntimeError("Event stream already consumed...")
  | left      -- closed its generator after `lim` items
  deriving DecidableEq, Repr

structure Cfg where
  guardUnderLock : Bool
  finishedFlag : Bool
  deriving DecidableEq, Repr

/-- the configuration of the current source -/
def srcCfg : Cfg := { guardUnderLock := GenStreamGate.guardUnderLock, finishedFlag := GenStreamGate.finishedFlag }

structure Holder where
  id : Nat
  lim : Option Nat
  phase : HPhase
  deriving DecidableEq, Repr

structure St where
  queue : List Item := []            -- publish_queue
  published : List Item := []        -- everything the run has published, in order (ghost)
  termPublished : Bool := false
  termTaken : Bool := false          -- some consumer has been given the terminal item
  complete : Bool := false           -- `complete.done()`
  holder : Option Holder := none     -- who is inside `async with stream_lock`
  waiters : List (Nat × Option Nat) := []   -- suspended in `stream_lock.acquire()`, FIFO (id, lim)
  done : List (Nat × Fin) := []      -- consumers that have terminated (latest first)
  log : List (Nat × Item) := []      -- deliveries, in order
  deriving DecidableEq, Repr

inductive Act where
  | arrive (c : Nat) (lim : Option Nat)   -- a consumer starts iterating; runs up to its first suspension
  | wake                                  -- the first waiter resumes with the lock
  | take                                  -- the holder suspended in `get()` resumes (queue non-empty)
  | finish                                -- the holder that has the terminal item asks for more: generator ends
  | publish (i : Item)                    -- the run publishes (nothing after the terminal item)
  | complete                              -- the run's task is done (after the terminal item was published)
  deriving DecidableEq, Repr

inductive DrainRes where
  | wait (lim : Option Nat)
  | held (lim : Option Nat)
  | left
  deriving DecidableEq, Repr

/-- The holder `c` pulls from the queue until it must suspend or leaves: (delivered, rest of the queue, how). -/
def drainQ : Option Nat → List Item → List Item × List Item × DrainRes
  | lim, [] => ([], [], .wait lim)
  | lim, .term :: q => ([.term], q, .held lim)
  | none, .note n :: q => let (d, r, res) := drainQ none q; (.note n :: d, r, res)
  | some 0, .note n :: q => ([.note n], q, .left)
  | some 1, .note n :: q => ([.note n], q, .left)
  | some (k + 2), .note n :: q => let (d, r, res) := drainQ (some (k + 1)) q; (.note n :: d, r, res)

def applyDrain (c : Nat) (lim : Option Nat) (s : St) : St :=
  match drainQ lim s.queue with
  | (d, r, .wait l) => { s with queue := r, log := s.log ++ d.map (fun i => (c, i)), holder := some ⟨c, l, .waitItem⟩ }
  | (d, r, .held l) => { s with queue := r, log := s.log ++ d.map (fun i => (c, i)), holder := some ⟨c, l, .heldTerm⟩,
                                termTaken := true }
  | (d, r, .left) => { s with queue := r, log := s.log ++ d.map (fun i => (c, i)), holder := none,
                              done := (c, .left) :: s.done }

/-- `(stream_finished or complete.done()) and publish_queue.empty()` -/
def guard (cfg : Cfg) (s : St) : Bool := ((cfg.finishedFlag && s.termTaken) || s.complete) && s.queue.isEmpty

def lockFree (s : St) : Bool := s.holder.isNone && s.waiters.isEmpty

/-- `c` has just acquired the lock (`holder = none`). -/
def enter (cfg : Cfg) (c : Nat) (lim : Option Nat) (s : St) : St :=
  if cfg.guardUnderLock && guard cfg s then { s with done := (c, .refused) :: s.done }
  else applyDrain c lim s

def step (cfg : Cfg) (s : St) : Act → St
  | .arrive c lim =>
    if !cfg.guardUnderLock && guard cfg s then { s with done := (c, .refused) :: s.done }
    else if lockFree s then enter cfg c lim s
    else { s with waiters := s.waiters ++ [(c, lim)] }
  | .wake =>
    match s.holder, s.waiters with
    | none, (c, lim) :: r => enter cfg c lim { s with waiters := r }
    | _, _ => s
  | .take =>
    match s.holder with
    | some ⟨c, lim, .waitItem⟩ => if s.queue.isEmpty then s else applyDrain c lim { s with holder := none }
    | _ => s
  | .finish =>
    match s.holder with
    | some ⟨c, _, .heldTerm⟩ => { s with holder := none, done := (c, .ended) :: s.done }
    | _ => s
  | .publish i =>
    if s.termPublished then s
    else { s with queue := s.queue ++ [i], published := s.published ++ [i], termPublished := decide (i = .term) }
  | .complete => if s.termPublished then { s with complete := true } else s

def run (cfg : Cfg) : St → List Act → St
  | s, [] => s
  | s, a :: r => run cfg (step cfg s a) r

def init : St := {}

/-! ### Observations -/

def wakeEnabled (s : St) : Bool := s.holder.isNone && !s.waiters.isEmpty

def takeEnabled (s : St) : Bool :=
  match s.holder with
  | some ⟨_, _, .waitItem⟩ => !s.queue.isEmpty
  | _ => false

def holdsTerm (s : St) : Bool :=
  match s.holder with
  | some ⟨_, _, .heldTerm⟩ => true
  | _ => false

/-- Nothing a consumer could still do on its own: no waiter to wake, no item to take, and whoever was given the
terminal item has let go of the stream. -/
def quiescent (s : St) : Bool := !wakeEnabled s && !takeEnabled s && !holdsTerm s

/-- Every consumer that arrived has terminated. -/
def allTerminated (s : St) : Bool := s.holder.isNone && s.waiters.isEmpty

/-- The window in which the 'already consumed' guard cannot tell that the stream is over: the terminal item has
been taken, the run's task is not done yet. -/
def window (s : St) : Bool := s.termTaken && !s.complete

/-- The action makes a consumer enter the locked section. -/
def entersLock (s : St) : Act → Bool
  | .arrive _ _ => lockFree s
  | .wake => wakeEnabled s
  | _ => false

/-- No consumer enters the locked section inside the window, along the whole run. -/
def noEntryInWindow (cfg : Cfg) : St → List Act → Bool
  | _, [] => true
  | s, a :: r => !(window s && entersLock s a) && noEntryInWindow cfg (step cfg s a) r

/-- Run internal actions until none is enabled (what the event loop does between two outside events). -/
def settle (cfg : Cfg) : Nat → St → St
  | 0, s => s
  | fuel + 1, s =>
    if wakeEnabled s then settle cfg fuel (step cfg s .wake)
    else if takeEnabled s then settle cfg fuel (step cfg s .take)
    else s

end StreamGate
