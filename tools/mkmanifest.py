#!/usr/bin/env python3
"""Regenerate /verif/MANIFEST.json from harness/props/*.py (claimed checks) and
properties.jsonl (everything else goes to not_applicable with its reason)."""
import importlib
import json
import os
import sys

VERIF = os.path.dirname(os.path.dirname(os.path.abspath(__file__)))
sys.path.insert(0, VERIF)
from harness.boot import boot  # noqa: E402

boot()

BASELINE = ("cd /repo && /venv/bin/python -m pytest -ra -q -p no:cacheprovider --timeout=900 "
            "--continue-on-collection-errors tests/dev_cli")

NOT_YET = "check not built yet; no claim is made (see DESIGN.md section 6 for the plan)"


def main() -> None:
    props = [json.loads(l) for l in open(os.path.join(VERIF, "properties.jsonl"))]
    checks, na = [], []
    for p in props:
        pid = p["id"]
        path = os.path.join(VERIF, "harness", "props", pid.lower() + ".py")
        if not os.path.exists(path):
            na.append({"property_id": pid, "reason": NOT_YET})
            continue
        mod = importlib.import_module(f"harness.props.{pid.lower()}")
        if getattr(mod, "NOT_APPLICABLE", None):
            na.append({"property_id": pid, "reason": mod.NOT_APPLICABLE})
            continue
        checks.append({
            "property_id": pid,
            "quick_cmd": f"./check {pid} --tier quick",
            "thorough_cmd": f"./check {pid} --tier thorough",
            "evidence_file": f"evidence/{pid}.json",
            "replay_cmd_template": f"./check {pid} --replay {{path}}",
            "engine": "lean+corr+search",
            "level_claimed": {
                "category": "proof",
                "text": getattr(mod, "LEVEL_TEXT", mod.EXPLANATION),
                "design_ref": f"DESIGN.md section 6, {pid}",
            },
            "level_note": "; ".join(getattr(mod, "ASSUMPTIONS", [])) or "see DESIGN.md section 3 (trusted base)",
            "technique": getattr(mod, "TECHNIQUE",
                                 "Lean 4 theorems over an executable model + regenerated constants + model/implementation correspondence (line protocol) + implementation-side monitors"),
        })
    manifest = {
        "version": 1,
        "setup_cmd": "/venv/bin/python -m harness.translate && cd lean && lake build",
        "hooks": {
            "guard": "RUN_LLAMA_WORKFLOWS_PY_VERIF",
            "enable": "no source hooks are needed: the harness imports /repo's working tree by path and observes through the public Runtime/adapter interfaces; the guard variable is set by the harness but read by nothing in /repo",
            "baseline_off_cmd": BASELINE,
            "source_commits": [],
            "add_only": True,
        },
        "engines": [
            {"name": "lean", "path": "lean", "serves_properties": [c["property_id"] for c in checks],
             "kind_free_text": "Lean 4 models (WfModel), lemmas (WfProofs), property theorems (WfProps), line-protocol driver (wfdriver)"},
            {"name": "corr+search", "path": "harness", "serves_properties": [c["property_id"] for c in checks],
             "kind_free_text": "translator (Generated.lean), correspondence drivers, generators, monitors on the real code"},
        ],
        "checks": checks,
        "not_applicable": na,
        "notes": "Verdict logic: DESIGN.md section 2.2. Known findings: known_findings.json. Seeded changes: seeded/.",
    }
    with open(os.path.join(VERIF, "MANIFEST.json"), "w") as f:
        json.dump(manifest, f, indent=1)
    print(f"claimed={len(checks)} not_applicable={len(na)}")


if __name__ == "__main__":
    main()
