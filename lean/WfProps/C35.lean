import WfProofs.EngineTelemetry
/-!
# C35 — step lifecycle telemetry on the stream is balanced and ordered

`Valid o cmds o'` (WfProofs/EngineTelemetry.lean) reads the `StepStateChanged`
publishes of a command list in order: `RUNNING(step, worker)` is legal only on a
closed slot and opens it, `NOT_RUNNING(step, worker)` only on an open slot and
closes it.  The runner writes a tick's publish commands to the stream in list
order and ticks one after the other, so validity of the concatenated command
lists *is* the ordering/balance property of the stream.
-/
open Engine

/-- all commands emitted by a run: the rewind at start-up, then one reduce per tick -/
def C35.cmds (cfg : Cfg) (pol : Policy) (st0 : State) (now0 : Int) (ticks : List (Tick × Int)) :
    State × List Cmd :=
  ticks.foldl (fun acc tn => let r := reduce cfg pol tn.1 acc.1 tn.2; (r.1, acc.2 ++ r.2))
    (rewind cfg st0 now0)

/-- **C35**: for every tick history that the reducer does not reject (no `crash`,
i.e. step results refer to invocations that are in progress), the whole sequence
of lifecycle publishes is well-ordered starting from "no slot open", and the
slots left open are exactly the invocations still in progress: every `RUNNING`
has been matched by exactly one later `NOT_RUNNING` on the same worker, except
for invocations that are still running. -/
theorem C35_stream_ordered (cfg : Cfg) (hwf : cfg.WF) (pol : Policy) (st0 : State) (now0 : Int)
    (ticks : List (Tick × Int)) (hnc : Cmd.crash ∉ (C35.cmds cfg pol st0 now0 ticks).2) :
    ∃ o', Valid (fun _ _ => false) (C35.cmds cfg pol st0 now0 ticks).2 o' ∧
      Agree cfg o' (C35.cmds cfg pol st0 now0 ticks).1 ∧ IdsInv cfg (C35.cmds cfg pol st0 now0 ticks).1 := by
  unfold C35.cmds at hnc ⊢
  obtain ⟨o0, hv0, ha0⟩ := rewind_valid cfg hwf st0 now0
  have hinv0 : IdsInv cfg (rewind cfg st0 now0).1 := rewind_idsInv_fresh cfg hwf st0 now0
  generalize rewind cfg st0 now0 = acc at hnc hv0 ha0 hinv0
  induction ticks generalizing acc o0 with
  | nil => exact ⟨o0, hv0, ha0, hinv0⟩
  | cons tn rest ih =>
    simp only [List.foldl_cons] at hnc ⊢
    have hnc1 : Cmd.crash ∉ (reduce cfg pol tn.1 acc.1 tn.2).2 := by
      intro hcr
      apply hnc
      exact foldl_cmds_mono cfg pol rest _ _ (by simp [hcr])
    obtain ⟨o1, hv1, ha1⟩ := reduce_valid cfg hwf pol tn.1 acc.1 tn.2 o0 hinv0 ha0 hnc1
    exact ih o1 _ hnc (hv0.append hv1) ha1 (reduce_idsInv cfg hwf pol tn.1 acc.1 tn.2 hinv0)

/-- one tick at a time (the form used above) -/
theorem C35_tick_ordered (cfg : Cfg) (hwf : cfg.WF) (pol : Policy) (tick : Tick) (st : State) (now : Int)
    (o : Open) (hinv : IdsInv cfg st) (hag : Agree cfg o st)
    (hnc : Cmd.crash ∉ (reduce cfg pol tick st now).2) :
    ∃ o', Valid o (reduce cfg pol tick st now).2 o' ∧ Agree cfg o' (reduce cfg pol tick st now).1 :=
  reduce_valid cfg hwf pol tick st now o hinv hag hnc

/-- An attempt that has to wait for capacity gets `PREPARING` (and no worker id) when it
is queued; `RUNNING` comes only when `addOrEnqueue` later starts it from the queue. -/
theorem C35_preparing_when_queued (att : Attempt) (step : Nat) (ss : StepState) (nw : Nat) (now : Int)
    (hfull : ¬ ss.inProg.length < nw) :
    addOrEnqueue att step ss nw now =
      ({ ss with queue := ss.queue ++ [att] },
        [.publish (.stepState .preparing step att.ev.ty .unset none)]) := by
  simp [addOrEnqueue, hfull]

/-- An `InputRequiredEvent` returned by a step is published exactly once by the tick that
carries it (and queued once). -/
theorem C35_input_required_once (cfg : Cfg) (pol : Policy) (step : Nat) (tickEv : Ev) (dc : Bool)
    (acc : ResAcc) (ev : Ev) (hk : ev.kind = .inputRequired) :
    (applyRes cfg pol step tickEv dc acc (.result (some ev))).cmds =
      acc.cmds ++ [.publish (.event ev)] ++ [.queueEvent { ev := ev, rc := acc.exec.rc } none none] := by
  simp [applyRes, hk]

/-! Non-vacuity: two workers, out-of-order completion, the freed lower slot is reused. -/
def C35.exCfg : Cfg := { steps := [{ name := 1, accepted := [5], numWorkers := 2, hasRetry := false }] }
def C35.exEv (u : Nat) : Ev := { ty := 5, kind := .plain, uid := u }
example :
    let r := C35.cmds C35.exCfg (fun _ _ _ _ => .stop) initState 0
      [(.addEvent { ev := C35.exEv 1 } none, 0), (.addEvent { ev := C35.exEv 2 } none, 0),
       (.stepResult 1 0 (C35.exEv 1) [.result none], 1), (.addEvent { ev := C35.exEv 3 } none, 2)]
    (r.2.contains .crash, (r.1.workers 1).inProg.map (·.wid)) = (false, [1, 0]) := by decide
