import WfModel.StateStore
/-! Lemmas for C19: the code-shaped walkers equal the nested-dict specification, and the
memory / SQLite machines simulate `Spec`. -/
namespace StateStore

/-! ### association lists -/

theorem lookup_upsert_same (k : String) (v : Json) (d : Obj) : lookup k (upsert k v d) = some v := by
  induction d with
  | nil => simp [upsert, lookup]
  | cons kv r ih =>
    obtain ⟨k', v'⟩ := kv
    by_cases h : k' = k
    · simp [upsert, lookup, h]
    · simp [upsert, lookup, h, ih]

theorem lookup_upsert_other {k k' : String} (v : Json) (d : Obj) (h : k' ≠ k) :
    lookup k' (upsert k v d) = lookup k' d := by
  induction d with
  | nil => simp [upsert, lookup, Ne.symm h]
  | cons kv r ih =>
    obtain ⟨k2, v2⟩ := kv
    by_cases h2 : k2 = k
    · subst h2
      simp [upsert, lookup, Ne.symm h]
    · by_cases h3 : k2 = k'
      · subst h3
        simp [upsert, lookup, h2]
      · simp [upsert, lookup, h2, h3, ih]

/-! ### path steps -/

/-- whether `assign` raises depends on the container and the segment only -/
theorem assign_status (j : Json) (s : String) (x y : Json) :
    (∃ a b, assign j s x = .ok a ∧ assign j s y = .ok b) ∨
    (∃ e, assign j s x = .error e ∧ assign j s y = .error e) := by
  cases j with
  | obj kvs => exact Or.inl ⟨_, _, rfl, rfl⟩
  | arr xs =>
    simp only [assign]
    cases segIdx xs.length s with
    | none => exact Or.inr ⟨_, rfl, rfl⟩
    | some n => exact Or.inl ⟨_, _, rfl, rfl⟩
  | null => exact Or.inr ⟨_, rfl, rfl⟩
  | bool b => exact Or.inr ⟨_, rfl, rfl⟩
  | int i => exact Or.inr ⟨_, rfl, rfl⟩
  | flt r => exact Or.inr ⟨_, rfl, rfl⟩
  | str t => exact Or.inr ⟨_, rfl, rfl⟩

theorem assign_err_indep {j : Json} {s : String} {x : Json} {e : Err} (y : Json)
    (h : assign j s x = .error e) : assign j s y = .error e := by
  rcases assign_status j s x y with ⟨a, b, h1, _⟩ | ⟨e', h1, h2⟩
  · rw [h] at h1; cases h1
  · rw [h] at h1; cases h1; exact h2

theorem assign_ok_indep {j : Json} {s : String} {x a : Json} (y : Json)
    (h : assign j s x = .ok a) : ∃ b, assign j s y = .ok b := by
  rcases assign_status j s x y with ⟨a', b, _, h2⟩ | ⟨e', h1, _⟩
  · exact ⟨b, h2⟩
  · rw [h] at h1; cases h1

theorem normIdx_lt {len : Nat} {i : Int} {n : Nat} (h : normIdx len i = some n) : n < len := by
  unfold normIdx at h
  split at h
  · split at h
    · cases h; assumption
    · cases h
  · split at h
    · cases h; omega
    · cases h

theorem segIdx_lt {len : Nat} {s : String} {n : Nat} (h : segIdx len s = some n) : n < len := by
  unfold segIdx at h
  split at h
  · exact normIdx_lt h
  · cases h

/-- what was assigned at a segment is what the walker finds there -/
theorem child_assign {j j' : Json} {s : String} {x : Json} (h : assign j s x = .ok j') :
    child j' s = some x := by
  cases j with
  | obj kvs =>
    simp only [assign] at h
    cases h
    simp [child, lookup_upsert_same]
  | arr xs =>
    simp only [assign] at h
    cases hi : segIdx xs.length s with
    | none => rw [hi] at h; cases h
    | some n =>
      rw [hi] at h
      cases h
      have hn := segIdx_lt hi
      simp [child, List.length_set, hi, hn]
  | null => cases h
  | bool b => cases h
  | int i => cases h
  | flt r => cases h
  | str t => cases h

/-! ### `setLoop` is `specSet` -/

theorem setLoop_empty (more : List String) (last : String) (v : Json) :
    setLoop (.obj []) more last v = .ok (nest (more ++ [last]) v) := by
  induction more with
  | nil => simp [setLoop, assign, upsert, nest]
  | cons seg more ih =>
    simp [setLoop, child, lookup, assign, upsert, ih, nest]

theorem setLoop_eq_specSet (more : List String) (last : String) (v : Json) :
    ∀ cur, setLoop cur more last v = specSet cur (more ++ [last]) v := by
  induction more with
  | nil => intro cur; simp [setLoop, specSet]
  | cons seg more ih =>
    intro cur
    obtain ⟨t, r, htr⟩ : ∃ t r, more ++ [last] = t :: r := by
      cases more with
      | nil => exact ⟨last, [], rfl⟩
      | cons a b => exact ⟨a, b ++ [last], rfl⟩
    have hs : specSet cur ((seg :: more) ++ [last]) v =
        (match child cur seg with
         | some c => match specSet c (more ++ [last]) v with
           | .ok c' => assign cur seg c'
           | .error e => .error e
         | none => assign cur seg (nest (more ++ [last]) v)) := by
      simp only [List.cons_append, htr, specSet]
      rfl
    rw [hs]
    simp only [setLoop]
    cases hc : child cur seg with
    | some c => simp only [ih c]; rfl
    | none =>
      simp only [setLoop_empty]
      cases ha : assign cur seg (.obj []) with
      | error e => simp only [assign_err_indep (nest (more ++ [last]) v) ha]
      | ok a => simp only []

/-! ### root level -/

theorem rootAssign_eq_specRootPut (r : Root) (s : String) (v : Json) :
    rootAssign r s v = specRootPut r s v := by
  unfold rootAssign specRootPut
  cases hty : r.ty with
  | dict => simp
  | typed n => simp
  | other => simp

theorem specRootPut_status (r : Root) (s : String) (x y : Json) :
    (∃ a b, specRootPut r s x = .ok a ∧ specRootPut r s y = .ok b) ∨
    (∃ e, specRootPut r s x = .error e ∧ specRootPut r s y = .error e) := by
  unfold specRootPut
  by_cases h : r.ty = .dict ∨ (lookup s r.data).isSome = true
  · simp only [h, if_true]; exact Or.inl ⟨_, _, rfl, rfl⟩
  · simp only [h, if_false]; exact Or.inr ⟨_, rfl, rfl⟩

theorem rootSet_eq_spec (r : Root) (inits : List String) (last : String) (v : Json) :
    rootSet r inits last v = specRootSet r (inits ++ [last]) v := by
  cases inits with
  | nil => simp [rootSet, specRootSet, rootAssign_eq_specRootPut]
  | cons seg more =>
    obtain ⟨t, rr, htr⟩ : ∃ t rr, more ++ [last] = t :: rr := by
      cases more with
      | nil => exact ⟨last, [], rfl⟩
      | cons a b => exact ⟨a, b ++ [last], rfl⟩
    have hs : specRootSet r ((seg :: more) ++ [last]) v =
        (match lookup seg r.data with
         | some c => match specSet c (more ++ [last]) v with
           | .ok c' => specRootPut r seg c'
           | .error e => .error e
         | none => specRootPut r seg (nest (more ++ [last]) v)) := by
      simp only [List.cons_append, htr, specRootSet]
      rfl
    rw [hs]
    simp only [rootSet, rootChild, rootAssign_eq_specRootPut]
    cases hc : lookup seg r.data with
    | some c => simp only [setLoop_eq_specSet]; rfl
    | none =>
      simp only [setLoop_empty]
      rcases specRootPut_status r seg (.obj []) (nest (more ++ [last]) v) with ⟨a, b, h1, h2⟩ | ⟨e, h1, h2⟩
      · simp only [h1]
      · simp only [h1, h2]

theorem splitLast_append (xs : List String) (l : String) : splitLast (xs ++ [l]) = some (xs, l) := by
  induction xs with
  | nil => rfl
  | cons x r ih =>
    cases r with
    | nil => simp [splitLast]
    | cons y r' =>
      have : (x :: y :: r') ++ [l] = x :: y :: (r' ++ [l]) := rfl
      rw [this]
      simp only [splitLast]
      have ih' : splitLast (y :: (r' ++ [l])) = some (y :: r', l) := ih
      rw [ih']

theorem splitLast_some {xs : List String} (h : xs ≠ []) : ∃ i l, xs = i ++ [l] ∧ splitLast xs = some (i, l) := by
  have hx : xs = xs.dropLast ++ [xs.getLast h] := (List.dropLast_concat_getLast h).symm
  refine ⟨xs.dropLast, xs.getLast h, hx, ?_⟩
  have := splitLast_append xs.dropLast (xs.getLast h)
  rw [← hx] at this
  exact this

theorem splitDots_ne_nil (acc cs : List Char) : splitDots acc cs ≠ [] := by
  induction cs generalizing acc with
  | nil => simp [splitDots]
  | cons c r ih =>
    simp only [splitDots]
    split
    · simp
    · exact ih _

theorem splitPath_ne_nil (p : String) : splitPath p ≠ [] := by
  unfold splitPath
  intro h
  have := splitDots_ne_nil [] p.toList
  cases hh : splitDots [] p.toList with
  | nil => exact this hh
  | cons a b => rw [hh] at h; simp at h

/-- `set_by_path` on a root is the nested-dict write -/
theorem setByPath_eq_spec (r : Root) (path : String) (v : Json) :
    setByPath r path v = specSetPath r path v := by
  unfold setByPath specSetPath
  by_cases h1 : path.isEmpty
  · simp [h1]
  · simp only [h1, if_false, Bool.false_eq_true]
    by_cases h2 : (splitPath path).length > maxDepth
    · simp [h2]
    · simp only [h2, if_false]
      obtain ⟨i, l, hx, hsl⟩ := splitLast_some (splitPath_ne_nil path)
      rw [hsl]
      simp only []
      rw [rootSet_eq_spec, ← hx]

/-- `get_by_path` on a root is the nested-dict read -/
theorem getByPath_eq_spec (r : Root) (path : String) (d : Option Json) :
    gotOut (getByPath r path d) = specGet r path d := by
  unfold getByPath specGet
  by_cases h1 : path.isEmpty
  · simp [h1, gotOut]
  · simp only [h1, if_false, Bool.false_eq_true]
    by_cases h2 : (splitPath path).length > maxDepth
    · simp [h2, gotOut]
    · simp only [h2, if_false]
      cases hs : splitPath path with
      | nil => exact absurd hs (splitPath_ne_nil path)
      | cons s rest =>
        simp only [specGetVal, walk, child, rootChild]
        cases hl : lookup s r.data with
        | none => cases d <;> simp [gotOut]
        | some c =>
          simp only []
          cases hw : walk c rest with
          | none => cases d <;> simp [gotOut]
          | some j => simp [gotOut]

/-! ### types are static -/

theorem rootAssign_ty {r r' : Root} {s : String} {v : Json} (h : rootAssign r s v = .ok r') : r'.ty = r.ty := by
  unfold rootAssign at h
  split at h
  · cases h; rfl
  · split at h
    · cases h; rfl
    · cases h

theorem specRootPut_ty {r r' : Root} {s : String} {v : Json} (h : specRootPut r s v = .ok r') : r'.ty = r.ty := by
  rw [← rootAssign_eq_specRootPut] at h; exact rootAssign_ty h

theorem specRootSet_ty {r r' : Root} {segs : List String} {v : Json} (h : specRootSet r segs v = .ok r') :
    r'.ty = r.ty := by
  match segs, h with
  | [], h => simp [specRootSet] at h
  | [s], h => exact specRootPut_ty (by simpa [specRootSet] using h)
  | s :: t :: rest, h =>
    simp only [specRootSet] at h
    split at h
    · split at h
      · exact specRootPut_ty h
      · cases h
    · exact specRootPut_ty h

theorem specSetPath_ty {r r' : Root} {p : String} {v : Json} (h : specSetPath r p v = .ok r') : r'.ty = r.ty := by
  unfold specSetPath at h
  split at h
  · cases h
  · split at h
    · cases h
    · exact specRootSet_ty h

theorem isSub_refl (t : Ty) : isSub t t = true := by
  cases t <;> simp [isSub]

theorem isSub_incTy {t : Ty} {i : IncTy} (h : isSub (incTy t i) t = true) : incTy t i = t := by
  cases i with
  | same => rfl
  | ancestor k =>
    cases t with
    | dict => simp [incTy, isSub] at h
    | other => simp [incTy]
    | typed n =>
      simp only [incTy] at h ⊢
      split at h
      · simp only [isSub, decide_eq_true_eq] at h; omega
      · simp [isSub] at h
  | dictState =>
    cases t <;> simp_all [incTy, isSub]
  | unrelated =>
    cases t <;> simp_all [incTy, isSub]

theorem mergeState_ty_inc {cur r : Root} {i : IncTy} {d : Obj}
    (h : mergeState cur ⟨incTy cur.ty i, d⟩ = .ok r) : r.ty = cur.ty := by
  unfold mergeState at h
  split at h
  · rename_i hs
    cases h
    exact isSub_incTy hs
  · split at h
    · cases h; rfl
    · cases h

theorem mergeState_same {cur inc : Root} (h : inc.ty = cur.ty) : mergeState cur inc = .ok inc := by
  unfold mergeState
  rw [h, isSub_refl]
  simp

theorem defaultRoot_ty (sc : Schema) (t : Ty) : (defaultRoot sc t).ty = t := by
  cases t <;> rfl

theorem runMuts_ty (r : Root) (ms : List Mut) : (runMuts r ms).1.ty = r.ty := by
  induction ms generalizing r with
  | nil => rfl
  | cons m ms ih =>
    simp only [runMuts]
    cases ha : applyMut r m with
    | error e => rfl
    | ok r' =>
      simp only []
      rw [ih r']
      -- every mutation keeps the type
      cases m with
      | setKey k v => exact rootAssign_ty ha
      | incr k n =>
        simp only [applyMut] at ha
        split at ha <;> first | exact rootAssign_ty ha | cases ha
      | append k v =>
        simp only [applyMut] at ha
        split at ha <;> first | exact rootAssign_ty ha | cases ha
      | delKey k =>
        simp only [applyMut] at ha
        split at ha
        · cases ha; rfl
        · cases ha
      | raise => cases ha

theorem runMuts_append (r : Root) (a b : List Mut) :
    runMuts r (a ++ b) = (match runMuts r a with
      | (r', none) => runMuts r' b
      | (r', some e) => (r', some e)) := by
  induction a generalizing r with
  | nil => simp [runMuts]
  | cons m ms ih =>
    simp only [List.cons_append, runMuts]
    cases applyMut r m with
    | error e => rfl
    | ok r' => exact ih r'

theorem snapMut_ty {held h' : Option Root} {k : String} {v : Json} {o : Out} {t : Ty}
    (hh : ∀ h, held = some h → h.ty = t) (hs : snapMut held k v = (h', o)) : ∀ h, h' = some h → h.ty = t := by
  unfold snapMut at hs
  cases held with
  | none => simp at hs; intro h hh'; rw [← hs.1] at hh'; cases hh'
  | some h0 =>
    simp only at hs
    cases ha : rootAssign h0 k v with
    | ok h1 =>
      rw [ha] at hs
      simp at hs
      intro h hh'
      rw [← hs.1] at hh'
      cases hh'
      rw [rootAssign_ty ha]
      exact hh h0 rfl
    | error e =>
      rw [ha] at hs
      simp at hs
      intro h hh'
      rw [← hs.1] at hh'
      cases hh'
      exact hh h0 rfl

/-! ### simulation: memory -/

/-- bodies of the `edit` operations of `ops` do not raise when run from `m` (decidable guard) -/
def bodiesOk (m : Mem) : List Op → Bool
  | [] => true
  | op :: ops =>
    (match op with
     | .edit muts => (runMuts m.root muts).2.isNone
     | _ => true) && bodiesOk (Mem.step m op).1 ops

structure MemSim (m : Mem) (s : Spec) : Prop where
  sc : m.sc = s.sc
  root : m.root = s.root
  held : m.held = s.held
  heldTy : ∀ h, m.held = some h → h.ty = m.root.ty

theorem memSim_init (sc : Schema) (ty : Ty) : MemSim (Mem.init sc ty) (Spec.init sc ty) :=
  ⟨rfl, rfl, rfl, by intro h hh; cases hh⟩

theorem memSim_step {m : Mem} {s : Spec} (R : MemSim m s) (op : Op)
    (hok : ∀ muts, op = .edit muts → (runMuts m.root muts).2 = none) :
    (Mem.step m op).2 = (Spec.step s op).2 ∧ MemSim (Mem.step m op).1 (Spec.step s op).1 := by
  obtain ⟨hsc, hroot, hheld, hty⟩ := R
  cases op with
  | get path d =>
    simp only [Mem.step, Spec.step]
    rw [getByPath_eq_spec, hroot]
    exact ⟨rfl, ⟨hsc, hroot, hheld, hty⟩⟩
  | set path v =>
    simp only [Mem.step, Spec.step]
    rw [setByPath_eq_spec, hroot]
    cases hs : specSetPath s.root path v with
    | error e => exact ⟨rfl, ⟨hsc, hroot, hheld, hty⟩⟩
    | ok r =>
      refine ⟨rfl, ⟨hsc, rfl, hheld, ?_⟩⟩
      intro h hh
      simp only [] at hh ⊢
      rw [specSetPath_ty hs, ← hroot]
      exact hty h hh
  | getState =>
    simp only [Mem.step, Spec.step]
    refine ⟨by rw [hroot], ⟨hsc, hroot, by simp [hroot], ?_⟩⟩
    intro h hh
    simp only [Option.some.injEq] at hh
    rw [← hh]
  | setState ity data =>
    simp only [Mem.step, Spec.step, Mem.setState]
    rw [hroot]
    cases hm : mergeState s.root ⟨incTy s.root.ty ity, data⟩ with
    | error e => exact ⟨rfl, ⟨hsc, hroot, hheld, hty⟩⟩
    | ok r =>
      refine ⟨rfl, ⟨hsc, rfl, hheld, ?_⟩⟩
      intro h hh
      simp only [] at hh ⊢
      rw [mergeState_ty_inc hm, ← hroot]
      exact hty h hh
  | clear =>
    simp only [Mem.step, Spec.step, Mem.setState]
    rw [mergeState_same (defaultRoot_ty _ _)]
    refine ⟨rfl, ⟨hsc, by simp [hsc, hroot], hheld, ?_⟩⟩
    intro h hh
    simp only [] at hh ⊢
    rw [defaultRoot_ty]
    exact hty h hh
  | edit muts =>
    have hn := hok muts rfl
    simp only [Mem.step, Spec.step]
    rw [← hroot]
    cases hr : runMuts m.root muts with
    | mk r e =>
      rw [hr] at hn
      simp only [] at hn
      subst hn
      refine ⟨rfl, ⟨hsc, rfl, hheld, ?_⟩⟩
      intro h hh
      simp only [] at hh ⊢
      have := runMuts_ty m.root muts
      rw [hr] at this
      simp only [] at this
      rw [this]
      exact hty h hh
  | mutSnap k v =>
    simp only [Mem.step, Spec.step]
    rw [← hheld]
    refine ⟨rfl, ⟨hsc, hroot, rfl, ?_⟩⟩
    exact snapMut_ty hty (h' := (snapMut m.held k v).1) (o := (snapMut m.held k v).2) rfl
  | writeBack =>
    simp only [Mem.step, Spec.step]
    rw [← hheld]
    cases hh : m.held with
    | none => exact ⟨rfl, ⟨hsc, hroot, by rw [← hheld, hh], by intro h h2; rw [hh] at h2; cases h2⟩⟩
    | some h =>
      simp only [Mem.setState]
      rw [mergeState_same (hty h hh)]
      refine ⟨rfl, ⟨hsc, rfl, rfl, ?_⟩⟩
      intro h' h2
      cases h2

theorem memSim_run (ops : List Op) : ∀ (m : Mem) (s : Spec), MemSim m s → bodiesOk m ops = true →
    runOuts Mem.step m ops = runOuts Spec.step s ops ∧
    MemSim (runState Mem.step m ops) (runState Spec.step s ops) := by
  induction ops with
  | nil => intro m s R _; exact ⟨rfl, R⟩
  | cons op ops ih =>
    intro m s R hb
    simp only [bodiesOk, Bool.and_eq_true] at hb
    have hok : ∀ muts, op = .edit muts → (runMuts m.root muts).2 = none := by
      intro muts he
      subst he
      simpa using hb.1
    have ⟨ho, R'⟩ := memSim_step R op hok
    have ⟨ih1, ih2⟩ := ih _ _ R' hb.2
    refine ⟨?_, ?_⟩
    · simp only [runOuts]
      rw [ho, ih1]
    · simpa only [runState] using ih2

/-! ### simulation: SQLite -/

structure SqlSim (q : Sql) (s : Spec) : Prop where
  sc : q.sc = s.sc
  root : q.abs = s.root
  held : q.held = s.held
  heldTy : ∀ h, q.held = some h → h.ty = q.ty

theorem Sql.abs_ty (q : Sql) : q.abs.ty = q.ty := by
  unfold Sql.abs
  cases q.row with
  | some d => rfl
  | none => exact defaultRoot_ty _ _

theorem Sql.load_spec (q : Sql) :
    (q.load).2 = q.abs ∧ (q.load).1.abs = q.abs ∧ (q.load).1.sc = q.sc ∧ (q.load).1.ty = q.ty ∧
    (q.load).1.held = q.held := by
  cases q with
  | mk sc ty row held =>
    cases row with
    | some d => simp [Sql.load, Sql.abs]
    | none =>
      simp only [Sql.load, Sql.abs]
      refine ⟨trivial, ?_, trivial, trivial, trivial⟩
      cases ty <;> rfl

theorem Sql.abs_save (q : Sql) (r : Root) (h : r.ty = q.ty) : (q.save r).abs = r := by
  unfold Sql.save Sql.abs
  simp only []
  cases r with
  | mk t d => simp only [] at h; subst h; rfl

theorem sqlSim_init (sc : Schema) (ty : Ty) : SqlSim (Sql.init sc ty) (Spec.init sc ty) :=
  ⟨rfl, rfl, rfl, by intro h hh; cases hh⟩

theorem sql_setState_spec {q : Sql} {s : Spec} (R : SqlSim q s) (inc : Root)
    (hinc : ∀ r, mergeState s.root inc = .ok r → r.ty = s.root.ty) :
    (q.setState inc).2 = (match mergeState s.root inc with | .ok _ => Out.none | .error e => .err e) ∧
    (q.setState inc).1.abs = (match mergeState s.root inc with | .ok r => r | .error _ => s.root) ∧
    (q.setState inc).1.sc = q.sc ∧ (q.setState inc).1.ty = q.ty ∧ (q.setState inc).1.held = q.held := by
  obtain ⟨hsc, hroot, hheld, hty⟩ := R
  unfold Sql.setState
  rw [hroot]
  cases hm : mergeState s.root inc with
  | error e => exact ⟨rfl, hroot, rfl, rfl, rfl⟩
  | ok r =>
    refine ⟨rfl, ?_, rfl, rfl, rfl⟩
    apply Sql.abs_save
    rw [hinc r hm, ← hroot, Sql.abs_ty]

theorem sqlSim_step {q : Sql} {s : Spec} (R : SqlSim q s) (op : Op) :
    (Sql.step q op).2 = (Spec.step s op).2 ∧ SqlSim (Sql.step q op).1 (Spec.step s op).1 := by
  have R0 := R
  obtain ⟨hsc, hroot, hheld, hty⟩ := R
  obtain ⟨hl2, hl1, hlsc, hlty, hlheld⟩ := Sql.load_spec q
  have habsty : s.root.ty = q.ty := by rw [← hroot, Sql.abs_ty]
  cases op with
  | get path d =>
    simp only [Sql.step, Spec.step]
    rw [hl2, getByPath_eq_spec, hroot]
    exact ⟨rfl, ⟨by rw [hlsc, hsc], by rw [hl1, hroot], by rw [hlheld, hheld], by rw [hlheld, hlty]; exact hty⟩⟩
  | set path v =>
    simp only [Sql.step, Spec.step, Sql.edit]
    rw [hl2, setByPath_eq_spec, hroot]
    have keep : SqlSim q.load.1 s :=
      ⟨by rw [hlsc, hsc], by rw [hl1, hroot], by rw [hlheld, hheld], by rw [hlheld, hlty]; exact hty⟩
    cases hs : specSetPath s.root path v with
    | error e => exact ⟨rfl, keep⟩
    | ok r =>
      refine ⟨rfl, ⟨by simp [Sql.save, hlsc, hsc], ?_, by simp [Sql.save, hlheld, hheld], ?_⟩⟩
      · apply Sql.abs_save
        rw [specSetPath_ty hs, habsty, hlty]
      · intro h hh
        simp only [Sql.save, hlheld] at hh
        simp only [Sql.save, hlty]
        exact hty h hh
  | getState =>
    simp only [Sql.step, Spec.step]
    rw [hl2, hroot]
    refine ⟨rfl, ⟨by simp [hlsc, hsc], by simp only []; exact (by
      have : ({ q.load.1 with held := some s.root } : Sql).abs = q.load.1.abs := rfl
      rw [this, hl1, hroot]), rfl, ?_⟩⟩
    intro h hh
    simp only [Option.some.injEq] at hh
    simp only [hlty]
    rw [← hh, habsty]
  | setState ity data =>
    simp only [Sql.step, Spec.step]
    rw [← habsty]
    have H := sql_setState_spec R0 ⟨incTy s.root.ty ity, data⟩ (fun r hm => mergeState_ty_inc hm)
    obtain ⟨ho, ha, hs1, hs2, hs3⟩ := H
    cases hm : mergeState s.root ⟨incTy s.root.ty ity, data⟩ with
    | error e =>
      rw [hm] at ho ha
      exact ⟨ho, ⟨by rw [hs1, hsc], ha, by rw [hs3, hheld], by rw [hs3, hs2]; exact hty⟩⟩
    | ok r =>
      rw [hm] at ho ha
      exact ⟨ho, ⟨by rw [hs1, hsc], ha, by rw [hs3, hheld], by rw [hs3, hs2]; exact hty⟩⟩
  | clear =>
    simp only [Sql.step, Spec.step]
    have hd : (defaultRoot q.sc q.ty).ty = s.root.ty := by rw [defaultRoot_ty, habsty]
    have H := sql_setState_spec R0 (defaultRoot q.sc q.ty) (fun r hm => by
      rw [mergeState_same hd] at hm; cases hm; exact hd)
    obtain ⟨ho, ha, hs1, hs2, hs3⟩ := H
    rw [mergeState_same hd] at ho ha
    refine ⟨ho, ⟨by rw [hs1, hsc], ?_, by rw [hs3, hheld], by rw [hs3, hs2]; exact hty⟩⟩
    rw [ha, hsc, habsty]
  | edit muts =>
    simp only [Sql.step, Spec.step, Sql.edit]
    rw [hl2, hroot]
    have keep : SqlSim q.load.1 s :=
      ⟨by rw [hlsc, hsc], by rw [hl1, hroot], by rw [hlheld, hheld], by rw [hlheld, hlty]; exact hty⟩
    cases hr : runMuts s.root muts with
    | mk r e =>
      cases e with
      | some e => exact ⟨rfl, keep⟩
      | none =>
        refine ⟨rfl, ⟨by simp [Sql.save, hlsc, hsc], ?_, by simp [Sql.save, hlheld, hheld], ?_⟩⟩
        · apply Sql.abs_save
          have := runMuts_ty s.root muts
          rw [hr] at this
          simp only [] at this
          rw [this, habsty, hlty]
        · intro h hh
          simp only [Sql.save, hlheld] at hh
          simp only [Sql.save, hlty]
          exact hty h hh
  | mutSnap k v =>
    simp only [Sql.step, Spec.step]
    rw [← hheld]
    refine ⟨rfl, ⟨hsc, hroot, rfl, ?_⟩⟩
    exact snapMut_ty hty (h' := (snapMut q.held k v).1) (o := (snapMut q.held k v).2) rfl
  | writeBack =>
    simp only [Sql.step, Spec.step]
    rw [← hheld]
    cases hh : q.held with
    | none => exact ⟨rfl, ⟨hsc, hroot, by rw [← hheld, hh], by intro h h2; rw [hh] at h2; cases h2⟩⟩
    | some h =>
      have hd : h.ty = s.root.ty := by rw [hty h hh, habsty]
      have H := sql_setState_spec R0 h (fun r hm => by rw [mergeState_same hd] at hm; cases hm; exact hd)
      obtain ⟨ho, ha, hs1, hs2, hs3⟩ := H
      rw [mergeState_same hd] at ho ha
      simp only []
      refine ⟨ho, ⟨by simp [hs1, hsc], ?_, rfl, ?_⟩⟩
      · have : ({ (q.setState h).1 with held := none } : Sql).abs = (q.setState h).1.abs := rfl
        rw [this, ha]
      · intro h' h2
        cases h2

theorem sqlSim_run (ops : List Op) : ∀ (q : Sql) (s : Spec), SqlSim q s →
    runOuts Sql.step q ops = runOuts Spec.step s ops ∧
    SqlSim (runState Sql.step q ops) (runState Spec.step s ops) := by
  induction ops with
  | nil => intro q s R; exact ⟨rfl, R⟩
  | cons op ops ih =>
    intro q s R
    have ⟨ho, R'⟩ := sqlSim_step R op
    have ⟨ih1, ih2⟩ := ih _ _ R'
    refine ⟨?_, ?_⟩
    · simp only [runOuts]
      rw [ho, ih1]
    · simpa only [runState] using ih2

end StateStore
