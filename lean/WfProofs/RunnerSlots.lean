import WfProofs.RunnerWorkers
import WfProofs.RunnerC03
import WfModel.RunnerMicro
/-!
C01 between two commands (`WfModel/RunnerMicro.lean`).

Part 1: the micro-states are the same LTS (`microStates_last`, `initStates_last`), and the slot part of the
runner invariant (`SlotInv`: in-progress ids distinct and in range, live tasks backed by rows, live slots
pairwise distinct) holds in every one of them, from whatever state the run is started.

Part 2: the slot table as a specification of its own (`SlotMove`: start on a free slot in range, finish one
slot, abort, or leave the table alone), its safety proved without any reference to the engine
(`SlotMove.safe`, `linked_safe`), and the refinement: every two consecutive micro-states of every schedule
are related by a `SlotMove` (`allStates_linked`, `initStates_linked`).
-/
set_option linter.unusedSimpArgs false
set_option linter.unusedVariables false

namespace Engine

/-! ## Part 1 -/

/-- the slot part of `RunInv` -/
structure SlotInv (cfg : Cfg) (r : Runner) : Prop where
  ids : IdsInv cfg r.st
  sub : ∀ w ∈ r.running, w.step ∈ cfg.names ∧ ∃ ip ∈ (r.st.workers w.step).inProg, ip.wid = w.wid
  nodup : (r.running.map Worker.slot).Nodup

theorem RunInv.slotInv {cfg : Cfg} {P : Prop} {r : Runner} (h : RunInv cfg P r) : SlotInv cfg r :=
  ⟨h.ids, fun w hw => by
    obtain ⟨h1, ip, hip, hwid, _⟩ := h.sub w hw
    exact ⟨h1, ip, hip, hwid⟩, h.nodup⟩

/-- live workers of a step: at most `num_workers`, each on a slot below `num_workers` -/
theorem SlotInv.bounded {cfg : Cfg} {r : Runner} (hwf : cfg.WF) (h : SlotInv cfg r) :
    (∀ c ∈ cfg.steps, (r.running.filter (fun w => w.step == c.name)).length ≤ c.numWorkers) ∧
      ∀ w ∈ r.running, w.wid < cfg.nw w.step := by
  have hlt : ∀ w ∈ r.running, ∀ c ∈ cfg.steps, c.name = w.step → w.wid < c.numWorkers := by
    intro w hw c hc hcn
    obtain ⟨_, ip, hip, hwid⟩ := h.sub w hw
    rw [← hcn] at hip
    exact (h.ids c hc).2 w.wid (mem_usedIds.mpr ⟨ip, hip, hwid⟩)
  refine ⟨?_, ?_⟩
  · intro c hc
    have hnd := nodup_wids_of_slots c.name r.running h.nodup
    have hsub : (r.running.filter (fun w => w.step == c.name)).map (·.wid) ⊆ List.range c.numWorkers := by
      intro i hi
      obtain ⟨w, hw, rfl⟩ := List.mem_map.mp hi
      obtain ⟨hw1, hw2⟩ := List.mem_filter.mp hw
      simp only [beq_iff_eq] at hw2
      exact List.mem_range.mpr (hlt w hw1 c hc hw2.symm)
    have := List.Nodup.length_le_of_subset hnd hsub
    simpa using this
  · intro w hw
    obtain ⟨hname, _⟩ := h.sub w hw
    obtain ⟨c, hc, hcn⟩ := List.mem_map.mp hname
    rw [← hcn, Cfg.nw_of_mem hwf hc]
    exact hlt w hw c hc hcn

/-! ### `execCmdsStates` -/

theorem execCmdsStates_head (r : Runner) (cmds : List Cmd) :
    ∃ tl, execCmdsStates r cmds = r :: tl := by
  cases cmds with
  | nil => exact ⟨[], rfl⟩
  | cons c cs =>
    simp only [execCmdsStates]
    split
    · exact ⟨_, rfl⟩
    · exact ⟨_, rfl⟩

theorem execCmdsStates_last : ∀ (cmds : List Cmd) (r : Runner),
    (execCmdsStates r cmds).getLast? = some (execCmds r cmds)
  | [], r => rfl
  | c :: cs, r => by
    simp only [execCmdsStates, execCmds]
    split
    · simp
    · obtain ⟨tl, htl⟩ := execCmdsStates_head (execCmd r c) cs
      have ih := execCmdsStates_last cs (execCmd r c)
      rw [htl] at ih ⊢
      simpa [List.getLast?_cons_cons] using ih

/-- every state on the way has the state of the start and a sub-table of the start's live tasks plus
the workers the commands start -/
theorem execCmdsStates_spec : ∀ (cmds : List Cmd) (r : Runner), ∀ r' ∈ execCmdsStates r cmds,
    r'.st = r.st ∧ r'.running.Sublist (r.running ++ workersOf cmds)
  | [], r, r', hr => by
    simp only [execCmdsStates, List.mem_singleton] at hr
    subst hr
    simp [workersOf]
  | c :: cs, r, r', hr => by
    have hrun := execCmd_running r c
    have hfirst : r.running.Sublist (r.running ++ workersOf (c :: cs)) := List.sublist_append_left _ _
    have hsecond : (execCmd r c).running.Sublist (r.running ++ workersOf (c :: cs)) := by
      rw [workersOf_cons]
      rcases hrun with h | h
      · rw [h]; exact List.nil_sublist _
      · rw [h, ← List.append_assoc]; exact List.sublist_append_left _ _
    simp only [execCmdsStates] at hr
    split at hr
    · simp only [List.mem_cons, List.not_mem_nil, or_false] at hr
      rcases hr with h | h
      · subst h; exact ⟨rfl, hfirst⟩
      · subst h; exact ⟨execCmd_st r c, hsecond⟩
    · rcases List.mem_cons.mp hr with h | h
      · subst h; exact ⟨rfl, hfirst⟩
      · obtain ⟨i1, i3⟩ := execCmdsStates_spec cs (execCmd r c) r' h
        refine ⟨i1.trans (execCmd_st r c), ?_⟩
        rw [workersOf_cons]
        rcases hrun with h | h
        · rw [h, List.nil_append] at i3
          exact i3.trans ((List.sublist_append_right _ _).trans (List.sublist_append_right _ _))
        · rw [h, List.append_assoc] at i3; exact i3

/-! ### the micro-states are the same LTS -/

theorem execCmds_clear_aux : ∀ (cmds : List Cmd) (st : State) (buf : List Tick) (heap : List Timer) (seq : Nat)
    (ip : Bool) (R running : List Worker) (stream : List Pub) (log : List (Tick × Int)) (mailbox : List Tick)
    (now : Int), cmds.any Cmd.stopsWorkersFirst = true →
    execCmds (Runner.mk st buf heap seq ip R stream log none mailbox now) cmds =
      execCmds (Runner.mk st buf heap seq ip running stream log none mailbox now) cmds
  | [], _, _, _, _, _, _, _, _, _, _, _, h => by simp at h
  | c :: cs, st, buf, heap, seq, ip, R, running, stream, log, mailbox, now, h => by
    simp only [List.any_cons, Bool.or_eq_true] at h
    cases c with
    | halt k => simp [execCmds, execCmd, Runner.finish]
    | failWorkflow s x => simp [execCmds, execCmd, Runner.finish]
    | completeRun p => simp [execCmds, execCmd, Runner.finish]
    | crash => simp [execCmds, execCmd, Runner.finish]
    | runWorker s ev w =>
      have hcs : cs.any Cmd.stopsWorkersFirst = true := by simpa [Cmd.stopsWorkersFirst] using h
      simp only [execCmds, execCmd, Option.isSome_none, Bool.false_eq_true, ↓reduceIte]
      exact execCmds_clear_aux cs _ _ _ _ _ _ _ _ _ _ _ hcs
    | publish p =>
      have hcs : cs.any Cmd.stopsWorkersFirst = true := by simpa [Cmd.stopsWorkersFirst] using h
      simp only [execCmds, execCmd, Option.isSome_none, Bool.false_eq_true, ↓reduceIte]
      exact execCmds_clear_aux cs _ _ _ _ _ _ _ _ _ _ _ hcs
    | scheduleWaiterTimeout s w t =>
      have hcs : cs.any Cmd.stopsWorkersFirst = true := by simpa [Cmd.stopsWorkersFirst] using h
      simp only [execCmds, execCmd, Runner.push, Option.isSome_none, Bool.false_eq_true, ↓reduceIte]
      exact execCmds_clear_aux cs _ _ _ _ _ _ _ _ _ _ _ hcs
    | scheduleIdleCheck =>
      have hcs : cs.any Cmd.stopsWorkersFirst = true := by simpa [Cmd.stopsWorkersFirst] using h
      simp only [execCmds, execCmd]
      cases ip with
      | true =>
        simp only [↓reduceIte, Option.isSome_none, Bool.false_eq_true]
        exact execCmds_clear_aux cs _ _ _ _ _ _ _ _ _ _ _ hcs
      | false =>
        simp only [Bool.false_eq_true, ↓reduceIte, Option.isSome_none]
        exact execCmds_clear_aux cs _ _ _ _ _ _ _ _ _ _ _ hcs
    | queueEvent att step delay =>
      have hcs : cs.any Cmd.stopsWorkersFirst = true := by simpa [Cmd.stopsWorkersFirst] using h
      simp only [execCmds, execCmd]
      cases delay with
      | none =>
        simp only [Option.isSome_none, Bool.false_eq_true, ↓reduceIte]
        exact execCmds_clear_aux cs _ _ _ _ _ _ _ _ _ _ _ hcs
      | some d =>
        simp only
        by_cases hd : d > 0
        · simp only [hd, ↓reduceIte, Runner.push, Option.isSome_none, Bool.false_eq_true]
          exact execCmds_clear_aux cs _ _ _ _ _ _ _ _ _ _ _ hcs
        · simp only [hd, ↓reduceIte, Option.isSome_none, Bool.false_eq_true]
          exact execCmds_clear_aux cs _ _ _ _ _ _ _ _ _ _ _ hcs

/-- when a halting or failing command is among them, the commands end with every worker stopped whatever the
live tasks were at the start -/
theorem execCmds_clear (cmds : List Cmd) (a : Runner) (R : List Worker) (ha : a.outcome = none)
    (h : cmds.any Cmd.stopsWorkersFirst = true) : execCmds { a with running := R } cmds = execCmds a cmds := by
  obtain ⟨st, buf, heap, seq, ip, running, stream, log, outcome, mailbox, now⟩ := a
  simp only at ha
  subst ha
  exact execCmds_clear_aux cmds st buf heap seq ip R running stream log mailbox now h

theorem microStates_last (cfg : Cfg) (pol : Policy) (r : Runner) (a : Act) :
    (r.microStates cfg pol a).getLast? = some (r.step cfg pol a) := by
  unfold Runner.microStates Runner.step
  split
  · rfl
  · cases a with
    | drain =>
      simp only
      cases r.buf with
      | nil => rfl
      | cons t rest =>
        simp only
        split
        · rfl
        · split
          · rename_i hstop
            rw [execCmdsStates_last]
            congr 1
            exact execCmds_clear _
              { r with buf := _, idlePending := _, st := _, log := _ } []
              (by simpa using ‹¬r.outcome.isSome = true›) hstop
          · exact execCmdsStates_last _ _
    | workerDone s w res => rfl
    | pull => rfl
    | timer => rfl
    | advance dt => rfl
    | external t => rfl
    | stepWrite p => rfl

theorem initStates_last (cfg : Cfg) (st0 : State) (now : Int) (start : Option Ev) (timeout : Option Nat) :
    (Runner.initStates cfg st0 now start timeout).getLast? = some (Runner.init cfg st0 now start timeout) := by
  unfold Runner.initStates Runner.init
  exact execCmdsStates_last _ _

/-! ### the slot invariant in every micro-state -/

theorem microStates_slotInv (cfg : Cfg) (hwf : cfg.WF) (pol : Policy) (P : Prop) (r : Runner) (a : Act)
    (h : RunInv cfg P r) (hstep : RunInv cfg P (r.step cfg pol a)) :
    ∀ r' ∈ r.microStates cfg pol a, SlotInv cfg r' := by
  intro r' hr'
  unfold Runner.microStates at hr'
  split at hr'
  · simp only [List.mem_singleton] at hr'; subst hr'; exact h.slotInv
  · cases a with
    | drain =>
      simp only at hr'
      cases hbuf : r.buf with
      | nil =>
        rw [hbuf] at hr'
        simp only [List.mem_singleton] at hr'; subst hr'; exact h.slotInv
      | cons t rest =>
        rw [hbuf] at hr'
        simp only at hr'
        have hTick : TickOk False r.st t ∧ ∀ x ∈ r.running, ¬ t.freed x.step x.wid := by
          rcases h.buf with hn | ⟨s, w, ev, res, hb, hfree, hp, _⟩
          · have ht := hn t (by rw [hbuf]; simp)
            cases t <;> first
              | exact ⟨trivial, fun _ _ hf => hf⟩
              | (simp [Tick.isStepResult] at ht)
          · rw [hbuf] at hb
            simp only [List.cons.injEq] at hb
            rw [hb.1]
            exact ⟨fun hf => hf.elim, hfree⟩
        split at hr'
        · simp only [List.mem_singleton] at hr'; subst hr'
          exact ⟨h.ids, fun w hw => (by cases hw), List.nodup_nil⟩
        · have hr'' : ∃ R0 : List Worker, R0.Sublist r.running ∧ r' ∈ execCmdsStates
              { r with buf := rest, idlePending := if t = Tick.idleCheck then false else r.idlePending,
                       st := (reduce cfg pol t r.st r.now).1, log := r.log ++ [(t, r.now)], running := R0 }
              (reduce cfg pol t r.st r.now).2 := by
            split at hr'
            · exact ⟨[], List.nil_sublist _, hr'⟩
            · exact ⟨r.running, List.Sublist.refl _, hr'⟩
          obtain ⟨R0, hR0, hr'⟩ := hr''
          obtain ⟨e1, e3⟩ := execCmdsStates_spec _ _ r' hr'
          have e3 : r'.running.Sublist (r.running ++ workersOf (reduce cfg pol t r.st r.now).2) :=
            e3.trans (List.Sublist.append hR0 (List.Sublist.refl _))
          have hf := reduce_frame cfg hwf pol False t r.st r.now h.ids hTick.1
          have hsub0 : ∀ w ∈ r.running, w.step ∈ cfg.names ∧
              ∃ ip ∈ (r.st.workers w.step).inProg, ip.wid = w.wid ∧ (False → ip.ev = w.ev) := by
            intro w hw
            obtain ⟨h1, ip, hip, hwid, _⟩ := h.sub w hw
            exact ⟨h1, ip, hip, hwid, fun hf => hf.elim⟩
          have hfr := sub_of_sublist e3 (frame_running hf hsub0 h.nodup hTick.2)
          refine ⟨?_, ?_, hfr.2⟩
          · rw [e1]; exact reduce_idsInv cfg hwf pol t r.st r.now h.ids
          · intro w hw
            obtain ⟨h1, ip, hip, hwid, _⟩ := hfr.1 w hw
            rw [e1]
            exact ⟨h1, ip, hip, hwid⟩
    | workerDone s w res =>
      simp only [List.mem_singleton] at hr'; subst hr'; exact hstep.slotInv
    | pull => simp only [List.mem_singleton] at hr'; subst hr'; exact hstep.slotInv
    | timer => simp only [List.mem_singleton] at hr'; subst hr'; exact hstep.slotInv
    | advance dt => simp only [List.mem_singleton] at hr'; subst hr'; exact hstep.slotInv
    | external t => simp only [List.mem_singleton] at hr'; subst hr'; exact hstep.slotInv
    | stepWrite p => simp only [List.mem_singleton] at hr'; subst hr'; exact hstep.slotInv

/-- every micro-state of every schedule -/
theorem allStates_slotInv (cfg : Cfg) (hwf : cfg.WF) (pol : Policy) :
    ∀ (acts : List Act) (r : Runner), RunInv cfg False r →
      ∀ r' ∈ Runner.allStates cfg pol r acts, SlotInv cfg r'
  | [], r, _, r', hr' => by cases hr'
  | a :: as, r, h, r', hr' => by
    have hstep := step_runInv cfg hwf pol False r a (fun hf => hf.elim) h
    simp only [Runner.allStates, List.mem_append] at hr'
    rcases hr' with h1 | h1
    · exact microStates_slotInv cfg hwf pol False r a h hstep r' h1
    · exact allStates_slotInv cfg hwf pol as _ hstep r' h1

theorem initStates_aux (cfg : Cfg) (hwf : cfg.WF) (st0 : State) (now : Int) (r : Runner)
    (hst : r.st = (rewind cfg st0 now).1) (hrun : r.running = []) :
    ∀ r' ∈ execCmdsStates r (rewind cfg st0 now).2, SlotInv cfg r' := by
  intro r' hr'
  obtain ⟨e1, e3⟩ := execCmdsStates_spec _ _ r' hr'
  obtain ⟨s1, s2⟩ := rewind_starts_fresh cfg hwf st0 now
  rw [hrun, List.nil_append] at e3
  refine ⟨?_, ?_, (e3.map _).nodup s2⟩
  · rw [e1, hst]; exact rewind_idsInv_fresh cfg hwf st0 now
  · intro w hw
    obtain ⟨a, b⟩ := s1 w (e3.subset hw)
    obtain ⟨ip, hip, hw', _⟩ := mem_keys.mp b
    rw [e1, hst]
    exact ⟨a, ip, hip, hw'⟩

/-- every micro-state of the start of a run, from whatever state it is resumed -/
theorem initStates_slotInv (cfg : Cfg) (hwf : cfg.WF) (st0 : State) (now : Int) (start : Option Ev)
    (timeout : Option Nat) : ∀ r' ∈ Runner.initStates cfg st0 now start timeout, SlotInv cfg r' := by
  unfold Runner.initStates
  simp only
  apply initStates_aux cfg hwf st0 now
  · rfl
  · cases timeout <;> rfl

/-! ## Part 2 — the slot table as a specification -/

/-- one atomic move of a table of live tasks: nothing, a start on a free slot of a configured step
below its worker limit, the end of (the first task on) one slot, or the end of all of them -/
inductive SlotMove (cfg : Cfg) : List Worker → List Worker → Prop
  | stutter (R : List Worker) : SlotMove cfg R R
  | start (R : List Worker) (w : Worker) : w.slot ∉ R.map Worker.slot → w.step ∈ cfg.names →
      w.wid < cfg.nw w.step → SlotMove cfg R (R ++ [w])
  | finish (R : List Worker) (s w : Nat) : SlotMove cfg R (R.eraseP (fun y => y.step == s && y.wid == w))
  | abort (R : List Worker) : SlotMove cfg R []

/-- a safe table: slots pairwise distinct, each of a configured step and below its worker limit -/
def SlotSafe (cfg : Cfg) (R : List Worker) : Prop :=
  (R.map Worker.slot).Nodup ∧ ∀ w ∈ R, w.step ∈ cfg.names ∧ w.wid < cfg.nw w.step

theorem slotSafe_nil (cfg : Cfg) : SlotSafe cfg [] := ⟨List.nodup_nil, fun _ h => by cases h⟩

/-- safety of the specification, by itself -/
theorem SlotMove.safe {cfg : Cfg} {R R' : List Worker} (hm : SlotMove cfg R R') (h : SlotSafe cfg R) :
    SlotSafe cfg R' := by
  cases hm with
  | stutter => exact h
  | start w hfree hname hlt =>
    refine ⟨?_, ?_⟩
    · rw [List.map_append, List.nodup_append]
      refine ⟨h.1, by simp, ?_⟩
      intro a ha b hb hab
      simp only [List.map_cons, List.map_nil, List.mem_singleton] at hb
      subst hb; subst hab
      exact hfree ha
    · intro x hx
      rcases List.mem_append.mp hx with hx | hx
      · exact h.2 x hx
      · simp only [List.mem_singleton] at hx; subst hx; exact ⟨hname, hlt⟩
  | finish s w =>
    exact ⟨((List.eraseP_sublist (l := R)).map _).nodup h.1, fun x hx => h.2 x (List.mem_of_mem_eraseP hx)⟩
  | abort => exact slotSafe_nil cfg

/-- a safe table holds at most `num_workers` tasks of a step -/
theorem SlotSafe.bounded {cfg : Cfg} (hwf : cfg.WF) {R : List Worker} (h : SlotSafe cfg R) :
    ∀ c ∈ cfg.steps, (R.filter (fun w => w.step == c.name)).length ≤ c.numWorkers := by
  intro c hc
  have hnd := nodup_wids_of_slots c.name R h.1
  have hsub : (R.filter (fun w => w.step == c.name)).map (·.wid) ⊆ List.range c.numWorkers := by
    intro i hi
    obtain ⟨w, hw, rfl⟩ := List.mem_map.mp hi
    obtain ⟨hw1, hw2⟩ := List.mem_filter.mp hw
    simp only [beq_iff_eq] at hw2
    have := (h.2 w hw1).2
    rw [hw2, Cfg.nw_of_mem hwf hc] at this
    exact List.mem_range.mpr this
  have := List.Nodup.length_le_of_subset hnd hsub
  simpa using this

/-- consecutive elements are related -/
def Linked (rel : α → α → Prop) : List α → Prop
  | [] => True
  | [_] => True
  | a :: b :: rest => rel a b ∧ Linked rel (b :: rest)

theorem Linked.cons_cons {rel : α → α → Prop} {a b : α} {rest : List α} (h1 : rel a b)
    (h2 : Linked rel (b :: rest)) : Linked rel (a :: b :: rest) := ⟨h1, h2⟩

/-- glue two linked lists at a shared element: `x :: l1` ends in `y`, `y :: l2` goes on from there -/
theorem Linked.glue {rel : α → α → Prop} : ∀ (l1 : List α) (x y : α) (l2 : List α),
    Linked rel (x :: l1) → (x :: l1).getLast? = some y → Linked rel (y :: l2) → Linked rel (x :: (l1 ++ l2))
  | [], x, y, l2, _, hl, h2 => by
    simp only [List.getLast?_singleton, Option.some.injEq] at hl
    subst hl; simpa using h2
  | b :: l1, x, y, l2, h1, hl, h2 => by
    rw [List.getLast?_cons_cons] at hl
    exact ⟨h1.1, Linked.glue l1 b y l2 h1.2 hl h2⟩

/-- what holds of the first element and is kept by the relation holds of every element -/
theorem Linked.all {rel : α → α → Prop} {Q : α → Prop} (hstep : ∀ a b, rel a b → Q a → Q b) :
    ∀ (l : List α) (x : α), Linked rel (x :: l) → Q x → ∀ y ∈ x :: l, Q y
  | [], x, _, hx, y, hy => by simp only [List.mem_singleton] at hy; subst hy; exact hx
  | b :: l, x, h, hx, y, hy => by
    rcases List.mem_cons.mp hy with h1 | h1
    · subst h1; exact hx
    · exact Linked.all hstep l b h.2 (hstep x b h.1 hx) y h1

/-- the moves of the live-task table between two runner states -/
def Moves (cfg : Cfg) (a b : Runner) : Prop := SlotMove cfg a.running b.running

theorem Moves.of_eq {cfg : Cfg} {a b : Runner} (h : b.running = a.running) : Moves cfg a b := by
  unfold Moves; rw [h]; exact .stutter _

/-- **safety of the specification on histories**: a history that starts with an empty table and only makes
slot-table moves has a safe table in every state -/
theorem linked_safe {cfg : Cfg} (l : List Runner) (x : Runner) (h : Linked (Moves cfg) (x :: l))
    (hx : x.running = []) : ∀ y ∈ x :: l, SlotSafe cfg y.running :=
  Linked.all (rel := Moves cfg) (Q := fun r => SlotSafe cfg r.running) (fun a b hm ha => SlotMove.safe hm ha) l x h
    (by rw [hx]; exact slotSafe_nil cfg)

/-! ### the refinement -/

theorem slot_free_of_nodup {R : List Worker} {w : Worker} (h : ((R ++ [w]).map Worker.slot).Nodup) :
    w.slot ∉ R.map Worker.slot := by
  rw [List.map_append, List.nodup_append] at h
  intro hm
  exact h.2.2 _ hm _ (by simp) rfl

/-- the command interpreter only makes slot-table moves, provided every state on the way is safe -/
theorem execCmdsStates_linked (cfg : Cfg) : ∀ (cmds : List Cmd) (r : Runner),
    (∀ r' ∈ execCmdsStates r cmds, SlotSafe cfg r'.running) → Linked (Moves cfg) (execCmdsStates r cmds)
  | [], r, _ => trivial
  | c :: cs, r, hall => by
    have hmove : Moves cfg r (execCmd r c) := by
      have hsafe : SlotSafe cfg (execCmd r c).running := by
        apply hall
        simp only [execCmdsStates]
        split
        · simp
        · obtain ⟨tl, htl⟩ := execCmdsStates_head (execCmd r c) cs
          rw [htl]; simp
      rcases execCmd_running r c with h | h
      · unfold Moves; rw [h]; exact .abort _
      · cases hw : workerOf c with
        | none =>
          rw [hw] at h
          exact Moves.of_eq (by simpa using h)
        | some w =>
          rw [hw] at h
          simp only [Option.toList] at h
          unfold Moves
          rw [h] at hsafe ⊢
          exact .start _ w (slot_free_of_nodup hsafe.1) (hsafe.2 w (by simp)).1 (hsafe.2 w (by simp)).2
    simp only [execCmdsStates] at hall ⊢
    split
    · exact ⟨hmove, trivial⟩
    · rename_i hlive
      simp only [hlive] at hall
      obtain ⟨tl, htl⟩ := execCmdsStates_head (execCmd r c) cs
      have ih := execCmdsStates_linked cfg cs (execCmd r c) (fun r' hr' => hall r' (by simp [hr']))
      rw [htl] at ih ⊢
      exact ⟨hmove, ih⟩

theorem SlotInv.safe {cfg : Cfg} {r : Runner} (hwf : cfg.WF) (h : SlotInv cfg r) : SlotSafe cfg r.running :=
  ⟨h.nodup, fun w hw => ⟨(h.sub w hw).1, (h.bounded hwf).2 w hw⟩⟩

/-- one action, from the state it is taken in to its result through all its micro-states -/
theorem microStates_linked (cfg : Cfg) (hwf : cfg.WF) (pol : Policy) (r : Runner) (a : Act)
    (hall : ∀ r' ∈ r.microStates cfg pol a, SlotInv cfg r') :
    Linked (Moves cfg) (r :: r.microStates cfg pol a) := by
  by_cases hlive : r.outcome.isSome
  · unfold Runner.microStates
    rw [if_pos hlive]
    exact ⟨Moves.of_eq rfl, trivial⟩
  · unfold Runner.microStates at hall ⊢
    rw [if_neg hlive] at hall ⊢
    cases a with
    | drain =>
      simp only at hall ⊢
      cases hbuf : r.buf with
      | nil => exact ⟨Moves.of_eq rfl, trivial⟩
      | cons t rest =>
        rw [hbuf] at hall
        simp only at hall ⊢
        by_cases hnc : (reduce cfg pol t r.st r.now).2.contains Cmd.crash
        · rw [if_pos hnc]
          refine ⟨?_, trivial⟩
          unfold Moves
          simp only [Runner.finish]
          exact .abort _
        · rw [if_neg hnc] at hall ⊢
          by_cases hstop : (reduce cfg pol t r.st r.now).2.any Cmd.stopsWorkersFirst
          · rw [if_pos hstop] at hall ⊢
            obtain ⟨tl, htl⟩ := execCmdsStates_head
              { r with buf := rest, idlePending := if t = Tick.idleCheck then false else r.idlePending,
                       st := (reduce cfg pol t r.st r.now).1, log := r.log ++ [(t, r.now)], running := [] }
              (reduce cfg pol t r.st r.now).2
            have hl := execCmdsStates_linked cfg (reduce cfg pol t r.st r.now).2
              { r with buf := rest, idlePending := if t = Tick.idleCheck then false else r.idlePending,
                       st := (reduce cfg pol t r.st r.now).1, log := r.log ++ [(t, r.now)], running := [] }
              (fun r' hr' => (hall r' hr').safe hwf)
            rw [htl] at hl ⊢
            refine ⟨?_, hl⟩
            unfold Moves
            exact .abort _
          · rw [if_neg hstop] at hall ⊢
            obtain ⟨tl, htl⟩ := execCmdsStates_head
              { r with buf := rest, idlePending := if t = Tick.idleCheck then false else r.idlePending,
                       st := (reduce cfg pol t r.st r.now).1, log := r.log ++ [(t, r.now)] }
              (reduce cfg pol t r.st r.now).2
            have hl := execCmdsStates_linked cfg (reduce cfg pol t r.st r.now).2
              { r with buf := rest, idlePending := if t = Tick.idleCheck then false else r.idlePending,
                       st := (reduce cfg pol t r.st r.now).1, log := r.log ++ [(t, r.now)] }
              (fun r' hr' => (hall r' hr').safe hwf)
            rw [htl] at hl ⊢
            exact ⟨Moves.of_eq rfl, hl⟩
    | workerDone s w res =>
      refine ⟨?_, trivial⟩
      unfold Moves Runner.step
      rw [if_neg hlive]
      simp only
      split
      · exact .stutter _
      · split
        · exact .stutter _
        · simp only
          split
          · exact .abort _
          · exact .finish _ s w
    | pull =>
      refine ⟨Moves.of_eq ?_, trivial⟩
      unfold Runner.step
      rw [if_neg hlive]
      simp only
      repeat' split
      all_goals rfl
    | timer =>
      refine ⟨Moves.of_eq ?_, trivial⟩
      unfold Runner.step
      rw [if_neg hlive]
      simp only
      repeat' split
      all_goals rfl
    | advance dt =>
      refine ⟨Moves.of_eq ?_, trivial⟩
      unfold Runner.step
      rw [if_neg hlive]
    | external t =>
      refine ⟨Moves.of_eq ?_, trivial⟩
      unfold Runner.step
      rw [if_neg hlive]
      simp only
      repeat' split
      all_goals rfl
    | stepWrite p =>
      refine ⟨Moves.of_eq ?_, trivial⟩
      unfold Runner.step
      rw [if_neg hlive]

/-- a whole schedule -/
theorem allStates_linked (cfg : Cfg) (hwf : cfg.WF) (pol : Policy) :
    ∀ (acts : List Act) (r : Runner), RunInv cfg False r →
      Linked (Moves cfg) (r :: Runner.allStates cfg pol r acts)
  | [], r, _ => trivial
  | a :: as, r, h => by
    have hstep := step_runInv cfg hwf pol False r a (fun hf => hf.elim) h
    simp only [Runner.allStates]
    exact Linked.glue _ r _ _
      (microStates_linked cfg hwf pol r a (microStates_slotInv cfg hwf pol False r a h hstep))
      (by
        have := microStates_last cfg pol r a
        cases hm : r.microStates cfg pol a with
        | nil => rw [hm] at this; simp at this
        | cons b l => rw [hm] at this; rw [List.getLast?_cons_cons]; exact this)
      (allStates_linked cfg hwf pol as _ hstep)

/-- the start of a run, from whatever state it is resumed: the table is empty at first and filled by
slot-table moves -/
theorem initStates_linked (cfg : Cfg) (hwf : cfg.WF) (st0 : State) (now : Int) (start : Option Ev)
    (timeout : Option Nat) :
    Linked (Moves cfg) (Runner.initStates cfg st0 now start timeout) ∧
      ∃ x tl, Runner.initStates cfg st0 now start timeout = x :: tl ∧ x.running = [] := by
  have hall := initStates_slotInv cfg hwf st0 now start timeout
  unfold Runner.initStates at hall ⊢
  simp only at hall ⊢
  refine ⟨execCmdsStates_linked cfg _ _ (fun r' hr' => (hall r' hr').safe hwf), ?_⟩
  obtain ⟨tl, htl⟩ := execCmdsStates_head
    { (match timeout with
        | some t => ({ st := st0, buf := rehydrateTicks cfg st0 ++
            (match start with | some e => [Tick.addEvent { ev := e } none] | none => []), now := now } : Runner).push
              (.timeout t) (now + t)
        | none => ({ st := st0, buf := rehydrateTicks cfg st0 ++
            (match start with | some e => [Tick.addEvent { ev := e } none] | none => []), now := now } : Runner))
      with st := (rewind cfg st0 now).1 } (rewind cfg st0 now).2
  exact ⟨_, tl, htl, by cases timeout <;> rfl⟩

/-! ## the slot choice never raises — for any table

`id_candidates[0]` raises `IndexError` only when every id below `num_workers` is used; then the table has
at least `num_workers` rows (pigeonhole on `range num_workers`, no matter how many duplicates or
out-of-range ids the table holds) and `has_space` is false.  So no hypothesis on the table is needed. -/

theorem freeIds_ne_nil_any {ss : StepState} {nw : Nat} (hlt : ss.inProg.length < nw) : freeIds ss nw ≠ [] := by
  intro hnil
  have hsub : List.range nw ⊆ usedIds ss := by
    intro i hi
    have : i ∉ freeIds ss nw := by rw [hnil]; simp
    simp only [freeIds, List.mem_filter, not_and, Bool.not_eq_true', Bool.not_eq_false] at this
    have := this hi
    simpa using this
  have := List.Nodup.length_le_of_subset (List.nodup_range) hsub
  simp [usedIds] at this
  omega

theorem addOrEnqueue_no_crash_any (att : Attempt) (step : Nat) (ss : StepState) (nw : Nat) (now : Int) :
    Cmd.crash ∉ (addOrEnqueue att step ss nw now).2 := by
  unfold addOrEnqueue
  split
  · rename_i hlt
    split
    · simp
    · rename_i hnil
      exact absurd hnil (freeIds_ne_nil_any hlt)
  · simp

theorem drain_no_crash_any (step nw : Nat) (now : Int) :
    ∀ (fuel : Nat) (ss : StepState), Cmd.crash ∉ (drain step nw now fuel ss).2
  | 0, ss => by simp [drain]
  | fuel + 1, ss => by
    unfold drain
    split
    · simp
    · split
      · simp only [List.mem_append, not_or]
        exact ⟨addOrEnqueue_no_crash_any _ _ _ _ _, drain_no_crash_any step nw now fuel _⟩
      · simp

theorem rewindLoop_no_crash_any (now : Int) : ∀ (cs : List StepCfg) (st : State) (cmds : List Cmd),
    Cmd.crash ∉ cmds → Cmd.crash ∉ (rewindLoop now cs st cmds).2
  | [], st, cmds, h => by simpa [rewindLoop] using h
  | c :: cs, st, cmds, h => by
    unfold rewindLoop
    apply rewindLoop_no_crash_any
    simp only [List.mem_append, not_or]
    exact ⟨h, by unfold rewindStep; exact drain_no_crash_any _ _ _ _ _⟩

theorem rewind_no_crash_any (cfg : Cfg) (st : State) (now : Int) : Cmd.crash ∉ (rewind cfg st now).2 := by
  unfold rewind
  exact rewindLoop_no_crash_any now _ st [] (by simp)

end Engine
