import WfProofs.Journal
/-! C27, clause 3: the recovered process can do whatever the uninterrupted one can.
`Sim w w'` — `w'` has the same control configuration, journal, mailbox and history as `w`, and a
*sub*-memo of `w`'s that agrees on the in-flight pulls and on the recorded-but-unacted task
(forgotten outputs of step workers are re-executed: at-least-once). -/
namespace Journal

variable {σ κ ν ο : Type} [DecidableEq κ]

inductive Steps (L : Loop σ κ ν ο) : World σ κ ν ο → World σ κ ν ο → Prop
  | refl (w) : Steps L w w
  | tail {a b c} : Steps L a b → Step L b c → Steps L a c

structure Sim (w w' : World σ κ ν ο) : Prop where
  c : w'.c = w.c
  jr : w'.jr = w.jr
  mbox : w'.mbox = w.mbox
  pend : w'.pend = w.pend
  hist : w'.hist = w.hist
  outs : w'.outs = w.outs
  sub : ∀ f v, w'.memo f = some v → w.memo f = some v
  pulls : ∀ t, t ∈ w.c.fl → t.pull = true → w'.memo t.fid = w.memo t.fid
  pendm : ∀ t, w.pend = some t → w'.memo t.fid = w.memo t.fid

/-- function ids handed out so far bound the in-flight tasks and the memo -/
structure Bound (w : World σ κ ν ο) : Prop where
  fl : ∀ t, t ∈ w.c.fl → t.fid ≤ w.c.fidc
  memo : ∀ f v, w.memo f = some v → f ≤ w.c.fidc

omit [DecidableEq κ] in
theorem spawn_fid (n : Nat) (specs : List (κ × Bool)) :
    ∀ t, t ∈ spawn n specs → n < t.fid ∧ t.fid ≤ n + specs.length := by
  induction specs generalizing n with
  | nil => intro t h; cases h
  | cons x xs ih =>
    obtain ⟨k, p⟩ := x
    intro t h
    simp only [spawn, List.mem_cons] at h
    rcases h with h | h
    · subst h; simp
    · have := ih (n + 1) t h; simp only [List.length_cons]; omega

theorem act_fl (L : Loop σ κ ν ο) (c : Cfg σ κ) (ev : Option (Task κ × ν)) (t : Task κ)
    (h : t ∈ (L.act c ev).1.fl) :
    t ∈ c.fl ∨ (c.fidc < t.fid ∧ t.fid ≤ (L.act c ev).1.fidc) := by
  simp only [Loop.act] at h ⊢
  rcases List.mem_append.mp h with h | h
  · left
    cases ev with
    | none => exact h
    | some p => obtain ⟨a, b⟩ := p; exact List.mem_of_mem_erase h
  · right; exact spawn_fid _ _ t h

theorem act_fidc (L : Loop σ κ ν ο) (c : Cfg σ κ) (ev : Option (Task κ × ν)) :
    c.fidc ≤ (L.act c ev).1.fidc := by simp [Loop.act]

theorem bound_of_reach (L : Loop σ κ ν ο) {w : World σ κ ν ο} (hr : Reach L w) : Bound w := by
  induction hr with
  | init =>
    refine ⟨?_, by intro f v h; simp [Loop.world0] at h⟩
    intro t ht
    have := spawn_fid 0 L.initTasks t (by simpa [Loop.world0, Loop.cfg0] using ht)
    simp [Loop.world0, Loop.cfg0]; omega
  | step hr hs ih =>
    cases hs with
    | finish t v hm hp hmemo =>
      refine ⟨ih.fl, ?_⟩
      intro f x hx
      simp only [setMemo] at hx
      split at hx
      · rename_i e; subst e; exact ih.fl t hm
      · exact ih.memo f x hx
    | recv t m rest hm hp hmemo hmb =>
      refine ⟨ih.fl, ?_⟩
      intro f x hx
      simp only [setMemo] at hx
      split at hx
      · rename_i e; subst e; exact ih.fl t hm
      · exact ih.memo f x hx
    | send m => exact ⟨ih.fl, ih.memo⟩
    | record t v hp hm hmemo => exact ⟨ih.fl, ih.memo⟩
    | actOn t v hp hmemo =>
      refine ⟨?_, ?_⟩
      · intro t' ht'
        rcases act_fl L _ _ t' ht' with h | h
        · exact Nat.le_trans (ih.fl t' h) (act_fidc L _ _)
        · exact h.2
      · intro f x hx; exact Nat.le_trans (ih.memo f x hx) (act_fidc L _ _)
    | timeout hp ha =>
      refine ⟨?_, ?_⟩
      · intro t' ht'
        rcases act_fl L _ _ t' ht' with h | h
        · exact Nat.le_trans (ih.fl t' h) (act_fidc L _ _)
        · exact h.2
      · intro f x hx; exact Nat.le_trans (ih.memo f x hx) (act_fidc L _ _)

omit [DecidableEq κ] in
theorem setMemo_same (m m' : Nat → Option ν) (fid : Nat) (v : ν) (f : Nat) (h : m' f = m f) :
    setMemo m' fid v f = setMemo m fid v f := by
  simp only [setMemo]; split <;> simp_all

/-- memo agreement survives acting: old tasks keep theirs, spawned tasks have none on either side -/
theorem sim_act_pulls (L : Loop σ κ ν ο) (w w' : World σ κ ν ο) (hb : Bound w) (hs : Sim w w')
    (ev : Option (Task κ × ν)) :
    ∀ t, t ∈ (L.act w.c ev).1.fl → t.pull = true → w'.memo t.fid = w.memo t.fid := by
  intro t ht hp
  rcases act_fl L _ _ t ht with h | h
  · exact hs.pulls t h hp
  · have h1 : w.memo t.fid = none := by
      cases hm : w.memo t.fid with
      | none => rfl
      | some x => have := hb.memo _ _ hm; omega
    have h2 : w'.memo t.fid = none := by
      cases hm : w'.memo t.fid with
      | none => rfl
      | some x => have := hs.sub _ _ hm; rw [h1] at this; cases this
    rw [h1, h2]

/-- forward simulation: every action of the uninterrupted process is matched by at most two of the
recovered one (a forgotten worker output is first produced again) -/
theorem sim_step (L : Loop σ κ ν ο) {w w1 w' : World σ κ ν ο} (hr : Reach L w)
    (hs : Sim w w') (st : Step L w w1) : ∃ w1', Steps L w' w1' ∧ Sim w1 w1' := by
  have hb := bound_of_reach L hr
  cases st with
  | finish t v hm hp hmemo =>
    have hm' : t ∈ w'.c.fl := by rw [hs.c]; exact hm
    have hmemo' : w'.memo t.fid = none := by
      cases h : w'.memo t.fid with
      | none => rfl
      | some x => have := hs.sub _ _ h; rw [hmemo] at this; cases this
    refine ⟨_, .tail (.refl _) (Step.finish w' t v hm' hp hmemo'), ?_⟩
    refine ⟨hs.c, hs.jr, hs.mbox, hs.pend, hs.hist, hs.outs, ?_, ?_, ?_⟩
    · intro f x hx
      simp only [setMemo] at hx ⊢
      split at hx
      · rename_i e; simp [e]; exact Option.some.inj hx
      · rename_i e; simp [e]; exact hs.sub f x hx
    · intro t' ht' hp'; exact setMemo_same _ _ _ _ _ (hs.pulls t' ht' hp')
    · intro t' ht'; exact setMemo_same _ _ _ _ _ (hs.pendm t' ht')
  | recv t m rest hm hp hmemo hmb =>
    have hm' : t ∈ w'.c.fl := by rw [hs.c]; exact hm
    have hmemo' : w'.memo t.fid = none := by rw [hs.pulls t hm hp]; exact hmemo
    have hmb' : w'.mbox = m :: rest := by rw [hs.mbox]; exact hmb
    refine ⟨_, .tail (.refl _) (Step.recv w' t m rest hm' hp hmemo' hmb'), ?_⟩
    refine ⟨hs.c, hs.jr, rfl, hs.pend, hs.hist, hs.outs, ?_, ?_, ?_⟩
    · intro f x hx
      simp only [setMemo] at hx ⊢
      split at hx
      · rename_i e; simp [e]; exact Option.some.inj hx
      · rename_i e; simp [e]; exact hs.sub f x hx
    · intro t' ht' hp'; exact setMemo_same _ _ _ _ _ (hs.pulls t' ht' hp')
    · intro t' ht'; exact setMemo_same _ _ _ _ _ (hs.pendm t' ht')
  | send m =>
    refine ⟨_, .tail (.refl _) (Step.send w' m), ?_⟩
    exact ⟨hs.c, hs.jr, by simp [hs.mbox], hs.pend, hs.hist, hs.outs, hs.sub, hs.pulls, hs.pendm⟩
  | record t v hp hm hmemo =>
    have hm' : t ∈ w'.c.fl := by rw [hs.c]; exact hm
    have hp' : w'.pend = none := by rw [hs.pend]; exact hp
    cases h : w'.memo t.fid with
    | some x =>
      have hx : x = v := by have := hs.sub _ _ h; rw [hmemo] at this; cases this; rfl
      subst hx
      refine ⟨_, .tail (.refl _) (Step.record w' t x hp' hm' h), ?_⟩
      refine ⟨hs.c, by simp [hs.jr], hs.mbox, rfl, hs.hist, hs.outs, hs.sub, hs.pulls, ?_⟩
      intro t' ht'; cases ht'; rw [h, hmemo]
    | none =>
      have hnp : t.pull = false := by
        cases hpl : t.pull with
        | false => rfl
        | true => have := hs.pulls t hm hpl; rw [h, hmemo] at this; cases this
      let w2 : World σ κ ν ο := { w' with memo := setMemo w'.memo t.fid v }
      have s1 : Step L w' w2 := Step.finish w' t v hm' hnp h
      have hm2 : w2.memo t.fid = some v := by simp [w2, setMemo]
      have s2 := Step.record (L := L) w2 t v (by simpa [w2] using hp') (by simpa [w2] using hm') hm2
      refine ⟨_, .tail (.tail (.refl _) s1) s2, ?_⟩
      refine ⟨hs.c, by simp [w2, hs.jr], hs.mbox, rfl, hs.hist, hs.outs, ?_, ?_, ?_⟩
      · intro f x hx
        simp only [w2, setMemo] at hx
        split at hx
        · rename_i e; subst e; cases hx; exact hmemo
        · exact hs.sub f x hx
      · intro t' ht' hp''
        simp only [w2, setMemo]
        split
        · rename_i e; rw [e, hmemo]
        · exact hs.pulls t' ht' hp''
      · intro t' ht'; cases ht'; simp [w2, setMemo, hmemo]
  | actOn t v hp hmemo =>
    have hp' : w'.pend = some t := by rw [hs.pend]; exact hp
    have hmemo' : w'.memo t.fid = some v := by rw [hs.pendm t hp]; exact hmemo
    refine ⟨_, .tail (.refl _) (Step.actOn w' t v hp' hmemo'), ?_⟩
    refine ⟨by simp [hs.c], hs.jr, hs.mbox, rfl, by simp [hs.hist], by simp [hs.outs, hs.c], hs.sub, ?_, ?_⟩
    · exact sim_act_pulls L w w' hb hs _
    · intro t' ht'; cases ht'
  | timeout hp ha =>
    have hp' : w'.pend = none := by rw [hs.pend]; exact hp
    have ha' : L.armed w'.c.s = true := by rw [hs.c]; exact ha
    refine ⟨_, .tail (.refl _) (Step.timeout w' hp' ha'), ?_⟩
    refine ⟨by simp [hs.c], hs.jr, hs.mbox, hs.pend, by simp [hs.hist], by simp [hs.outs, hs.c], hs.sub, ?_, ?_⟩
    · exact sim_act_pulls L w w' hb hs _
    · intro t' ht'; exact hs.pendm t' ht'

end Journal
