import WfProofs.PolicyLemmas
import WfProofs.RpTreeLemmas
/-!
# C07 — retry building blocks obey their algebra and bounds

The strategy bodies are the ones regenerated from `retry_policy.py` (`Gen.RP.*`); the
theorems are therefore re-checked against the current source on every run.  Numbers are
exact rationals; `u` is the jitter draw.  What the exact model cannot exhibit — IEEE
overflow / rounding of the float implementation — is exercised on the implementation by
the check's extreme stream (huge attempt counts and bases).
-/
set_option linter.unusedVariables false
open Policy Gen.RP Gen.RPC

/-- the source still has the shape the hand-written parts transcribe: operator sugar,
`wait_chain`'s index, the composed `next`, and how the control loop calls it -/
theorem C07_source_shape :
    sugar_RetryConditionBase___or = "retry_any(self,other)" ∧
    sugar_RetryConditionBase___and = "retry_all(self,other)" ∧
    sugar_StopConditionBase___or = "stop_any(self,other)" ∧
    sugar_StopConditionBase___and = "stop_all(self,other)" ∧
    sugar_WaitStrategyBase___add = "wait_combine(self,other)" ∧
    waitChainIndex = "min(attempts, len(self.strategies) - 1)" ∧
    composedNext = "if self.retry is not None and (not self.retry(error)): return None ; delay = self.wait(attempts, seed=seed) ; if self.stop(attempts, elapsed_time, upcoming_sleep=delay): return None ; return delay" ∧
    loopFailures = "this_execution.attempts + 1" ∧
    loopNextArgs = "elapsed_time, failures, result.exception" ∧
    -- the operators are defined on the three bases only (no subclass has an operator of its own)
    operatorDefs = ["_RetryConditionBase.__and__", "_RetryConditionBase.__or__", "_RetryConditionBase.__rand__",
      "_RetryConditionBase.__ror__", "_StopConditionBase.__and__", "_StopConditionBase.__or__", "_StopConditionBase.__rand__",
      "_StopConditionBase.__ror__", "_WaitStrategyBase.__add__", "_WaitStrategyBase.__radd__"] ∧
    -- every time argument (number or timedelta) is converted by total_seconds()
    toSecondsBody = "return float(value.total_seconds() if isinstance(value, timedelta) else value)" :=
  ⟨rfl, rfl, rfl, rfl, rfl, rfl, rfl, rfl, rfl, rfl, rfl⟩

/-! ## algebra -/

theorem C07_retry_any_is_or (rs : List Cond) (e : Nat) :
    retryAny rs e = true ↔ ∃ r ∈ rs, r e = true := by simp [retryAny]

theorem C07_retry_all_is_and (rs : List Cond) (e : Nat) :
    retryAll rs e = true ↔ ∀ r ∈ rs, r e = true := by simp [retryAll]

theorem C07_stop_any_is_or (ss : List Stop) (a : Nat) (el up : Rat) :
    stopAny ss a el up = true ↔ ∃ s ∈ ss, s a el up = true := by simp [stopAny]

theorem C07_stop_all_is_and (ss : List Stop) (a : Nat) (el up : Rat) :
    stopAll ss a el up = true ↔ ∀ s ∈ ss, s a el up = true := by simp [stopAll]

/-- `a | b`, `a & b` are the binary cases -/
theorem C07_operators (a b : Cond) (s t : Stop) (e n : Nat) (el up : Rat) :
    retryAny [a, b] e = (a e || b e) ∧ retryAll [a, b] e = (a e && b e) ∧
    stopAny [s, t] n el up = (s n el up || t n el up) ∧ stopAll [s, t] n el up = (s n el up && t n el up) := by
  simp [retryAny, retryAll, stopAny, stopAll]

theorem C07.foldl_add (l : List Rat) (x : Rat) : l.foldl (· + ·) x = x + l.foldl (· + ·) 0 := by
  induction l generalizing x with
  | nil => simp only [List.foldl_nil]; grind
  | cons a as ih => simp only [List.foldl_cons]; rw [ih (x + a), ih (0 + a)]; grind

/-- `wait_combine` / `+` is the sum of its parts -/
theorem C07_wait_combine_is_sum (f : Wait) (fs : List Wait) (a : Nat) (u : Rat) :
    waitCombine [] a u = 0 ∧ waitCombine (f :: fs) a u = f a u + waitCombine fs a u := by
  constructor
  · simp [waitCombine]
  · simp only [waitCombine, List.map_cons, List.foldl_cons]
    rw [C07.foldl_add]; grind

theorem C07_wait_plus (f g : Wait) (a : Nat) (u : Rat) : waitCombine [f, g] a u = f a u + g a u := by
  simp only [waitCombine, List.map_cons, List.map_nil, List.foldl_cons, List.foldl_nil]; grind

/-! ## bounds (all attempts, all jitter draws `u ∈ [0,1]`) -/

theorem C07_fixed (w : Rat) (a : Nat) (u : Rat) : waitFixed w a u = w := rfl

/-- `wait_exponential`: clamped into `[max(0,min), max(max(0,min), max)]` -/
theorem C07_exponential_bounds (m b mx mn : Rat) (a : Nat) (u : Rat) :
    max 0 mn ≤ waitExponential m b mx mn a u ∧ waitExponential m b mx mn a u ≤ max (max 0 mn) mx := by
  have := capped_le m b a mx
  unfold waitExponential; grind

/-- `wait_incrementing`: never negative, never above `max` (when `max ≥ 0`) -/
theorem C07_incrementing_bounds (s i mx : Rat) (a : Nat) (u : Rat) :
    0 ≤ waitIncrementing s i mx a u ∧ (0 ≤ mx → waitIncrementing s i mx a u ≤ mx) := by
  unfold waitIncrementing; grind

/-- `wait_random(min, max)` with `min ≤ max` -/
theorem C07_random_bounds (mn mx : Rat) (a : Nat) (u : Rat) (h : mn ≤ mx) (h0 : 0 ≤ u) (h1 : u ≤ 1) :
    mn ≤ waitRandom mn mx a u ∧ waitRandom mn mx a u ≤ mx := by
  unfold waitRandom; exact uniform_bounds mn mx u h h0 h1

/-- `wait_exponential_jitter`: in `[0, max]` for non-negative parameters -/
theorem C07_exp_jitter_bounds (i b mx j : Rat) (a : Nat) (u : Rat) (hi : 0 ≤ i) (hb : 0 ≤ b)
    (hm : 0 ≤ mx) (hj : 0 ≤ j) (h0 : 0 ≤ u) (h1 : u ≤ 1) :
    0 ≤ waitExponentialJitter i b mx j a u ∧ waitExponentialJitter i b mx j a u ≤ mx := by
  have hc := capped_nonneg i b a mx hi hb hm
  have hu := (uniform_bounds 0 j u hj h0 h1).1
  unfold waitExponentialJitter
  grind

/-- `wait_random_exponential`: in `[min, max(max(0,min), max)]` -/
theorem C07_random_exp_bounds (m b mx mn : Rat) (a : Nat) (u : Rat) (h0 : 0 ≤ u) (h1 : u ≤ 1) :
    mn ≤ waitRandomExponential m b mx mn a u ∧
      waitRandomExponential m b mx mn a u ≤ max (max 0 mn) mx := by
  have hc := capped_le m b a mx
  unfold waitRandomExponential
  have hle : mn ≤ max (max 0 mn) (cappedExponential m b a mx) := by grind
  have := uniform_bounds mn (max (max 0 mn) (cappedExponential m b a mx)) u hle h0 h1
  grind

/-- `wait_chain` picks one of its strategies: whatever bound all of them satisfy, it satisfies -/
theorem C07_chain_bounds (l : List Wait) (hne : l ≠ []) (P : Rat → Prop) (a : Nat) (u : Rat)
    (h : ∀ f ∈ l, P (f a u)) : P (waitChain l a u) := by
  unfold waitChain
  have hlt : min a (l.length - 1) < l.length := by
    have : 0 < l.length := List.length_pos_iff.mpr hne
    omega
  rw [List.getElem?_eq_getElem hlt]
  exact h _ (List.getElem_mem hlt)

/-- a sum of non-negative delays is non-negative -/
theorem C07_combine_nonneg : ∀ (l : List Wait) (a : Nat) (u : Rat), (∀ f ∈ l, 0 ≤ f a u) →
    0 ≤ waitCombine l a u
  | [], a, u, _ => by simp [waitCombine]
  | f :: fs, a, u, h => by
    rw [(C07_wait_combine_is_sum f fs a u).2]
    have h1 := h f (by simp)
    have h2 := C07_combine_nonneg fs a u (fun g hg => h g (by simp [hg]))
    grind

/-- jittered strategies are functions of (parameters, attempts, draw): a fixed seed fixes the
draw, hence the delay (stated for the composed policy) -/
theorem C07_deterministic (p : Composed) (el : Rat) (k e : Nat) (u u' : Rat) (h : u = u') :
    p.next el k e u = p.next el k e u' := by rw [h]

/-! Non-vacuity -/
example : waitExponential 1 2 100 0 3 0 = 8 := by
  unfold waitExponential cappedExponential
  have : (2:Rat)^3 = 8 := by rw [Rat.pow_succ, Rat.pow_succ, Rat.pow_succ, Rat.pow_zero]; grind
  rw [this]; grind
example : waitRandom 1 3 0 (1/2) = 2 := by unfold waitRandom; grind
example : waitChain [waitFixed 1, waitFixed 2, waitFixed 5] 7 0 = 5 := by simp [waitChain, waitFixed]
example : waitCombine [waitFixed 1, waitRandom 0 1] 0 (1/4) = 5/4 := by
  simp [waitCombine, waitFixed, waitRandom]; grind
example : (0:Rat) ≤ 1/2 ∧ (1/2:Rat) ≤ 1 := by grind

/-! ## nested combinators (every tree of `retry_any`/`retry_all`, `stop_any`/`stop_all`, `wait_chain`/`wait_combine`) -/

/-- a tree of `retry_any` / `retry_all` (named or `|` / `&`, any depth, any arity) is the Boolean formula of its leaves -/
theorem C07_retry_tree_is_formula (t : RCTree) (e : Nat) : t.eval e = true ↔ t.Holds e :=
  RCTree.eval_iff_holds t e

/-- the same for `stop_any` / `stop_all` trees -/
theorem C07_stop_tree_is_formula (t : RSTree) (a : Nat) (el up : Rat) : t.eval a el up = true ↔ t.Holds a el up :=
  RSTree.eval_iff_holds t a el up

/-- operands of the same kind flatten, in any position: `retry_any(*xs, retry_any(*ys), *zs)` is
`retry_any(*xs, *ys, *zs)`; likewise `retry_all`, `stop_any`, `stop_all`, and `wait_combine` (sum) -/
theorem C07_flatten (xs ys zs : List Cond) (sx sy sz : List Stop) (wx wy wz : List Wait) (e a : Nat) (el up u : Rat) :
    retryAny (xs ++ retryAny ys :: zs) e = retryAny (xs ++ ys ++ zs) e ∧
    retryAll (xs ++ retryAll ys :: zs) e = retryAll (xs ++ ys ++ zs) e ∧
    stopAny (sx ++ stopAny sy :: sz) a el up = stopAny (sx ++ sy ++ sz) a el up ∧
    stopAll (sx ++ stopAll sy :: sz) a el up = stopAll (sx ++ sy ++ sz) a el up ∧
    waitCombine (wx ++ waitCombine wy :: wz) a u = waitCombine (wx ++ wy ++ wz) a u := by
  refine ⟨?_, ?_, ?_, ?_, ?_⟩
  · simp [retryAny, List.any_append, Bool.or_assoc]
  · simp [retryAll, List.all_append, Bool.and_assoc]
  · simp [stopAny, List.any_append, Bool.or_assoc]
  · simp [stopAll, List.all_append, Bool.and_assoc]
  · simp only [waitCombine_eq_ratSum, List.map_append, List.map_cons, ratSum_append, ratSum_cons]; grind

/-- operator chains as Python parses them, `((a | b) | c) | …`, `&`, `+`: the n-ary combinator of all operands -/
theorem C07_operator_chains (a : Cond) (cs : List Cond) (s : Stop) (ss : List Stop) (w : Wait) (ws : List Wait)
    (e k : Nat) (el up u : Rat) :
    orChain a cs e = retryAny (a :: cs) e ∧ andChain a cs e = retryAll (a :: cs) e ∧
    stopOrChain s ss k el up = stopAny (s :: ss) k el up ∧ stopAndChain s ss k el up = stopAll (s :: ss) k el up ∧
    plusChain w ws k u = waitCombine (w :: ws) k u := by
  refine ⟨?_, ?_, ?_, ?_, ?_⟩
  · induction cs generalizing a with
    | nil => simp [orChain, retryAny]
    | cons c cs ih => rw [show orChain a (c :: cs) = orChain (retryAny [a, c]) cs from rfl, ih]; simp [retryAny, Bool.or_assoc]
  · induction cs generalizing a with
    | nil => simp [andChain, retryAll]
    | cons c cs ih => rw [show andChain a (c :: cs) = andChain (retryAll [a, c]) cs from rfl, ih]; simp [retryAll, Bool.and_assoc]
  · induction ss generalizing s with
    | nil => simp [stopOrChain, stopAny]
    | cons c cs ih => rw [show stopOrChain s (c :: cs) = stopOrChain (stopAny [s, c]) cs from rfl, ih]; simp [stopAny, Bool.or_assoc]
  · induction ss generalizing s with
    | nil => simp [stopAndChain, stopAll]
    | cons c cs ih => rw [show stopAndChain s (c :: cs) = stopAndChain (stopAll [s, c]) cs from rfl, ih]; simp [stopAll, Bool.and_assoc]
  · induction ws generalizing w with
    | nil => simp only [plusChain, List.foldl_nil, waitCombine_eq_ratSum, List.map_cons, List.map_nil, ratSum_cons, ratSum_nil]; grind
    | cons c cs ih =>
      rw [show plusChain w (c :: cs) = plusChain (waitCombine [w, c]) cs from rfl, ih]
      simp only [waitCombine_eq_ratSum, List.map_cons, List.map_nil, ratSum_cons, ratSum_nil]; grind

/-- the order of the operands does not matter (or / and / sum are commutative) -/
theorem C07_operand_order_irrelevant (xs ys : List Cond) (sx sy : List Stop) (wx wy : List Wait)
    (hc : xs.Perm ys) (hs : sx.Perm sy) (hw : wx.Perm wy) (e a : Nat) (el up u : Rat) :
    retryAny xs e = retryAny ys e ∧ retryAll xs e = retryAll ys e ∧
    stopAny sx a el up = stopAny sy a el up ∧ stopAll sx a el up = stopAll sy a el up ∧
    waitCombine wx a u = waitCombine wy a u := by
  refine ⟨?_, ?_, ?_, ?_, ?_⟩
  · rw [Bool.eq_iff_iff, C07_retry_any_is_or, C07_retry_any_is_or]
    exact ⟨fun ⟨r, hr, h⟩ => ⟨r, hc.mem_iff.1 hr, h⟩, fun ⟨r, hr, h⟩ => ⟨r, hc.mem_iff.2 hr, h⟩⟩
  · rw [Bool.eq_iff_iff, C07_retry_all_is_and, C07_retry_all_is_and]
    exact ⟨fun h r hr => h r (hc.mem_iff.2 hr), fun h r hr => h r (hc.mem_iff.1 hr)⟩
  · rw [Bool.eq_iff_iff, C07_stop_any_is_or, C07_stop_any_is_or]
    exact ⟨fun ⟨r, hr, h⟩ => ⟨r, hs.mem_iff.1 hr, h⟩, fun ⟨r, hr, h⟩ => ⟨r, hs.mem_iff.2 hr, h⟩⟩
  · rw [Bool.eq_iff_iff, C07_stop_all_is_and, C07_stop_all_is_and]
    exact ⟨fun h r hr => h r (hs.mem_iff.2 hr), fun h r hr => h r (hs.mem_iff.1 hr)⟩
  · rw [waitCombine_eq_ratSum, waitCombine_eq_ratSum]; exact ratSum_perm (hw.map _)

/-- Python's `sum([w1, …, wn])` over strategies (`__radd__`: `0 + w` is `w`): the int `0` for the empty list,
otherwise a strategy whose delay is the sum of all of them -/
theorem C07_builtin_sum (ws : List Wait) (a : Nat) (u : Rat) :
    (pySum ws = none ↔ ws = []) ∧ ∀ f, pySum ws = some f → f a u = waitCombine ws a u := by
  have key : ∀ (ws : List Wait) (g : Wait),
      ∃ f, ws.foldl pySumStep (some g) = some f ∧ f a u = g a u + waitCombine ws a u := by
    intro ws
    induction ws with
    | nil => intro g; exact ⟨g, rfl, by simp only [waitCombine_eq_ratSum, List.map_nil, ratSum_nil]; grind⟩
    | cons w ws ih =>
      intro g
      obtain ⟨f, hf, hv⟩ := ih (waitCombine [g, w])
      refine ⟨f, hf, ?_⟩
      rw [hv]; simp only [waitCombine_eq_ratSum, List.map_cons, List.map_nil, ratSum_cons, ratSum_nil]; grind
  cases ws with
  | nil => simp [pySum]
  | cons w ws =>
    obtain ⟨f, hf, hv⟩ := key ws w
    have hp : pySum (w :: ws) = some f := hf
    refine ⟨by simp [hp], ?_⟩
    intro f' hf'
    rw [hp] at hf'; cases hf'
    rw [hv]; simp only [waitCombine_eq_ratSum, List.map_cons, ratSum_cons]

/-! ## bounds of every wait tree -/

/-- every tree of built-in wait strategies with well-formed parameters (`WTree.wf`: non-negative, `min ≤ max`, a chain is
not empty) returns, for all attempts and all jitter draws, a non-negative delay inside its documented interval: a leaf's own
interval, the interval of the member a chain uses at that attempt, the sum of the intervals under `wait_combine` / `+` -/
theorem C07_wait_tree_bounds (t : WTree) (a : Nat) (u : Rat) (hw : t.wf = true) (h0 : 0 ≤ u) (h1 : u ≤ 1) :
    0 ≤ t.eval a u ∧ t.lo a ≤ t.eval a u ∧ t.eval a u ≤ t.hi a := by
  have h := WTree.bounds t a u hw h0 h1
  exact ⟨by grind, h.2.1, h.2.2⟩

/-- the bounds are attained at the ends of the draw (so they cannot be tightened): `wait_random` gives `min` at `u = 0`
and `max` at `u = 1`; `wait_random_exponential` gives `min` at `u = 0` and its exponential upper bound at `u = 1` -/
theorem C07_bounds_attained (mn mx m b : Rat) (a : Nat) :
    waitRandom mn mx a 0 = mn ∧ waitRandom mn mx a 1 = mx ∧
    waitRandomExponential m b mx mn a 0 = mn ∧
    waitRandomExponential m b mx mn a 1 = max (max 0 mn) (cappedExponential m b a mx) := by
  unfold waitRandom waitRandomExponential; grind

/-- a delay that a composed policy returns is the wait tree's delay, hence inside the tree's interval -/
theorem C07_next_delay_bounded (p : PTree) (el : Rat) (k e : Nat) (u d : Rat) (hw : p.wait.wf = true)
    (h0 : 0 ≤ u) (h1 : u ≤ 1) (h : p.eval.next el k e u = some d) :
    d = p.wait.eval k u ∧ 0 ≤ d ∧ p.wait.lo k ≤ d ∧ d ≤ p.wait.hi k := by
  have hd : d = p.wait.eval k u := by
    obtain ⟨r, w, st⟩ := p
    cases r with
    | none =>
      simp only [PTree.eval, Composed.next, Option.map_none] at h
      cases hs : st.eval k el (w.eval k u) <;> simp [hs] at h
      exact h.symm
    | some c =>
      simp only [PTree.eval, Composed.next, Option.map_some] at h
      cases hc : c.eval e <;> cases hs : st.eval k el (w.eval k u) <;> simp [hc, hs] at h
      exact h.symm
  subst hd
  exact ⟨rfl, C07_wait_tree_bounds p.wait k u hw h0 h1⟩

/-- when exactly a composed policy retries: the condition tree (if any) holds of the error and the stop tree does not hold
at (attempts, elapsed, the delay just computed) -/
theorem C07_next_some_iff (p : PTree) (el : Rat) (k e : Nat) (u : Rat) :
    (p.eval.next el k e u).isSome = true ↔
      (∀ c, p.retry = some c → c.Holds e) ∧ ¬ p.stop.Holds k el (p.wait.eval k u) := by
  have aux : (p.eval.next el k e u).isSome = true ↔
      (∀ c, p.retry = some c → c.eval e = true) ∧ ¬ p.stop.eval k el (p.wait.eval k u) = true := by
    obtain ⟨r, w, st⟩ := p
    cases r with
    | none =>
      simp only [PTree.eval, Composed.next, Option.map_none]
      by_cases hs : st.eval k el (w.eval k u) = true <;> simp [hs]
    | some c =>
      simp only [PTree.eval, Composed.next, Option.map_some]
      by_cases hc : c.eval e = true <;> by_cases hs : st.eval k el (w.eval k u) = true <;> simp [hc, hs]
  simpa only [C07_retry_tree_is_formula, C07_stop_tree_is_formula] using aux

/-! ## determinism -/

/-- trees built only from `wait_fixed`, `wait_exponential`, `wait_incrementing` do not depend on the seed at all -/
theorem C07_jitter_free_ignores_seed (t : WTree) (a : Nat) (u u' : Rat) (h : t.jitterFree = true) :
    t.eval a u = t.eval a u' := WTree.jitterFree_eval t a u u' h

/-- growth: with `exp_base ≥ 1` and `multiplier ≥ 0` the exponential delay never decreases with the attempt number;
`wait_incrementing` with `increment ≥ 0` likewise -/
theorem C07_monotone_in_attempts (m b mx mn s i : Rat) (a a' : Nat) (u : Rat) (haa : a ≤ a') :
    (0 ≤ m → 1 ≤ b → waitExponential m b mx mn a u ≤ waitExponential m b mx mn a' u) ∧
    (0 ≤ i → waitIncrementing s i mx a u ≤ waitIncrementing s i mx a' u) := by
  constructor
  · intro hm hb
    have hpow : ∀ n d : Nat, b ^ n ≤ b ^ (n + d) := by
      intro n d
      induction d with
      | zero => exact Rat.le_refl
      | succ d ih =>
        have hnn : 0 ≤ b ^ (n + d) := pow_nonneg' b (by grind) _
        have hstep : b ^ (n + d) * 1 ≤ b ^ (n + d) * b := Rat.mul_le_mul_of_nonneg_left hb hnn
        rw [show n + (d + 1) = (n + d) + 1 from rfl, Rat.pow_succ]
        grind
    have hp : b ^ a ≤ b ^ a' := by
      have := hpow a (a' - a)
      rwa [show a + (a' - a) = a' by omega] at this
    have hmul : m * b ^ a ≤ m * b ^ a' := Rat.mul_le_mul_of_nonneg_left hp hm
    unfold waitExponential cappedExponential; grind
  · intro hi
    have hc : (a : Rat) ≤ (a' : Rat) := by exact_mod_cast haa
    have hmul : i * (a : Rat) ≤ i * (a' : Rat) := Rat.mul_le_mul_of_nonneg_left hc hi
    unfold waitIncrementing; grind

/-! ## constructors -/

/-- the constructor-level source facts the hand-written constructor models transcribe -/
theorem C07_ctor_shape :
    ret_retry_policy = "_ComposableRetryPolicy(retry=retry, wait=wait, stop=stop)" ∧
    ret_ConstantDelayRetryPolicy = "_ComposableRetryPolicy(wait=wait_fixed(delay), stop=stop_after_attempt(maximum_attempts))" ∧
    ret_ExponentialBackoffRetryPolicy = "_ComposableRetryPolicy(wait=wait, stop=stop_after_attempt(maximum_attempts))" ∧
    ebpJitterWait = "wait = wait_random_exponential(multiplier=initial_delay, exp_base=multiplier, max=max_delay)" ∧
    ebpPlainWait = "wait = wait_exponential(multiplier=initial_delay, exp_base=multiplier, max=max_delay)" ∧
    ret_wait_full_jitter = "wait_random_exponential(multiplier=multiplier, exp_base=exp_base, max=max, min=min)" ∧
    init_wait_none = "super().__init__(0)" ∧
    init_ComposableRetryPolicy = "self.retry = retry ; self.wait = wait ; self.stop = stop" ∧
    (dflt_retry_policy_retry, dflt_retry_policy_wait_ctor, dflt_retry_policy_stop_ctor) = ("None", "wait_fixed", "stop_after_attempt") ∧
    (dflt_ComposableRetryPolicy_retry, dflt_ComposableRetryPolicy_wait_ctor, dflt_ComposableRetryPolicy_stop_ctor) = ("None", "wait_fixed", "stop_after_attempt") ∧
    (dflt_ComposableRetryPolicy_wait_arg, dflt_ComposableRetryPolicy_stop_arg) = (dflt_retry_policy_wait_arg, dflt_retry_policy_stop_arg) ∧
    -- every parameter is stored in the attribute of the same name that `__call__` reads
    init_wait_fixed = "self.wait = _to_seconds(wait)" ∧
    init_wait_exponential = "self.multiplier = float(multiplier) ; self.exp_base = float(exp_base) ; self.max = _to_seconds(max) ; self.min = _to_seconds(min)" ∧
    init_wait_incrementing = "self.start = _to_seconds(start) ; self.increment = _to_seconds(increment) ; self.max = _to_seconds(max)" ∧
    init_wait_random = "self.min = _to_seconds(min) ; self.max = _to_seconds(max)" ∧
    init_wait_exponential_jitter = "self.initial = initial ; self.exp_base = exp_base ; self.max = max ; self.jitter = jitter" ∧
    init_wait_random_exponential = init_wait_exponential ∧
    init_wait_chain = "if not strategies: raise ValueError('wait_chain requires at least one strategy') ; self.strategies = strategies" ∧
    init_wait_combine = "self.strategies = strategies" ∧
    init_stop_after_attempt = "self.max_attempt_number = max_attempt_number" ∧
    init_stop_after_delay = "self.max_delay = _to_seconds(max_delay)" ∧
    init_stop_before_delay = "self.max_delay = _to_seconds(max_delay)" ∧
    (init_stop_any, init_stop_all, init_retry_any, init_retry_all) =
      ("self.stops = stops", "self.stops = stops", "self.retries = retries", "self.retries = retries") ∧
    -- reflected operators keep the operand order; `0 + w` (the first step of `sum()`) is `w`
    reflected_RetryConditionBase_rand = "return retry_all(other, self)" ∧
    reflected_RetryConditionBase_ror = "return retry_any(other, self)" ∧
    reflected_StopConditionBase_rand = "return stop_all(other, self)" ∧
    reflected_StopConditionBase_ror = "return stop_any(other, self)" ∧
    reflected_WaitStrategyBase_radd = "if other == 0: return self ; if callable(other): return self.__add__(cast(WaitStrategy, other)) ; return NotImplemented" ∧
    "wait_none(wait_fixed)" ∈ classBases ∧ "retry_unless_exception_type(retry_if_not_exception_type)" ∈ classBases := by
  refine ⟨rfl, rfl, rfl, rfl, rfl, rfl, rfl, rfl, rfl, rfl, rfl, rfl, rfl, rfl, rfl, rfl, rfl, rfl, rfl, rfl, rfl, rfl, rfl, rfl, rfl, rfl, rfl, rfl, by decide, by decide⟩

/-- the defaults of every constructor parameter are the documented (tenacity-compatible) ones -/
theorem C07_documented_defaults :
    (dflt_wait_exponential_multiplier, dflt_wait_exponential_exp_base, dflt_wait_exponential_max, dflt_wait_exponential_min) = (1, 2, 60, 0) ∧
    (dflt_wait_incrementing_start, dflt_wait_incrementing_increment, dflt_wait_incrementing_max) = (0, 100, none) ∧
    (dflt_wait_random_min, dflt_wait_random_max) = (0, 1) ∧
    (dflt_wait_exponential_jitter_initial, dflt_wait_exponential_jitter_exp_base, dflt_wait_exponential_jitter_max,
      dflt_wait_exponential_jitter_jitter) = (1, 2, 60, 1) ∧
    (dflt_wait_random_exponential_multiplier, dflt_wait_random_exponential_exp_base, dflt_wait_random_exponential_max,
      dflt_wait_random_exponential_min) = (1, 2, 60, 0) ∧
    (dflt_wait_full_jitter_multiplier, dflt_wait_full_jitter_exp_base, dflt_wait_full_jitter_max, dflt_wait_full_jitter_min) = (1, 2, 60, 0) ∧
    (dflt_ConstantDelayRetryPolicy_maximum_attempts, dflt_ConstantDelayRetryPolicy_delay) = (3, 5) ∧
    (dflt_ExponentialBackoffRetryPolicy_maximum_attempts, dflt_ExponentialBackoffRetryPolicy_initial_delay,
      dflt_ExponentialBackoffRetryPolicy_multiplier, dflt_ExponentialBackoffRetryPolicy_max_delay,
      dflt_ExponentialBackoffRetryPolicy_jitter) = (5, 1, 2, 60, some true) := by
  decide

/-- `retry_policy()` with no arguments: every exception, a fixed delay, a fixed attempt budget (as documented: 5 s, 3 attempts) -/
theorem C07_default_policy (el : Rat) (k e : Nat) (u : Rat) :
    (mkPolicy none none none).eval.next el k e u =
      (if (k : Rat) ≥ dflt_retry_policy_stop_arg then none else some dflt_retry_policy_wait_arg) ∧
    dflt_retry_policy_wait_arg = 5 ∧ dflt_retry_policy_stop_arg = 3 := by
  refine ⟨?_, by decide, by decide⟩
  simp only [mkPolicy, PTree.eval, Composed.next, Option.getD_none, Option.map_none, WTree.eval, RSTree.eval, WLeaf.eval,
    SLeaf.eval, waitFixed, stopAfterAttempt]
  split <;> simp_all

/-- `ConstantDelayRetryPolicy(n, d)`: delay `d` while fewer than `n` failures, for every exception, elapsed time and seed -/
theorem C07_constant_delay_policy (n d : Option Rat) (el : Rat) (k e : Nat) (u : Rat) :
    (mkConstantDelay n d).eval.next el k e u =
      (if (k : Rat) ≥ n.getD dflt_ConstantDelayRetryPolicy_maximum_attempts then none
       else some (d.getD dflt_ConstantDelayRetryPolicy_delay)) := by
  simp only [mkConstantDelay, PTree.eval, Composed.next, Option.map_none, WTree.eval, RSTree.eval, WLeaf.eval,
    SLeaf.eval, waitFixed, stopAfterAttempt]
  split <;> simp_all

/-- `ExponentialBackoffRetryPolicy(...)`, jittered or not: a returned delay is non-negative and at most `max(0, max_delay)`;
nothing is returned from `maximum_attempts` failures on -/
theorem C07_exp_backoff_policy (n i m mx : Option Rat) (j : Option Bool) (el : Rat) (k e : Nat) (u : Rat)
    (h0 : 0 ≤ u) (h1 : u ≤ 1) :
    (∀ d, (mkExpBackoff n i m mx j).eval.next el k e u = some d →
      0 ≤ d ∧ d ≤ max 0 (mx.getD dflt_ExponentialBackoffRetryPolicy_max_delay)) ∧
    ((k : Rat) ≥ n.getD dflt_ExponentialBackoffRetryPolicy_maximum_attempts →
      (mkExpBackoff n i m mx j).eval.next el k e u = none) := by
  constructor
  · intro d hd
    have hmin0 : (0 : Rat) ≤ dflt_wait_random_exponential_min := by decide
    have hwf : (mkExpBackoff n i m mx j).wait.wf = true := by
      cases hjv : j.getD (dflt_ExponentialBackoffRetryPolicy_jitter.getD true) <;>
        simp [mkExpBackoff, hjv, WTree.wf, WLeaf.wf, hmin0]
    have hb := C07_next_delay_bounded _ el k e u d hwf h0 h1 hd
    refine ⟨hb.2.1, ?_⟩
    have hhi := hb.2.2.2
    have hmin1 : dflt_wait_random_exponential_min = 0 := by decide
    have hmin2 : dflt_wait_exponential_min = 0 := by decide
    cases hjv : j.getD (dflt_ExponentialBackoffRetryPolicy_jitter.getD true) <;>
      simp only [mkExpBackoff, hjv, WTree.hi, WLeaf.hi, hmin1, hmin2, if_true, if_false, Bool.false_eq_true] at hhi <;> grind
  · intro hk
    simp only [mkExpBackoff, PTree.eval, Composed.next, Option.map_none, RSTree.eval, SLeaf.eval, stopAfterAttempt]
    simp [hk]

/-- `wait_full_jitter` is `wait_random_exponential` (same defaults, arguments passed on by name); `wait_none()` waits 0 -/
theorem C07_aliases (m b mx mn : Option Rat) (a : Nat) (u : Rat) :
    (mkFullJitter m b mx mn).eval a u = (mkRandomExp m b mx mn).eval a u ∧ mkWaitNone.eval a u = 0 := by
  constructor
  · have h : (dflt_wait_full_jitter_multiplier, dflt_wait_full_jitter_exp_base, dflt_wait_full_jitter_max, dflt_wait_full_jitter_min) =
        (dflt_wait_random_exponential_multiplier, dflt_wait_random_exponential_exp_base, dflt_wait_random_exponential_max,
          dflt_wait_random_exponential_min) := by decide
    simp only [Prod.mk.injEq] at h
    simp only [mkFullJitter, mkRandomExp, h.1, h.2.1, h.2.2.1, h.2.2.2]
  · rfl

/-! Non-vacuity of the nested part -/
-- (a | (b & c)) with a mixed tree: holds of exception 3 through the `all` branch
example : (RCTree.any [.leaf (.excIn [1]), .all [.leaf (.excNotIn [2]), .leaf .always]]).eval 3 = true := by decide
example : (RCTree.any [.leaf (.excIn [1]), .all [.leaf (.excNotIn [2]), .leaf .always]]).eval 2 = false := by decide
example : (RSTree.all [.leaf (.afterAttempt 2), .any [.leaf .never, .leaf (.afterDelay 5)]]).eval 3 7 0 = true := by decide
-- a well-formed three-level wait tree
example : (WTree.combine [.leaf (.fixed 1), .chain [.leaf (.random 0 1), .combine [.leaf (.fixed 2), .leaf (.random 1 3)]]]).wf = true := by decide
example : (WTree.combine [.leaf (.fixed 1), .chain [.leaf (.random 0 1), .leaf (.fixed 2)]]).jitterFree = false := by decide
example : (WTree.combine [.leaf (.fixed 1), .chain [.leaf (.fixed 3), .leaf (.fixed 2)]]).jitterFree = true := by decide
example : [retryAlways, retryNever].Perm [retryNever, retryAlways] := List.Perm.swap _ _ _
example : (mkConstantDelay none none).wait.wf = true := by decide
