import WfProofs.EngineTelemetry
/-!
`rewind_in_progress`, exactly: per step, the pending invocations of a resumed state are the
former in-progress rows (reversed: each is `insert(0, …)`-ed) followed by the former queue; the
first `min(num_workers, #pending)` of them are started, in that order, the rest stays queued in
order.  Nothing is lost, nothing is duplicated, and no slot is left free while an invocation waits.
-/
set_option linter.unusedSimpArgs false
set_option linter.unusedVariables false

namespace Engine

theorem addOrEnqueue_start (att : Attempt) (step : Nat) (ss : StepState) (nw : Nat) (now : Int)
    (h : IdsOk ss nw) (hlt : ss.inProg.length < nw) :
    (addOrEnqueue att step ss nw now).1.queue = ss.queue ∧
      (addOrEnqueue att step ss nw now).1.inProg.map (·.ev) = ss.inProg.map (·.ev) ++ [att.ev] ∧
      (addOrEnqueue att step ss nw now).1.collected = ss.collected ∧
      (addOrEnqueue att step ss nw now).1.waiters = ss.waiters := by
  unfold addOrEnqueue
  rw [if_pos hlt]
  have := freeIds_ne_nil h hlt
  split
  · simp
  · rename_i hnil; exact absurd hnil this

/-- the drain loop, exactly: `k = min(free slots, queue length)` heads of the queue are started in
order, the rest stays -/
theorem drain_spec (step nw : Nat) (now : Int) :
    ∀ (fuel : Nat) (ss : StepState), IdsOk ss nw → ss.queue.length ≤ fuel →
      (drain step nw now fuel ss).1.queue = ss.queue.drop (min (nw - ss.inProg.length) ss.queue.length) ∧
      (drain step nw now fuel ss).1.inProg.map (·.ev)
        = ss.inProg.map (·.ev) ++ (ss.queue.take (min (nw - ss.inProg.length) ss.queue.length)).map (·.ev) ∧
      (drain step nw now fuel ss).1.collected = ss.collected ∧
      (drain step nw now fuel ss).1.waiters = ss.waiters
  | 0, ss, _, hf => by
    have : ss.queue = [] := List.eq_nil_of_length_eq_zero (Nat.le_zero.mp hf)
    simp [drain, this]
  | fuel + 1, ss, hok, hf => by
    unfold drain
    split
    · rename_i hq; simp [hq]
    · rename_i a q hq
      split
      · rename_i hlt
        have hok1 : IdsOk { ss with queue := q } nw := hok
        obtain ⟨a1, a2, a3, a4⟩ := addOrEnqueue_start a step { ss with queue := q } nw now hok1 hlt
        have hok2 := addOrEnqueue_idsOk a step { ss with queue := q } nw now hok1
        have hlen : (addOrEnqueue a step { ss with queue := q } nw now).1.inProg.length = ss.inProg.length + 1 := by
          have := congrArg List.length a2
          simpa using this
        have hf' : (addOrEnqueue a step { ss with queue := q } nw now).1.queue.length ≤ fuel := by
          rw [a1]; rw [hq] at hf; simpa using hf
        obtain ⟨d1, d2, d3, d4⟩ := drain_spec step nw now fuel _ hok2 hf'
        simp only
        rw [d1, d2, d3, d4, a1, a2, a3, a4, hlen, hq]
        have hk : min (nw - ss.inProg.length) (q.length + 1) = min (nw - (ss.inProg.length + 1)) q.length + 1 := by
          omega
        simp only [List.length_cons, hk, List.drop_succ_cons, List.take_succ_cons, List.map_cons,
          List.append_assoc, List.singleton_append, and_self]
      · rename_i hge
        have : nw - ss.inProg.length = 0 := by omega
        simp [this, hq]

/-- one step of the rewind, exactly -/
theorem rewindStep_spec (c : StepCfg) (ss : StepState) (now : Int) :
    let pending := (ss.inProg.map inProgToAttempt).reverse ++ ss.queue
    let k := min c.numWorkers pending.length
    (rewindStep c ss now).1.queue = pending.drop k ∧
      (rewindStep c ss now).1.inProg.map (·.ev) = (pending.take k).map (·.ev) ∧
      (rewindStep c ss now).1.inProg.length = k ∧
      (rewindStep c ss now).1.collected = ss.collected ∧
      (rewindStep c ss now).1.waiters = ss.waiters := by
  intro pending k
  unfold rewindStep
  have hok : IdsOk { ss with queue := pending, inProg := [] } c.numWorkers := by
    simp [IdsOk, usedIds]
  obtain ⟨d1, d2, d3, d4⟩ := drain_spec c.name c.numWorkers now pending.length
    { ss with queue := pending, inProg := [] } hok (Nat.le_refl _)
  simp only [List.length_nil, Nat.sub_zero, List.map_nil, List.nil_append] at d1 d2
  refine ⟨d1, d2, ?_, d3, d4⟩
  have := congrArg List.length d2
  simp only [List.length_map, List.length_take] at this
  rw [this]
  show min (min c.numWorkers pending.length) pending.length = min c.numWorkers pending.length
  omega

theorem rewindLoop_workers (now : Int) :
    ∀ (cs : List StepCfg) (st : State) (cmds : List Cmd), (cs.map (·.name)).Nodup →
      (∀ c ∈ cs, (rewindLoop now cs st cmds).1.workers c.name = (rewindStep c (st.workers c.name) now).1) ∧
      (∀ s, s ∉ cs.map (·.name) → (rewindLoop now cs st cmds).1.workers s = st.workers s) ∧
      (rewindLoop now cs st cmds).1.isRunning = st.isRunning
  | [], st, cmds, _ => by simp [rewindLoop]
  | d :: ds, st, cmds, hnd => by
    simp only [List.map_cons, List.nodup_cons] at hnd
    unfold rewindLoop
    obtain ⟨i1, i2, i3⟩ := rewindLoop_workers now ds (st.set d.name (rewindStep d (st.workers d.name) now).1)
      (cmds ++ (rewindStep d (st.workers d.name) now).2) hnd.2
    refine ⟨?_, ?_, ?_⟩
    · intro c hc
      rcases List.mem_cons.mp hc with rfl | hc
      · simp only
        rw [i2 c.name hnd.1]
        simp [State.set]
      · simp only
        rw [i1 c hc]
        have hne : c.name ≠ d.name := by
          intro he
          exact hnd.1 (he ▸ List.mem_map_of_mem hc)
        simp [State.set, hne]
    · intro s hs
      simp only [List.map_cons, List.mem_cons, not_or] at hs
      simp only
      rw [i2 s hs.2]
      simp [State.set, hs.1]
    · simp only
      rw [i3]; rfl

/-- the rewind, exactly, for every configured step of a configuration with distinct step names -/
theorem rewind_spec (cfg : Cfg) (hwf : cfg.WF) (st : State) (now : Int) (c : StepCfg) (hc : c ∈ cfg.steps) :
    (rewind cfg st now).1.workers c.name = (rewindStep c (st.workers c.name) now).1 := by
  unfold rewind
  exact (rewindLoop_workers now (sortedSteps cfg) st []
    ((sortedSteps_names_perm cfg).nodup_iff.mpr hwf)).1 c (mem_sortedSteps_iff.mpr hc)

end Engine
