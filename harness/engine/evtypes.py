"""Event classes used by generated workflows.  Importable (module-level) so that
serialised waiters / events can be re-imported by qualified name."""
from __future__ import annotations

from typing import Any

from workflows.events import (
    Event,
    HumanResponseEvent,
    InputRequiredEvent,
    StartEvent,
    StepFailedEvent,
    StopEvent,
)


class T0(StartEvent):
    uid: int = 0
    k: int | None = None


class T1(StopEvent):
    uid: int = 0
    k: int | None = None


class T2(InputRequiredEvent):
    uid: int = 0
    k: int | None = None


class T3(HumanResponseEvent):
    uid: int = 0
    k: int | None = None


T4 = StepFailedEvent


def _plain(name: str) -> type[Event]:
    cls = type(name, (Event,), {"__annotations__": {"uid": int, "k": "int | None"}, "uid": 0, "k": None,
                                "__module__": __name__})
    return cls


class T5(Event):
    uid: int = 0
    k: int | None = None


class T6(Event):
    uid: int = 0
    k: int | None = None


class T7(Event):
    uid: int = 0
    k: int | None = None


class T8(Event):
    uid: int = 0
    k: int | None = None


class T9(Event):
    uid: int = 0
    k: int | None = None


class T10(Event):
    uid: int = 0
    k: int | None = None


class T11(Event):
    uid: int = 0
    k: int | None = None


class T12(T5):
    """a subclass of a plain event: routing must be by exact type"""


class T13(T2):
    """a subclass of an InputRequiredEvent subclass"""


TYPES: list[type[Event]] = [T0, T1, T2, T3, T4, T5, T6, T7, T8, T9, T10, T11, T12, T13]
TY_ID: dict[type, int] = {c: i for i, c in enumerate(TYPES)}
PLAIN = [5, 6, 7, 8, 9, 10, 11, 12]


# Value-equal events: when switched on (spec["eq_events"]), events of one class with the same `k` compare
# equal although they are different events (different uid) — as user events with equal payloads do.
EQ_IGNORE_UID = [False]


def _install_eq() -> None:
    for c in TYPES:
        if c is T4:
            continue
        base_eq = c.__eq__

        def _eq(self: Any, other: Any, _base: Any = base_eq) -> Any:
            if EQ_IGNORE_UID[0] and type(self) is type(other):
                return self.k == other.k
            return _base(self, other)

        c.__eq__ = _eq  # type: ignore[method-assign]


_install_eq()


def kind_of(cls: type) -> str:
    if issubclass(cls, StartEvent):
        return "s"
    if issubclass(cls, StopEvent):
        return "t"
    if issubclass(cls, InputRequiredEvent):
        return "i"
    return "p"


def mk(ty: int, uid: int, k: int | None = None, **kw: Any) -> Event:
    cls = TYPES[ty]
    if cls is T4:
        raise ValueError("StepFailedEvent is built by the engine")
    return cls(uid=uid, k=k, **kw)


class Boom(RuntimeError):
    """step failure carrying a numeric id: Boom('e7')"""


def exc_id(e: BaseException | None) -> int | None:
    if e is None:
        return None
    s = str(e)
    if s.startswith("e") and s[1:].isdigit():
        return int(s[1:])
    return 9999
