import WfModel.DeployId
import Driver.Util
open DeployId Drv

namespace Drv.DeployId

def parseDraw? (s : String) : Option Draw :=
  match s.splitOn ":" with
  | [hex, alt] => do
    let h ← parseChars? hex
    match ← parseChars? alt with
    | [a] => some { hex := h, alt := a }
    | _ => none
  | _ => none

def parseDraws? (s : String) : Option (List Draw) :=
  if s.isEmpty then some [] else (s.splitOn ";").mapM parseDraw?

def step (_ : Unit) (line : String) : Unit × String :=
  match line.splitOn "|" with
  | ["find", force, name, answers, draws] =>
    match parseBool? force, parseChars? name, (answers.toList.mapM fun c => parseBool? c.toString), parseDraws? draws with
    | some f, some n, some a, some d =>
      match findId n f a d with
      | some r => ((), "some " ++ showChars r)
      | none => ((), "none")
    | _, _, _, _ => ((), "bad-op")
  | ["base", name] =>
    match parseChars? name with
    | some n => ((), showChars (baseId n))
    | none => ((), "bad-op")
  | ["dns", s] =>
    match parseChars? s with
    | some n => ((), toString (isDns1035 n))
    | none => ((), "bad-op")
  | _ => ((), "bad-op")

end Drv.DeployId
