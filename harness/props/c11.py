"""C11 — replaying the recorded tick log reproduces the live run state."""
from __future__ import annotations

from ..engine import monitors, suite
from ..engine import rebuild as rebuild_mod
from ..runner import Divergence, Driver, Env, Outcome, diff_streams

THEOREMS = ["C11_replay_invariant", "C11_rebuilt_wellformed", "C11_log_grows_only_by_drain",
            # timestamps aside: the real rebuild_state_from_ticks (replay at the clock of the call), every start state
            "C11_time_erasure", "C11_rebuild_agrees_with_live", "C11_erasure_keeps", "C11_erasure_is_agreement",
            "C11_reduce_commutes_with_erasure", "C11_rewind_serialise_commute_with_erasure",
            # the public views are functions of the rebuilt state and describe the live run
            "C11_running_steps_describe_run", "C11_to_dict_describes_run",
            # the guard on the retry policy is needed
            "C11_refuted_elapsed_time_policy",
            # resumed runs; rewind on start
            "C11_resumed_runs", "C11_rewind_keeps", "C11_refuted_rewind_idempotent", "C11_rewind_idempotent_partial",
            # the recording discipline over whole histories, tied to the source
            "C11_log_is_reduced_ticks", "C11_drain_records_what_it_reduces", "C11_source_shape",
            # a worker task that ends cancelled while the run goes on: neither state nor log moves
            "C11_worker_gone_moves_nothing"]
LEAN_TARGETS = ["WfProps.C11"]
EXPLANATION = (
    "Runner LTS, recorded times: at every point of every run (any start state, schedule, results, external ticks) the live reducer "
    "state equals the replay of the logged (tick, time) pairs from the rewound initial state; over whole histories the log is exactly "
    "the sequence of ticks popped off the buffer and reduced (each once, in order, nothing recorded for a raising reduction); the rebuilt "
    "state satisfies the slot invariant. Timestamps aside (the real rebuild_state_from_ticks replays at the clock of the call): for every "
    "start state incl. resumed ones, every schedule and every pair of clocks the rebuild does not raise and equals the live state after "
    "blanking every first_attempt_at (eraseSt), for retry policies that do not read the elapsed time; reducer, rewind and serialisation "
    "commute with the erasure; running_steps() and to_dict() of the rebuilt state describe the live run (and list the step of every live "
    "worker task); sessions of any number of resume legs; what rewind-on-start keeps and that it is not idempotent (idempotent when no "
    "step has more than one worker). Without the guard the clause is refuted by a concrete run (stop_after_delay). Source shape: the "
    "recording order of _process_tick, the writers of self.state, the shape of rebuild_state_from_ticks, on_tick/replay/init_state of "
    "plugins/basic.py and _state/running_steps/to_dict of external_context.py are re-extracted on every run. Tie: reducer pairs, runner "
    "correspondence (incl. the adapter's tick log), and the real ExternalContext over prefixes of each recorded log at chosen clocks "
    "against the model's replayTicks/activeSteps/roundtrip. Search: after every tick of every generated run the state rebuilt by the real "
    "function from the adapter's tick log is compared with the live state, timestamps erased; ctx.to_dict() snapshots and, at sampled "
    "prefixes, running_steps()/to_dict() of the real ExternalContext are compared with the live state."
)
ASSUMPTIONS = suite.ENGINE_ASSUMPTIONS + [
    "replay with a different clock equals the live state only 'timestamps aside' and only for policies that do not depend on elapsed time "
    "(TimeFree): proved under that guard (C11_rebuild_agrees_with_live), refuted without it (C11_refuted_elapsed_time_policy, reproduced on "
    "the real code: to_dict() of a run that failed through stop_after_delay says is_running=True; OPEN known finding "
    "C11/replay_redecides_elapsed_time_policy); generated policies of the other streams are attempt-based; in the elapsed-time family a difference "
    "is classified as the known finding only when a policy that stops by elapsed time was answered differently in the rebuild AND the model under "
    "the rebuild's answers equals the real rebuild AND the model under the live answers equals the live run (rebuild.redecided); for specs with "
    "such a policy the views use only clocks not earlier than the recorded ticks",
    "what a caller of the live handler saw after the k-th tick is reproduced after the run through an adapter that shows the real "
    "ExternalContext the first k ticks of the recorded log (the log is append-only: GenTickLog.ticksWrites)",
]


def _views(env: Env, out: Outcome, traces: list, label: str, rng, monitor: bool = True, case_of=None) -> None:
    """the real ExternalContext (`_state`, `running_steps()`, `to_dict()`) over prefixes of each recorded run, at a chosen clock:
    (K) against the model's `replayTicks` / `activeSteps` / `roundtrip` (driver ops rbclear/rbtick/rebuild),
    (S) against the live state after that many ticks (`monitor=False`: elapsed-time policies, outside the proved guard)."""
    from ..engine import rebuild

    ops: list[str] = []
    exp: list[str] = []
    owner: list[tuple[int, int, int]] = []
    for i, tr in enumerate(traces):
        ticks = rebuild.logged_ticks(tr)
        if ticks is None or tr.outcome[0] in ("invalid", "runaway") or len(ticks) > 300:
            continue
        states = rebuild.live_states(tr)
        end = int(getattr(tr, "end_time", 0) or 1000)
        if env.replay is not None:
            ks = rebuild.pick_prefixes(rng, len(ticks), 1)
        elif rng.random() >= 0.34:
            ks = []  # every third run is looked at (the per-tick rebuild of mon_c11 looks at all of them)
        elif env.tier == "thorough":
            ks = rebuild.pick_prefixes(rng, len(ticks), 1)  # the whole log and one prefix of it
        else:
            ks = [len(ticks) if rng.random() < 0.5 else rng.randint(0, len(ticks))]  # quick: one point
        want = ((env.replay or {}).get("payload", {}).get("case") or {})
        if isinstance(want, dict) and isinstance(want.get("resume", want).get("prefix"), int):
            ks = sorted(set(ks) | {min(want.get("resume", want)["prefix"], len(ticks))})
        for k in ks:
            clock = rng.choice([end, end, end + rng.randint(1, 60), rng.randint(0, 3000), 0])
            if rebuild.elapsed_stop_steps(tr.spec):
                # a policy that stops by elapsed time makes the rebuild depend on its clock (known finding): only clocks a real
                # caller can have, i.e. not before the ticks were recorded (an earlier clock makes the rebuild give up where the
                # live run retried, which no caller of a live handler can observe)
                clock = rng.choice([end, end + rng.randint(1, 60), end + 1000])
            if isinstance(want, dict) and want.get("resume", want).get("prefix") == k and isinstance(want.get("resume", want).get("clock"), int):
                clock = want.get("resume", want)["clock"]  # replaying a recorded case: its clock
            obs = rebuild.observe(tr, k, clock)
            out.evaluations += 1
            out.count(f"view:{label}:prefix:" + ("full" if k == len(ticks) else "empty" if k == 0 else "mid"))
            out.count(f"view:{label}:clock:" + ("end_of_run" if clock == end else "zero" if clock == 0 else "later" if clock > end else "earlier"))
            if "error" in obs:
                out.count(f"view:{label}:raised")
            else:
                out.count(f"view:{label}:running_steps:{min(len(obs['running_steps']), 3)}")
                if obs["oracle"]:
                    out.count(f"view:{label}:policy_consulted_during_rebuild")
                if states is not None and k < len(states):
                    same = obs["state"].is_running == states[k].is_running
                    out.count(f"view:{label}:is_running_" + ("agrees" if same else "DIFFERS_from_live"))
                if obs["running_steps"] or k not in (0, len(ticks)):
                    out.nontrivial(("view", label, repr(tr.spec), tuple(tr.actions), k, clock))
            if monitor:
                for v in rebuild.classify_views(tr, obs, rebuild.mon_views(tr, obs)):
                    if case_of is not None:
                        v.replay = case_of(tr, v.replay)
                    out.violations.append(v)
            o, e = rebuild.rebuild_lines(tr, obs)
            ops += o
            exp += e
            owner += [(i, k, clock)] * len(o)
    if not ops:
        return
    try:
        mo = Driver("engine").run(ops)
    except Exception as ex:
        out.divergences.append(Divergence("engine-rebuild", 0, "<driver>", repr(ex), ""))
        return
    out.traces_validated += len(traces)
    out.disagreements_checked += len(ops)
    d = diff_streams("engine-rebuild", ops, mo, exp)
    if d is not None:
        i, k, clock = owner[d.index] if d.index < len(owner) else (None, None, None)
        a, b = d.model_out, d.impl_out
        j = 0
        while j < min(len(a), len(b)) and a[j] == b[j]:
            j += 1
        d.model_out = a[max(0, j - 300): j + 400]
        d.impl_out = b[max(0, j - 300): j + 400]
        d.op = d.op[:1500]
        if i is not None:
            d.context = {"spec": traces[i].spec, "actions": traces[i].actions, "prefix": k, "clock": clock, "stream": label}
        out.divergences.append(d)


def _resumed_runs(env: Env, out: Outcome, n: int) -> None:
    """resumed runs: (a) snapshot at a quiet point mid-run, stop, resume from JSON; (b) snapshot AFTER the run ended (a StopEvent
    racing with other work leaves queued / in-progress invocations behind; is_running is False) and run the restored context
    again.  mon_c11 compares, after every tick of the resumed run, the state rebuilt from its tick log with the live state."""
    import copy
    import random

    from ..engine import live, specgen
    rng = random.Random(env.rng.randrange(1 << 30))
    jobs = []
    if env.replay is not None and isinstance(env.replay.get("payload", {}).get("case"), dict) and "resume" in env.replay["payload"]["case"]:
        c = env.replay["payload"]["case"]["resume"]
        jobs.append((c["spec"], c["seed"], c.get("actions1"), c.get("actions2")))
    for _ in range(n):
        spec = specgen.gen_spec(rng, family=rng.choice(["general", "fanin", "general"]), allow_timeout=False)
        for st in spec["steps"]:
            if (st.get("retry") or {}).get("kind") == "delay":
                st["retry"] = {"kind": "attempts", "n": 3, "wait": st["retry"].get("wait", 0)}
        spec["externals"] = [e for e in spec.get("externals", []) if e["op"] == "send"]
        spec.pop("timeout", None)
        if rng.random() < 0.5:
            spec["externals"].append({"op": "snapshot_stop", "after_quiet": rng.choice([0, 1, 1, 2, 3])})
        else:
            spec["snapshot_after_end"] = True
        jobs.append((spec, rng.randrange(1 << 30), None, None))
    resumed = []
    cases: dict = {}
    for spec, seed, a1, a2 in jobs:
        tr1 = live.run_spec(spec, seed=seed, replay_actions=a1)
        out.evaluations += 1
        snaps = [s for s in tr1.snapshots if s.get("stopped") or s.get("after_end")]
        if not snaps:
            out.count("resume:no_snapshot")
            continue
        d = snaps[0]["dict"]
        pend = sum(len(w.get("queue", [])) + len(w.get("in_progress", [])) for w in d.get("workers", {}).values()) if isinstance(d, dict) else 0
        kind = "after_end" if snaps[0].get("after_end") else "mid_run"
        out.count(f"resume:{kind}:pending:{min(pend, 3)}")
        if kind == "after_end" and not pend:
            continue
        spec2 = copy.deepcopy(spec)
        spec2.pop("snapshot_after_end", None)
        spec2["externals"] = copy.deepcopy([e for e in getattr(tr1, "remaining_externals", []) if e["op"] == "send"])
        spec2["_resumed"] = True
        tr2 = live.run_spec(spec2, seed=seed + 1, replay_actions=a2, resume_from=d)
        resumed.append(tr2)
        cases[id(tr2)] = {"spec": spec, "seed": seed, "actions1": tr1.actions, "actions2": tr2.actions}
        out.count("resume:outcome:" + tr2.outcome[0])
        if pend:
            out.nontrivial(("resume", kind, repr(spec), tuple(tr1.actions)))
        for v in rebuild_mod.mon_c11_classified(tr2):
            v.replay = {"resume": {"spec": spec, "seed": seed, "actions1": tr1.actions, "actions2": tr2.actions}}
            out.violations.append(v)
    suite.runner_corr(out, resumed, "engine-runner-resumed")
    _views(env, out, resumed, "resumed", rng,
           case_of=lambda tr, c: {"resume": dict(cases[id(tr)], prefix=c.get("prefix"), clock=c.get("clock"))})


def run(env: Env) -> Outcome:
    out = Outcome()
    out.rule = ("live scripted workflows incl. snapshots; after every processed tick the real rebuild_state_from_ticks is compared with the live state; "
                "non-trivial = more than 2 ticks; distinct by (spec, schedule); views: the real ExternalContext over a prefix of the recorded log at a "
                "chosen clock, non-trivial = a proper prefix or something in progress, distinct by (spec, schedule, prefix, clock)")
    suite.direct_corr(env, out, env.budget(1500, 30000))
    def attempt_based(spec: dict, rng) -> dict:
        for st in spec["steps"]:
            if (st.get("retry") or {}).get("kind") == "delay":
                # elapsed-time policies are outside the stated guard (the replay runs on a later clock)
                st["retry"] = {"kind": "attempts", "n": 3, "wait": st["retry"].get("wait", 0)}
        return spec

    import random as _random

    vrng = _random.Random(env.seed * 7919 + 11)  # own stream: the runs generated below stay what they were per seed
    trs = suite.live_runs(env, out, env.budget(250, 5000), [rebuild_mod.mon_c11_classified], extra_specs=suite.load_corpus("C11"), mutate_spec=attempt_based)
    _views(env, out, trs, "general", vrng)

    def many_snapshots(spec: dict, rng) -> dict:
        # several ctx.to_dict() calls on one live handler, at different quiet points (work in flight in between)
        for st in spec["steps"]:
            if (st.get("retry") or {}).get("kind") == "delay":
                # elapsed-time policies are outside the stated guard (replay runs on a later clock)
                st["retry"] = {"kind": "attempts", "n": 3, "wait": st["retry"].get("wait", 0)}
        for _ in range(rng.randint(2, 4)):
            spec.setdefault("externals", []).append({"op": "snapshot", "after_quiet": rng.randint(0, 6)})
        return spec

    trs = suite.live_runs(env, out, env.budget(120, 2400), [rebuild_mod.mon_c11_classified], gen_kwargs={"family": "fanin"}, mutate_spec=many_snapshots)
    _views(env, out, trs, "fanin", vrng)
    trs = suite.live_runs(env, out, env.budget(80, 1600), [rebuild_mod.mon_c11_classified], gen_kwargs={"family": "retry"}, mutate_spec=many_snapshots)
    _views(env, out, trs, "retry", vrng)
    _resumed_runs(env, out, env.budget(120, 2400))

    def self_cancelled_worker(spec: dict, rng) -> dict:
        # a worker task that ends CANCELLED while the run goes on: a step body that raises asyncio.CancelledError itself (it awaits
        # an inner task that was cancelled); no step result exists for it, so no tick is recorded -- the live state must not move
        # either.  Followed by more events for the same step, snapshots in between, and whatever else the generated run does.
        spec = attempt_based(spec, rng)
        cands = [st for st in spec["steps"] if st.get("role") != "handler" and not st.get("sync")]
        non_start = [st for st in cands if 0 not in st["accepts"]]
        for st in rng.sample(non_start or cands, min(len(non_start or cands), rng.choice([1, 1, 2]))):
            mode = rng.choice([["first", 1], ["first", 1], ["first", 2], ["k", [1]], ["k", [2]], ["k", [1, 2]], ["always"]])
            gates = [i for i, a in enumerate(st["script"]) if a[0] == "gate"]
            at = rng.choice([0, 0] + [i + 1 for i in gates])  # at once, or after awaited I/O
            st["script"].insert(at, ["self_cancel"] + mode)
            if rng.random() < 0.5:
                st["nw"] = 1  # later events for the step queue up behind the slot
            tys = [t for t in st["accepts"] if t not in (0, 4)]
            for _ in range(rng.randint(1, 3) if tys else 0):
                spec.setdefault("externals", []).append({"op": "send", "ty": rng.choice(tys), "k": rng.choice([None, 1, 2, 3]), "step": None,
                                                         "after_quiet": rng.randint(0, 6)})
        for _ in range(rng.randint(1, 3)):
            spec.setdefault("externals", []).append({"op": "snapshot", "after_quiet": rng.randint(0, 8)})
        if rng.random() < 0.5:
            spec["snapshot_after_end"] = True
        return spec

    # the runner-LTS correspondence of these runs needs the `wgone` action (corr.runner_lines emits it where a self-cancelled
    # worker left the runner's task set)
    trs = suite.live_runs(env, out, env.budget(100, 2000), [rebuild_mod.mon_c11_classified], gen_kwargs={"family": "general"},
                          mutate_spec=self_cancelled_worker)
    for tr in trs:
        n_sc = sum(1 for r in tr.steps if r[0] == "self_cancel")
        out.count(f"self_cancel:workers_ended_cancelled:{min(n_sc, 3)}")
        if n_sc:
            calls = [c for c in tr.calls if c.caller == "_process_tick"]
            first = min(r[5]["at_call"] for r in tr.steps if r[0] == "self_cancel")
            later = sum(1 for c in tr.calls[first:] if c.caller == "_process_tick")
            out.count("self_cancel:ticks_after:" + ("0" if later == 0 else "1-3" if later <= 3 else "4+"))
            scs = {r[1] for r in tr.steps if r[0] == "self_cancel"}
            again = any(r[0] == "enter" and r[1] in scs and i > min(j for j, q in enumerate(tr.steps) if q[0] == "self_cancel")
                        for i, r in enumerate(tr.steps))
            out.count("self_cancel:same_step_entered_again:" + ("yes" if again else "no"))
    _views(env, out, trs, "self_cancel", vrng)

    def elapsed_time_policy(spec: dict, rng) -> dict:
        # OUTSIDE the proved guard (C11_refuted_elapsed_time_policy): every retry policy gives up by elapsed time (stop_after_delay).
        # Monitored with a classification: a difference between rebuilt and live state that is explained by a retry decision taken
        # differently at the rebuild's clock is the KNOWN finding C11/replay_redecides_elapsed_time_policy (rebuild.redecided);
        # any other difference keeps the generic signatures.  How often the rebuilt running flag differs is counted as well.
        for st in spec["steps"]:
            if st.get("retry") is not None:
                st["retry"] = {"kind": "delay", "d": rng.choice([2, 5, 7]), "wait": rng.choice([1, 2, 3])}
        spec.pop("timeout", None)
        return spec

    trs = suite.live_runs(env, out, env.budget(24, 480), [rebuild_mod.mon_c11_classified], gen_kwargs={"family": "retry"}, mutate_spec=elapsed_time_policy)
    _views(env, out, trs, "elapsed_time_policy", vrng)
    for v in out.violations:
        if v.signature.startswith(rebuild_mod.KNOWN):
            out.count("known:" + v.signature)
    return out
