import WfProofs.SerialParked
/-!
No action of the control loop ever writes the state of a name that is not a step of the workflow: `OffCfg` is
an invariant of every run from `Runner.init` on a state that has it (the empty state of a fresh run, any state
loaded by `from_serialized`).  With it the hypothesis `Parked.offCfg` is a fact about every reachable runner, and
`Parked` only asks what can be observed on the configured steps.
-/
set_option linter.unusedVariables false
set_option linter.unusedSimpArgs false

namespace Engine

def OffCfg (cfg : Cfg) (st : State) : Prop := ∀ n, cfg.hasStep n = false → st.workers n = {}

theorem OffCfg.set {cfg : Cfg} {st : State} (h : OffCfg cfg st) {s : Nat} (hs : cfg.hasStep s = true) (ss : StepState) :
    OffCfg cfg (st.set s ss) := by
  intro n hn
  have hne : n ≠ s := by
    intro e; subst e; rw [hs] at hn; cases hn
  simp [State.set, hne, h n hn]

theorem OffCfg.of_workers {cfg : Cfg} {st st' : State} (h : OffCfg cfg st) (hw : st'.workers = st.workers) :
    OffCfg cfg st' := by
  intro n hn; rw [hw]; exact h n hn

theorem offCfg_init (cfg : Cfg) : OffCfg cfg initState := fun _ _ => rfl

theorem offCfg_roundtrip (cfg : Cfg) (st : State) : OffCfg cfg (roundtrip cfg st) := by
  intro n hn
  rw [roundtrip_workers]
  simp [hn]

theorem addEventWaiters_offCfg (cfg : Cfg) (ev : Ev) (target : Option Nat) (now : Int) :
    ∀ (cs : List StepCfg) (acc : AddAcc), (∀ c ∈ cs, cfg.hasStep c.name = true) → OffCfg cfg acc.st →
      OffCfg cfg (addEventWaiters cfg ev target now cs acc).st
  | [], acc, _, h => h
  | c :: cs, acc, hc, h => by
    unfold addEventWaiters
    have hcs : ∀ d ∈ cs, cfg.hasStep d.name = true := fun d hd => hc d (by simp [hd])
    split
    · exact addEventWaiters_offCfg cfg ev target now cs acc hcs h
    · apply addEventWaiters_offCfg cfg ev target now cs _ hcs
      split
      · exact h.set (hc c (by simp)) _
      · exact h

theorem addEventRoute_offCfg (cfg : Cfg) (att : Attempt) (target : Option Nat) (now : Int) :
    ∀ (cs : List StepCfg) (acc : AddAcc), (∀ c ∈ cs, cfg.hasStep c.name = true) → OffCfg cfg acc.st →
      OffCfg cfg (addEventRoute att target now cs acc).st
  | [], acc, _, h => h
  | c :: cs, acc, hc, h => by
    unfold addEventRoute
    have hcs : ∀ d ∈ cs, cfg.hasStep d.name = true := fun d hd => hc d (by simp [hd])
    split
    · exact addEventRoute_offCfg cfg att target now cs acc hcs h
    · split
      · apply addEventRoute_offCfg cfg att target now cs _ hcs
        exact h.set (hc c (by simp)) _
      · exact addEventRoute_offCfg cfg att target now cs acc hcs h

theorem processAddEvent_offCfg (cfg : Cfg) (att : Attempt) (target : Option Nat) (st : State) (now : Int)
    (h : OffCfg cfg st) : OffCfg cfg (processAddEvent cfg att target st now).1 := by
  unfold processAddEvent
  have hall : ∀ c ∈ cfg.steps, cfg.hasStep c.name = true := fun c hc => hasStep_of_mem_steps hc
  apply addEventRoute_offCfg cfg att target now cfg.steps _ hall
  apply addEventWaiters_offCfg cfg att.ev target now cfg.steps _ hall
  apply h.of_workers
  unfold addEventStart
  split <;> rfl

theorem clearAll_offCfg {cfg : Cfg} {st : State} (h : OffCfg cfg st) : OffCfg cfg (clearAll st) := by
  intro n hn
  simp [clearAll, h n hn]

theorem applyRes_offCfg (cfg : Cfg) (pol : Policy) (step : Nat) (hs : cfg.hasStep step = true) (tickEv : Ev) (dc : Bool)
    (acc : ResAcc) (r : Res) (h : OffCfg cfg acc.st) : OffCfg cfg (applyRes cfg pol step tickEv dc acc r).st := by
  cases r with
  | result oe =>
    cases oe with
    | none => exact h
    | some ev =>
      simp only [applyRes]
      split
      · exact clearAll_offCfg (h.of_workers rfl)
      · exact h
  | failed exc failedAt =>
    simp only [applyRes]
    split
    · exact h
    · split
      · exact h
      · split
        · split
          · exact h
          · exact h.of_workers rfl
        · exact h.of_workers rfl
      · split
        · split
          · exact h
          · exact h.of_workers rfl
        · exact h.of_workers rfl
  | addCollected buf ev =>
    simp only [applyRes]
    split
    · exact h
    · split
      · exact h.set hs _
      · exact h.set hs _
  | deleteCollected buf =>
    simp only [applyRes]
    split
    · exact h.set hs _
    · exact h
  | addWaiter wid waiterEv req timeout ty =>
    simp only [applyRes]
    split
    · exact h.set hs _
    · exact h.set hs _
  | deleteWaiter wid =>
    simp only [applyRes]
    split
    · exact h.set hs _
    · exact h

theorem foldl_applyRes_offCfg (cfg : Cfg) (pol : Policy) (step : Nat) (hs : cfg.hasStep step = true) (tickEv : Ev) (dc : Bool) :
    ∀ (res : List Res) (acc : ResAcc), OffCfg cfg acc.st →
      OffCfg cfg (res.foldl (applyRes cfg pol step tickEv dc) acc).st
  | [], acc, h => h
  | r :: rs, acc, h => by
    simp only [List.foldl_cons]
    exact foldl_applyRes_offCfg cfg pol step hs tickEv dc rs _ (applyRes_offCfg cfg pol step hs tickEv dc acc r h)

theorem processStepResult_offCfg (cfg : Cfg) (pol : Policy) (step worker : Nat) (tickEv : Ev) (res : List Res)
    (st : State) (now : Int) (h : OffCfg cfg st) :
    OffCfg cfg (processStepResult cfg pol step worker tickEv res st now).1 := by
  unfold processStepResult
  split
  · exact h
  · rename_i hs
    have hs' : cfg.hasStep step = true := by simpa using hs
    split
    · exact h
    · rename_i exec _
      have hacc := foldl_applyRes_offCfg cfg pol step hs' tickEv (res.any isResult) res { st := st, exec := exec } h
      simp only
      split
      · exact hacc.set hs' _
      · exact hacc.set hs' _

theorem processWaiterTimeout_offCfg (cfg : Cfg) (step waiter : Nat) (st : State) (now : Int) (h : OffCfg cfg st) :
    OffCfg cfg (processWaiterTimeout cfg step waiter st now).1 := by
  unfold processWaiterTimeout
  split
  · exact h
  · rename_i hs
    have hs' : cfg.hasStep step = true := by simpa using hs
    simp only
    split
    · exact h
    · split
      · exact h
      · exact h.set hs' _

theorem reduce_offCfg (cfg : Cfg) (pol : Policy) (t : Tick) (st : State) (now : Int) (h : OffCfg cfg st) :
    OffCfg cfg (reduce cfg pol t st now).1 := by
  have wi : ∀ r : State × List Cmd, OffCfg cfg r.1 →
      OffCfg cfg (if checkIdle cfg r.1 then (r.1, r.2 ++ [Cmd.scheduleIdleCheck]) else r).1 := by
    intro r hr; split <;> exact hr
  cases t with
  | stepResult step worker ev res => exact wi _ (processStepResult_offCfg cfg pol step worker ev res st now h)
  | addEvent att target => exact wi _ (processAddEvent_offCfg cfg att target st now h)
  | cancelRun => exact wi (st, _) h
  | idleRelease => exact h
  | publish ev => exact wi (st, _) h
  | timeout t => exact wi ({ st with isRunning := false }, _) (h.of_workers rfl)
  | waiterTimeout step waiter => exact wi _ (processWaiterTimeout_offCfg cfg step waiter st now h)
  | idleCheck =>
    simp only [reduce]
    split <;> exact h

theorem rewindLoop_offCfg (cfg : Cfg) (now : Int) : ∀ (cs : List StepCfg) (st : State) (cmds : List Cmd),
    (∀ c ∈ cs, cfg.hasStep c.name = true) → OffCfg cfg st → OffCfg cfg (rewindLoop now cs st cmds).1
  | [], st, cmds, _, h => h
  | c :: cs, st, cmds, hc, h => by
    unfold rewindLoop
    exact rewindLoop_offCfg cfg now cs _ _ (fun d hd => hc d (by simp [hd])) (h.set (hc c (by simp)) _)

theorem rewind_offCfg (cfg : Cfg) (st : State) (now : Int) (h : OffCfg cfg st) : OffCfg cfg (rewind cfg st now).1 :=
  rewindLoop_offCfg cfg now _ st [] (fun c hc => hasStep_of_mem_steps (mem_sortedSteps_iff.mp hc)) h

theorem init_offCfg (cfg : Cfg) (st0 : State) (now : Int) (start : Option Ev) (timeout : Option Nat)
    (h : OffCfg cfg st0) : OffCfg cfg (Runner.init cfg st0 now start timeout).st := by
  unfold Runner.init
  simp only
  rw [(execCmds_st_log _ _).1]
  exact rewind_offCfg cfg st0 now h

theorem step_offCfg (cfg : Cfg) (pol : Policy) (r : Runner) (a : Act) (h : OffCfg cfg r.st) :
    OffCfg cfg (r.step cfg pol a).st := by
  unfold Runner.step
  split
  · exact h
  · cases a with
    | drain =>
      simp only
      split
      · exact h
      · rename_i t rest _
        split
        · exact h
        · rw [(execCmds_st_log _ _).1]
          exact reduce_offCfg cfg pol t r.st r.now h
    | workerDone s w res =>
      simp only
      split
      · exact h
      · split <;> exact h
    | pull =>
      simp only
      split
      · exact h
      · split <;> exact h
    | timer =>
      simp only
      split <;> exact h
    | advance dt => exact h
    | external t =>
      simp only
      split <;> exact h
    | stepWrite p => exact h

theorem run_offCfg (cfg : Cfg) (pol : Policy) : ∀ (acts : List Act) (r : Runner), OffCfg cfg r.st →
    OffCfg cfg (Runner.run cfg pol r acts).st
  | [], r, h => h
  | a :: as, r, h => by
    simp only [Runner.run, List.foldl_cons]
    exact run_offCfg cfg pol as _ (step_offCfg cfg pol r a h)

end Engine
