import WfModel.Serial
import WfProofs.EngineWait
import WfProofs.EngineRoute
/-!
# C10 — a waiting step resumes once, with a matching event or a timeout

Model: `waitForEvent` (the pure part of `ctx.wait_for_event`, tied by correspondence), the waiter
branches of the reducer, and the serialised form of waiters (`Serial`).

* **matching**: in every state reachable by any tick sequence (any schedule, any step results),
  in the live waiter lists *and in every snapshot a running invocation sees*, a resolved waiter's
  event has the awaited type and satisfies the recorded requirement; `wait_for_event` hands the
  step exactly that event; the waiter records exactly the requested type and requirement;
* **once**: a resolved waiter never matches again — however many matching events arrive, the
  waiter loop places one replay per *newly* resolved waiter and none for resolved ones (F09,
  repaired in this tree); a timeout tick for a resolved waiter does nothing, for an unresolved
  one it marks it and places exactly one replay;
* **waiter_event**: published only when a waiter with a new id is added, never on replacement;
* **serialise / resume**: id, replay event, awaited type and resolved event survive; the
  `timed_out` mark survives too (F28, repaired in this tree); the requirement does not —
  `C10_refuted_resume_requirements` (known finding, replayed on the implementation).
-/
set_option linter.unusedVariables false
open Engine

/-- states reachable from a sound state by rewinding and any sequence of (tick, clock) pairs -/
def C10.reach (cfg : Cfg) (pol : Policy) (st0 : State) (now0 : Int) (ticks : List (Tick × Int)) : State :=
  ticks.foldl (fun st tn => (reduce cfg pol tn.1 st tn.2).1) (rewind cfg st0 now0).1

/-- **for every schedule and every step behaviour**: resolved waiters hold an event of the awaited
type that satisfies the recorded requirement, in live lists and in every running snapshot -/
theorem C10_resolved_events_match (cfg : Cfg) (pol : Policy) (st0 : State) (h0 : WaitInv st0)
    (now0 : Int) (ticks : List (Tick × Int)) : WaitInv (C10.reach cfg pol st0 now0 ticks) := by
  unfold C10.reach
  have hr := rewind_waitInv cfg st0 now0 h0
  generalize (rewind cfg st0 now0).1 = st at hr
  induction ticks generalizing st with
  | nil => simpa using hr
  | cons tn rest ih =>
    simp only [List.foldl_cons]
    exact ih _ (reduce_waitInv cfg pol tn.1 st tn.2 hr)

theorem C10_init_sound : WaitInv initState := waitInv_init

/-- what the step body receives from `wait_for_event` is the resolved event of the waiter with
its id; with the invariant it has the awaited type and meets the requirement -/
theorem C10_got_matches (snapshot : List Waiter) (wid ty : Nat) (we : Option Ev) (req tmo : Option Nat)
    (e : Ev) (hs : WaitersSound snapshot)
    (h : waitForEvent snapshot wid ty we req tmo = .got e) :
    ∃ w ∈ snapshot, w.wid = wid ∧ w.resolved = some e ∧ w.timedOut = false ∧ e.ty = w.waitTy ∧
      ∀ v, w.req = some v → e.key = some v := by
  unfold waitForEvent at h
  split at h
  · rename_i w hf
    have hmem := List.mem_of_find?_eq_some hf
    have hwid : w.wid = wid := by simpa using List.find?_some hf
    split at h
    · cases h
    · rename_i hto
      split at h
      · rename_i e' hres
        injection h with h; subst h
        obtain ⟨h1, h2⟩ := hs w hmem e' hres
        exact ⟨w, hmem, hwid, hres, by simpa using hto, h1, h2⟩
      · cases h
  · cases h

/-- a timed-out waiter makes the replay raise `TimeoutError`; an unknown or unresolved waiter
makes it suspend again with exactly the requested parameters -/
theorem C10_wait_outcomes (snapshot : List Waiter) (wid ty : Nat) (we : Option Ev) (req tmo : Option Nat) :
    (waitForEvent snapshot wid ty we req tmo = .timeout ↔
      ∃ w, snapshot.find? (fun w => w.wid == wid) = some w ∧ w.timedOut = true) ∧
    (∀ a, waitForEvent snapshot wid ty we req tmo = .waiting a → a = .addWaiter wid we req tmo ty) := by
  unfold waitForEvent
  constructor
  · constructor
    · intro h
      split at h
      · rename_i w hf
        split at h
        · rename_i hto; exact ⟨w, hf, hto⟩
        · split at h <;> cases h
      · cases h
    · rintro ⟨w, hf, hto⟩
      simp [hf, hto]
  · intro a h
    split at h
    · split at h
      · cases h
      · split at h
        · cases h
        · injection h with h; exact h.symm
    · injection h with h; exact h.symm

/-- the reducer records exactly what was requested: after `AddWaiter` the waiter with this id
waits for the requested type with the requested requirement, unresolved and not timed out, and
replays the invocation's own event -/
theorem C10_waiter_records_request (cfg : Cfg) (pol : Policy) (step : Nat) (tickEv : Ev) (dc : Bool)
    (acc : ResAcc) (wid : Nat) (we : Option Ev) (req tmo : Option Nat) (ty : Nat) :
    ∃ w, ((applyRes cfg pol step tickEv dc acc (.addWaiter wid we req tmo ty)).st.workers step).waiters.find?
        (fun x => x.wid == wid) = some w ∧
      w.waitTy = ty ∧ w.req = req ∧ w.resolved = none ∧ w.timedOut = false ∧ w.ev = acc.exec.ev := by
  simp only [applyRes]
  have key : ∀ (l : List Waiter) (w : Waiter), w.wid = wid → l.any (fun x => x.wid == wid) = true →
      (modifyFirst (fun x => x.wid == wid) (fun _ => w) l).find? (fun x => x.wid == wid) = some w := by
    intro l w hw
    induction l with
    | nil => simp
    | cons x xs ih =>
      intro hany
      unfold modifyFirst
      by_cases hx : (x.wid == wid) = true
      · simp [hx, List.find?_cons, hw]
      · simp only [hx, Bool.false_eq_true, if_false, List.find?_cons]
        simp only [List.any_cons, hx, Bool.false_or] at hany
        exact ih hany
  split
  · rename_i hany
    refine ⟨(newWaiter acc.exec wid ty req), ?_, rfl, rfl, rfl, rfl, rfl⟩
    simp only [State.set, if_true]
    exact key _ _ rfl hany
  · rename_i hany
    refine ⟨(newWaiter acc.exec wid ty req), ?_, rfl, rfl, rfl, rfl, rfl⟩
    simp only [State.set, if_true]
    rw [List.find?_append]
    have : (acc.st.workers step).waiters.find? (fun x => x.wid == wid) = none := by
      rw [List.find?_eq_none]
      intro x hx
      simp only [List.any_eq_true, not_exists, not_and] at hany
      exact hany x hx
    simp [this, newWaiter]

/-- **once per wait**: a waiter that already has its event never matches again -/
theorem C10_no_rematch (w : Waiter) (ev : Ev) (h : w.resolved.isSome) : waiterMatches w ev = false := by
  cases hr : w.resolved with
  | none => simp [hr] at h
  | some e => simp [waiterMatches, hr]

/-- a waiter whose timeout already fired is being replayed to raise `TimeoutError`; a late
matching event does not resolve it as well (repaired in this tree) -/
theorem C10_timed_out_not_resolved (w : Waiter) (ev : Ev) (h : w.timedOut = true) :
    waiterMatches w ev = false := by
  simp [waiterMatches, h]

/-- hence, however many matching events arrive: the waiter loop places **one replay per newly
resolved waiter**, leaves resolved waiters (and their events) untouched, and changes nothing else -/
theorem C10_replay_once_per_resolution (ev : Ev) (step nw : Nat) (now : Int) (ss : StepState)
    (hids : IdsOk ss nw) :
    let r := resolveLoop ev step nw now [] ss.waiters ss [] false
    size r.1 = size ss + (ss.waiters.filter (fun w => waiterMatches w ev)).length ∧
    r.1.waiters = ss.waiters.map (fun w => if waiterMatches w ev then { w with resolved := some ev } else w) ∧
    (∀ w ∈ ss.waiters, w.resolved.isSome → w ∈ r.1.waiters) := by
  obtain ⟨h1, h2, _⟩ := resolveLoop_spec ev step nw now ss.waiters [] ss [] false hids
  refine ⟨h1, by simpa using h2, fun w hw hres => ?_⟩
  rw [h2]
  simp only [List.nil_append, List.mem_map]
  exact ⟨w, hw, by simp [C10_no_rematch w ev hres]⟩

/-- a second matching event finds nothing to resolve among the waiters the first one resolved -/
theorem C10_second_event_no_replay (ev1 ev2 : Ev) (ws : List Waiter)
    (hall : ∀ w ∈ ws, waiterMatches w ev1 = true) :
    (ws.map (fun w => if waiterMatches w ev1 then { w with resolved := some ev1 } else w)).filter
      (fun w => waiterMatches w ev2) = [] := by
  rw [List.filter_eq_nil_iff]
  intro w hw
  obtain ⟨w0, hw0, rfl⟩ := List.mem_map.mp hw
  rw [if_pos (hall w0 hw0)]
  simp [waiterMatches]

/-- **waiter_event once per waiter id**: it is published exactly when no waiter with this id
exists; replacing an existing waiter publishes nothing and schedules no second timeout -/
theorem C10_waiter_event_iff_new (cfg : Cfg) (pol : Policy) (step : Nat) (tickEv : Ev) (dc : Bool)
    (acc : ResAcc) (wid : Nat) (e : Ev) (req tmo : Option Nat) (ty : Nat) :
    let acc' := applyRes cfg pol step tickEv dc acc (.addWaiter wid (some e) req tmo ty)
    (((acc.st.workers step).waiters.any (fun x => x.wid == wid)) = true → acc'.cmds = acc.cmds) ∧
    (((acc.st.workers step).waiters.any (fun x => x.wid == wid)) = false →
      acc'.cmds = acc.cmds ++ [.publish (.event e)] ++
        (match tmo with | some t => [Cmd.scheduleWaiterTimeout step wid t] | none => [])) := by
  simp only [applyRes]
  constructor
  · intro h; simp [h]
  · intro h; simp only [h, Bool.false_eq_true, if_false]; cases tmo <;> simp

/-- **timeout at most once**: a timeout tick for a waiter that already has its event, or that no
longer exists, changes nothing and replays nothing -/
theorem C10_timeout_after_resolution_noop (cfg : Cfg) (step waiter : Nat) (st : State) (now : Int)
    (h : ∀ w, (st.workers step).waiters.find? (fun w => w.wid == waiter) = some w → w.resolved.isSome) :
    processWaiterTimeout cfg step waiter st now = (st, []) := by
  unfold processWaiterTimeout
  split
  · rfl
  · simp only
    split
    · rfl
    · rename_i w hf
      simp [h w hf]

/-- for an unresolved waiter the timeout marks it and places exactly one replay of its event -/
theorem C10_timeout_marks_and_replays_once (cfg : Cfg) (step waiter : Nat) (st : State) (now : Int)
    (w : Waiter) (hstep : cfg.hasStep step = true)
    (hf : (st.workers step).waiters.find? (fun w => w.wid == waiter) = some w)
    (hun : w.resolved = none) (hids : IdsOk (st.workers step) (cfg.nw step)) :
    let r := processWaiterTimeout cfg step waiter st now
    size (r.1.workers step) = size (st.workers step) + 1 ∧
    (r.1.workers step).waiters =
      modifyFirst (fun x => x.wid == waiter) (fun x => { x with timedOut := true }) (st.workers step).waiters := by
  unfold processWaiterTimeout
  simp only [hstep, Bool.not_true, Bool.false_eq_true, if_false, hf, hun, Option.isSome_none]
  constructor
  · simp only [State.set, if_true]
    generalize hws : modifyFirst (fun x : Waiter => x.wid == waiter) (fun x => { x with timedOut := true })
      (st.workers step).waiters = ws
    have hids' : IdsOk ⟨(st.workers step).queue, (st.workers step).inProg, (st.workers step).collected, ws⟩
        (cfg.nw step) := hids
    rw [addOrEnqueue_size _ _ _ _ _ hids']
    simp [size]
  · simp only [State.set, if_true]
    exact (addOrEnqueue_collected _ _ _ _ _).2

/-! ## serialise / resume -/

/-- what survives the snapshot: id, replay event, awaited type, resolved event; the flag
remembers that there were requirements -/
theorem C10_resume_keeps (w : Waiter) :
    let w' := deserWaiter (serWaiter w)
    w'.wid = w.wid ∧ w'.ev = w.ev ∧ w'.waitTy = w.waitTy ∧ w'.resolved = w.resolved ∧
      w'.hasReq = (w.req.isSome || w.hasReq) := by
  simp [deserWaiter, serWaiter]

/-- a waiter without requirements that has not timed out comes back unchanged, and soundness of
the resolved events is kept by the round trip -/
theorem C10_resume_partial (w : Waiter) (hr : w.req = none) :
    deserWaiter (serWaiter w) = w := by
  cases w; simp_all [deserWaiter, serWaiter]

theorem C10_resume_sound (ws : List Waiter) (h : WaitersSound ws) :
    WaitersSound ((ws.map serWaiter).map deserWaiter) := by
  intro w hw
  simp only [List.map_map, List.mem_map, Function.comp] at hw
  obtain ⟨w0, hw0, rfl⟩ := hw
  intro e he
  exact ⟨(h w0 hw0 e (by simpa [deserWaiter, serWaiter] using he)).1, fun v hv => by simp [deserWaiter] at hv⟩

/-- full statement: a resumed waiter still rejects events that do not meet its requirement -/
def C10_statement_resume_requirements : Prop :=
  ∀ (w : Waiter) (v : Nat) (e : Ev), w.req = some v → w.resolved = none → e.ty = w.waitTy →
    e.key ≠ some v → waiterMatches (deserWaiter (serWaiter w)) e = false

/-- refuted (F30): requirements are not serialised, the resumed waiter accepts `k = 2` for a
wait that asked for `k = 1` until the re-pinged step has replayed -/
theorem C10_refuted_resume_requirements : ¬ C10_statement_resume_requirements := by
  intro h
  have := h { wid := 1, ev := { ty := 5, kind := .plain, uid := 1 }, waitTy := 3, req := some 1, hasReq := true }
    1 { ty := 3, kind := .plain, uid := 2, key := some 2 } rfl rfl rfl (by decide)
  revert this; decide

/-- a waiter whose timeout fired before the snapshot still raises after resume: `timed_out` is
part of the serialised waiter (repaired in this tree, F28) -/
theorem C10_resume_timeout (w : Waiter) : (deserWaiter (serWaiter w)).timedOut = w.timedOut := rfl

/-! ## non-vacuity -/

def C10.exW : Waiter :=
  { wid := 1, ev := { ty := 5, kind := .plain, uid := 1 }, waitTy := 3, req := some 1, hasReq := true,
    resolved := some { ty := 3, kind := .plain, uid := 9, key := some 1 } }

example : WaitersSound [C10.exW] := by
  intro w hw e he
  simp at hw; subst hw
  simp [C10.exW] at he; subst he
  exact ⟨rfl, fun v hv => by simp [C10.exW] at hv; subst hv; rfl⟩

example : waitForEvent [C10.exW] 1 3 none (some 1) (some 5)
    = .got { ty := 3, kind := .plain, uid := 9, key := some 1 } := by decide

/-! ## the default waiter id (no `waiter_id=` given)

The id is a function of the awaited type and of the whole requirement (keys and values); the numbers that stand for these
names form a table (`AutoIds`), and the table names different waits differently (`wellFormed`, checked by the driver when
the table is installed).  So two waits of one step that differ only in a requirement VALUE are two waiters, and a wait
with the default id only ever consumes a waiter that was registered for the same request. -/

theorem C10.mem_of_lookup (ids : AutoIds) (ty : Nat) (req : Option Nat) (w : Nat)
    (h : ids.lookup ty req = some w) : ((ty, req), w) ∈ ids := by
  unfold AutoIds.lookup at h
  cases hf : ids.find? (fun p => p.1 == (ty, req)) with
  | none => simp [hf] at h
  | some p =>
    simp only [hf, Option.map_some, Option.some.injEq] at h
    have hm := List.mem_of_find?_eq_some hf
    have hk : p.1 = (ty, req) := by simpa using List.find?_some hf
    have : p = ((ty, req), w) := by
      cases p with
      | mk a b => simp only at hk h; subst hk; subst h; rfl
    exact this ▸ hm

theorem C10.eq_of_nodup_snd {α : Type} (l : List (α × Nat)) (h : (l.map (·.2)).Nodup) (a b : α × Nat)
    (ha : a ∈ l) (hb : b ∈ l) (hab : a.2 = b.2) : a = b := by
  induction l with
  | nil => cases ha
  | cons x xs ih =>
    simp only [List.map_cons, List.nodup_cons] at h
    obtain ⟨hx, hxs⟩ := h
    rcases List.mem_cons.mp ha with ha | ha <;> rcases List.mem_cons.mp hb with hb | hb
    · rw [ha, hb]
    · exfalso; apply hx; rw [← ha, hab]; exact List.mem_map.mpr ⟨b, hb, rfl⟩
    · exfalso; apply hx; rw [← hb, ← hab]; exact List.mem_map.mpr ⟨a, ha, rfl⟩
    · exact ih hxs ha hb

/-- **different waits, different default ids**: under a well-formed naming, two requests that get the same default id
ask for the same type with the same requirement — in particular requirements with the same key and different values
never share a waiter -/
theorem C10_default_ids_distinct (ids : AutoIds) (hwf : ids.wellFormed = true) (ty1 ty2 : Nat) (r1 r2 : Option Nat)
    (w : Nat) (h1 : ids.lookup ty1 r1 = some w) (h2 : ids.lookup ty2 r2 = some w) : ty1 = ty2 ∧ r1 = r2 := by
  have hnd : (ids.map (·.2)).Nodup := by simpa [AutoIds.wellFormed] using hwf
  have := C10.eq_of_nodup_snd ids hnd _ _ (C10.mem_of_lookup ids ty1 r1 w h1) (C10.mem_of_lookup ids ty2 r2 w h2) rfl
  simp only [Prod.mk.injEq, and_true] at this
  exact this

/-- every waiter stored under a default id records the request that id names (what `AddWaiter` establishes,
`C10_waiter_records_request`, while the requirements are live — not across a resume, see the refutation above) -/
def C10.NamedByRequest (ids : AutoIds) (ws : List Waiter) : Prop :=
  ∀ x ∈ ws, ∀ ty r, ids.lookup ty r = some x.wid → x.waitTy = ty ∧ x.req = r

/-- **the event a default-id wait returns satisfies what THAT wait asked for**: type and requirement of the request
itself (not merely of some waiter record) -/
theorem C10_default_wait_gets_own_reply (ids : AutoIds) (snapshot : List Waiter) (ty : Nat) (we : Option Ev)
    (req tmo : Option Nat) (wid : Nat) (e : Ev) (hs : WaitersSound snapshot) (hn : C10.NamedByRequest ids snapshot)
    (h : waitForEventAuto ids snapshot none ty we req tmo = some (wid, .got e)) :
    e.ty = ty ∧ ∀ v, req = some v → e.key = some v := by
  unfold waitForEventAuto at h
  cases hl : ids.lookup ty req with
  | none => simp [hl] at h
  | some w0 =>
    simp only [hl, Option.map_some, Option.some.injEq, Prod.mk.injEq] at h
    obtain ⟨hw, hg⟩ := h
    obtain ⟨w, hmem, hwid, _, _, hty, hreq⟩ := C10_got_matches snapshot w0 ty we req tmo e hs hg
    obtain ⟨h1, h2⟩ := hn w hmem ty req (by rw [hwid]; exact hl)
    exact ⟨by rw [hty, h1], fun v hv => hreq v (by rw [h2]; exact hv)⟩

/-- a default-id wait whose request has no waiter yet suspends, registering exactly that request under its own id -/
theorem C10_default_wait_registers_own (ids : AutoIds) (snapshot : List Waiter) (ty : Nat) (we : Option Ev)
    (req tmo : Option Nat) (w0 : Nat) (hl : ids.lookup ty req = some w0)
    (hnew : snapshot.find? (fun x => x.wid == w0) = none) :
    waitForEventAuto ids snapshot none ty we req tmo = some (w0, .waiting (.addWaiter w0 we req tmo ty)) := by
  simp [waitForEventAuto, hl, waitForEvent, hnew]

def C10.exIds : AutoIds := [((3, some 1), 101), ((3, some 2), 102), ((3, none), 103), ((11, some 1), 100)]

example : C10.exIds.wellFormed = true := by decide
example : C10.exIds.lookup 3 (some 1) = some 101 ∧ C10.exIds.lookup 3 (some 2) = some 102 := by decide
/-- two waits of one step for type 3, `k = 1` (answered) and then `k = 2`: the second does not see the first's event -/
example : waitForEventAuto C10.exIds [{ C10.exW with wid := 101 }] none 3 none (some 2) none
    = some (102, .waiting (.addWaiter 102 none (some 2) none 3)) := by decide
example : waitForEventAuto C10.exIds [{ C10.exW with wid := 101 }] none 3 none (some 1) none
    = some (101, .got { ty := 3, kind := .plain, uid := 9, key := some 1 }) := by decide
example : C10.NamedByRequest C10.exIds [{ C10.exW with wid := 101 }] := by
  intro x hx ty r hl
  simp at hx; subst hx
  have := C10.mem_of_lookup C10.exIds ty r 101 hl
  simp [C10.exIds] at this
  obtain ⟨h1, h2⟩ := this
  subst h1; subst h2
  exact ⟨rfl, rfl⟩
