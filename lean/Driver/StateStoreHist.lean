import WfModel.StateStoreHist
import Driver.StateStore
open StateStore Drv

/-! Line protocol for the C19 extension streams (value / op encoding as in `Driver/StateStore.lean`).

  `init|live|memp|sqlp|sqlr|<ty>|<schema>`  → `ok`
  then the sequential op lines (`get|..`, `set|..`, `getstate`, `setstate|..`, `clear`, `edit|..`, `mutsnap|..`, `writeback`):
  * `live`  — `Spec.stepLive`, the nested dict edited in place                     → `<out>`
  * `memp`  — `Mem.step`; the answer carries what the store holds after the op     → `<out> ;; state <ty> <object>`
  * `sqlp`  — `Sql.step`; ditto (`Sql.abs`)                                        → `<out> ;; state <ty> <object>`
  * `sqlr`  — `Sql.step`; the answer carries the database row after the op         → `<out> ;; norow` | `<out> ;; row <ty> <object>`
  `persist|reopen|copy|migrate`: the store is replaced by one restored from its serialized payload (`Mem.persist` /
  `Sql.persist`; nothing happens to the dict of `live`) → `none`, with the same suffix as an op of that machine
-/
namespace Drv.StateStoreHist
open Drv.StateStore

inductive Machine where
  | none
  | live (s : Spec)
  | memp (m : Mem)
  | sqlp (s : Sql)
  | sqlr (s : Sql)

structure St where
  m : Machine := .none
  sc : Schema := []
  ty : Ty := .dict

def showRow (s : Sql) : String :=
  match s.row with
  | some d => s!"row {showTy s.ty} {showJson (.obj d)}"
  | none => "norow"

def step (st : St) (line : String) : St × String :=
  let fs := line.splitOn "|"
  match fs with
  | ["init", be, tys, scs] =>
    match parseTy? tys, parseSchema? scs with
    | some ty, some sc =>
      let m : Option Machine :=
        if be == "live" then some (.live (Spec.init sc ty))
        else if be == "memp" then some (.memp (Mem.init sc ty))
        else if be == "sqlp" then some (.sqlp (Sql.init sc ty))
        else if be == "sqlr" then some (.sqlr (Sql.init sc ty))
        else none
      match m with
      | some mm => ({ m := mm, sc := sc, ty := ty }, "ok")
      | none => (st, "bad-op")
    | _, _ => (st, "bad-op")
  | ["persist", how] =>
    let p? : Option Persist :=
      if how == "reopen" then some .reopen else if how == "copy" then some .copyRun
      else if how == "migrate" then some .migrate else none
    match st.m, p? with
    | .live _, some _ => (st, showOut .none)
    | .memp m, some p => let m' := m.persist p; ({ st with m := .memp m' }, s!"{showOut .none} ;; {showRoot m'.root}")
    | .sqlp s, some p => let s' := s.persist p; ({ st with m := .sqlp s' }, s!"{showOut .none} ;; {showRoot s'.abs}")
    | .sqlr s, some p => let s' := s.persist p; ({ st with m := .sqlr s' }, s!"{showOut .none} ;; {showRow s'}")
    | _, _ => (st, "bad-op")
  | _ =>
    match st.m, parseOp? st.sc st.ty fs with
    | .live s, some op => let (s', o) := s.stepLive op; ({ st with m := .live s' }, showOut o)
    | .memp m, some op => let (m', o) := m.step op; ({ st with m := .memp m' }, s!"{showOut o} ;; {showRoot m'.root}")
    | .sqlp s, some op => let (s', o) := s.step op; ({ st with m := .sqlp s' }, s!"{showOut o} ;; {showRoot s'.abs}")
    | .sqlr s, some op => let (s', o) := s.step op; ({ st with m := .sqlr s' }, s!"{showOut o} ;; {showRow s'}")
    | _, _ => (st, "bad-op")

end Drv.StateStoreHist
