import WfProofs.StateStoreSeq
/-! Lemmas for C20: with every writer under the store lock, the order in which operations
complete is a serialisation order.  Generic in the backend. -/
namespace StateStore

variable {σ : Type}

/-- sequential effect on the store of one task's operation -/
def seqOp (B : Backend σ) (st : σ) (op : COp) : σ := (B.step st op.toOp).1

/-- running the chunks of an `edit_state` body one after the other, from `begin`, is the
sequential `edit` operation on the concatenated body -/
def EditLaw (B : Backend σ) : Prop :=
  ∀ (st : σ) (cs : List (List Mut)),
    runBody B (B.begin st).1 (B.begin st).2 (chunksOf (.edit cs)).1 (chunksOf (.edit cs)).2
      = (B.step st (.edit cs.flatten)).1

theorem serial_append (B : Backend σ) (prog : List COp) (st : σ) (log : List Nat) (t : Nat) (op : COp)
    (h : prog[t]? = some op) : serial B prog st (log ++ [t]) = seqOp B (serial B prog st log) op := by
  simp [serial, List.foldl_append, h, seqOp]

/-! ### the two backends satisfy the law -/

theorem mem_runBody (rest : List (List Mut)) : ∀ (m : Mem) (w : Root) (c : List Mut),
    runBody memBackend m w c rest = { m with root := (runMuts w (c ++ rest.flatten)).1 } := by
  induction rest with
  | nil =>
    intro m w c
    simp only [runBody, List.flatten_nil, List.append_nil]
    cases h : runMuts w c with
    | mk w' e => cases e <;> simp [memBackend]
  | cons c' rest ih =>
    intro m w c
    simp only [runBody, List.flatten_cons]
    rw [runMuts_append]
    cases h : runMuts w c with
    | mk w' e =>
      cases e with
      | some e => simp [memBackend]
      | none =>
        simp only []
        rw [ih]
        simp [memBackend]

theorem mem_editLaw : EditLaw memBackend := by
  intro m cs
  cases cs with
  | nil =>
    simp only [chunksOf, List.flatten_nil]
    rw [mem_runBody]
    simp [memBackend, Mem.step, runMuts]
  | cons c rest =>
    simp only [chunksOf, List.flatten_cons]
    rw [mem_runBody]
    simp only [memBackend, Mem.step]
    cases h : runMuts m.root (c ++ rest.flatten) with
    | mk r e => cases e <;> rfl

theorem sql_runBody (rest : List (List Mut)) : ∀ (q : Sql) (w : Root) (c : List Mut),
    runBody sqlBackend q w c rest =
      (match runMuts w (c ++ rest.flatten) with
       | (r, none) => q.save r
       | (_, some _) => q) := by
  induction rest with
  | nil =>
    intro q w c
    simp only [runBody, List.flatten_nil, List.append_nil]
    cases h : runMuts w c with
    | mk w' e => cases e <;> simp [sqlBackend]
  | cons c' rest ih =>
    intro q w c
    simp only [runBody, List.flatten_cons]
    rw [runMuts_append]
    cases h : runMuts w c with
    | mk w' e =>
      cases e with
      | some e => simp [sqlBackend]
      | none =>
        simp only []
        rw [ih]
        simp [sqlBackend]

theorem sql_editLaw : EditLaw sqlBackend := by
  intro q cs
  cases cs with
  | nil =>
    simp only [chunksOf, List.flatten_nil]
    rw [sql_runBody]
    simp [sqlBackend, Sql.step, Sql.edit, runMuts]
  | cons c rest =>
    simp only [chunksOf, List.flatten_cons]
    rw [sql_runBody]
    simp only [sqlBackend, Sql.step, Sql.edit]
    cases h : runMuts q.load.2 (c ++ rest.flatten) with
    | mk r e => cases e <;> rfl

/-! ### the invariant -/

structure Inv (B : Backend σ) (prog : List COp) (st0 : σ) (s : Sys σ) : Prop where
  len : s.pcs.length = prog.length
  nodup : s.log.Nodup
  logDone : ∀ t : Nat, t ∈ s.log ↔ s.pcs[t]? = some Pc.done
  free : s.holder = none → s.store = serial B prog st0 s.log ∧ ∀ (t : Nat) c w, s.pcs[t]? ≠ some (Pc.body c w)
  held : ∀ t : Nat, s.holder = some t → ∃ cs c rest w, prog[t]? = some (.edit cs) ∧
    s.pcs[t]? = some (Pc.body (c :: rest) w) ∧
    runBody B s.store w c rest = seqOp B (serial B prog st0 s.log) (.edit cs) ∧
    ∀ (t' : Nat) c' w', t' ≠ t → s.pcs[t']? ≠ some (Pc.body c' w')

theorem getElem?_set_pc (pcs : List Pc) (t t' : Nat) (p : Pc) :
    (pcs.set t p)[t']? = if t = t' then (if t < pcs.length then some p else none) else pcs[t']? := by
  by_cases h : t = t'
  · subst h
    by_cases hl : t < pcs.length
    · simp [hl]
    · simp [hl, List.getElem?_eq_none (Nat.le_of_not_lt hl)]
  · simp [h, List.getElem?_set_ne h]

theorem inv_init (B : Backend σ) (prog : List COp) (st0 : σ) : Inv B prog st0 (Sys.init st0 prog.length) := by
  refine ⟨by simp [Sys.init], by simp [Sys.init], ?_, ?_, ?_⟩
  · intro t
    simp only [Sys.init, List.not_mem_nil, false_iff]
    intro h
    rw [List.getElem?_replicate] at h
    split at h <;> cases h
  · intro _
    refine ⟨by simp [Sys.init, serial], ?_⟩
    intro t c w h
    simp only [Sys.init] at h
    rw [List.getElem?_replicate] at h
    split at h <;> cases h
  · intro t h
    simp [Sys.init] at h

/-- one chunk of the body of the lock holder -/
theorem inv_runChunk (B : Backend σ) (prog : List COp) (st0 : σ) (s : Sys σ) (t : Nat)
    (cs : List (List Mut)) (c : List Mut) (rest : List (List Mut)) (w : Root)
    (hlen : s.pcs.length = prog.length) (hnd : s.log.Nodup)
    (hld : ∀ t', t' ∈ s.log ↔ s.pcs[t']? = some .done)
    (hp : prog[t]? = some (.edit cs)) (htl : t < s.pcs.length) (hnot : s.pcs[t]? ≠ some .done)
    (hbody : runBody B s.store w c rest = seqOp B (serial B prog st0 s.log) (.edit cs))
    (hoth : ∀ (t' : Nat) c' w', t' ≠ t → s.pcs[t']? ≠ some (Pc.body c' w')) :
    Inv B prog st0 (runChunk B s t c rest w) := by
  have htlog : t ∉ s.log := fun h => hnot ((hld t).1 h)
  have finish : ∀ st' : σ, st' = seqOp B (serial B prog st0 s.log) (.edit cs) →
      Inv B prog st0 { s with store := st', holder := none, pcs := s.pcs.set t .done, log := s.log ++ [t] } := by
    intro st' hst
    refine ⟨by simp [hlen], ?_, ?_, ?_, ?_⟩
    · simp only []
      rw [List.nodup_append]
      refine ⟨hnd, by simp, ?_⟩
      intro a ha b hb
      simp only [List.mem_singleton] at hb
      subst hb
      intro hab
      subst hab
      exact htlog ha
    · intro t'
      simp only [List.mem_append, List.mem_singleton, getElem?_set_pc]
      by_cases h : t = t'
      · subst h; simp [htl]
      · simp only [h, if_false]
        rw [hld t']
        constructor
        · rintro (h1 | h1)
          · exact h1
          · exact absurd h1.symm h
        · exact Or.inl
    · intro _
      refine ⟨?_, ?_⟩
      · simp only []
        rw [serial_append B prog st0 s.log t _ hp, hst]
      · intro t' c' w'
        simp only [getElem?_set_pc]
        by_cases h : t = t'
        · subst h; simp [htl]
        · simp only [h, if_false]; exact hoth t' c' w' (Ne.symm h)
    · intro t' h; simp at h
  unfold runChunk
  cases hm : runMuts w c with
  | mk w' e =>
    cases e with
    | some e =>
      simp only []
      apply finish
      rw [← hbody]
      cases rest <;> simp [runBody, hm]
    | none =>
      cases rest with
      | nil =>
        simp only []
        apply finish
        rw [← hbody]
        simp [runBody, hm]
      | cons c' rest' =>
        simp only []
        refine ⟨by simp [hlen], hnd, ?_, ?_, ?_⟩
        · intro t'
          simp only [getElem?_set_pc]
          by_cases h : t = t'
          · subst h
            simp only [if_true, htl]
            constructor
            · intro h1; exact absurd h1 htlog
            · intro h1; cases h1
          · simp only [h, if_false]; exact hld t'
        · intro h; simp at h
        · intro t' ht'
          simp only [Option.some.injEq] at ht'
          subst ht'
          refine ⟨cs, c', rest', w', hp, by simp [getElem?_set_pc, htl], ?_, ?_⟩
          · simp only []
            rw [← hbody]
            simp [runBody, hm]
          · intro t'' c'' w'' hne
            simp only [getElem?_set_pc]
            simp only [Ne.symm hne, if_false]
            exact hoth t'' c'' w'' hne

/-- a task gets the (free) lock, or needs none, and starts -/
theorem inv_enter (B : Backend σ) (hedit : EditLaw B) (prog : List COp) (st0 : σ) (s : Sys σ) (t : Nat) (op : COp)
    (I : Inv B prog st0 s) (hfree : s.holder = none) (hp : prog[t]? = some op)
    (htl : t < s.pcs.length) (hnot : s.pcs[t]? ≠ some .done) (q : List Nat) :
    Inv B prog st0 (enter B { s with queue := q } t op) := by
  obtain ⟨hlen, hnd, hld, hfr, hheld⟩ := I
  obtain ⟨hstore, hnobody⟩ := hfr hfree
  have htlog : t ∉ s.log := fun h => hnot ((hld t).1 h)
  have single : ∀ o : COp, prog[t]? = some o →
      Inv B prog st0 { s with queue := q, store := (B.step s.store o.toOp).1, pcs := s.pcs.set t .done,
                              log := s.log ++ [t] } := by
    intro o ho
    refine ⟨by simp [hlen], ?_, ?_, ?_, ?_⟩
    · simp only []
      rw [List.nodup_append]
      refine ⟨hnd, by simp, ?_⟩
      intro a ha b hb
      simp only [List.mem_singleton] at hb
      subst hb
      intro hab
      subst hab
      exact htlog ha
    · intro t'
      simp only [List.mem_append, List.mem_singleton, getElem?_set_pc]
      by_cases h : t = t'
      · subst h; simp [htl]
      · simp only [h, if_false]
        rw [hld t']
        constructor
        · rintro (h1 | h1)
          · exact h1
          · exact absurd h1.symm h
        · exact Or.inl
    · intro _
      refine ⟨?_, ?_⟩
      · simp only []
        rw [serial_append B prog st0 s.log t _ ho, hstore, seqOp]
      · intro t' c' w'
        simp only [getElem?_set_pc]
        by_cases h : t = t'
        · subst h; simp [htl]
        · simp only [h, if_false]; exact hnobody t' c' w'
    · intro t' h
      simp only [hfree] at h
      cases h
  cases op with
  | set p v => exact single _ hp
  | setState i d => exact single _ hp
  | clear => exact single _ hp
  | edit cs =>
    simp only [enter]
    apply inv_runChunk B prog st0 _ t cs _ _ _ (by simpa using hlen) (by simpa using hnd)
      (by simpa using hld) hp (by simpa using htl) (by simpa using hnot)
    · simp only []
      rw [hedit s.store cs, hstore]
      rfl
    · intro t' c' w' _
      exact hnobody t' c' w'

theorem inv_step (B : Backend σ) (hlock : ∀ op, B.locks op = true) (hedit : EditLaw B)
    (prog : List COp) (st0 : σ) (s s' : Sys σ) (t : Nat)
    (I : Inv B prog st0 s) (h : Sys.run B prog s t = some s') : Inv B prog st0 s' := by
  unfold Sys.run at h
  cases hp : prog[t]? with
  | none => rw [hp] at h; simp at h
  | some op =>
    cases hq : s.pcs[t]? with
    | none => rw [hp, hq] at h; simp at h
    | some pc =>
      have htl : t < s.pcs.length := by
        rcases Nat.lt_or_ge t s.pcs.length with hl | hl
        · exact hl
        · rw [List.getElem?_eq_none hl] at hq; cases hq
      rw [hp, hq] at h
      cases pc with
      | done => simp at h
      | idle =>
        simp only [hlock op, if_true] at h
        by_cases hf : s.holder = none ∧ s.queue = []
        · simp only [hf, and_self, if_true, Option.some.injEq] at h
          subst h
          have := inv_enter B hedit prog st0 s t op I hf.1 hp htl (by rw [hq]; simp) s.queue
          simpa using this
        · simp only [hf, if_false, Option.some.injEq] at h
          subst h
          obtain ⟨hlen, hnd, hld, hfr, hheld⟩ := I
          have hlog : t ∉ s.log := fun hm => by
            have := (hld t).1 hm
            rw [hq] at this
            cases this
          refine ⟨by simp [hlen], hnd, ?_, ?_, ?_⟩
          · intro t'
            simp only [getElem?_set_pc]
            by_cases h2 : t = t'
            · subst h2
              simp only [if_true, htl]
              constructor
              · intro h1; exact absurd h1 hlog
              · intro h1; cases h1
            · simp only [h2, if_false]; exact hld t'
          · intro hh
            obtain ⟨h1, h2⟩ := hfr hh
            refine ⟨h1, ?_⟩
            intro t' c' w'
            simp only [getElem?_set_pc]
            by_cases h3 : t = t'
            · subst h3; simp [htl]
            · simp only [h3, if_false]; exact h2 t' c' w'
          · intro th hh
            obtain ⟨cs, c, rest, w, e1, e2, e3, e4⟩ := hheld th hh
            have hne : t ≠ th := by
              intro he
              subst he
              rw [hq] at e2
              cases e2
            refine ⟨cs, c, rest, w, e1, ?_, e3, ?_⟩
            · simp only [getElem?_set_pc, hne, if_false]; exact e2
            · intro t' c' w' hne'
              simp only [getElem?_set_pc]
              by_cases h3 : t = t'
              · subst h3; simp [htl]
              · simp only [h3, if_false]; exact e4 t' c' w' hne'
      | waiting =>
        by_cases hf : s.holder = none ∧ s.queue.head? = some t
        · simp only [hf, and_self, if_true, Option.some.injEq] at h
          subst h
          have := inv_enter B hedit prog st0 s t op I hf.1 hp htl (by rw [hq]; simp) s.queue.tail
          simpa [hf.1] using this
        · simp only [hf, if_false] at h
          cases h
      | body chunks w =>
        cases chunks with
        | nil => simp at h
        | cons c rest =>
          by_cases hh : s.holder = some t
          · simp only [hh, if_true, Option.some.injEq] at h
            subst h
            obtain ⟨hlen, hnd, hld, hfr, hheld⟩ := I
            obtain ⟨cs, c2, rest2, w2, e1, e2, e3, e4⟩ := hheld t hh
            rw [hq] at e2
            simp only [Option.some.injEq, Pc.body.injEq, List.cons.injEq] at e2
            obtain ⟨⟨ec, er⟩, ew⟩ := e2
            subst ec er ew
            exact inv_runChunk B prog st0 s t cs c rest w hlen hnd hld e1 htl (by rw [hq]; simp) e3 e4
          · simp only [hh, if_false] at h
            cases h

theorem inv_runAll (B : Backend σ) (hlock : ∀ op, B.locks op = true) (hedit : EditLaw B)
    (prog : List COp) (st0 : σ) (sched : List Nat) : ∀ (s s' : Sys σ),
    Inv B prog st0 s → Sys.runAll B prog s sched = some s' → Inv B prog st0 s' := by
  induction sched with
  | nil => intro s s' I h; simp only [Sys.runAll, Option.some.injEq] at h; subst h; exact I
  | cons t ts ih =>
    intro s s' I h
    simp only [Sys.runAll] at h
    cases hr : Sys.run B prog s t with
    | none => rw [hr] at h; cases h
    | some s1 =>
      rw [hr] at h
      exact ih s1 s' (inv_step B hlock hedit prog st0 s s1 t I hr) h

/-- when all tasks are done the completion log is a serialisation order -/
theorem serialisable_of_inv (B : Backend σ) (prog : List COp) (st0 : σ) (s : Sys σ)
    (I : Inv B prog st0 s) (hd : s.allDone = true) :
    ∃ order : List Nat, order.Nodup ∧ (∀ t, t ∈ order ↔ t < prog.length) ∧
      s.store = serial B prog st0 order := by
  obtain ⟨hlen, hnd, hld, hfr, hheld⟩ := I
  have hall : ∀ (t : Nat) (p : Pc), s.pcs[t]? = some p → p = Pc.done := by
    intro t p hp
    have hmem : p ∈ s.pcs := List.mem_of_getElem? hp
    unfold Sys.allDone at hd
    rw [List.all_eq_true] at hd
    have := hd p hmem
    cases p <;> simp_all
  have hfree : s.holder = none := by
    cases hh : s.holder with
    | none => rfl
    | some t =>
      obtain ⟨cs, c, rest, w, _, e2, _, _⟩ := hheld t hh
      have := hall t _ e2
      cases this
  refine ⟨s.log, hnd, ?_, (hfr hfree).1⟩
  intro t
  rw [hld t]
  constructor
  · intro h
    rcases Nat.lt_or_ge t s.pcs.length with hl | hl
    · rw [← hlen]; exact hl
    · rw [List.getElem?_eq_none hl] at h; cases h
  · intro h
    have hl : t < s.pcs.length := by rw [hlen]; exact h
    have : s.pcs[t]? = some s.pcs[t] := List.getElem?_eq_getElem hl
    rw [this, hall t _ this]

/-- while an `edit_state` block holds the lock, no step of another task changes the store or
completes an operation -/
theorem no_write_inside_open_edit (B : Backend σ) (hlock : ∀ op, B.locks op = true)
    (prog : List COp) (s s' : Sys σ) (e t : Nat) (hh : s.holder = some e) (hne : t ≠ e)
    (h : Sys.run B prog s t = some s') : s'.store = s.store ∧ s'.log = s.log ∧ s'.holder = some e := by
  unfold Sys.run at h
  cases hp : prog[t]? with
  | none => rw [hp] at h; simp at h
  | some op =>
    cases hq : s.pcs[t]? with
    | none => rw [hp, hq] at h; simp at h
    | some pc =>
      rw [hp, hq] at h
      cases pc with
      | done => simp at h
      | idle =>
        simp only [hlock op, if_true, hh] at h
        simp only [reduceCtorEq, false_and, if_false, Option.some.injEq] at h
        subst h
        exact ⟨rfl, rfl, rfl⟩
      | waiting =>
        simp [hh] at h
      | body chunks w =>
        cases chunks with
        | nil => simp at h
        | cons c rest =>
          have : ¬ (e = t) := fun he => hne he.symm
          simp [hh, this] at h

end StateStore
