import WfModel.GenRunLimit
import WfProofs.RunLimitWorld
import WfProofs.RunLimitAbort
/-!
# C30 — a workflow instance never runs more concurrent runs than its limit

Property theorems only (helper lemmas: `WfProofs/RunLimit*.lean`; model:
`WfModel/RunLimit.lean`).  Quantification: every action list `acts : List Act` —
any number of workflow instances with any limit (`some n`, including `n = 0`, or
`none` = unlimited), any number of runs, started / stepped / cancelled / finished
(with any outcome) / garbage-collected in any order.  `exec acts` skips actions
that are not enabled, so *every* list is a schedule.  Nothing is bounded.

`holding` is the set of runs between entering and leaving `async with sem`, i.e.
the runs whose control loop exists and may execute steps.
-/
open RunLimit

/-- The source still has the shape the model transcribes: a weak registry keyed by
`id(workflow)`, a semaphore created with `workflow._num_concurrent_runs` permits, held
by `async with` across the `yield`, no semaphore for `None`, the run function awaited
inside that context manager by a task that awaits nothing outside of it.  Regenerated
from `/repo` on every run. -/
theorem C30_source_shape :
    Gen.RunLimit.registryCtor = "weakref.WeakValueDictionary()" ∧
    Gen.RunLimit.acquireIsAsyncCm = true ∧
    Gen.RunLimit.acquireBody =
      "if $p1._num_concurrent_runs is None:\n    yield\nelse:\n    $v1 = id($p1)\n    if $v1 in self._max_concurrent_runs:\n        $v2 = self._max_concurrent_runs[$v1]\n    else:\n        $v2 = asyncio.Semaphore($p1._num_concurrent_runs)\n        self._max_concurrent_runs[$v1] = $v2\n    async with $v2:\n        yield" ∧
    Gen.RunLimit.limitedRun =
      "async with self._maybe_acquire_max_concurrent_runs($p2, $p1):\n    return await self.get_or_register($p2).workflow_run_fn($p3, $p4, get_dispatcher().capture_propagation_context())" ∧
    Gen.RunLimit.awaitsOutsideLimit = 0 ∧
    Gen.RunLimit.taskExpr = "asyncio.create_task($f())" := ⟨rfl, rfl, rfl, rfl, rfl, rfl⟩

/-! ## the bound and permit conservation -/

/-- **Bound.** In every reachable state an instance with `num_concurrent_runs = n` has at
most `n` runs inside `async with sem`. -/
theorem C30_bound (acts : List Act) (i : Nat) (x : Inst) (n : Nat)
    (hx : (exec acts).get i = some x) (hl : x.limit = some n) : x.holding.length ≤ n := by
  have hinv := exec_inv acts i x hx
  cases hs : x.sem with
  | none => simp [hinv.idle n hl hs]
  | some s => have := hinv.conserve n s hl hs; omega

example : ∃ x, (exec [.mk 1 (some 2), .on 1 (.start 1), .on 1 (.start 2), .on 1 (.start 3),
    .on 1 (.begin 1), .on 1 (.begin 2), .on 1 (.begin 3)]).get 1 = some x ∧
    x.limit = some 2 ∧ x.holding = [1, 2] ∧ x.waiters = [(3, .pending)] := by
  refine ⟨_, rfl, ?_⟩; decide

/-- **Conservation.** Free permits + runs holding one + permits travelling with a woken
waiter = the limit, in every reachable state — whatever mix of normal returns, failures,
time-outs, user cancellations and task cancellations (before the first step, while
waiting, after the wake-up, while running) led there. -/
theorem C30_conservation (acts : List Act) (i : Nat) (x : Inst) (n : Nat) (s : Sem)
    (hx : (exec acts).get i = some x) (hl : x.limit = some n) (hs : x.sem = some s) :
    s.value + x.holding.length + nInflight s.waiters = n :=
  (exec_inv acts i x hx).conserve n s hl hs

example : ∃ x s, (exec [.mk 1 (some 1), .on 1 (.start 1), .on 1 (.start 2), .on 1 (.begin 1),
    .on 1 (.begin 2), .on 1 (.finish 1 .failed), .on 1 (.cancel 2)]).get 1 = some x ∧
    x.sem = some s ∧ s.value = 0 ∧ x.holding = [] ∧ s.waiters = [(2, .wokenCancel)] := by
  refine ⟨_, _, rfl, rfl, ?_⟩; decide

/-- **No permit leak.** When nobody holds a permit and nobody waits, every permit is
back (so the next `n` runs start at once). -/
theorem C30_no_permit_leak (acts : List Act) (i : Nat) (x : Inst) (n : Nat) (s : Sem)
    (hx : (exec acts).get i = some x) (hl : x.limit = some n) (hs : x.sem = some s)
    (hh : x.holding = []) (hw : s.waiters = []) : s.value = n := by
  have := C30_conservation acts i x n s hx hl hs
  simp [hh, hw, nInflight] at this
  exact this

example : ∃ x s, (exec [.mk 1 (some 1), .on 1 (.start 1), .on 1 (.start 2), .on 1 (.begin 1),
    .on 1 (.begin 2), .on 1 (.finish 1 .timedOut), .on 1 (.cancel 2), .on 1 (.deliver 2)]).get 1 = some x ∧
    x.sem = some s ∧ x.holding = [] ∧ s.waiters = [] ∧ s.value = 1 := by
  refine ⟨_, _, rfl, rfl, ?_⟩; decide

/-- A limited instance without a registry entry has no run inside the limit. -/
theorem C30_no_semaphore_no_holder (acts : List Act) (i : Nat) (x : Inst) (n : Nat)
    (hx : (exec acts).get i = some x) (hl : x.limit = some n) (hs : x.sem = none) :
    x.holding = [] :=
  (exec_inv acts i x hx).idle n hl hs

example : ∃ x, (exec [.mk 1 (some 1), .on 1 (.start 1), .on 1 (.begin 1), .on 1 (.finish 1 .completed),
    .on 1 .gc]).get 1 = some x ∧ x.limit = some 1 ∧ x.sem = none := ⟨_, rfl, rfl, rfl⟩

/-- **`None` = unlimited.** No semaphore is ever created, and a started run that was not
cancelled enters at its first step whatever else is running. -/
theorem C30_unlimited (acts : List Act) (i : Nat) (x : Inst) (r : Nat)
    (hx : (exec acts).get i = some x) (hl : x.limit = none) :
    x.sem = none ∧ (aget r x.created = some false →
      ∃ x', x.step (.begin r) = some (x', []) ∧ r ∈ x'.holding) := by
  refine ⟨(exec_inv acts i x hx).unlimited hl, ?_⟩
  intro hc
  simp [Inst.step, Inst.begin, hc, hl]

example : ∃ x, (exec [.mk 1 none, .on 1 (.start 1), .on 1 (.start 2), .on 1 (.begin 1)]).get 1 = some x ∧
    x.limit = none ∧ aget 2 x.created = some false := ⟨_, rfl, rfl, rfl⟩

/-- **The weak registry is transparent.** The registry entry can only disappear when no
run waits for or holds the semaphore, and then it is indistinguishable from the
semaphore the next run would create: a fresh `Semaphore(n)`. -/
theorem C30_gc_transparent (acts : List Act) (i : Nat) (x x' : Inst) (n : Nat) (wk : List Nat)
    (hx : (exec acts).get i = some x) (hl : x.limit = some n) (hg : x.step .gc = some (x', wk)) :
    x.sem = some (Sem.fresh n) ∧ x'.sem = none ∧ ∀ r, x'.enter r n = x.enter r n := by
  simp only [Inst.step, Inst.gc] at hg
  split at hg
  · cases hg
  · rename_i s hs
    split at hg <;> simp at hg
    rename_i hidle
    have hv := C30_no_permit_leak acts i x n s hx hl hs hidle.1 hidle.2
    have hsf : s = Sem.fresh n := by
      cases s; simp only [Sem.fresh] at *; simp_all
    subst hsf
    refine ⟨hs, by rw [← hg.1], ?_⟩
    intro r
    rw [← hg.1]
    simp [Inst.enter, hs]

example : ∃ x p, (exec [.mk 1 (some 2), .on 1 (.start 1), .on 1 (.begin 1), .on 1 (.finish 1 .cancelled)]).get 1 = some x ∧
    x.limit = some 2 ∧ x.step .gc = some p := ⟨_, _, rfl, rfl, rfl⟩

/-! ## instances are independent -/

/-- **Frame.** An action on instance `i` (enabled or not), or creating instance `i`,
changes nothing any other instance can observe. -/
theorem C30_instances_independent (w : World) (i j : Nat) (hj : j ≠ i) :
    (∀ a, (w.stepD (.on i a)).get j = w.get j) ∧
    (∀ lim, (w.stepD (.mk i lim)).get j = w.get j) := by
  refine ⟨fun a => ?_, fun lim => World.get_stepD_mk w i lim j hj⟩
  rw [World.get_stepD_on]
  simp [hj]

/-- **Locality.** Whether an action on `i` is enabled, and what it does to `i`, depends on
the state of `i` alone. -/
theorem C30_instances_local (w1 w2 : World) (i : Nat) (a : IAct) (h : w1.get i = w2.get i) :
    (w1.stepD (.on i a)).get i = (w2.stepD (.on i a)).get i ∧
    ((w1.step (.on i a)).isSome = (w2.step (.on i a)).isSome) := by
  refine ⟨by simp [World.get_stepD_on, h], ?_⟩
  simp only [World.step, h]
  cases w2.get i with
  | none => rfl
  | some x =>
    simp only
    generalize x.step a = o
    cases o <;> rfl

/-- **Commutation.** Actions of different instances commute: no schedule can make one
instance's limit visible to another. -/
theorem C30_instances_commute (w : World) (i j : Nat) (a b : IAct) (hij : i ≠ j) (k : Nat) :
    ((w.stepD (.on i a)).stepD (.on j b)).get k = ((w.stepD (.on j b)).stepD (.on i a)).get k := by
  simp only [World.get_stepD_on]
  have hji : j ≠ i := fun e => hij e.symm
  by_cases hki : k = i
  · subst hki; simp [hij]
  · by_cases hkj : k = j
    · subst hkj; simp [hji]
    · simp [hki, hkj]

example : (exec [.mk 1 (some 1), .mk 2 (some 1), .on 1 (.start 1), .on 1 (.begin 1)]).get 2
    = some { limit := some 1 } := rfl

/-! ## FIFO service and progress -/

/-- **FIFO.** `_wake_up_next` always serves the *first* waiter that is still pending. -/
theorem C30_fifo_order (ws ws' : Waiters) (q : Nat) (h : wake ws = some (ws', q)) :
    ∃ pre post, ws = pre ++ (q, .pending) :: post ∧ ws' = pre ++ (q, .woken) :: post ∧
      hasPending pre = false :=
  wake_spec ws ws' q h

example : wake [(1, .cancelled), (2, .wokenCancel), (3, .pending), (4, .pending)]
    = some ([(1, .cancelled), (2, .wokenCancel), (3, .woken), (4, .pending)], 3) := by decide

/-- **No barging.** While a waiter that was not cancelled is queued, a newly stepped run
never takes a permit: it queues behind (so permits are granted in start order). -/
theorem C30_no_barging (x : Inst) (r n : Nat) (s : Sem) (hs : x.sem = some s)
    (hq : s.waiters.any (fun w => !w.2.isCancelled) = true) :
    (x.enter r n).holding = x.holding ∧ (x.enter r n).waiters = s.waiters ++ [(r, .pending)] := by
  have : s.locked = true := by simp [Sem.locked, hq]
  simp [Inst.enter, hs, this, Inst.waiters]

example : (Inst.enter { limit := some 2, sem := some ⟨1, [(7, .woken)]⟩, created := [(8, false)] } 8 2).waiters
    = [(7, .woken), (8, .pending)] := by decide

/-- **No lost wake-up.** A spare permit never coexists with a pending waiter unless a
woken waiter is still queued, whose next step passes the permit on. -/
theorem C30_no_lost_wakeup (acts : List Act) (i : Nat) (x : Inst) (s : Sem)
    (hx : (exec acts).get i = some x) (hs : x.sem = some s) (hv : 0 < s.value)
    (hp : hasPending s.waiters = true) : hasInflight s.waiters = true :=
  (exec_inv acts i x hx).noLost s hs hv hp

example : ∃ x s, (exec [.mk 1 (some 2), .on 1 (.start 1), .on 1 (.start 2), .on 1 (.start 3), .on 1 (.start 4),
    .on 1 (.begin 1), .on 1 (.begin 2), .on 1 (.begin 3), .on 1 (.finish 1 .completed),
    .on 1 (.finish 2 .completed), .on 1 (.begin 4)]).get 1 = some x ∧ x.sem = some s ∧
    s.value = 1 ∧ s.waiters = [(3, .woken), (4, .pending)] := by
  refine ⟨_, _, rfl, rfl, ?_⟩; decide

/-- **Progress, part 1 (something helpful is always enabled).** With a limit `n ≥ 1`, as
long as run `r` is a pending waiter there is a run holding a permit (whose `finish` is
enabled — "every running run eventually finishes" is the fairness assumption) or a
waiter whose future is done (whose `deliver` is enabled — the event loop steps it). -/
theorem C30_progress_enabled (acts : List Act) (i r : Nat) (x : Inst) (n : Nat)
    (hx : (exec acts).get i = some x) (hl : x.limit = some n) (hn : 0 < n)
    (hr : aget r x.waiters = some .pending) :
    (∃ h, h ∈ x.holding ∧ ∀ o, ∃ p, x.step (.finish h o) = some p) ∨
    (∃ q f, aget q x.waiters = some f ∧ f.inflight = true ∧ ∃ p, x.step (.deliver q) = some p) := by
  obtain ⟨s, hs, hrs⟩ := waiters_some x r _ hr
  have hinv := exec_inv acts i x hx
  have hc := hinv.conserve n s hl hs
  have hxw : x.waiters = s.waiters := by simp [Inst.waiters, hs]
  have hinfl : hasInflight s.waiters = true →
      ∃ q f, aget q x.waiters = some f ∧ f.inflight = true ∧ ∃ p, x.step (.deliver q) = some p := by
    intro hi
    simp only [hasInflight, List.any_eq_true] at hi
    obtain ⟨⟨q, f⟩, hmem, hf⟩ := hi
    have huniq : (keys s.waiters).Nodup := by
      have := exec_uniq acts i x hx
      simp only [Inst.Uniq, Inst.ids, hxw] at this
      exact ((List.nodup_append.mp (List.nodup_append.mp (List.nodup_append.mp this).1).1).2.1)
    have hq := aget_of_mem_nodup s.waiters q f huniq hmem
    refine ⟨q, f, by rw [hxw]; exact hq, hf, ?_⟩
    exact Inst.helpful_enabled x (.deliver q) s hs (by simp [IAct.helpful, hxw, hq, hf])
  by_cases hv : 0 < s.value
  · exact Or.inr (hinfl (hinv.noLost s hs hv (hasPending_of_aget r _ hrs)))
  · by_cases hh : x.holding = []
    · have : 0 < nInflight s.waiters := by simp [hh] at hc; omega
      have hi : hasInflight s.waiters = true := by
        cases hb : hasInflight s.waiters with
        | true => rfl
        | false => have := nInflight_zero_of_not_hasInflight _ hb; omega
      exact Or.inr (hinfl hi)
    · left
      cases hhold : x.holding with
      | nil => exact absurd hhold hh
      | cons h rest =>
        refine ⟨h, by simp, fun o => ?_⟩
        exact Inst.helpful_enabled x (.finish h o) s hs (by simp [IAct.helpful, hhold])

example : ∃ x, (exec [.mk 1 (some 1), .on 1 (.start 1), .on 1 (.start 2), .on 1 (.begin 1),
    .on 1 (.begin 2)]).get 1 = some x ∧ x.limit = some 1 ∧ aget 2 x.waiters = some .pending := by
  refine ⟨_, rfl, ?_⟩; decide

/-- **Progress, part 2 (well-founded FIFO measure).** Along *any* schedule, while run `r`
stays a pending waiter, at most `mu r` helpful actions (a holder finishing, a task with a
done future being stepped) can happen: `mu r = 2·(pending waiters up to r) + (woken
waiters)` never grows and every helpful action lowers it.  Together with part 1 and
fairness for helpful actions, `r` stops being pending — it is woken (or cancelled). -/
theorem C30_fifo_progress (acts more : List Act) (i r : Nat)
    (h : staysPending i r (exec acts) more) :
    helpfulCount i (exec acts) more + (exec (acts ++ more)).muAt i r ≤ (exec acts).muAt i r := by
  have := fifo_progress_from more (exec acts) i r (exec_inv acts) h
  rw [exec_foldl] at this
  exact this

example : staysPending 1 3 (exec [.mk 1 (some 1), .on 1 (.start 1), .on 1 (.start 2), .on 1 (.start 3),
    .on 1 (.begin 1), .on 1 (.begin 2), .on 1 (.begin 3)])
    [.on 1 (.finish 1 .completed), .on 1 (.deliver 2)] ∧
    helpfulCount 1 (exec [.mk 1 (some 1), .on 1 (.start 1), .on 1 (.start 2), .on 1 (.start 3),
    .on 1 (.begin 1), .on 1 (.begin 2), .on 1 (.begin 3)])
    [.on 1 (.finish 1 .completed), .on 1 (.deliver 2)] = 2 := by
  refine ⟨⟨⟨_, rfl, by decide⟩, ⟨_, rfl, by decide⟩, ⟨_, rfl, by decide⟩⟩, by decide⟩

/-- **Progress, part 3 (a woken run executes).** Once woken, a waiter that is not
cancelled enters the limit the next time its task is stepped; a started run that is not
cancelled either enters at its first step or becomes a pending waiter. -/
theorem C30_woken_executes (x : Inst) (r : Nat) (s : Sem) (hs : x.sem = some s) :
    (aget r s.waiters = some .woken → ∃ x' wk, x.step (.deliver r) = some (x', wk) ∧ r ∈ x'.holding) ∧
    (∀ n, x.limit = some n → aget r x.created = some false →
      ∃ x', x.step (.begin r) = some (x', []) ∧ (r ∈ x'.holding ∨ (r, Fut.pending) ∈ x'.waiters)) := by
  constructor
  · intro hw
    simp only [Inst.step, Inst.deliver, hs, hw]
    exact ⟨_, _, rfl, by simp⟩
  · intro n hl hc
    simp only [Inst.step, Inst.begin, hc, hl]
    refine ⟨_, rfl, ?_⟩
    simp only [Inst.enter, hs, Option.getD_some]
    split
    · right; simp [Inst.waiters]
    · left; simp

example : Inst.step { limit := some 1, sem := some ⟨0, [(2, .woken)]⟩ } (.deliver 2)
    = some ({ limit := some 1, sem := some ⟨0, []⟩, holding := [2] }, []) := by decide

/-! ## well-formedness and the scheduler layer -/

/-- Every run of an instance is in exactly one place: not yet stepped, in the waiter
queue, inside the limit, or finished. -/
theorem C30_run_ids_unique (acts : List Act) (i : Nat) (x : Inst)
    (hx : (exec acts).get i = some x) : x.ids.Nodup :=
  exec_uniq acts i x hx

example : ∃ x, (exec [.mk 1 (some 1), .on 1 (.start 1), .on 1 (.start 2), .on 1 (.start 1),
    .on 1 (.begin 1), .on 1 (.begin 2)]).get 1 = some x ∧ x.ids = [2, 1] := by
  refine ⟨_, rfl, ?_⟩; decide

/-- The FIFO ready-queue layer the driver uses to predict quiescent states only ever
performs LTS actions: every state it reaches is `exec acts` for some action list, so all
theorems above apply to it. -/
theorem C30_schedule_refines (ops : List SOp) : ∃ acts, (ops.foldl Sched.op {}).w = exec acts := by
  have : ∀ (ops : List SOp) (s : Sched) (acts : List Act), s.w = exec acts →
      ∃ acts', (ops.foldl Sched.op s).w = exec acts' := by
    intro ops
    induction ops with
    | nil => intro s acts h; exact ⟨acts, h⟩
    | cons o ops ih =>
      intro s acts h
      obtain ⟨bs, hbs⟩ := Sched.op_refines s o
      exact ih (s.op o) (acts ++ bs) (by rw [hbs, h, exec_foldl])
  exact this ops {} [] rfl

example : ([SOp.ext (.mk 1 (some 1)), .ext (.on 1 (.start 1)), .ext (.on 1 (.start 2)), .settle 5].foldl
    Sched.op {}).w.get 1 = some { limit := some 1, sem := some ⟨0, [(2, .pending)]⟩, holding := [1] } := by
  decide

example : ([SOp.ext (.mk 1 (some 1)), .ext (.on 1 (.start 1)), .nstart 1 1 1 2, .settle 5, .nstart 1 1 1 2, .nstart 1 2 1 3,
    .settle 5].foldl Sched.op {}).w.get 1 = some { limit := some 1, sem := some ⟨0, [(2, .pending)]⟩, holding := [1] } := by
  decide

/-! ## runs started from inside a step (nested starts) -/

/-- **Nested starts add no behaviour.** Let runs also be started by code running inside a
step of a run that is inside its limit (`NAct.nstart`; same instance or another one, enabled
only while the starting run holds its slot).  Every state reachable that way is reachable by
plain action lists: who calls `run()` makes no difference, so all theorems above apply. -/
theorem C30_nested_start_refines (nacts : List NAct) : ∃ acts, execN nacts = exec acts := by
  have : ∀ (nacts : List NAct) (w : World) (acts : List Act), w = exec acts →
      ∃ acts', nacts.foldl World.nstepD w = exec acts' := by
    intro nacts
    induction nacts with
    | nil => intro w acts h; exact ⟨acts, h⟩
    | cons o nacts ih =>
      intro w acts h
      obtain ⟨bs, hbs⟩ := World.nstepD_refines w o
      exact ih (w.nstepD o) (acts ++ bs) (by rw [hbs, h, exec_foldl])
  exact this nacts {} [] rfl

example : execN [.act (.mk 1 (some 1)), .act (.on 1 (.start 1)), .nstart 1 1 1 2, .act (.on 1 (.begin 1)),
    .nstart 1 1 1 2, .nstart 1 2 1 3, .act (.on 1 (.begin 2))] =
    exec [.mk 1 (some 1), .on 1 (.start 1), .on 1 (.begin 1), .on 1 (.start 2), .on 1 (.begin 2)] := by decide

/-- **The bound with nested starts.** However runs are started — from top-level code or from
inside steps of running runs of the same or of other instances — at most `n` runs of an
instance are inside its limit. -/
theorem C30_nested_bound (nacts : List NAct) (i : Nat) (x : Inst) (n : Nat)
    (hx : (execN nacts).get i = some x) (hl : x.limit = some n) : x.holding.length ≤ n := by
  obtain ⟨acts, h⟩ := C30_nested_start_refines nacts
  rw [h] at hx
  exact C30_bound acts i x n hx hl

example : ∃ x, (execN [.act (.mk 1 (some 2)), .act (.on 1 (.start 1)), .act (.on 1 (.start 2)),
    .act (.on 1 (.begin 1)), .act (.on 1 (.begin 2)), .nstart 1 1 1 3, .nstart 1 2 1 4,
    .act (.on 1 (.begin 3)), .act (.on 1 (.begin 4))]).get 1 = some x ∧
    x.limit = some 2 ∧ x.holding = [1, 2] ∧ x.waiters = [(3, .pending), (4, .pending)] := by
  refine ⟨_, rfl, ?_⟩; decide

/-- **A nested run is counted.** In any reachable state in which all `n` slots of instance `i`
are taken (for instance by the very runs whose steps make the calls), a run of `i` started from
inside a step — of a run of `i` itself or of any other instance — is an ordinary new task
(`[(i, r)]` joins the ready queue), and when it is stepped it takes no slot: it queues as a
pending waiter and the set of runs inside the limit is unchanged.  There is no way in for a
run that depends on who started it. -/
theorem C30_nested_start_counted (nacts : List NAct) (pi pr i r n : Nat) (x : Inst)
    (w1 : World) (wk : List (Nat × Nat))
    (hx : (execN nacts).get i = some x) (hl : x.limit = some n) (hfull : x.holding.length = n)
    (hs : (execN nacts).nstart pi pr i r = some (w1, wk)) :
    wk = [(i, r)] ∧ (∃ p, (execN nacts).get pi = some p ∧ pr ∈ p.holding) ∧
    ∃ x2, (w1.stepD (.on i (.begin r))).get i = some x2 ∧ x2.holding = x.holding ∧
      (r, Fut.pending) ∈ x2.waiters := by
  obtain ⟨acts, hacts⟩ := C30_nested_start_refines nacts
  refine ⟨?_, World.nstart_caller _ pi pr i r _ hs, ?_⟩
  all_goals
    have hstart := World.nstart_is_start _ pi pr i r _ hs
    rw [hacts] at hstart hx
    obtain ⟨x0, x', wk', hx0, hstep, hwk, hget⟩ := World.get_step_on _ w1 i (.start r) wk hstart
    rw [hx] at hx0
    cases hx0
    simp only [Inst.step, Inst.start] at hstep
    split at hstep
    · cases hstep
    rename_i hnid
    simp only [Option.some.injEq, Prod.mk.injEq] at hstep
    obtain ⟨hx', hwk'⟩ := hstep
  · subst hwk'; simpa using hwk
  · have hinv := exec_inv acts i x hx
    have hnc : aget r x.created = none := by
      apply aget_none_of_not_mem
      intro hm
      exact hnid (by simp [Inst.ids, hm])
    have hc' : aget r x'.created = some false := by
      rw [← hx']
      simp [aget_append, hnc, aget]
    have hl' : x'.limit = some n := by rw [← hx']; exact hl
    refine ⟨x'.stepD (.begin r), ?_, ?_⟩
    · rw [World.get_stepD_on]; simp [hget i]
    · have hb : x'.step (.begin r) = some (x'.enter r n, []) := by
        simp [Inst.step, Inst.begin, hc', hl']
      simp only [Inst.stepD, hb]
      have hsem : x'.sem = x.sem := by rw [← hx']
      have hhold : x'.holding = x.holding := by rw [← hx']
      cases hsx : x.sem with
      | none =>
        have h0 : x.holding = [] := hinv.idle n hl hsx
        have hn0 : n = 0 := by rw [h0] at hfull; simpa using hfull.symm
        subst hn0
        simp [Inst.enter, hsem, hsx, hhold, Sem.fresh, Sem.locked, Inst.waiters]
      | some s =>
        have hcons := hinv.conserve n s hl hsx
        have hv : s.value = 0 := by omega
        simp [Inst.enter, hsem, hsx, hhold, Sem.locked, hv, Inst.waiters]

example : ∃ w1 wk, (execN [.act (.mk 1 (some 1)), .act (.on 1 (.start 1)), .act (.on 1 (.begin 1))]).nstart 1 1 1 2
    = some (w1, wk) ∧ (w1.stepD (.on 1 (.begin 2))).get 1 =
      some { limit := some 1, sem := some ⟨0, [(2, .pending)]⟩, holding := [1] } := by
  refine ⟨_, _, rfl, ?_⟩; decide

/-! ## a cancelled run keeps its slot until its run function has ended -/

/-- **Requesting cancellation releases nothing.** `handler.cancel()` / `adapter.abort()` is
`task.cancel()`: on a run that is inside its limit it is enabled, changes no part of the state
(semaphore value, waiter queue, holders) and makes no task ready.  The permit moves only when the
run function has ended (`finish`), i.e. after the control loop has cancelled *and awaited* its
step workers. -/
theorem C30_cancel_keeps_slot (acts : List Act) (i r : Nat) (x : Inst)
    (hx : (exec acts).get i = some x) (hr : r ∈ x.holding) :
    x.step (.cancel r) = some (x, []) ∧ (exec (acts ++ [.on i (.cancel r)])).get i = some x := by
  have hstep := Inst.cancel_holder_noop x r (exec_uniq acts i x hx) hr
  refine ⟨hstep, ?_⟩
  rw [exec_append, World.get_stepD_on]
  simp [hx, Inst.stepD, hstep]

example : ∃ x, (exec [.mk 1 (some 1), .on 1 (.start 1), .on 1 (.start 2), .on 1 (.begin 1),
    .on 1 (.begin 2), .on 1 (.cancel 1)]).get 1 = some x ∧
    x.holding = [1] ∧ x.sem = some ⟨0, [(2, .pending)]⟩ := by
  refine ⟨_, rfl, ?_⟩; decide

/-- **The slot is kept until the run has ended.** Whatever happens after a run `r` entered its
limit — cancellation requests for it, new runs (under whatever run id), other runs finishing,
garbage collection — as long as `r`'s own run function has not ended, `r` is inside the limit, so
at most `n - 1` *other* runs of the instance are: a queued or newly started run cannot take the
place of a run that is still unwinding. -/
theorem C30_slot_kept_until_finish (acts more : List Act) (i r n : Nat) (x : Inst)
    (hx : (exec acts).get i = some x) (hr : r ∈ x.holding) (hl : x.limit = some n)
    (hnf : ∀ o, Act.on i (.finish r o) ∉ more) :
    ∃ x', (exec (acts ++ more)).get i = some x' ∧ r ∈ x'.holding ∧
      (x'.holding.erase r).length + 1 ≤ n := by
  obtain ⟨x', hx', hr', hl'⟩ := foldl_keeps_holder more (exec acts) i r x hx hr hnf
  rw [exec_foldl] at hx'
  refine ⟨x', hx', hr', ?_⟩
  have hb := C30_bound (acts ++ more) i x' n hx' (by rw [hl', hl])
  have hlen := List.length_erase_of_mem hr'
  have hpos := List.length_pos_of_mem hr'
  omega

example : ∃ x', (exec ([.mk 1 (some 1), .on 1 (.start 1), .on 1 (.begin 1)] ++
    [.on 1 (.cancel 1), .on 1 (.start 2), .on 1 (.start 3), .on 1 (.begin 2), .on 1 (.begin 3),
     .on 1 (.cancel 1), .on 1 .gc])).get 1 = some x' ∧
    x'.holding = [1] ∧ x'.waiters = [(2, .pending), (3, .pending)] := by
  refine ⟨_, rfl, ?_⟩; decide
