"""Re-extract the tables `representation/validate.py` decides with (C23).

Written to lean/WfModel/GenValidate.lean on every run.  The hand-written model
(`WfModel/Validate.lean`) *uses* these constants (which root classes count as
boundary / output / seed events, how the human-in-the-loop flag is computed), and
`C23_source_shape` pins every one of them, so a changed tuple, a re-ordered check or
a differently computed flag changes the model and breaks a proof.  Only facts that do
not depend on the names of local variables or on the order of independent statements
are extracted (locals are identified by their role: the set that collects
`accepted_events` is "consumed", the one that collects `return_types` is "produced").

Root classes are numbered as in the model:
Event 0, StartEvent 1, StopEvent 2, InputRequiredEvent 3, HumanResponseEvent 4,
StepFailedEvent 5 (NoneType 6 never appears in an issubclass test).  An unknown
name is emitted as 99 together with a note.
"""
from __future__ import annotations

import ast
from typing import Any

from ..boot import repo_path

LEAN_MODULE = "GenValidate"

VALIDATE = "packages/llama-index-workflows/src/workflows/representation/validate.py"
DECORATORS = "packages/llama-index-workflows/src/workflows/decorators.py"
WORKFLOW = "packages/llama-index-workflows/src/workflows/workflow.py"

ROOTS = {"Event": 0, "StartEvent": 1, "StopEvent": 2, "InputRequiredEvent": 3, "HumanResponseEvent": 4,
         "StepFailedEvent": 5}
CHECK_FUNCS = ["_ensure_start_event_class", "_ensure_stop_event_class", "_validate_event_connectivity",
               "_collect_catch_error_handlers", "validate_graph", "validate_catch_error_handlers", "build_step_graph"]


def _func(tree: ast.Module, name: str) -> ast.FunctionDef:
    for n in tree.body:
        if isinstance(n, (ast.FunctionDef, ast.AsyncFunctionDef)) and n.name == name:
            return n  # type: ignore[return-value]
    raise KeyError(name)


def _roots_of(node: ast.AST, notes: list[str], where: str) -> list[int]:
    """second argument of issubclass: a Name or a Tuple of Names -> root ids"""
    elts = node.elts if isinstance(node, ast.Tuple) else [node]
    res = []
    for e in elts:
        if isinstance(e, ast.Name) and e.id in ROOTS:
            res.append(ROOTS[e.id])
        else:
            notes.append(f"gen/validate: {where}: unexpected class in issubclass test: {ast.unparse(e)}")
            res.append(99)
    return res


def _issubclass_calls(node: ast.AST) -> list[ast.Call]:
    return [c for c in ast.walk(node) if isinstance(c, ast.Call) and isinstance(c.func, ast.Name)
            and c.func.id == "issubclass" and len(c.args) == 2]


def _assign_value(fn: ast.FunctionDef, target: str) -> ast.AST:
    for n in ast.walk(fn):
        if isinstance(n, ast.Assign) and len(n.targets) == 1 and isinstance(n.targets[0], ast.Name) and n.targets[0].id == target:
            return n.value
        if isinstance(n, ast.AnnAssign) and isinstance(n.target, ast.Name) and n.target.id == target and n.value is not None:
            return n.value
    raise KeyError(target)


def _lean_nats(xs: list[int]) -> str:
    return "[" + ", ".join(str(x) for x in xs) + "]"


def _lean_strs(xs: list[str]) -> str:
    return "[" + ", ".join('"' + x.replace("\\", "\\\\").replace('"', '\\"').replace("\n", "\\n") + '"' for x in xs) + "]"


def _hitl_term(e: ast.AST, sets: dict[str, bool]) -> tuple[bool, int, bool] | None:
    """one disjunct of the returned flag -> (by_subclass, root, over_produced)"""
    # `Root in <set>`
    if (isinstance(e, ast.Compare) and len(e.ops) == 1 and isinstance(e.ops[0], ast.In) and isinstance(e.left, ast.Name)
            and e.left.id in ROOTS and isinstance(e.comparators[0], ast.Name) and e.comparators[0].id in sets):
        return (False, ROOTS[e.left.id], sets[e.comparators[0].id])
    # `any(issubclass(x, Root) for x in <set>)`
    if (isinstance(e, ast.Call) and isinstance(e.func, ast.Name) and e.func.id == "any" and len(e.args) == 1
            and isinstance(e.args[0], ast.GeneratorExp)):
        g = e.args[0]
        if len(g.generators) == 1 and not g.generators[0].ifs and isinstance(g.generators[0].target, ast.Name) \
                and isinstance(g.generators[0].iter, ast.Name) and g.generators[0].iter.id in sets:
            var = g.generators[0].target.id
            c = g.elt
            if (isinstance(c, ast.Call) and isinstance(c.func, ast.Name) and c.func.id == "issubclass" and len(c.args) == 2
                    and isinstance(c.args[0], ast.Name) and c.args[0].id == var and isinstance(c.args[1], ast.Name)
                    and c.args[1].id in ROOTS):
                return (True, ROOTS[c.args[1].id], sets[g.generators[0].iter.id])
    return None


def _collector(fn: ast.AST, attr: str) -> str:
    """name of the local set/list that `for x in <cfg>.<attr>: ... <name>.add(x)` fills"""
    for loop in ast.walk(fn):
        if isinstance(loop, ast.For) and isinstance(loop.iter, ast.Attribute) and loop.iter.attr == attr and isinstance(loop.target, ast.Name):
            for c in ast.walk(loop):
                if (isinstance(c, ast.Call) and isinstance(c.func, ast.Attribute) and c.func.attr == "add" and isinstance(c.func.value, ast.Name)
                        and len(c.args) == 1 and isinstance(c.args[0], ast.Name) and c.args[0].id == loop.target.id):
                    return c.func.value.id
    raise KeyError(attr)


def _const_compares(fn: ast.AST) -> list[str]:
    """comparisons against integer constants, in source order, as `Op const`"""
    res = []
    for c in ast.walk(fn):
        if isinstance(c, ast.Compare) and len(c.ops) == 1 and isinstance(c.comparators[0], ast.Constant) \
                and isinstance(c.comparators[0].value, int) and not isinstance(c.comparators[0].value, bool):
            res.append((c.lineno, c.col_offset, f"{type(c.ops[0]).__name__} {c.comparators[0].value}"))
    return [t for _l, _c, t in sorted(res)]


def _raise_guards(fn: ast.FunctionDef) -> list[tuple[int, ast.If]]:
    return sorted(((n.lineno, n) for n in ast.walk(fn) if isinstance(n, ast.If) and any(isinstance(s, ast.Raise) for s in n.body)),
                  key=lambda t: t[0])


def generate(notes: list[str]) -> list[str]:
    L: list[str] = ["namespace Gen.C23", ""]

    def emit(name: str, ty: str, val: str, doc: str = "") -> None:
        if doc:
            L.append(f"/-- {doc} -/")
        L.append(f"def {name} : {ty} := {val}")

    tree = ast.parse(open(repo_path(VALIDATE)).read())

    # ---- order of the checks in _validate_workflow
    try:
        fn = _func(tree, "_validate_workflow")
        calls = [(c.lineno, c.col_offset, c.func.id) for c in ast.walk(fn)
                 if isinstance(c, ast.Call) and isinstance(c.func, ast.Name) and c.func.id in CHECK_FUNCS]
        order = [n for _l, _c, n in sorted(calls)]
        first = fn.body[1] if isinstance(fn.body[0], ast.Expr) else fn.body[0]
        p0 = fn.args.args[0].arg
        empty_first = (isinstance(first, ast.If) and isinstance(first.test, ast.UnaryOp) and isinstance(first.test.op, ast.Not)
                       and isinstance(first.test.operand, ast.Name) and first.test.operand.id == p0
                       and any(isinstance(s, ast.Raise) for s in first.body))
    except Exception as e:  # noqa: BLE001
        notes.append(f"gen/validate: _validate_workflow: {e!r}")
        order, empty_first = [], False
    emit("checkOrder", "List String", _lean_strs(order), "calls made by `_validate_workflow`, in source order")
    emit("emptyCheckedFirst", "Bool", "true" if empty_first else "false", "`if not <steps>: raise` is the first statement")

    # ---- start / stop inference
    for fname, const in (("_ensure_start_event_class", "start"), ("_ensure_stop_event_class", "stop")):
        try:
            fn = _func(tree, fname)
            calls = _issubclass_calls(fn)
            roots = [r for c in calls for r in _roots_of(c.args[1], notes, fname)]
            attrs = sorted({a.attr for a in ast.walk(fn) if isinstance(a, ast.Attribute) and a.attr in ("accepted_events", "return_types")})
            cmp_ = _const_compares(fn)
        except Exception as e:  # noqa: BLE001
            notes.append(f"gen/validate: {fname}: {e!r}")
            roots, attrs, cmp_ = [99], [], []
        emit(f"{const}Roots", "List Nat", _lean_nats(roots))
        emit(f"{const}Scans", "List String", _lean_strs(attrs))
        emit(f"{const}Counts", "List String", _lean_strs(cmp_), "the comparisons of the number of types found that raise")

    # ---- event connectivity
    try:
        fn = _func(tree, "_validate_event_connectivity")
        cons_var = _collector(fn, "accepted_events")
        prod_var = _collector(fn, "return_types")
        sets = {prod_var: True, cons_var: False}
        # the list of steps accepting a stop event: filled with .append inside the loop over steps
        loop = next(n for n in fn.body if isinstance(n, ast.For))
        stop_calls = _issubclass_calls(loop)
        accept_stop = [r for c in stop_calls for r in _roots_of(c.args[1], notes, "accepting-stop test")]
        stop_var = next(c.func.value.id for c in ast.walk(loop) if isinstance(c, ast.Call) and isinstance(c.func, ast.Attribute)
                        and c.func.attr == "append" and isinstance(c.func.value, ast.Name))
        # the two set comprehensions over a difference of the collected sets
        comps: dict[str, tuple[str, list[int]]] = {}
        for n in ast.walk(fn):
            if isinstance(n, ast.Assign) and len(n.targets) == 1 and isinstance(n.targets[0], ast.Name) and isinstance(n.value, ast.SetComp):
                it = n.value.generators[0].iter
                if isinstance(it, ast.BinOp) and isinstance(it.op, ast.Sub) and isinstance(it.left, ast.Name) and isinstance(it.right, ast.Name):
                    ifs = n.value.generators[0].ifs
                    negated = len(ifs) == 1 and isinstance(ifs[0], ast.UnaryOp) and isinstance(ifs[0].op, ast.Not)
                    roots = [r for c in _issubclass_calls(n.value) for r in _roots_of(c.args[1], notes, n.targets[0].id)]
                    if not negated:
                        notes.append(f"gen/validate: filter of {n.targets[0].id} is not `not issubclass(...)`")
                        roots = [99]
                    if (it.left.id, it.right.id) == (cons_var, prod_var):
                        comps[n.targets[0].id] = ("consumedNotProduced", roots)
                    elif (it.left.id, it.right.id) == (prod_var, cons_var):
                        comps[n.targets[0].id] = ("producedNotConsumed", roots)
        cb = next((r for k, r in comps.values() if k == "consumedNotProduced"), [99])
        pb = next((r for k, r in comps.values() if k == "producedNotConsumed"), [99])
        raises = []
        for _ln, n in _raise_guards(fn):
            if isinstance(n.test, ast.Name):
                raises.append("acceptsStop" if n.test.id == stop_var else comps.get(n.test.id, ("?" + n.test.id, []))[0])
            else:
                raises.append("?" + ast.unparse(n.test))
        init_p = _assign_value(fn, prod_var)
        prod_init_is_start = (isinstance(init_p, ast.Set) and len(init_p.elts) == 1 and isinstance(init_p.elts[0], ast.Name)
                              and init_p.elts[0].id == fn.args.args[1].arg)
        init_c = _assign_value(fn, cons_var)
        cons_init_empty = isinstance(init_c, ast.Call) and isinstance(init_c.func, ast.Name) and init_c.func.id == "set" and not init_c.args
        ret = next(n for n in reversed(fn.body) if isinstance(n, ast.Return))
        terms_ast = ret.value.values if isinstance(ret.value, ast.BoolOp) and isinstance(ret.value.op, ast.Or) else [ret.value]
        terms = [_hitl_term(t, sets) for t in terms_ast]
        known = all(t is not None for t in terms)
        if not known:
            notes.append(f"gen/validate: human-in-the-loop flag has an unrecognised shape: {ast.unparse(ret.value)}")
            terms = []
        none_skip = any(isinstance(c, ast.Compare) and isinstance(c.ops[0], ast.Is) and ast.unparse(c.comparators[0]) == "type(None)"
                        for lp in ast.walk(loop) if isinstance(lp, ast.For) and isinstance(lp.iter, ast.Attribute) and lp.iter.attr == "return_types"
                        for c in ast.walk(lp))
    except Exception as e:  # noqa: BLE001
        notes.append(f"gen/validate: _validate_event_connectivity: {e!r}")
        accept_stop, cb, pb, raises, terms, known, none_skip, prod_init_is_start, cons_init_empty = [99], [99], [99], [], [], False, False, False, False
    emit("acceptStopRoots", "List Nat", _lean_nats(accept_stop), "a step accepting a subclass of these is rejected")
    emit("consumedBoundary", "List Nat", _lean_nats(cb), "consumed-but-not-produced is allowed for subclasses of these")
    emit("producedBoundary", "List Nat", _lean_nats(pb), "produced-but-not-consumed is allowed for subclasses of these")
    emit("connectivityRaises", "List String", _lean_strs(raises), "the three raises, in source order")
    emit("producedStartsWithStart", "Bool", "true" if prod_init_is_start else "false", "produced is initialised to {start_event_class}")
    emit("consumedStartsEmpty", "Bool", "true" if cons_init_empty else "false")
    emit("producedSkipsNone", "Bool", "true" if none_skip else "false")
    emit("hitlShapeKnown", "Bool", "true" if known else "false")
    emit("hitlTerms", "List (Bool × Nat × Bool)",
         "[" + ", ".join(f"({str(a).lower()}, {b}, {str(c).lower()})" for a, b, c in terms) + "]",  # type: ignore[misc]
         "disjuncts of the returned flag: (tested with issubclass, root class, over the produced set)")

    # ---- graph construction: the issubclass tests of build_step_graph, in source order (seeds, then outputs)
    try:
        fn = _func(tree, "build_step_graph")
        tests = sorted((c.lineno, c.col_offset, _roots_of(c.args[1], notes, "build_step_graph")) for c in _issubclass_calls(fn))
        seed_roots = tests[0][2] if len(tests) == 2 else [99]
        out_roots = tests[1][2] if len(tests) == 2 else [99]
        p_start = fn.args.args[1].arg
        seeds_start = any(isinstance(n, (ast.Assign, ast.AnnAssign)) and isinstance(n.value, ast.List) and len(n.value.elts) == 1
                          and isinstance(n.value.elts[0], ast.Name) and n.value.elts[0].id == p_start for n in ast.walk(fn))
        n_dfs = sum(1 for c in ast.walk(fn) if isinstance(c, ast.Call) and isinstance(c.func, ast.Name) and c.func.id == "_dfs")
        p_handlers = fn.args.args[2].arg
        handler_seeds = any(isinstance(n, ast.For) and p_handlers in {x.id for x in ast.walk(n.iter) if isinstance(x, ast.Name)}
                            and any(isinstance(c, ast.Call) and isinstance(c.func, ast.Attribute) and c.func.attr == "append" for c in ast.walk(n))
                            for n in ast.walk(fn))
    except Exception as e:  # noqa: BLE001
        notes.append(f"gen/validate: build_step_graph: {e!r}")
        seed_roots, out_roots, seeds_start, n_dfs, handler_seeds = [99], [99], False, 0, False
    emit("seedRoots", "List Nat", _lean_nats(seed_roots), "event types that are forward seeds besides the start event")
    emit("outputRoots", "List Nat", _lean_nats(out_roots), "event types the reverse search starts from")
    emit("seedsStartWithStart", "Bool", "true" if seeds_start else "false", "the seed list is initialised to [start_event_class]")
    emit("handlersAreSeeds", "Bool", "true" if handler_seeds else "false", "catch_error step names are appended to the seeds")
    emit("dfsRuns", "Nat", str(n_dfs))

    # ---- graph checks
    try:
        fn = _func(tree, "validate_graph")
        p_skip = fn.args.args[2].arg
        guards = []
        for n in fn.body:
            if isinstance(n, ast.If) and isinstance(n.test, ast.Compare) and isinstance(n.test.ops[0], ast.NotIn) \
                    and isinstance(n.test.left, ast.Constant) and isinstance(n.test.comparators[0], ast.Name) and n.test.comparators[0].id == p_skip:
                guards.append(n.test.left.value)
                step_skips = sorted({c.left.value for c in ast.walk(n) if isinstance(c, ast.Compare) and isinstance(c.ops[0], ast.In)
                                     and isinstance(c.left, ast.Constant) and isinstance(c.comparators[0], ast.Attribute)
                                     and c.comparators[0].attr == "skip_graph_checks"})
                reach_attrs = sorted({a.attr for a in ast.walk(n) if isinstance(a, ast.Attribute) and a.attr in ("forward_reachable", "reverse_reachable")})
                L.append(f"def stepSkipIn_{n.test.left.value} : List String := {_lean_strs(step_skips)}")
                L.append(f"def reachSetIn_{n.test.left.value} : List String := {_lean_strs(reach_attrs)}")
                if n.test.left.value == "terminal_event":
                    term_roots = [r for c in _issubclass_calls(n) for r in _roots_of(c.args[1], notes, "terminal_event check")]
    except Exception as e:  # noqa: BLE001
        notes.append(f"gen/validate: validate_graph: {e!r}")
        guards, term_roots = [], [99]
    emit("graphGuards", "List String", _lean_strs([str(g) for g in guards]), "`if \"<name>\" not in skip_checks` blocks, in source order")
    emit("terminalRoots", "List Nat", _lean_nats(term_roots), "event types that may be terminal")

    # ---- handler budgets (the part of _collect_catch_error_handlers the handler model folds into `valid`)
    try:
        fn = _func(tree, "_collect_catch_error_handlers")
        guards_h = _raise_guards(fn)
        loops = [n for n in ast.walk(fn) if isinstance(n, ast.For)]
        in_loop = [any(g in list(ast.walk(lp)) for lp in loops) for _l, g in guards_h]
        budget_first = len(guards_h) == 2 and in_loop == [True, False]
        budget_cmp = _const_compares(guards_h[0][1]) if guards_h else []
    except Exception as e:  # noqa: BLE001
        notes.append(f"gen/validate: _collect_catch_error_handlers: {e!r}")
        budget_first, budget_cmp = False, []
    emit("handlerBudgetCheckedFirst", "Bool", "true" if budget_first else "false",
         "the max_recoveries raise sits in the collection loop, before the structural errors are raised")
    emit("handlerBudgetTest", "List String", _lean_strs(budget_cmp))

    # ---- check names
    try:
        dtree = ast.parse(open(repo_path(DECORATORS)).read())
        lits: dict[str, list[Any]] = {}
        for n in dtree.body:
            if isinstance(n, ast.Assign) and isinstance(n.targets[0], ast.Name) and n.targets[0].id in ("WorkflowGraphCheck", "StepGraphCheck"):
                sl = n.value.slice  # type: ignore[attr-defined]
                elts = sl.elts if isinstance(sl, ast.Tuple) else [sl]
                lits[n.targets[0].id] = [e.value for e in elts]
    except Exception as e:  # noqa: BLE001
        notes.append(f"gen/validate: decorators.py: {e!r}")
        lits = {}
    emit("workflowGraphChecks", "List String", _lean_strs([str(x) for x in lits.get("WorkflowGraphCheck", [])]))
    emit("stepGraphChecks", "List String", _lean_strs([str(x) for x in lits.get("StepGraphCheck", [])]))

    # ---- what Workflow.__init__ / _validate do around _validate_workflow
    try:
        wtree = ast.parse(open(repo_path(WORKFLOW)).read())
        cls = next(n for n in wtree.body if isinstance(n, ast.ClassDef) and n.name == "Workflow")
        init = next(n for n in cls.body if isinstance(n, ast.FunctionDef) and n.name == "__init__")
        events: list[tuple[int, str]] = []
        for c in ast.walk(init):
            if isinstance(c, ast.Call) and isinstance(c.func, ast.Name) and c.func.id in ("_ensure_start_event_class", "_ensure_stop_event_class"):
                events.append((c.lineno, c.func.id))
            if isinstance(c, ast.Raise) and "Unknown graph check names" in ast.unparse(c):
                events.append((c.lineno, "raise-unknown-check"))
        init_order = [n for _l, n in sorted(events)]
        val = next(n for n in cls.body if isinstance(n, ast.FunctionDef) and n.name == "_validate")
        vcall = [ast.unparse(c.args[2]) for c in ast.walk(val) if isinstance(c, ast.Call) and isinstance(c.func, ast.Name)
                 and c.func.id == "_validate_workflow" and len(c.args) == 3]
        vret = [a.value.attr for a in ast.walk(val) if isinstance(a, ast.Assign) and ast.unparse(a.targets[0]) == "self._validation_result"
                and isinstance(a.value, ast.Attribute)]
    except Exception as e:  # noqa: BLE001
        notes.append(f"gen/validate: workflow.py: {e!r}")
        init_order, vcall, vret = [], [], []
    emit("initOrder", "List String", _lean_strs(init_order), "what `Workflow.__init__` checks, in source order")
    emit("validateSkipArg", "List String", _lean_strs(vcall), "third argument of the `_validate_workflow` call in `Workflow._validate`")
    emit("validateReturns", "List String", _lean_strs(vret), "attribute of the result that `validate()` returns")

    L += ["", "end Gen.C23"]
    return L
