"""Retry accounting of the engine, as written in the source -> lean/WfModel/GenRetryAcct.lean (C05).

Re-read from /repo's current `runtime/control_loop.py`, `runtime/types/step_function.py`, `plugins/basic.py`,
`context/internal_context.py` on every run: every place where the four accounting fields of an attempt record
(`attempts`, `first_attempt_at`, `last_exception`, `last_failed_at`) are written, the expressions of the failure count and
of the elapsed time, what the failure events report, the two clock sources, and the body of `Context.retry_info()`.
The model (`WfModel/Engine.lean`: `applyRes`, `addOrEnqueue`, `newWaiter`, `Waiter.replay`, `inProgToAttempt`;
`WfModel/PolicyTree.lean`: `retryInfo`) writes the same fields from the same sources; `C05_accounting_source_shape` pins
the lists below, so a field that is written from something else (`attempts=0` in a replay, `elapsed` measured from the
last failure, a clock swapped) stops the theorem from checking.  The behaviour is tied by the correspondence.
"""
from __future__ import annotations

import ast

from ..boot import repo_path

LEAN_MODULE = "GenRetryAcct"
WF = "packages/llama-index-workflows/src/workflows/"
FIELDS = ("attempts", "first_attempt_at", "last_exception", "last_failed_at")


def _lean_str(s: str) -> str:
    return '"' + s.replace("\\", "\\\\").replace('"', '\\"') + '"'


def _pairs(ps: list[tuple[str, str]]) -> str:
    return "[" + ", ".join(f"({_lean_str(a)}, {_lean_str(b)})" for a, b in ps) + "]"


def _parse(rel: str, notes: list[str]) -> ast.AST | None:
    try:
        return ast.parse(open(repo_path(WF + rel)).read())
    except (OSError, SyntaxError) as e:
        notes.append(f"retry_acct: cannot parse {rel}: {e}")
        return None


def _fn(tree: ast.AST | None, name: str, cls: str | None = None) -> ast.AST | None:
    if tree is None:
        return None
    scope: ast.AST | None = tree
    if cls is not None:
        scope = next((n for n in ast.walk(tree) if isinstance(n, ast.ClassDef) and n.name == cls), None)
        if scope is None:
            return None
    return next((n for n in ast.walk(scope) if isinstance(n, (ast.FunctionDef, ast.AsyncFunctionDef)) and n.name == name), None)


def _calls(node: ast.AST | None, callee: str) -> list[ast.Call]:
    if node is None:
        return []
    return [c for c in ast.walk(node) if isinstance(c, ast.Call) and isinstance(c.func, ast.Name) and c.func.id == callee]


def _kw(call: ast.Call | None, names: tuple[str, ...]) -> list[tuple[str, str]]:
    """the keyword arguments `names` of a call, in source order, unparsed; a missing one is reported as such"""
    if call is None:
        return [("<missing call>", "")]
    got = {k.arg: ast.unparse(k.value) for k in call.keywords if k.arg is not None}
    order = [k.arg for k in call.keywords if k.arg in names]
    out = [(n, got[n]) for n in order if n is not None]
    for n in names:
        if n not in got:
            out.append((n, "<absent>"))
    return out


def _assign(fn: ast.AST | None, var: str) -> list[str]:
    """every expression assigned to the local `var` inside `fn`, in source order"""
    if fn is None:
        return ["<missing>"]
    out = []
    for n in ast.walk(fn):
        if isinstance(n, ast.Assign) and len(n.targets) == 1 and isinstance(n.targets[0], ast.Name) and n.targets[0].id == var:
            out.append((n.lineno, ast.unparse(n.value)))
    return [s for _l, s in sorted(out)] or ["<missing>"]


class _Norm:
    """expressions up to the names of locals: a local that is assigned exactly once to a plain expression (attribute paths,
    arithmetic, comparisons, `x or y`, subscripts) is replaced by that expression, every other local / parameter by `_`;
    globals and builtins (`time`, `dict`, `max`, …) stay.  So `attempts=total_attempts` reads `_.attempts + 1` whatever the
    locals are called and in whatever order independent statements stand."""

    _PLAIN = (ast.Attribute, ast.Name, ast.BinOp, ast.BoolOp, ast.UnaryOp, ast.Compare, ast.Constant, ast.Subscript,
              ast.operator, ast.boolop, ast.unaryop, ast.cmpop, ast.expr_context)

    def __init__(self, fn: ast.AST | None):
        self.locals: set[str] = set()
        assigns: dict[str, list[ast.AST]] = {}
        if fn is not None:
            for n in ast.walk(fn):
                if isinstance(n, ast.arg):
                    self.locals.add(n.arg)
                elif isinstance(n, ast.Name) and isinstance(n.ctx, (ast.Store, ast.Del)):
                    self.locals.add(n.id)
                elif isinstance(n, ast.ExceptHandler) and n.name:
                    self.locals.add(n.name)
                if isinstance(n, ast.Assign) and len(n.targets) == 1 and isinstance(n.targets[0], ast.Name):
                    assigns.setdefault(n.targets[0].id, []).append(n.value)
                elif isinstance(n, (ast.AugAssign, ast.AnnAssign, ast.For, ast.comprehension, ast.With, ast.NamedExpr)):
                    for t in ast.walk(getattr(n, "target", n)):
                        if isinstance(t, ast.Name) and isinstance(t.ctx, ast.Store):
                            assigns.setdefault(t.id, []).extend([None, None])  # type: ignore[list-item]
        self.single = {k: v[0] for k, v in assigns.items()
                       if len(v) == 1 and v[0] is not None and all(isinstance(x, self._PLAIN) for x in ast.walk(v[0]))}

    def expr(self, node: ast.AST, depth: int = 3) -> str:
        import copy

        me = self

        class T(ast.NodeTransformer):
            def __init__(self, d: int):
                self.d = d

            def visit_Name(self, n: ast.Name) -> ast.AST:
                if not isinstance(n.ctx, ast.Load):
                    return n
                if n.id in me.single and self.d > 0:
                    return T(self.d - 1).visit(copy.deepcopy(me.single[n.id]))
                if n.id in me.locals:
                    return ast.Name(id="_", ctx=ast.Load())
                return n

        return ast.unparse(ast.fix_missing_locations(T(depth).visit(copy.deepcopy(node))))


def _kwn(nm: _Norm, call: ast.Call | None, names: tuple[str, ...]) -> list[tuple[str, str]]:
    """`_kw` with normalised values"""
    if call is None:
        return [("<missing call>", "")]
    got = {k.arg: nm.expr(k.value) for k in call.keywords if k.arg is not None}
    out = [(k.arg, got[k.arg]) for k in call.keywords if k.arg in names and k.arg is not None]
    for n in names:
        if n not in got:
            out.append((n, "<absent>"))
    return out


def generate(notes: list[str]) -> list[str]:
    cl = _parse("runtime/control_loop.py", notes)
    sf = _parse("runtime/types/step_function.py", notes)
    bs = _parse("plugins/basic.py", notes)
    ic = _parse("context/internal_context.py", notes)
    L = ["/-! Generated by harness/gen/retry_acct.py from the current sources of run-llama/workflows-py. Do not edit. -/",
         "namespace GenRetryAcct"]

    psr = _fn(cl, "_process_step_result_tick")
    npsr = _Norm(psr)
    nxt = [c for c in ast.walk(psr) if isinstance(c, ast.Call) and isinstance(c.func, ast.Attribute) and c.func.attr == "next"
           and not (isinstance(c.func.value, ast.Name) and c.func.value.id in ("iter",))] if psr is not None else []
    nxt = [c for c in nxt if len(c.args) == 3]
    L.append("/-- what `retry_policy.next` is handed: `(elapsed, failures, exception)` -/")
    L.append(f"def policyNextArgs : List String := [{', '.join(_lean_str(npsr.expr(a)) for a in (nxt[0].args if len(nxt) == 1 else []))}]")
    retry_calls = [c for c in _calls(psr, "CommandQueueEvent") if any(k.arg == "delay" for k in c.keywords)]
    if len(retry_calls) != 1:
        notes.append(f"retry_acct: {len(retry_calls)} CommandQueueEvent(delay=…) calls in _process_step_result_tick (expected the one retry re-queue)")
    L.append("/-- the re-queued retry: `CommandQueueEvent(event=…, delay=…, step_name=…, attempts=…, …)` -/")
    L.append(f"def retryQueueKwargs : List (String × String) := {_pairs(_kwn(npsr, retry_calls[0] if retry_calls else None, ('event', 'step_name') + FIELDS))}")
    other_q = [c for c in _calls(psr, "CommandQueueEvent") if not any(k.arg == "delay" for k in c.keywords)]
    L.append("/-- every other `CommandQueueEvent(…)` of the function (a returned event, a `StepFailedEvent` for its handler): accounting fields they set -/")
    L.append("def otherQueueAcctKwargs : List (List (String × String)) := [" + ", ".join(
        _pairs([(k.arg, npsr.expr(k.value)) for k in c.keywords if k.arg in FIELDS]) for c in other_q) + "]")
    for cls_name, lean in (("StepFailedEvent", "stepFailedKwargs"), ("WorkflowFailedEvent", "workflowFailedKwargs")):
        cs = _calls(psr, cls_name)
        if len(cs) != 1:
            notes.append(f"retry_acct: {len(cs)} {cls_name}(…) calls in _process_step_result_tick")
        L.append(f"def {lean} : List (String × String) := {_pairs(_kwn(npsr, cs[0] if cs else None, ('attempts', 'elapsed_seconds')))}")
    wcalls = _calls(psr, "StepWorkerWaiter")
    L.append("/-- the waiter a suspended invocation registers keeps its record -/")
    L.append(f"def newWaiterKwargs : List (String × String) := {_pairs(_kwn(npsr, wcalls[0] if len(wcalls) == 1 else None, FIELDS))}")

    rep = _fn(cl, "_replay_attempt")
    rcalls = _calls(rep, "EventAttempt")
    L.append("/-- `_replay_attempt`: the replay of a waiter continues the record -/")
    L.append(f"def replayKwargs : List (String × String) := {_pairs(_kwn(_Norm(rep), rcalls[0] if len(rcalls) == 1 else None, FIELDS))}")
    L.append("/-- every `EventAttempt(…)` built in control_loop.py outside `_replay_attempt` / `rewind_in_progress` and the accounting fields it sets "
             "(the replay sites must go through `_replay_attempt`) -/")
    stray: list[str] = []
    if cl is not None:
        for f in ast.walk(cl):
            if isinstance(f, (ast.FunctionDef, ast.AsyncFunctionDef)) and f.name not in ("_replay_attempt", "rewind_in_progress"):
                nf = _Norm(f)
                for c in _calls(f, "EventAttempt"):
                    inner = [g for g in ast.walk(f) if isinstance(g, (ast.FunctionDef, ast.AsyncFunctionDef)) and g is not f and c in list(ast.walk(g))]
                    if inner:
                        continue
                    stray.append(f"{f.name}:" + ",".join(f"{k.arg}={nf.expr(k.value)}" for k in c.keywords if k.arg in FIELDS))
    L.append(f"def otherEventAttempts : List String := [{', '.join(_lean_str(s) for s in sorted(stray))}]")
    rew = _fn(cl, "rewind_in_progress")
    wcalls2 = _calls(rew, "EventAttempt")
    L.append("/-- `rewind_in_progress`: a re-queued in-progress invocation keeps its record -/")
    L.append(f"def rewindKwargs : List (String × String) := {_pairs(_kwn(_Norm(rew), wcalls2[0] if len(wcalls2) == 1 else None, FIELDS))}")
    adm = _fn(cl, "_add_or_enqueue_event")
    acalls = _calls(adm, "InProgressState")
    L.append("/-- `_add_or_enqueue_event`: the in-progress entry of a started attempt -/")
    L.append(f"def admitKwargs : List (String × String) := {_pairs(_kwn(_Norm(adm), acalls[0] if len(acalls) == 1 else None, FIELDS))}")
    rw = _fn(cl, "run_worker")
    nrw = _Norm(rw)
    racalls = _calls(rw, "RetryAttempt")
    L.append("/-- `run_worker`: the `RetryAttempt` handed to the invocation (what `retry_info()` reads) -/")
    L.append(f"def runWorkerRetryKwargs : List (String × String) := {_pairs(_kwn(nrw, racalls[0] if len(racalls) == 1 else None, ('retry_number', 'first_attempt_at', 'last_exception', 'last_failed_at')))}")
    pc = _fn(cl, "process_command")
    tcalls = _calls(pc, "TickAddEvent")
    L.append("/-- `process_command`: the `TickAddEvent` of a `CommandQueueEvent` copies the record -/")
    L.append(f"def queueTickKwargs : List (String × String) := {_pairs(_kwn(_Norm(pc), tcalls[0] if len(tcalls) == 1 else None, FIELDS))}")

    # clock sources
    fcalls = _calls(rw, "StepWorkerFailed")
    L.append("/-- clock of a failure stamped by the control loop itself (`run_worker`'s except branch) -/")
    L.append(f"def loopFailedAt : List (String × String) := {_pairs(_kwn(nrw, fcalls[0] if len(fcalls) == 1 else None, ('failed_at',)))}")
    wrapper_calls = _calls(sf, "StepWorkerFailed")
    L.append("/-- clock of a failure stamped by the step wrapper (`as_step_worker_function`) -/")
    L.append("def wrapperFailedAt : List (List (String × String)) := [" + ", ".join(_pairs(_kw(c, ("failed_at",))) for c in wrapper_calls) + "]")
    gn = _fn(bs, "get_now", "InternalAsyncioAdapter")
    gn_src = "<missing>"
    if gn is not None:
        body = [n for n in gn.body if not (isinstance(n, ast.Expr) and isinstance(n.value, ast.Constant))]  # type: ignore[attr-defined]
        gn_src = " ; ".join(ast.unparse(n) for n in body)
    L.append("/-- `InternalAsyncioAdapter.get_now` (BasicRuntime): the clock of `first_attempt_at` -/")
    L.append(f"def basicGetNow : String := {_lean_str(gn_src)}")

    # retry_info(): the branch on the retry number, the two values of the elapsed time, what is reported
    ri = _fn(ic, "retry_info", "InternalContext")
    nri = _Norm(ri)
    cond = "<missing>"
    els: list[str] = ["<missing>"]
    if ri is not None:
        iff = next((n for n in ri.body if isinstance(n, ast.If) and "retry_number" in ast.unparse(n.test)), None)  # type: ignore[attr-defined]
        if iff is not None:
            cond = nri.expr(iff.test)
            vals = [st.value for blk in (iff.body, iff.orelse) for st in blk if isinstance(st, ast.Assign)]
            els = [nri.expr(v) for v in vals]
    L.append("/-- `Context.retry_info()`: when `elapsed_seconds` is 0, else what it is -/")
    L.append(f"def retryInfoZeroCond : String := {_lean_str(cond)}")
    L.append(f"def retryInfoElapsed : List String := [{', '.join(_lean_str(s) for s in els)}]")
    ricalls = _calls(ri, "RetryInfo")
    L.append(f"def retryInfoKwargs : List (String × String) := {_pairs(_kwn(nri, ricalls[0] if len(ricalls) == 1 else None, ('retry_number', 'last_exception')))}")
    # one failed execution, one successor: the StepWorkerFailed branch of the result loop starts with the guard
    # `if not step_no_longer_in_progress: continue` (the failure of an execution that an earlier AddCollectedEvent of the same
    # list has already scheduled to run again is skipped)
    guard = False
    loop = None
    if psr is not None:
        loop = next((n for n in ast.walk(psr) if isinstance(n, ast.For) and isinstance(n.target, ast.Name) and n.target.id == "result"), None)
    node = next((st for st in getattr(loop, "body", []) if isinstance(st, ast.If)), None)
    while isinstance(node, ast.If):
        t = node.test
        if (isinstance(t, ast.Call) and isinstance(t.func, ast.Name) and t.func.id == "isinstance" and len(t.args) == 2
                and isinstance(t.args[1], ast.Name) and t.args[1].id == "StepWorkerFailed"):
            body = [b for b in node.body if not (isinstance(b, ast.Expr) and isinstance(b.value, ast.Constant))]
            if body and isinstance(body[0], ast.If):
                g = body[0]
                # the flag: a local that some branch of this loop sets to False (the AddCollectedEvent branch, when it
                # schedules the re-run)
                lowered = {t.id for n in ast.walk(loop) if isinstance(n, ast.Assign) and isinstance(n.value, ast.Constant) and n.value.value is False
                           for t in n.targets if isinstance(t, ast.Name)}
                guard = (isinstance(g.test, ast.UnaryOp) and isinstance(g.test.op, ast.Not) and isinstance(g.test.operand, ast.Name)
                         and g.test.operand.id in lowered and len(g.body) == 1 and isinstance(g.body[0], ast.Continue) and not g.orelse)
            break
        nxt = node.orelse
        node = nxt[0] if len(nxt) == 1 and isinstance(nxt[0], ast.If) else None
    L.append("/-- the `StepWorkerFailed` branch is skipped once the invocation has been scheduled to run again -/")
    L.append(f"def failureSkippedAfterRerun : Bool := {'true' if guard else 'false'}")
    # the step wrapper appends the failure last: `return_values.append(...)` calls that can run after the one that appends
    # the StepWorkerFailed (in the rest of its except handler, or after the try statement in the same block)
    after: list[str] = []
    found = False

    def _appends(nodes: list) -> list[str]:
        res = []
        for st in nodes:
            for c in ast.walk(st):
                if (isinstance(c, ast.Call) and isinstance(c.func, ast.Attribute) and c.func.attr in ("append", "extend", "insert")
                        and "return_values" in ast.unparse(c.func.value)):
                    res.append(ast.unparse(c)[:120])
        return res

    if sf is not None:
        for blk in ast.walk(sf):
            for fld in ("body", "orelse", "finalbody"):
                stmts = getattr(blk, fld, None)
                if not isinstance(stmts, list):
                    continue
                for i, st in enumerate(stmts):
                    if not isinstance(st, ast.Try):
                        continue
                    for h in st.handlers:
                        for j, hs in enumerate(h.body):
                            if any(isinstance(c, ast.Call) and isinstance(c.func, ast.Name) and c.func.id == "StepWorkerFailed" for c in ast.walk(hs)):
                                found = True
                                after += _appends(h.body[j + 1:]) + _appends(st.finalbody) + _appends(stmts[i + 1:])
    if not found:
        after = ["<no StepWorkerFailed append found>"]
    L.append("/-- appends to the step's result list that can follow the `StepWorkerFailed` (the wrapper appends the failure last) -/")
    L.append(f"def wrapperAppendsAfterFailure : List String := [{', '.join(_lean_str(x) for x in after)}]")
    L.append("end GenRetryAcct")
    return L
