"""Re-extract how `Workflow._validate` caches its verdict and how `add_step` invalidates it (C23, extension).

Written to lean/WfModel/GenValidateCache.lean on every run.  The hand-written model
(`WfModel/ValidateCache.lean`) *uses* the increment `add_step` applies to the class version, the way
staleness is computed, and which of the two entry points forces re-validation; `C23_cache_source_shape`
pins every constant, so a changed guard, a dropped version bump or a re-ordered assignment changes the
model and breaks a proof.  Expressions are emitted in `ast.unparse` form (independent of layout and
comments); statements are identified by what they read / assign, not by line numbers.
"""
from __future__ import annotations

import ast

from ..boot import repo_path

LEAN_MODULE = "GenValidateCache"

WORKFLOW = "packages/llama-index-workflows/src/workflows/workflow.py"


def _lean_strs(xs: list[str]) -> str:
    return "[" + ", ".join('"' + x.replace("\\", "\\\\").replace('"', '\\"').replace("\n", "\\n") + '"' for x in xs) + "]"


def _method(cls: ast.ClassDef, name: str) -> ast.FunctionDef:
    for n in cls.body:
        if isinstance(n, (ast.FunctionDef, ast.AsyncFunctionDef)) and n.name == name:
            return n  # type: ignore[return-value]
    raise KeyError(name)


class _Rename(ast.NodeTransformer):
    def __init__(self, m: dict[str, str]) -> None:
        self.m = m

    def visit_Name(self, node: ast.Name) -> ast.AST:  # noqa: N802
        return ast.copy_location(ast.Name(id=self.m.get(node.id, node.id), ctx=node.ctx), node)


def _show(node: ast.AST, roles: dict[str, str]) -> str:
    """`ast.unparse` with locals / parameters replaced by the name of their role (so renaming a local changes nothing)"""
    import copy
    return ast.unparse(_Rename(roles).visit(copy.deepcopy(node)))


def _conj(test: ast.AST, roles: dict[str, str]) -> list[str]:
    if isinstance(test, ast.BoolOp) and isinstance(test.op, ast.And):
        return [_show(v, roles) for v in test.values]
    return [_show(test, roles)]


def generate(notes: list[str]) -> list[str]:
    L: list[str] = ["namespace Gen.C23c", ""]

    def emit(name: str, ty: str, val: str, doc: str = "") -> None:
        if doc:
            L.append(f"/-- {doc} -/")
        L.append(f"def {name} : {ty} := {val}")

    bump = 0
    bump_target = ""
    stores: list[str] = []
    dup_guard: list[str] = []
    class_init = "?"
    meta_fresh = False
    init_result = init_version = "?"
    disabled_guard: list[str] = []
    disabled_returns = "?"
    stale_expr = "?"
    stale_neq = False
    cache_guard: list[str] = []
    cache_returns = "?"
    after: list[str] = []
    version_value = "?"
    result_value = "?"
    call_before_assign = False
    validate_forces = False
    run_forces = True
    run_calls = 0
    try:
        tree = ast.parse(open(repo_path(WORKFLOW)).read())
        cls = next(n for n in tree.body if isinstance(n, ast.ClassDef) and n.name == "Workflow")
        meta = next((n for n in tree.body if isinstance(n, ast.ClassDef) and n.name == "WorkflowMeta"), None)
        # class-level version counter
        for n in cls.body:
            if isinstance(n, ast.AnnAssign) and isinstance(n.target, ast.Name) and n.target.id == "_step_functions_version" and n.value is not None:
                class_init = ast.unparse(n.value)
            if isinstance(n, ast.Assign) and any(isinstance(t, ast.Name) and t.id == "_step_functions_version" for t in n.targets):
                class_init = ast.unparse(n.value)
        if meta is not None:
            mi = _method(meta, "__init__")
            p0 = mi.args.args[0].arg
            for a in mi.body:   # unconditional statements only: a guarded assignment would let subclasses share the dict
                tgt = a.target if isinstance(a, ast.AnnAssign) else (a.targets[0] if isinstance(a, ast.Assign) else None)
                if tgt is not None and ast.unparse(tgt) == f"{p0}._step_functions" and isinstance(a.value, ast.Dict) and not a.value.keys:
                    meta_fresh = True
        # add_step
        fn = _method(cls, "add_step")
        c0 = fn.args.args[0].arg
        ar = {c0: "cls", fn.args.args[1].arg: "func"}
        for n in ast.walk(fn):
            if isinstance(n, ast.AugAssign) and ast.unparse(n.target) == f"{c0}._step_functions_version":
                bump_target = _show(n.target, ar)
                if isinstance(n.op, ast.Add) and isinstance(n.value, ast.Constant) and isinstance(n.value.value, int):
                    bump = n.value.value
            if isinstance(n, ast.Assign) and isinstance(n.targets[0], ast.Subscript) and ast.unparse(n.targets[0].value) == f"{c0}._step_functions":
                stores.append(f"[{_show(n.targets[0].slice, ar)}] = {_show(n.value, ar)}")
            if isinstance(n, ast.If) and any(isinstance(s, ast.Raise) for s in ast.walk(n)) and "_get_steps_from_class" in ast.unparse(n.test):
                dup_guard.append(_show(n.test, ar))
        # __init__
        init = _method(cls, "__init__")
        for n in ast.walk(init):
            tgt = n.target if isinstance(n, ast.AnnAssign) else (n.targets[0] if isinstance(n, ast.Assign) and len(n.targets) == 1 else None)
            if tgt is None or n.value is None:
                continue
            if ast.unparse(tgt) == "self._validation_result":
                init_result = ast.unparse(n.value)
            if ast.unparse(tgt) == "self._validated_version":
                init_version = ast.unparse(n.value)
        # _validate
        val = _method(cls, "_validate")
        body = [s for s in val.body if not (isinstance(s, ast.Expr) and isinstance(s.value, ast.Constant))]
        roles: dict[str, str] = {}
        call_line = None
        for s in body:
            # the local that holds the staleness test: assigned from an expression that reads `_validated_version`
            if isinstance(s, ast.Assign) and isinstance(s.targets[0], ast.Name) and "_validated_version" in ast.unparse(s.value):
                roles[s.targets[0].id] = "stale"
                stale_expr = ast.unparse(s.value)
                if isinstance(s.value, ast.Compare) and len(s.value.ops) == 1 and isinstance(s.value.ops[0], ast.NotEq):
                    sides = {ast.unparse(s.value.left), ast.unparse(s.value.comparators[0])}
                    stale_neq = sides == {"self._validated_version", "self.__class__._step_functions_version"}
            # the local that holds the result of `_validate_workflow`
            if isinstance(s, ast.Assign) and isinstance(s.targets[0], ast.Name) and isinstance(s.value, ast.Call) \
                    and ast.unparse(s.value.func) == "_validate_workflow":
                roles[s.targets[0].id] = "result"
                call_line = s.lineno
        ifs = [s for s in body if isinstance(s, ast.If) and len(s.body) == 1 and isinstance(s.body[0], ast.Return)]
        if len(ifs) >= 1:
            disabled_guard = _conj(ifs[0].test, roles)
            disabled_returns = _show(ifs[0].body[0].value, roles) if ifs[0].body[0].value is not None else "None"
        if len(ifs) >= 2:
            cache_guard = _conj(ifs[1].test, roles)
            cache_returns = _show(ifs[1].body[0].value, roles) if ifs[1].body[0].value is not None else "None"
        for s in body:
            if isinstance(s, ast.Assign) and len(s.targets) == 1 and isinstance(s.targets[0], ast.Attribute) \
                    and isinstance(s.targets[0].value, ast.Name) and s.targets[0].value.id == "self":
                after.append(s.targets[0].attr)
                if s.targets[0].attr == "_validated_version":
                    version_value = _show(s.value, roles)
                if s.targets[0].attr == "_validation_result":
                    result_value = _show(s.value, roles)
                if call_line is not None and s.lineno < call_line:
                    after.append("!before-the-call")
        call_before_assign = call_line is not None and "!before-the-call" not in after
        # validate() / run()
        pub = _method(cls, "validate")
        for c in ast.walk(pub):
            if isinstance(c, ast.Call) and ast.unparse(c.func) == "self._validate":
                validate_forces = any(k.arg == "force" and isinstance(k.value, ast.Constant) and k.value.value is True for k in c.keywords)
        run = _method(cls, "run")
        for c in ast.walk(run):
            if isinstance(c, ast.Call) and ast.unparse(c.func) == "self._validate":
                run_calls += 1
                run_forces = any(k.arg == "force" and not (isinstance(k.value, ast.Constant) and k.value.value is False) for k in c.keywords) \
                    or len(c.args) > 0
    except Exception as e:  # noqa: BLE001
        notes.append(f"gen/validate_cache: workflow.py: {e!r}")
    if bump <= 0:
        notes.append("gen/validate_cache: add_step does not bump `cls._step_functions_version` by a positive constant")
    emit("classVersionInit", "String", _lean_strs([class_init])[1:-1], "initial value of the class attribute `Workflow._step_functions_version`")
    emit("metaFreshStepDict", "Bool", "true" if meta_fresh else "false", "`WorkflowMeta.__init__` gives every class its own empty `_step_functions`")
    emit("versionBump", "Nat", str(max(bump, 0)), "`cls._step_functions_version += <this>` in `add_step`")
    emit("versionBumpTarget", "String", _lean_strs([bump_target])[1:-1])
    emit("addStepStores", "List String", _lean_strs(stores), "`cls._step_functions[...] = ...` in `add_step`")
    emit("addStepDupGuard", "List String", _lean_strs(dup_guard), "the test under which `add_step` raises for a name that is already a step")
    emit("initValidationResult", "String", _lean_strs([init_result])[1:-1])
    emit("initValidatedVersion", "String", _lean_strs([init_version])[1:-1])
    emit("disabledGuard", "List String", _lean_strs(disabled_guard), "conjuncts of the first early return of `_validate`")
    emit("disabledReturns", "String", _lean_strs([disabled_returns])[1:-1])
    emit("staleExpr", "String", _lean_strs([stale_expr])[1:-1])
    emit("staleIsVersionMismatch", "Bool", "true" if stale_neq else "false",
         "`stale` is `self._validated_version != self.__class__._step_functions_version` (either order)")
    emit("cacheGuard", "List String", _lean_strs(cache_guard), "conjuncts of the second early return of `_validate` (the cache hit)")
    emit("cacheReturns", "String", _lean_strs([cache_returns])[1:-1])
    emit("assignedByValidate", "List String", _lean_strs(sorted(set(after))),
         "attributes of `self` assigned (unconditionally) by `_validate`, sorted (their relative order is immaterial)")
    emit("assignsOnlyAfterValidateWorkflow", "Bool", "true" if call_before_assign else "false",
         "every assignment to `self` follows the `_validate_workflow` call (a raised error leaves the instance untouched)")
    emit("validatedVersionValue", "String", _lean_strs([version_value])[1:-1])
    emit("validationResultValue", "String", _lean_strs([result_value])[1:-1])
    emit("validateForces", "Bool", "true" if validate_forces else "false", "`validate()` calls `_validate(force=True)`")
    emit("runCallsValidate", "Nat", str(run_calls), "number of `self._validate(...)` calls in `run()`")
    emit("runForces", "Bool", "true" if run_forces else "false", "`run()` passes a force argument to `_validate`")
    L += ["", "end Gen.C23c"]
    return L
