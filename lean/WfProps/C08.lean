import WfModel.Handlers
import WfProofs.RunnerRecovery
/-!
# C08 — exhausted failures route to the owning error handler within budget

* table construction (`Handlers.handlerFor`, tied to `_collect_catch_error_handlers`):
  scoped owner first, otherwise the wildcard, never for a handler step;
* routing in the reducer: an exhausted failure goes to the owning handler iff its recovery
  count on this lineage is still below `max_recoveries` (and then carries the count + 1),
  otherwise — or with no owner — the run fails with the **original** exception and a
  `WorkflowFailedEvent`;
* lineage budget (runner LTS, every schedule): no attempt, tick or timer anywhere ever
  carries a recovery count above a handler's budget; each entry into a handler raises that
  handler's count by exactly one; counts ride unchanged on retries and on step outputs.

Refuted on the unchanged tree: "the same whether or not graph validation is disabled" —
with `disable_validation=True` the tables are never built (known finding
C08/validation_disabled_no_handlers, replayed on the implementation).
-/
set_option linter.unusedVariables false
open Engine Handlers

/-! ## the table -/

theorem C08.mem_claims {hs : List Decl} {t h : Nat} (hm : (t, h) ∈ claims hs) :
    ∃ d ∈ hs, d.name = h ∧ ∃ l, d.forSteps = some l ∧ t ∈ l := by
  simp only [claims, List.mem_flatMap, List.mem_map, Prod.mk.injEq] at hm
  obtain ⟨d, hd, t', ht', rfl, rfl⟩ := hm
  refine ⟨d, hd, rfl, ?_⟩
  cases hf : d.forSteps with
  | none => simp [hf] at ht'
  | some l => exact ⟨l, rfl, by simpa [hf] using ht'⟩

/-- the owner is a declared handler -/
theorem C08_owner_is_handler (steps : List Nat) (hs : List Decl) (s h : Nat)
    (hh : handlerFor steps hs s = some h) : h ∈ names hs := by
  unfold handlerFor at hh
  split at hh
  · rename_i c hc
    injection hh with hh; subst hh
    have hm := List.mem_of_find?_eq_some hc
    rw [List.mem_reverse] at hm
    obtain ⟨d, hd, hn, _⟩ := C08.mem_claims (t := c.1) (h := c.2) hm
    exact List.mem_map.mpr ⟨d, hd, hn⟩
  · split at hh
    · rename_i w hw
      split at hh
      · injection hh with hh; subst hh
        have : w ∈ wildcards hs := List.mem_of_mem_head? hw
        exact List.mem_map.mpr ⟨w, (List.mem_filter.mp this).1, rfl⟩
      · cases hh
    · cases hh

/-- **never a handler for a handler step** -/
theorem C08_never_handler_of_handler (steps : List Nat) (hs : List Decl) (hv : valid steps hs = true)
    (s h : Nat) (hh : handlerFor steps hs s = some h) : s ∉ names hs := by
  simp only [valid, Bool.and_eq_true, List.all_eq_true, decide_eq_true_eq] at hv
  obtain ⟨⟨⟨_, hcl⟩, _⟩, _⟩ := hv
  unfold handlerFor at hh
  split at hh
  · rename_i c hc
    have hm := List.mem_of_find?_eq_some hc
    have hs1 : c.1 = s := by simpa using List.find?_some hc
    rw [List.mem_reverse] at hm
    have := (hcl c hm).2
    rw [hs1] at this
    simpa using this
  · split at hh
    · split at hh
      · rename_i hcond
        simp only [Bool.and_eq_true, Bool.not_eq_true'] at hcond
        simpa using hcond.2
      · cases hh
    · cases hh

/-- **scoped owner first**: a step listed by a handler is owned by that handler -/
theorem C08_scoped_owner (steps : List Nat) (hs : List Decl) (hv : valid steps hs = true)
    (s h : Nat) (hm : (s, h) ∈ claims hs) : handlerFor steps hs s = some h := by
  simp only [valid, Bool.and_eq_true, decide_eq_true_eq] at hv
  obtain ⟨⟨_, hnd⟩, _⟩ := hv
  unfold handlerFor
  have hex : ∃ c, (claims hs).reverse.find? (fun c => c.1 == s) = some c := by
    cases hf : (claims hs).reverse.find? (fun c => c.1 == s) with
    | some c => exact ⟨c, rfl⟩
    | none =>
      rw [List.find?_eq_none] at hf
      have := hf (s, h) (List.mem_reverse.mpr hm)
      simp at this
  obtain ⟨c, hc⟩ := hex
  rw [hc]
  have hcm : c ∈ claims hs := List.mem_reverse.mp (List.mem_of_find?_eq_some hc)
  have hc1 : c.1 = s := by simpa using List.find?_some hc
  -- targets are pairwise distinct, so the claim on `s` is unique
  have huniq : ∀ (l : List (Nat × Nat)), (l.map (·.1)).Nodup → ∀ a b, a ∈ l → b ∈ l → a.1 = b.1 → a = b := by
    intro l
    induction l with
    | nil => intro _ a b ha; cases ha
    | cons x xs ih =>
      intro hn a b ha hb hab
      simp only [List.map_cons, List.nodup_cons] at hn
      rcases List.mem_cons.mp ha with ha | ha <;> rcases List.mem_cons.mp hb with hb | hb
      · rw [ha, hb]
      · exfalso; apply hn.1; rw [← ha, hab]; exact List.mem_map_of_mem (f := (·.1)) hb
      · exfalso; apply hn.1; rw [← hb, ← hab]; exact List.mem_map_of_mem (f := (·.1)) ha
      · exact ih hn.2 a b ha hb hab
  have := huniq _ hnd c (s, h) hcm hm hc1
  rw [this]

/-- **otherwise the wildcard**: an unclaimed, non-handler step is owned by the wildcard handler -/
theorem C08_wildcard_otherwise (steps : List Nat) (hs : List Decl) (s : Nat) (w : Decl)
    (hw : (wildcards hs).head? = some w) (hs1 : s ∈ steps) (hs2 : s ∉ names hs)
    (hun : ∀ h, (s, h) ∉ claims hs) : handlerFor steps hs s = some w.name := by
  unfold handlerFor
  have hnone : (claims hs).reverse.find? (fun c => c.1 == s) = none := by
    rw [List.find?_eq_none]
    intro c hc
    have hc' := List.mem_reverse.mp hc
    intro heq
    have : c.1 = s := by simpa using heq
    exact hun c.2 (by rw [← this]; exact hc')
  rw [hnone, hw]
  simp [hs1, hs2]

/-! ## routing in the reducer -/

/-- **route**: exhausted, owned, budget left ⇒ exactly one `StepFailedEvent` addressed to the
owner, carrying the original exception, the attempt count, and the count raised by one; the
run stays alive -/
theorem C08_route (cfg : Cfg) (pol : Policy) (step : Nat) (tickEv : Ev) (dc : Bool) (acc : ResAcc)
    (exc : Nat) (failedAt : Int) (h m : Nat)
    (hstop : retryDecision cfg pol step (failedAt - acc.exec.firstAt) (acc.exec.attempts + 1) exc = .stop)
    (hown : handlerOwner cfg step = some (h, m)) (hbudget : acc.exec.rc.get h + 1 ≤ m) :
    (applyRes cfg pol step tickEv dc acc (.failed exc failedAt)).cmds = acc.cmds ++
      [.queueEvent { ev := { ty := tyStepFailed, kind := .plain, uid := 0, key := none,
                             fail := some { step := step, inputUid := tickEv.uid, exc := exc,
                                            attempts := acc.exec.attempts + 1,
                                            elapsed := failedAt - acc.exec.firstAt, failedAt := failedAt } },
                     rc := acc.exec.rc.set h (acc.exec.rc.get h + 1) } (some h) none] ∧
    (applyRes cfg pol step tickEv dc acc (.failed exc failedAt)).st = acc.st := by
  simp [applyRes, hstop, hown, hbudget]

/-- **fail**: exhausted and (no owner or budget spent) ⇒ `WorkflowFailedEvent` + failure with the
original exception; the run is marked not running -/
theorem C08_fail (cfg : Cfg) (pol : Policy) (step : Nat) (tickEv : Ev) (dc : Bool) (acc : ResAcc)
    (exc : Nat) (failedAt : Int)
    (hstop : retryDecision cfg pol step (failedAt - acc.exec.firstAt) (acc.exec.attempts + 1) exc = .stop)
    (hno : handlerOwner cfg step = none ∨ ∃ h m, handlerOwner cfg step = some (h, m) ∧ m < acc.exec.rc.get h + 1) :
    (applyRes cfg pol step tickEv dc acc (.failed exc failedAt)).cmds = acc.cmds ++
      [.publish (.failed step exc (acc.exec.attempts + 1) (failedAt - acc.exec.firstAt)), .failWorkflow step exc] ∧
    (applyRes cfg pol step tickEv dc acc (.failed exc failedAt)).st.isRunning = false := by
  rcases hno with hno | ⟨h, m, hown, hlt⟩
  · simp [applyRes, hstop, hno]
  · have : ¬ (acc.exec.rc.get h + 1 ≤ m) := by omega
    simp [applyRes, hstop, hown, this]

/-! ## the lineage budget -/

/-- **at most `max_recoveries` entries per lineage** (invariant form, every schedule): at every
point of every run, no attempt (queued or running), no buffered or mailbox tick and no timer
carries, for any handler, a recovery count above that handler's `max_recoveries`.  Together with
`C08_route` (each entry raises the count by exactly one, `RC.get_set_same`) and the fact that
counts are copied unchanged to retries and outputs, a lineage can enter a handler at most
`max_recoveries` times. -/
theorem C08_lineage_budget (cfg : Cfg) (pol : Policy) (r0 : Runner) (h0 : RunnerRc cfg r0) (acts : List Act)
    (hacts : ∀ a ∈ acts, Act.rcOk cfg a) : RunnerRc cfg (Runner.run cfg pol r0 acts) :=
  run_rc cfg pol acts r0 hacts h0

theorem C08_count_raised_by_one (rc : RC) (h : Nat) : (rc.set h (rc.get h + 1)).get h = rc.get h + 1 :=
  RC.get_set_same rc h _

theorem C08_other_counts_kept (rc : RC) (h h' : Nat) (hne : h' ≠ h) : (rc.set h (rc.get h + 1)).get h' = rc.get h' :=
  RC.get_set_other rc h h' _ hne

/-- a fresh run satisfies the invariant -/
theorem C08_init (cfg : Cfg) (now : Int) (start : Option Ev) (timeout : Option Nat) :
    RunnerRc cfg (Runner.init cfg initState now start timeout) := by
  unfold Runner.init
  dsimp only
  have hrw : ∀ c ∈ (rewind cfg initState now).2, cmdRcOk cfg c := by
    have hloop : ∀ (cs : List StepCfg) (st : State) (cmds : List Cmd), (∀ c ∈ cmds, cmdRcOk cfg c) →
        ∀ c ∈ (rewindLoop now cs st cmds).2, cmdRcOk cfg c := by
      intro cs
      induction cs with
      | nil => intro st cmds h; simpa [rewindLoop] using h
      | cons d ds ih =>
        intro st cmds h
        unfold rewindLoop
        apply ih
        intro c hc
        rcases List.mem_append.mp hc with hc | hc
        · exact h c hc
        · unfold rewindStep at hc; exact drain_cmds_rc cfg _ _ _ _ _ c hc
    unfold rewind; exact hloop _ _ _ (by simp)
  have hst : RcInv cfg (rewind cfg initState now).1 := by
    have hloop : ∀ (cs : List StepCfg) (st : State) (cmds : List Cmd), RcInv cfg st →
        RcInv cfg (rewindLoop now cs st cmds).1 := by
      intro cs
      induction cs with
      | nil => intro st cmds h; simpa [rewindLoop] using h
      | cons d ds ih =>
        intro st cmds h
        unfold rewindLoop
        apply ih
        apply RcInv.set h
        unfold rewindStep
        apply drain_rcSS
        refine ⟨?_, by simp⟩
        intro a ha
        simp only [List.mem_append, List.mem_reverse, List.mem_map] at ha
        rcases ha with ⟨ip, hip, rfl⟩ | ha
        · exact (h d.name).2 ip hip
        · exact (h d.name).1 a ha
    unfold rewind; exact hloop _ _ _ (rcInv_init cfg)
  apply execCmds_rc cfg _ _ hrw
  have hbuf : ∀ t ∈ rehydrateTicks cfg initState ++
      (match start with | some e => [Tick.addEvent { ev := e } none] | none => []), tickRcOk cfg t := by
    intro t ht
    rcases List.mem_append.mp ht with ht | ht
    · simp only [rehydrateTicks, List.mem_flatMap, List.mem_map] at ht
      obtain ⟨_, _, _, _, rfl⟩ := ht
      exact rcOk_nil cfg
    · cases start with
      | none => simp at ht
      | some e => simp only [List.mem_singleton] at ht; subst ht; exact rcOk_nil cfg
  cases timeout with
  | none => exact ⟨hst, hbuf, by intro t ht; simp at ht, by intro t ht; simp at ht⟩
  | some tmo =>
    refine ⟨hst, hbuf, by intro t ht; simp [Runner.push] at ht, ?_⟩
    intro t ht
    simp only [Runner.push, List.nil_append, List.mem_singleton] at ht
    subst ht; trivial

/-! Non-vacuity -/
def C08.exHs : List Decl := [⟨12, some [2, 4], 2⟩, ⟨13, none, 1⟩]
example : valid [0, 2, 4, 12, 13] C08.exHs = true := by decide
example : ([0, 2, 4, 12, 13].map (handlerFor [0, 2, 4, 12, 13] C08.exHs)) = [some 13, some 12, some 12, none, none] := by decide
